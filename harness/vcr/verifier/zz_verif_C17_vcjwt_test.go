//go:build verif

package verifier

// C17, consumer 5: credential and presentation JWTs. The token is parsed the way every caller does (go-did's
// vc.ParseVerifiableCredential / ParseVerifiablePresentation) and then handed to the signature verifier
// (signatureVerifier.VerifySignature / VerifyVPSignature -> jwtSignature -> crypto.ParseJWT). Key source: the resolved DID
// document of the issuer (credential) or of the DID named by kid (presentation), by protected kid.

import (
	"crypto"
	"encoding/base64"
	"errors"
	"strings"
	"testing"
	"time"

	ssi "github.com/nuts-foundation/go-did"
	"github.com/nuts-foundation/go-did/did"
	"github.com/nuts-foundation/go-did/vc"
	"github.com/nuts-foundation/nuts-node/vdr/didjwk"
	"github.com/nuts-foundation/nuts-node/vdr/resolver"
	"pgregory.net/rapid"
	"verif.local/h"
	"verif.local/h/jose"
)

type c17VCCase struct {
	Entry string       `json:"entry"` // vc | vp
	V     jose.Variant `json:"v"`
}

// c17DIDResolver is the honest fake of DID resolution: every DID has exactly its own document. The real
// resolver.DIDKeyResolver runs on top of it, so key ids are parsed and matched by the code the node uses.
type c17DIDResolver struct {
	docs map[string]*did.Document
}

func (r *c17DIDResolver) Resolve(id did.DID, md *resolver.ResolveMetadata) (*did.Document, *resolver.DocumentMetadata, error) {
	if id.Method == "jwk" {
		return didjwk.NewResolver().Resolve(id, md)
	}
	if d, ok := r.docs[id.String()]; ok {
		return d, &resolver.DocumentMetadata{}, nil
	}
	return nil, nil, resolver.ErrNotFound
}

// add registers key under kid in the document of the DID that kid parses to. It refuses to put a key into a document
// that already exists (the attacker never gets a key into the victim's document). Returns whether kid is resolvable.
func (r *c17DIDResolver) add(kid string, key crypto.PublicKey) bool { return r.addMeta(kid, key, nil) }

// addMeta is add with extra members (alg / use / key_ops / kid) in the verification method's publicKeyJwk: the DID document
// is written by the party that owns it, so whatever its JWK announces is attacker-controlled data too.
func (r *c17DIDResolver) addMeta(kid string, key crypto.PublicKey, meta map[string]string) bool {
	id, err := did.ParseDIDURL(kid)
	if err != nil || id.DID.Empty() {
		return false
	}
	if id.Method == "jwk" {
		return true // self-describing: resolved by the real did:jwk resolver
	}
	if _, exists := r.docs[id.DID.String()]; exists {
		return false
	}
	vm, err := did.NewVerificationMethod(*id, ssi.JsonWebKey2020, id.DID, key)
	if err != nil {
		return false
	}
	for k, v := range meta {
		if k == "key_ops" {
			vm.PublicKeyJwk[k] = []interface{}{v}
		} else {
			vm.PublicKeyJwk[k] = v
		}
	}
	doc := &did.Document{ID: id.DID}
	doc.AddAssertionMethod(vm)
	r.docs[id.DID.String()] = doc
	return true
}

// c17KeyResolver logs the key ids the consumer asks for and delegates to the real DIDKeyResolver.
type c17KeyResolver struct {
	inner resolver.KeyResolver
	asked []string
}

func (r *c17KeyResolver) ResolveKeyByID(keyID string, md *resolver.ResolveMetadata, rt resolver.RelationType) (crypto.PublicKey, error) {
	r.asked = append(r.asked, keyID)
	return r.inner.ResolveKeyByID(keyID, md, rt)
}

func (r *c17KeyResolver) ResolveKey(id did.DID, _ *time.Time, _ resolver.RelationType) (string, crypto.PublicKey, error) {
	r.asked = append(r.asked, "ResolveKey:"+id.String())
	return "", nil, errors.New("verif: ResolveKey is not part of signature verification")
}

// c17NewResolver builds the fixture: the victim's document, and the attacker's own document under the (possibly
// near-miss) identity its key id parses to.
func c17NewResolver(w jose.World, keys map[string]jose.Key) (kr *c17KeyResolver, attackerResolvable bool) {
	return c17NewResolverMeta(w, keys, nil)
}

// c17NewResolverMeta: meta goes into the publicKeyJwk of both parties' verification methods.
func c17NewResolverMeta(w jose.World, keys map[string]jose.Key, meta map[string]string) (kr *c17KeyResolver, attackerResolvable bool) {
	dr := &c17DIDResolver{docs: map[string]*did.Document{}}
	dr.addMeta(w.Kids[jose.Victim], keys[jose.Victim].Public(), meta)
	dr.addMeta(w.Kids[jose.Attacker], keys[jose.Attacker].Public(), meta)
	real := resolver.DIDKeyResolver{Resolver: dr}
	k, err := real.ResolveKeyByID(w.Kids[jose.Attacker], nil, resolver.NutsSigningKeyType)
	return &c17KeyResolver{inner: real}, err == nil && k != nil
}

const (
	c17VictimDID   = "did:web:example.com:iam:victim"
	c17AttackerDID = "did:web:example.com:iam:attacker"
)

func c17VCWorld(entry string, near string) jose.World {
	return c17VCWorldFor(entry, c17VictimDID, jose.NearKid(c17VictimDID, c17AttackerDID, "0", near), near)
}

func c17VCWorldFor(entry string, c17VictimDID string, attackerKid string, near string) jose.World {
	w := jose.World{
		KeyRef:  "kid",
		Allowed: jose.NodeAllowed,
		Kids:    map[string]string{jose.Victim: c17VictimDID + "#0", jose.Attacker: attackerKid, "unknown": "did:web:example.com:iam:nobody#0"},
		Header:  jose.Header{jose.Str("typ", "JWT")},
		Near:    near,
	}
	if entry == "vp" {
		// the signer of a presentation is whoever the kid names: not bound to the victim at this layer
		w.Payload = []byte(`{"iss":"` + c17VictimDID + `","sub":"` + c17VictimDID + `","nbf":1600000000,"exp":4102444800,"jti":"` + c17VictimDID + `#c17",` +
			`"vp":{"@context":["https://www.w3.org/2018/credentials/v1"],"type":["VerifiablePresentation"],"verifiableCredential":[]}}`)
	} else {
		w.IdentityBound = true
		w.Payload = []byte(`{"iss":"` + c17VictimDID + `","sub":"did:web:example.com:iam:subject","nbf":1600000000,"exp":4102444800,"jti":"` + c17VictimDID + `#c17",` +
			`"vc":{"@context":["https://www.w3.org/2018/credentials/v1"],"type":["VerifiableCredential","ExampleCredential"],"credentialSubject":{"id":"did:web:example.com:iam:subject","name":"x"}}}`)
	}
	return w
}

func c17VCGen(t *rapid.T) c17VCCase {
	return c17VCCase{Entry: rapid.SampledFrom([]string{"vc", "vc", "vp", "vc-didjwk", "vp-didjwk"}).Draw(t, "entry"), V: jose.Gen(t, jose.GenOpts{Near: true, JWKMeta: true})}
}

func c17VCRun(x *h.Ctx, c c17VCCase) {
	entry, didJWK := c.Entry, false
	if strings.HasSuffix(entry, "-didjwk") {
		entry, didJWK = strings.TrimSuffix(entry, "-didjwk"), true
	}
	if entry != "vp" {
		entry = "vc"
	}
	keys := jose.Keys(c.V)
	victimDID := c17VictimDID
	w := c17VCWorld(entry, c.V.Near)
	if didJWK {
		// both parties are did:jwk DIDs: the DID *is* the JWK, metadata members included, and is resolved by the real
		// did:jwk resolver. The metadata does not depend on the key ids, so a first build tells what it is.
		c.V.Near = ""
		pre := jose.Build(c17VCWorld(entry, ""), c.V)
		var members []jose.Member
		if len(pre.F.Sigs) == 1 {
			for _, name := range []string{"alg", "use"} {
				if val, ok := pre.F.Sigs[0].JWKExtra[name]; ok {
					members = append(members, jose.Str(name, val))
				}
			}
			if val, ok := pre.F.Sigs[0].JWKExtra["key_ops"]; ok {
				members = append(members, jose.RawM("key_ops", `["`+val+`"]`))
			}
		}
		victimDID = "did:jwk:" + base64.RawStdEncoding.EncodeToString(keys[jose.Victim].JWK(false, members...).JSON())
		attackerDID := "did:jwk:" + base64.RawStdEncoding.EncodeToString(keys[jose.Attacker].JWK(false, members...).JSON())
		w = c17VCWorldFor(entry, victimDID, attackerDID+"#0", "")
	}
	b := jose.Build(w, c.V)
	var meta map[string]string
	if len(b.F.Sigs) == 1 {
		meta = b.F.Sigs[0].JWKExtra // what the JsonWebKey2020 verification method announces about the key
	}
	res, attackerResolvable := c17NewResolverMeta(w, keys, meta)
	if didJWK {
		x.Class("did:jwk")
	}
	if c.V.Near != "" {
		x.Classf("near-fixture:%s:attacker-key-resolvable=%v", c.V.Near, attackerResolvable)
	}
	sv := signatureVerifier{keyResolver: res}
	var err error
	stage := "parse"
	if entry == "vp" {
		var vp *vc.VerifiablePresentation
		if vp, err = vc.ParseVerifiablePresentation(string(b.Token)); err == nil {
			stage = "verify"
			if vp.Format() != vc.JWTPresentationProofFormat {
				err = errors.New("verif: not parsed as JWT presentation (falls to the JSON-LD path, which has no proof to verify)")
			} else {
				err = sv.VerifyVPSignature(*vp, nil)
			}
		}
	} else {
		var cred *vc.VerifiableCredential
		if cred, err = vc.ParseVerifiableCredential(string(b.Token)); err == nil {
			stage = "verify"
			if cred.Format() != vc.JWTCredentialProofFormat {
				err = errors.New("verif: not parsed as JWT credential (falls to the JSON-LD path, which has no proof to verify)")
			} else {
				err = sv.VerifySignature(*cred, nil)
			}
		}
	}
	obs := jose.Observation{Accepted: err == nil, KidsAsked: res.asked}
	// VC data model v1 compatibility: without kid the issuer is used as key id
	obs.AlsoOK = []string{victimDID, victimDID + "#0"}
	if err != nil {
		obs.Err = err.Error()
		x.Class("rejected-at:" + stage)
	}
	fs, classes, nt := jose.Judge(entry+"jwt", w, c.V, b, obs)
	for _, f := range fs {
		x.Violate(f.Sig, "%s", f.Msg)
	}
	x.Class("entry:" + entry)
	for _, cl := range classes {
		x.Class(cl)
	}
	if nt {
		x.NonTrivial()
	}
}

func TestVerif_C17_VCJWT(t *testing.T) {
	h.Check(t, "C17", c17VCGen, c17VCRun, h.PanicIsViolation())
}
func TestVerifReplay_C17_VCJWT(t *testing.T) {
	h.Replay(t, "C17", "TestVerif_C17_VCJWT", c17VCRun, h.PanicIsViolation())
}
