//go:build verif

package verifier

// C19 target: StatusList2021 verification against an EXTERNAL status list server, as a history.
// (Placed in vcr/verifier rather than vcr/revocation: the real entry point is Verifier.Verify, whose VerifySignature is what
// revocation.StatusList2021 uses for downloaded lists, and an in-package test of vcr/revocation cannot import the verifier.)
// A case is 1–5 verifications of a credential whose credentialStatus names the external list; before each verification the
// clock is advanced (0, 14 min, 16 min, days: realised by ageing the stored record, which is what time passing means to
// statusList()) and the server's answer for that verification is chosen: a valid signed list (with or without
// expirationDate, credential revoked or not), a structure-aware mutation of one, a truncated body, hostile encodedList
// values (empty, huge, bad base64, not gzip), other content, non-2xx, or a transport error.
// Oracle: no panic through a nuts-node frame, no hang; after a verification the stored record is either what it was before
// (modulo the clock shift the harness applied) — a rejected refresh leaves it unchanged — or a record of the document that was
// just served with a 2xx status: same JSON value (not necessarily the same bytes), verifying, expiry column as in the document.

import (
	"bytes"
	"compress/gzip"
	"encoding/base64"
	"encoding/json"
	"fmt"
	"reflect"
	"strings"
	"testing"
	"time"

	"github.com/nuts-foundation/go-did/vc"
	"github.com/nuts-foundation/nuts-node/vcr/revocation"
	"github.com/nuts-foundation/nuts-node/vcr/signature/proof"
	"pgregory.net/rapid"
	"verif.local/h"
	"verif.local/h/c19x"
	"verif.local/h/jsonmut"
)

type c19SLStep struct {
	Advance string     `json:"advance"` // 0 | 14m | 16m | 3d | 400d
	Answer  string     `json:"answer"`  // valid | valid-noexp | revoked | revoked-noexp | mutated | mutated-noexp | truncated | enc-empty | enc-huge | enc-badb64 | enc-notgzip | enc-short | other-json | html | empty | 404 | 500 | 302 | transport
	Plan    *c19x.Plan `json:"plan,omitempty"`
	Cut     uint32     `json:"cut"`
}

type c19SLCase struct {
	Steps []c19SLStep `json:"steps"`
}

var c19SLAnswers = []string{"valid", "valid", "valid-noexp", "valid-noexp", "valid-noexp", "revoked", "revoked-noexp", "mutated", "mutated", "mutated-noexp", "mutated-noexp", "truncated", "truncated",
	"enc-empty", "enc-huge", "enc-badb64", "enc-notgzip", "enc-short", "other-json", "html", "empty", "404", "500", "302", "transport", "transport"}

func c19SLGen(t *rapid.T) c19SLCase {
	n := rapid.IntRange(1, 5).Draw(t, "n")
	var c c19SLCase
	for i := 0; i < n; i++ {
		l := fmt.Sprintf("s%d", i)
		s := c19SLStep{
			Advance: rapid.SampledFrom([]string{"0", "0", "14m", "16m", "16m", "16m", "3d", "400d"}).Draw(t, l+".advance"),
			Answer:  rapid.SampledFrom(c19SLAnswers).Draw(t, l+".answer"),
			Cut:     rapid.Uint32().Draw(t, l+".cut"),
		}
		if strings.HasPrefix(s.Answer, "mutated") {
			p := c19x.GenPlan(t, []string{"@context", "id", "type", "issuer", "issuanceDate", "expirationDate", "validFrom", "validUntil", "credentialSubject", "encodedList", "statusPurpose", "proof", "credentialStatus",
				"verificationMethod", "created", "jws", "proofPurpose"})
			s.Plan = &p
		}
		c.Steps = append(c.Steps, s)
	}
	return c
}

func c19SLEncoded(bits []byte) string {
	var buf bytes.Buffer
	gz := gzip.NewWriter(&buf)
	_, _ = gz.Write(bits)
	_ = gz.Close()
	return base64.RawURLEncoding.EncodeToString(buf.Bytes())
}

// c19SLList signs a list document derived from the template.
func c19SLList(e *c19Env, encodedList string, withExpiry bool) []byte {
	doc := c19Obj(jsonmut.Encode(e.statusRevokedTemplate))
	doc["credentialSubject"].(map[string]any)["encodedList"] = encodedList
	if !withExpiry {
		delete(doc, "expirationDate")
	}
	return e.signLD(doc, c19IssuerKid, proof.ProofOptions{Created: c19Created})
}

type c19SLRow struct {
	SubjectID     string
	StatusPurpose string
	Bitstring     string
	CreatedAt     int64
	Expires       *int64
	Raw           string
}

func c19SLLoad(x *h.Ctx, e *c19Env) *c19SLRow {
	var rows []c19SLRow
	x.NoErr(e.db.Raw("SELECT subject_id, status_purpose, bitstring, created_at, expires, raw FROM status_list_credential WHERE subject_id = ?", c19ListURL).Scan(&rows).Error, "read status list record")
	if len(rows) == 0 {
		return nil
	}
	return &rows[0]
}

func (r *c19SLRow) String() string {
	if r == nil {
		return "<none>"
	}
	exp := "nil"
	if r.Expires != nil {
		exp = fmt.Sprint(*r.Expires)
	}
	return fmt.Sprintf("purpose=%s created=%d expires=%s bits=%d raw=%dB:%x", r.StatusPurpose, r.CreatedAt, exp, len(r.Bitstring), len(r.Raw), h64(r.Raw))
}

func h64(s string) uint64 {
	var v uint64 = 1469598103934665603
	for i := 0; i < len(s); i++ {
		v = (v ^ uint64(s[i])) * 1099511628211
	}
	return v
}

func c19SLRun(x *h.Ctx, c c19SLCase) {
	if len(c.Steps) > 8 {
		return
	}
	var e *c19Env
	var cred vc.VerifiableCredential
	httpStub := &c19StatusHTTP{}
	var v Verifier
	c19x.Setup(x, "status list fixture", func() {
		e = c19GetEnv(x)
		x.NoErr(e.db.Exec("DELETE FROM status_list_credential").Error, "wipe status list cache")
		v = NewVerifier(&c19Store{}, c19DIDs{}, c19Keys{}, e.ld, e.trust, revocation.NewStatusList2021(e.db, httpStub, "https://node.example.com"))
		parsed, err := vc.ParseVerifiableCredential(string(e.vcLD[2]))
		x.NoErr(err, "parse credential with credentialStatus")
		cred = *parsed
	})
	zero := make([]byte, 16*1024)
	revokedBits := make([]byte, 16*1024)
	revokedBits[0] = 1 << (7 - 5) // index 5
	for i, s := range c.Steps {
		// the server's answer
		var body []byte
		status := 200
		c19x.Setup(x, "answer", func() {
			switch s.Answer {
			case "valid":
				body = e.status
			case "valid-noexp":
				body = e.statusNoExp
			case "revoked":
				body = c19SLList(e, c19SLEncoded(revokedBits), true)
			case "revoked-noexp":
				body = c19SLList(e, c19SLEncoded(revokedBits), false)
			case "mutated", "mutated-noexp":
				seed := e.status
				if s.Answer == "mutated-noexp" {
					seed = e.statusNoExp
				}
				if s.Plan != nil {
					var ap c19x.Applied
					body, ap = s.Plan.Apply(seed)
					if ap.Oversize {
						body = seed[:len(seed)/2]
					}
					for _, cl := range ap.Classes() {
						x.Class(cl)
					}
				} else {
					body = seed
				}
			case "truncated":
				body = e.statusNoExp[:int(s.Cut)%len(e.statusNoExp)]
			case "enc-empty":
				body = c19SLList(e, "", false)
			case "enc-huge":
				body = c19SLList(e, c19SLEncoded(make([]byte, 8<<20)), false) // 8 MiB of zeros: a few KB compressed
			case "enc-bomb64", "enc-bomb256":
				// not generated (the statement is about panics and non-termination, not memory): for measuring by hand what a
				// small list that expands to 64 / 256 MiB costs; expand() has no limit on the decompressed size
				n := 64 << 20
				if s.Answer == "enc-bomb256" {
					n = 256 << 20
				}
				body = c19SLList(e, c19SLEncoded(make([]byte, n)), false)
			case "enc-badb64":
				body = c19SLList(e, "!!!not base64!!!", false)
			case "enc-notgzip":
				body = c19SLList(e, base64.RawURLEncoding.EncodeToString([]byte("this is not gzip data at all")), false)
			case "enc-short":
				body = c19SLList(e, c19SLEncoded([]byte{0}), true) // index 5 is inside, 9 would not be
			case "other-json":
				body = e.vcLD[0]
			case "html":
				body = []byte("<html><body>503</body></html>")
			case "empty":
				body = nil
			case "404", "500", "302":
				fmt.Sscan(s.Answer, &status)
				body = []byte(`{"title":"x"}`)
			case "transport":
				status = 0
			}
			_ = zero
		})
		if len(body) > c19x.MaxInput {
			x.Class("skipped:oversize")
			continue
		}
		httpStub.status, httpStub.body, httpStub.calls = status, body, 0

		// the clock: time passing = the stored record (and its expiry) moving into the past
		var delta int64
		switch s.Advance {
		case "14m":
			delta = 14 * 60
		case "16m":
			delta = 16 * 60
		case "3d":
			delta = 3 * 24 * 3600
		case "400d":
			delta = 400 * 24 * 3600
		}
		if delta > 0 {
			x.NoErr(e.db.Exec("UPDATE status_list_credential SET created_at = created_at - ?, expires = expires - ? WHERE subject_id = ?", delta, delta, c19ListURL).Error, "advance clock")
		}
		before := c19SLLoad(x, e)
		var err error
		if !c19x.Guard(x, func() { err = v.Verify(cred, true, false, &c19ValidAt) }) {
			return
		}
		after := c19SLLoad(x, e)
		x.NonTrivial()
		outcome := "ok"
		if err != nil {
			outcome = "rejected"
			if strings.Contains(err.Error(), "revoked") {
				outcome = "revoked"
			}
		}
		state := "no-record"
		if before != nil {
			state = "fresh-record"
			if time.Unix(before.CreatedAt, 0).Add(15 * time.Minute).Before(time.Now()) {
				state = "stale-record"
			}
			if before.Expires == nil {
				state += "(no-expiry)"
			}
		}
		refreshed := httpStub.calls > 0
		x.Classf("verify:%s|%s|download=%v|answer=%s", outcome, state, refreshed, s.Answer)
		if refreshed {
			x.Classf("refresh:%s:%s", state, map[bool]string{true: "stored", false: "not-stored"}[after != nil && (before == nil || after.Raw != before.Raw || after.CreatedAt != before.CreatedAt)])
		}
		// The record is what it was (a refused refresh, or no refresh at all), or it is a record of the document the server
		// just served: a 2xx answer whose JSON value is the stored one (representation aside: the node stores the decoded
		// value's own bytes, so surrounding whitespace differs), which verifies, with the expiry column saying what the
		// document says.
		switch {
		case after == nil && before == nil:
		case after == nil:
			x.Violate("statuslist-record-lost", "step %d: the stored status list record disappeared (answer %s)", i, s.Answer)
			return
		case before != nil && after.String() == before.String():
		default:
			if why := c19SLAcceptable(v, after, status, body); why != "" {
				x.Violate("statuslist-record-changed-to-something-not-served-or-not-valid", "step %d (answer %s, download=%v): the record changed, but %s\n before %s\n after  %s", i, s.Answer, refreshed, why, before, after)
				return
			}
			x.Class("refresh:accepted-document-is-the-served-one-and-verifies")
		}
	}
}

// c19SLAcceptable says why the new record cannot be the result of accepting the served answer ("" = it can).
func c19SLAcceptable(v Verifier, rec *c19SLRow, status int, body []byte) string {
	if status < 200 || status > 299 {
		return fmt.Sprintf("the answer was HTTP %d", status)
	}
	dec := func(b []byte) (any, error) {
		d := json.NewDecoder(bytes.NewReader(b))
		d.UseNumber()
		var out any
		if err := d.Decode(&out); err != nil {
			return nil, err
		}
		if d.More() {
			return nil, fmt.Errorf("trailing data")
		}
		return out, nil
	}
	served, err := dec(body)
	if err != nil {
		return fmt.Sprintf("the served body is not one JSON value (%v)", err)
	}
	stored, err := dec([]byte(rec.Raw))
	if err != nil {
		return fmt.Sprintf("the stored raw document is not JSON (%v)", err)
	}
	if !reflect.DeepEqual(served, stored) {
		return "the stored document is not the served JSON value"
	}
	cred, err := vc.ParseVerifiableCredential(rec.Raw)
	if err != nil {
		return fmt.Sprintf("the stored document does not parse as a credential (%v)", err)
	}
	if err := v.VerifySignature(*cred, nil); err != nil {
		return fmt.Sprintf("the stored document does not verify (%v)", err)
	}
	// The expiry column: only judged where the document is unambiguous about it. Member names are matched the way the
	// node's decoder (encoding/json) matches them, ignoring case: "EXPIRATIONDATE" is honoured as expirationDate (and the
	// proof still verifies, because it is checked over the re-marshalled credential).
	if m, ok := stored.(map[string]any); ok {
		var exps []any
		ambiguous := false
		for k, val := range m {
			switch strings.ToLower(k) {
			case "expirationdate":
				exps = append(exps, val)
			case "validuntil", "validfrom":
				ambiguous = true
			}
		}
		switch {
		case ambiguous || len(exps) > 1:
		case len(exps) == 0 && rec.Expires != nil:
			return fmt.Sprintf("the document has no expirationDate but the record expires at %d", *rec.Expires)
		case len(exps) == 1:
			if str, ok := exps[0].(string); ok {
				if ts, err := time.Parse(time.RFC3339, str); err == nil && !ts.IsZero() && (rec.Expires == nil || *rec.Expires != ts.Unix()) {
					return fmt.Sprintf("the document expires at %d but the record says %v", ts.Unix(), rec)
				}
			}
		}
	}
	return ""
}

func TestVerif_C19_StatusListVerify(t *testing.T) {
	h.Check(t, "C19", c19SLGen, c19SLRun, h.PanicIsViolation(), h.Deadline(10*time.Second))
}

func TestVerifReplay_C19_StatusListVerify(t *testing.T) {
	h.Replay(t, "C19", "TestVerif_C19_StatusListVerify", c19SLRun, h.PanicIsViolation(), h.Deadline(10*time.Second))
}
