//go:build verif

package verifier

import "time"

// VerifMaxSkew exposes the clock skew the verifier tolerates when it checks validity periods (the unexported maxSkew), so
// that the /verif harnesses that replace the verifier by a time-faithful mock (C05) follow a change of it. Adds an export only.
func VerifMaxSkew() time.Duration { return maxSkew }
