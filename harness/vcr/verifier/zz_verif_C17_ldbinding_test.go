//go:build verif

package verifier

// C17, consumer 5b: JSON-LD credentials through signatureVerifier.VerifySignature -> jsonldProof. The proof is a REAL
// JsonWebSignature2020 proof made with the node's own LDProof.Sign, by the victim (the issuer) or by the attacker, and its
// verificationMethod names the victim's key or the attacker's own, resolvable key, whose DID is unrelated to or a NEAR MISS
// of the issuer's (prefix / suffix / case / percent-encoding / fragment games). Only the binding of verificationMethod to
// the issuer stands between an attacker-signed credential and acceptance. DID resolution is the honest fake of the JWT
// adapter under the real DIDKeyResolver.

import (
	"context"
	"crypto"
	"encoding/json"
	"sync"
	"testing"
	"time"

	"github.com/nuts-foundation/go-did/vc"
	"github.com/nuts-foundation/nuts-node/audit"
	nutsCrypto "github.com/nuts-foundation/nuts-node/crypto"
	"github.com/nuts-foundation/nuts-node/jsonld"
	"github.com/nuts-foundation/nuts-node/vcr/signature"
	"github.com/nuts-foundation/nuts-node/vcr/signature/proof"
	"go.uber.org/mock/gomock"
	"pgregory.net/rapid"
	"verif.local/h"
	"verif.local/h/jose"
)

type c17LDBCase struct {
	Signer string `json:"signer"` // victim | attacker : whose key makes the proof
	VM     string `json:"vm"`     // victim | attacker : whose key id the proof's verificationMethod names
	Near   string `json:"near"`   // near-miss kind of the attacker's identity ("" = unrelated DID)
	VKey   string `json:"vkey"`
	AKey   string `json:"akey"`
}

func c17LDBGen(t *rapid.T) c17LDBCase {
	c := c17LDBCase{
		Signer: rapid.SampledFrom([]string{jose.Victim, jose.Attacker, jose.Attacker, jose.Attacker}).Draw(t, "signer"),
		VM:     rapid.SampledFrom([]string{jose.Victim, jose.Attacker, jose.Attacker}).Draw(t, "vm"),
		Near:   rapid.SampledFrom(append([]string{"", ""}, jose.NearKinds...)).Draw(t, "near"),
		VKey:   rapid.SampledFrom(jose.AllKeyTypes).Draw(t, "vkey"),
		AKey:   rapid.SampledFrom(jose.AllKeyTypes).Draw(t, "akey"),
	}
	return c
}

var (
	c17LDBOnce sync.Once
	c17LDBJSON jsonld.JSONLD
)

func c17LDBRun(x *h.Ctx, c c17LDBCase) {
	c17LDBOnce.Do(func() { c17LDBJSON = jsonld.NewTestJSONLDManager(x.TB) })
	if c.Signer != jose.Victim {
		c.Signer = jose.Attacker
	}
	if c.VM != jose.Victim {
		c.VM = jose.Attacker
	}
	keys := jose.Keys(jose.Variant{VKey: c.VKey, AKey: c.AKey})
	w := jose.World{Kids: map[string]string{jose.Victim: c17VictimDID + "#0", jose.Attacker: jose.NearKid(c17VictimDID, c17AttackerDID, "0", c.Near)}}
	res, attackerResolvable := c17NewResolver(w, keys)
	if c.Near != "" {
		x.Classf("near-fixture:%s:attacker-key-resolvable=%v", c.Near, attackerResolvable)
	}

	issuer := `"` + c17VictimDID + `"` // go-did only models the issuer as a URI string
	var doc proof.Document
	x.NoErr(json.Unmarshal([]byte(`{
		"@context": ["https://www.w3.org/2018/credentials/v1", "https://www.w3.org/2018/credentials/examples/v1"],
		"id": "`+c17VictimDID+`#c17",
		"type": ["VerifiableCredential", "UniversityDegreeCredential"],
		"issuer": `+issuer+`,
		"issuanceDate": "2020-03-10T04:24:12Z",
		"credentialSubject": {"id": "did:example:456", "degree": {"type": "BachelorDegree", "name": "Bachelor of Science and Arts"}}
	}`), &doc), "document")

	// sign with the node's own LD proof code; the signer fake only supplies the private key of the chosen role
	ctrl := gomock.NewController(x.TB)
	signer := nutsCrypto.NewMockJWTSigner(ctrl)
	signer.EXPECT().SignJWS(gomock.Any(), gomock.Any(), gomock.Any(), gomock.Any(), gomock.Any()).AnyTimes().DoAndReturn(
		func(_ context.Context, payload []byte, headers map[string]interface{}, kid string, detached bool) (string, error) {
			headers["kid"] = kid
			return nutsCrypto.SignJWS(audit.TestContext(), payload, headers, keys[c.Signer].Priv.(crypto.Signer), detached)
		})
	vmKid := w.Kids[c.VM]
	signed, err := proof.NewLDProof(proof.ProofOptions{Created: time.Now().Add(-time.Hour)}).Sign(context.Background(), doc,
		signature.JSONWebSignature2020{ContextLoader: c17LDBJSON.DocumentLoader(), Signer: signer}, vmKid)
	if err != nil {
		// e.g. a key id that is not a URI at all: nothing to present
		x.Class("unsignable")
		return
	}
	raw, err := json.Marshal(signed)
	x.NoErr(err, "marshal signed credential")
	cred, err := vc.ParseVerifiableCredential(string(raw))
	if err != nil {
		x.Class("rejected-at:parse")
	} else {
		if cred.Format() != vc.JSONLDCredentialProofFormat {
			x.Fatalf("expected a JSON-LD credential")
		}
		sv := signatureVerifier{keyResolver: res, jsonldManager: c17LDBJSON}
		err = sv.VerifySignature(*cred, nil)
	}
	accepted := err == nil
	honest := c.Signer == jose.Victim && c.VM == jose.Victim
	x.NonTrivial()
	x.Classf("signer=%s vm=%s accepted=%v", c.Signer, c.VM, accepted)
	if c.Near != "" && c.VM == jose.Attacker {
		x.Classf("near:%s:vm-attacker:accepted=%v", c.Near, accepted)
	}
	switch {
	case honest && !accepted:
		x.Violate("C17:ldvc:valid-credential-rejected", "credential signed by the issuer's own key (%s) was rejected: %v", c.VKey, err)
	case !honest && accepted:
		reason := "wrong-key"
		if c.Signer == jose.Attacker && c.VM == jose.Attacker {
			reason = "other-party"
			if c.Near != "" {
				reason += "-near-" + c.Near
			}
		}
		x.Violate("C17:ldvc:accepted:"+reason, "credential issued by %s accepted with a proof by the %s's key and verificationMethod %q (keys asked: %q)",
			c17VictimDID, c.Signer, vmKid, res.asked)
	}
	if accepted {
		for _, asked := range res.asked {
			if asked != vmKid {
				x.Violate("C17:ldvc:key-source:not-the-verification-method", "accepted after asking the key source for %q; verificationMethod is %q", asked, vmKid)
			}
		}
	}
}

func TestVerif_C17_LDBinding(t *testing.T) {
	h.Check(t, "C17", c17LDBGen, c17LDBRun, h.PanicIsViolation())
}
func TestVerifReplay_C17_LDBinding(t *testing.T) {
	h.Replay(t, "C17", "TestVerif_C17_LDBinding", c17LDBRun, h.PanicIsViolation())
}
