//go:build verif

package verifier_test

// C01-c: presentation rules (component level): real wallet (holder.NewSQLWallet.BuildPresentation) + real verifier.
//
// Roles: S and O are DIDs with a working key, F is a DID whose document publishes a key that does not match what signs
// "as F" (forged signer), I is a third-party issuer. A case chooses who presents (signs) the VP, its envelope format,
// the holder member, and 0..3 credentials, each with: format, subject(s) (presenter / the other party / none / mixed /
// twice the presenter), issuer (I with a valid proof / F = invalid proof / self-issued with proof / no proof at all with
// issuer = S or O). VerifyVP(vp, verifyVCs=true, allowUntrusted=true, nil) must accept exactly when doVerifyVP's
// documented rules hold:
//   - the presentation's signature verifies against the presenter's DID document,
//   - if it carries credentials: every credential names exactly the presenter as subject, and holder (if present) is the presenter,
//   - every credential verifies on its own, where a credential WITHOUT proof is acceptable only as a self-attested one
//     (holder present and equal to the credential's issuer).
// A presentation without credentials and with a foreign holder is outside the statement (counted, no expectation).
// Optionally a member that no context defines is added afterwards to a self-attested credential inside a JSON-LD
// presentation (protected by nothing but the presentation's proof): must be rejected.

import (
	"encoding/base64"
	"encoding/json"
	"fmt"
	"strings"
	"testing"
	"time"

	"github.com/nuts-foundation/go-did/did"
	"github.com/nuts-foundation/go-did/vc"
	"github.com/nuts-foundation/nuts-node/audit"
	"github.com/nuts-foundation/nuts-node/vcr/credential"
	"github.com/nuts-foundation/nuts-node/vcr/holder"
	"github.com/nuts-foundation/nuts-node/vcr/signature/proof"
	"pgregory.net/rapid"
	"verif.local/h"
)

type c01cCred struct {
	Format  string `json:"fmt"`     // ldp_vc | jwt_vc
	Subject string `json:"subject"` // presenter | other | none | mixed | double
	Issuer  string `json:"issuer"`  // I | F | I-by-other | I-by-near | self | noproof-S | noproof-O
}

type c01cCase struct {
	VPFormat  string     `json:"vpfmt"`     // ldp_vp | jwt_vp
	Presenter string     `json:"presenter"` // S | O | F
	Holder    string     `json:"holder"`    // "" | S | O
	Creds     []c01cCred `json:"creds"`
	Tamper    string     `json:"tamper,omitempty"` // undefined: add a member no context defines to the first proof-less credential (JSON-LD presentations) | forge-jwt: change a claim of the first JWT credential, signature kept
	Domain    bool       `json:"domain,omitempty"`
	// near-miss identities: Near = how the foreign DID is derived (path | host-suffix | suffix | prefix | case); it signs the
	// credentials whose issuer is "I-by-near" (naming I as issuer) and, with SignerNear, the presentation itself (whose
	// credentials and holder name the presenter)
	Near       string `json:"near,omitempty"`
	SignerNear bool   `json:"signerNear,omitempty"`
	// Revoked = k > 0: credential k-1 has a revocation in the node's revocation store (by credential id) when the
	// presentation is verified. StoreFault (c01RevStoreFaults; "" = healthy): after the verification over the healthy
	// store the by-id look-up starts failing and the presentation is verified once more.
	Revoked    int    `json:"revoked,omitempty"`
	StoreFault string `json:"storeFault,omitempty"`
}

func c01cGen(t *rapid.T) c01cCase {
	c := c01cGenShape(t)
	if len(c.Creds) > 0 && rapid.IntRange(0, 3).Draw(t, "revoke") == 0 {
		c.Revoked = 1 + rapid.IntRange(0, len(c.Creds)-1).Draw(t, "revoked")
	}
	if rapid.IntRange(0, 3).Draw(t, "storeFault") == 0 {
		c.StoreFault = rapid.SampledFrom(c01RevStoreFaults).Draw(t, "storeFaultKind")
		if len(c.Creds) > 0 && rapid.Bool().Draw(t, "storeFaultRevoked") {
			c.Revoked = 1 + rapid.IntRange(0, len(c.Creds)-1).Draw(t, "revokedUnderFault")
		}
	}
	return c
}

func c01cGenShape(t *rapid.T) c01cCase {
	// a third of the cases is steered towards the self-attested corner (presenter = holder, proof-less or self-issued
	// credentials, mostly JSON-LD envelope, mostly tampered with after signing)
	mode := rapid.IntRange(0, 5).Draw(t, "corner")
	corner := mode <= 1
	// a sixth is steered towards near-miss identities: everything in order, except that the presentation or one credential
	// is signed by a resolvable DID whose name merely resembles the holder's / issuer's
	nearCorner := mode == 2
	c := c01cCase{
		VPFormat: rapid.SampledFrom([]string{"ldp_vp", "jwt_vp"}).Draw(t, "vpfmt"),
		Domain:   rapid.Bool().Draw(t, "domain"),
		Near:     rapid.SampledFrom(c01NearMissVariants).Draw(t, "near"),
	}
	n := rapid.SampledFrom([]int{0, 1, 1, 1, 2, 2, 3}).Draw(t, "n")
	if nearCorner {
		c.Presenter = rapid.SampledFrom([]string{"S", "S", "O"}).Draw(t, "presenter")
		c.Holder = rapid.SampledFrom([]string{"", c.Presenter}).Draw(t, "holder")
		c.SignerNear = rapid.IntRange(0, 2).Draw(t, "signerNear") == 0
		if n == 0 {
			n = 1
		}
		for i := 0; i < n; i++ {
			cc := c01cCred{Format: rapid.SampledFrom([]string{"ldp_vc", "jwt_vc"}).Draw(t, fmt.Sprintf("c%d.fmt", i)), Subject: "presenter", Issuer: "I"}
			if !c.SignerNear && (i == 0 || rapid.Bool().Draw(t, fmt.Sprintf("c%d.near", i))) {
				cc.Issuer = "I-by-near"
			}
			c.Creds = append(c.Creds, cc)
		}
		return c
	}
	if corner {
		c.VPFormat = rapid.SampledFrom([]string{"ldp_vp", "ldp_vp", "jwt_vp"}).Draw(t, "cornerfmt")
		c.Presenter = rapid.SampledFrom([]string{"S", "S", "S", "S", "S", "O"}).Draw(t, "presenter")
		c.Holder = rapid.SampledFrom([]string{"S", "S", "S", "S", "O", ""}).Draw(t, "holder")
		c.Tamper = rapid.SampledFrom([]string{"", "undefined", "undefined", "forge-jwt", "forge-jwt"}).Draw(t, "tamper")
		if n == 0 {
			n = 1
		}
	} else {
		c.Presenter = rapid.SampledFrom([]string{"S", "S", "S", "S", "O", "F"}).Draw(t, "presenter")
		c.Holder = rapid.SampledFrom([]string{"", "S", "S", "O"}).Draw(t, "holder")
		c.Tamper = rapid.SampledFrom([]string{"", "", "", "", "undefined", "forge-jwt"}).Draw(t, "tamper")
		c.SignerNear = c.Presenter != "F" && rapid.IntRange(0, 9).Draw(t, "signerNear") == 0
	}
	for i := 0; i < n; i++ {
		cc := c01cCred{Format: rapid.SampledFrom([]string{"ldp_vc", "jwt_vc"}).Draw(t, fmt.Sprintf("c%d.fmt", i))}
		if corner {
			cc.Subject = rapid.SampledFrom([]string{"presenter", "presenter", "presenter", "presenter", "presenter", "presenter", "double", "other"}).Draw(t, fmt.Sprintf("c%d.subject", i))
			cc.Issuer = rapid.SampledFrom([]string{"noproof-S", "noproof-S", "noproof-S", "self", "self", "I", "noproof-O"}).Draw(t, fmt.Sprintf("c%d.issuer", i))
		} else {
			cc.Subject = rapid.SampledFrom([]string{"presenter", "presenter", "presenter", "presenter", "presenter", "other", "none", "mixed", "double"}).Draw(t, fmt.Sprintf("c%d.subject", i))
			cc.Issuer = rapid.SampledFrom([]string{"I", "I", "I", "I", "self", "F", "I-by-other", "I-by-near", "noproof-S", "noproof-S", "noproof-O"}).Draw(t, fmt.Sprintf("c%d.issuer", i))
		}
		c.Creds = append(c.Creds, cc)
	}
	return c
}

func c01cRun(x *h.Ctx, c c01cCase) {
	if len(c.Creds) > 4 {
		return
	}
	f := c01F
	mk := func(forged bool) *c01DID {
		d := f.newDID(x)
		if forged {
			d.newForgedKey(x)
		} else {
			d.newKey(x)
		}
		d.publish(x, c01T0, []int{0}, false)
		return d
	}
	S, O, F, I := mk(false), mk(false), mk(true), mk(false)
	byName := map[string]*c01DID{"S": S, "O": O, "F": F, "I": I}
	presenter := byName[c.Presenter]
	if presenter == nil {
		return
	}
	other := O
	if presenter == O {
		other = S
	}
	var faultStore *c01FaultStore
	for _, k := range c01RevStoreFaults {
		if k == c.StoreFault {
			faultStore = f.newFaultStore(x, k)
		}
	}
	revStore := f.revStore
	if faultStore != nil {
		revStore = faultStore
	}
	v, _ := f.newVerifierOn(x, revStore)
	wallet := f.newWallet(v)
	nearVariant := "path"
	for _, nv := range c01NearMissVariants {
		if nv == c.Near {
			nearVariant = nv
		}
	}
	var nearI *c01DID // the near miss of the issuer I, created on demand
	signerNear := c.SignerNear && presenter != F

	issued := c01T0.Add(10 * time.Second)
	var creds []vc.VerifiableCredential
	allOK := true
	subjectsOK := true
	why := ""
	fail := func(w string) {
		if why == "" {
			why = w
		}
	}
	firstNoProof := -1
	for i, cc := range c.Creds {
		org := map[string]any{"ura": "1", "name": "n", "city": "c"}
		var subj []any
		switch cc.Subject {
		case "presenter":
			subj = []any{map[string]any{"id": presenter.DID.String(), "organization": org}}
		case "other":
			subj = []any{map[string]any{"id": other.DID.String(), "organization": org}}
			subjectsOK = false
			fail("subject-is-not-presenter")
		case "none":
			subj = []any{map[string]any{"organization": org}}
			subjectsOK = false
			fail("subject-without-id")
		case "mixed":
			subj = []any{map[string]any{"id": presenter.DID.String(), "organization": org}, map[string]any{"id": other.DID.String(), "organization": org}}
			subjectsOK = false
			fail("mixed-subjects")
		case "double":
			subj = []any{map[string]any{"id": presenter.DID.String(), "organization": org}, map[string]any{"id": presenter.DID.String(), "organization": map[string]any{"ura": "2", "name": "m", "city": "d"}}}
		default:
			return
		}
		spec := c01CredSpec{Format: cc.Format, Type: "NutsUraCredential", Contexts: []string{"https://nuts.nl/credentials/2024"},
			Subject: subj, Issued: issued}
		if cc.Subject == "none" || cc.Subject == "mixed" {
			spec.Format = "ldp_vc" // a JWT credential cannot express these (sub claim)
		}
		var issuer *c01DID
		switch cc.Issuer {
		case "I":
			issuer = I
		case "F":
			issuer = F
			allOK = false
			fail("credential-proof-invalid")
		case "I-by-other":
			issuer = I
			allOK = false
			fail("credential-proof-by-key-of-another-did")
		case "I-by-near":
			issuer = I
			allOK = false
			fail("credential-proof-by-near-miss-did:" + nearVariant)
			if nearI == nil {
				nearI = f.newNearMiss(x, I, nearVariant, c01T0)
			}
		case "self":
			issuer = presenter
			if presenter == F {
				allOK = false
				fail("credential-proof-invalid")
			}
		case "noproof-S":
			issuer, spec.NoProof = S, true
		case "noproof-O":
			issuer, spec.NoProof = O, true
		default:
			return
		}
		if spec.NoProof {
			if firstNoProof < 0 {
				firstNoProof = i
			}
			// acceptable only as self-attested: holder present and equal to the issuer
			if c.Holder == "" || byName[c.Holder] != issuer {
				allOK = false
				fail("proofless-credential-not-self-attested")
			}
		}
		spec.Issuer, spec.KID = issuer.DID.String(), issuer.keys[0].KID
		if cc.Issuer == "I-by-other" {
			// names I as issuer but carries a (cryptographically valid) proof by a key of another DID
			spec.KID = other.keys[0].KID
		}
		if cc.Issuer == "I-by-near" {
			// names I as issuer, carries a valid proof by the key of a DID that merely resembles I
			spec.KID = nearI.keys[0].KID
		}
		spec.ID = fmt.Sprintf("%s#c-%d", issuer.DID.String(), f.seq.Add(1))
		creds = append(creds, f.signCredential(x, spec))
	}
	revoked := c.Revoked > 0 && c.Revoked <= len(creds)
	// presentation through the real wallet
	now := time.Now()
	opts := holder.PresentationOptions{Format: c.VPFormat, ProofOptions: proof.ProofOptions{Created: now, Expires: c01Ptr(now.Add(time.Hour))}}
	if c.Domain {
		opts.ProofOptions.Domain = c01Ptr("verifier.example")
		opts.ProofOptions.Challenge = c01Ptr("challenge")
	}
	holderOK := true
	if c.Holder != "" {
		hd := byName[c.Holder]
		if hd == nil {
			return
		}
		u := hd.DID.URI()
		opts.Holder = &u
		if hd != presenter {
			holderOK = false
		}
	}
	signer := presenter.DID
	if signerNear {
		// signed by a resolvable DID (own working key) that merely resembles the presenter named by credentials and holder
		signer = f.newNearMiss(x, presenter, nearVariant, c01T0).DID
	}
	vp, err := wallet.BuildPresentation(audit.TestContext(), creds, opts, &signer, false)
	x.NoErr(err, "BuildPresentation")
	raw := vp.Raw()

	tampered := ""
	if c.Tamper != "" {
		raw, tampered = c01cTamper(x, c, raw, firstNoProof)
	}
	parsed, err := vc.ParseVerifiablePresentation(raw)
	x.NoErr(err, "parse VP")

	// reference
	expect := "accept"
	switch {
	case presenter == F:
		expect, why = "reject", "presentation-signature-invalid"
	case signerNear && len(creds) > 0:
		expect, why = "reject", "signer-is-near-miss-of-subject:"+nearVariant
	case signerNear:
		// no credentials: the signature is the near-miss DID's own and valid; a holder member names somebody else
		if c.Holder != "" {
			expect, why = "either", "no-credentials-foreign-holder"
		}
	case len(creds) == 0:
		if !holderOK {
			expect, why = "either", "no-credentials-foreign-holder"
		}
	case !subjectsOK:
		expect = "reject"
	case !holderOK:
		expect, why = "reject", "holder-is-not-presenter"
	case !allOK:
		expect = "reject"
	}
	if expect == "accept" && tampered != "" {
		expect, why = "reject", tampered
	}
	if revoked {
		// the revocation arrives after the wallet built the presentation (the wallet's own verifier would refuse it otherwise)
		rc := creds[c.Revoked-1]
		x.NoErr(revStore.StoreRevocation(credential.Revocation{Issuer: rc.Issuer, Subject: *rc.ID, Date: issued.Add(time.Second)}), "StoreRevocation")
		if expect == "accept" {
			expect, why = "reject", "credential-revoked"
		}
		x.Class("carries-revoked-credential")
	}
	if expect == "accept" {
		why = "ok"
	}

	_, verr := v.VerifyVP(*parsed, true, true, nil)
	x.Class("vp=" + c.VPFormat)
	x.Classf("credentials=%d", len(creds))
	x.Class("expect=" + expect + ":" + why)
	if len(creds) > 0 || presenter == F {
		x.NonTrivial()
	}
	_ = did.DID{}
	switch {
	case expect == "reject" && verr == nil:
		x.Logf("accepted; expected rejection (%s)\n%s", why, raw)
		x.Violate("vp-accepted:"+why+":"+c.VPFormat, "VerifyVP accepts a presentation that must be rejected: %s", why)
	case expect == "accept" && verr != nil:
		x.Logf("rejected: %v\n%s", verr, raw)
		x.Violate("vp-rejected:"+c.VPFormat, "VerifyVP rejects a presentation that satisfies the documented rules")
	}
	if faultStore == nil {
		return
	}
	// the same presentation once the revocation store cannot be read: what had to be rejected still has to be (an
	// error is a rejection); what was valid may be refused (the node cannot know): no expectation
	faultStore.fail(x)
	_, ferr := v.VerifyVP(*parsed, true, true, nil)
	x.Class("rev-store-fault=" + faultStore.kind)
	if faultStore.reads > 0 {
		x.Class("rev-store-fault-hit-by-a-look-up")
	}
	if expect == "reject" && ferr == nil {
		if why == "credential-revoked" {
			why = "credential-revoked-while-revocation-store-unreadable"
		}
		x.Logf("accepted while the revocation store is unreadable (%s); expected rejection (%s)\n%s", faultStore.kind, why, raw)
		x.Violate("vp-accepted:"+why+":"+c.VPFormat, "VerifyVP accepts a presentation that must be rejected (%s) once the revocation store fails (%s)", why, faultStore.kind)
	}
	if why == "credential-revoked" {
		x.Class("revoked-credential+store-unreadable+otherwise-valid")
	}
}

// c01cTamper changes the presentation after it was signed; it returns the new text and what was done ("" = nothing).
func c01cTamper(x *h.Ctx, c c01cCase, raw string, firstNoProof int) (string, string) {
	// the list of embedded credentials, wherever the envelope keeps it
	var header, sig string
	var doc map[string]any
	if c.VPFormat == "jwt_vp" {
		parts := strings.Split(raw, ".")
		if len(parts) != 3 {
			return raw, ""
		}
		header, sig = parts[0], parts[2]
		b, err := base64.RawURLEncoding.DecodeString(parts[1])
		x.NoErr(err, "decode JWT VP")
		x.NoErr(json.Unmarshal(b, &doc), "decode JWT VP claims")
	} else {
		x.NoErr(json.Unmarshal([]byte(raw), &doc), "decode VP")
	}
	container := doc
	if c.VPFormat == "jwt_vp" {
		container, _ = doc["vp"].(map[string]any)
		if container == nil {
			return raw, ""
		}
	}
	var list []any
	single := false
	switch t := container["verifiableCredential"].(type) {
	case []any:
		list = t
	case nil:
	default:
		list, single = []any{t}, true
	}
	done := ""
	switch c.Tamper {
	case "undefined":
		if c.VPFormat != "ldp_vp" || firstNoProof < 0 || firstNoProof >= len(list) {
			return raw, ""
		}
		if cm, ok := list[firstNoProof].(map[string]any); ok {
			switch cs := cm["credentialSubject"].(type) {
			case map[string]any:
				cs["role"] = "admin"
				done = "undefined-member-in-self-attested-credential"
			case []any:
				if len(cs) > 0 {
					if m0, ok := cs[0].(map[string]any); ok {
						m0["role"] = "admin"
						done = "undefined-member-in-self-attested-credential"
					}
				}
			}
		}
	case "forge-jwt":
		for i, e := range list {
			js, ok := e.(string)
			if !ok {
				continue
			}
			parts := strings.Split(js, ".")
			if len(parts) != 3 {
				continue
			}
			b, err := base64.RawURLEncoding.DecodeString(parts[1])
			x.NoErr(err, "decode JWT credential")
			var claims map[string]any
			x.NoErr(json.Unmarshal(b, &claims), "decode JWT credential claims")
			vcm, _ := claims["vc"].(map[string]any)
			if vcm == nil {
				continue
			}
			if cs, ok := vcm["credentialSubject"].(map[string]any); ok {
				cs["organization"] = map[string]any{"ura": "999", "name": "forged", "city": "forged"}
			} else if csl, ok := vcm["credentialSubject"].([]any); ok && len(csl) > 0 {
				if m0, ok := csl[0].(map[string]any); ok {
					m0["organization"] = map[string]any{"ura": "999", "name": "forged", "city": "forged"}
				}
			}
			nb, _ := json.Marshal(claims)
			list[i] = parts[0] + "." + base64.RawURLEncoding.EncodeToString(nb) + "." + parts[2]
			done = "forged-claims-in-jwt-credential"
			break
		}
	}
	if done == "" {
		return raw, ""
	}
	if single {
		container["verifiableCredential"] = list[0]
	} else {
		container["verifiableCredential"] = list
	}
	nb, _ := json.Marshal(doc)
	if c.VPFormat == "jwt_vp" {
		return header + "." + base64.RawURLEncoding.EncodeToString(nb) + "." + sig, done
	}
	return string(nb), done
}

func TestVerif_C01_Presentation(t *testing.T) {
	c01Setup(t)
	h.Check(t, "C01", c01cGen, c01cRun)
}

func TestVerifReplay_C01_Presentation(t *testing.T) {
	c01Setup(t)
	h.Replay(t, "C01", "TestVerif_C01_Presentation", c01cRun)
}
