//go:build verif

package verifier

// C19 targets: credentials, presentations and revocations coming from peers / API clients / remote status-list servers.
//   - VC:  vc.ParseVerifiableCredential (JSON-LD or JWT) -> Verifier.Verify (validator per type, revocation store,
//     StatusList2021 incl. download of a (mutated) list credential through a stub HTTP client, trust, validity,
//     issuer resolution, signature: JSON-LD canonicalisation or JWT) + the helpers callers apply to parsed credentials.
//   - VP:  vc.ParseVerifiablePresentation -> credential.PresenterIsCredentialSubject / PresentationSigner / dates ->
//     Verifier.VerifyVP.
//   - Revocation: json -> credential.Revocation -> Verifier.RegisterRevocation (network entry point).
// The verifier is the production one (NewVerifier) with the production JSON-LD loader in strict mode; DID/key
// resolution is stubbed (every key id resolves to the fixed test key), so JWT forms re-signed after mutation pass the
// signature check and reach everything behind it. Seeds are really signed at start-up.
// Oracle: no panic / hang; a rejected revocation is not stored.

import (
	"bytes"
	"context"
	"crypto"
	"encoding/json"
	"fmt"
	"io"
	"net/http"
	"os"
	"path/filepath"
	"strings"
	"sync"
	"testing"
	"time"

	"github.com/lestrrat-go/jwx/v2/jwk"
	ssi "github.com/nuts-foundation/go-did"
	"github.com/nuts-foundation/go-did/did"
	"github.com/nuts-foundation/go-did/vc"
	"github.com/nuts-foundation/nuts-node/audit"
	"github.com/nuts-foundation/nuts-node/core"
	nutsCrypto "github.com/nuts-foundation/nuts-node/crypto"
	"github.com/nuts-foundation/nuts-node/jsonld"
	"github.com/nuts-foundation/nuts-node/storage"
	"github.com/nuts-foundation/nuts-node/vcr/credential"
	"github.com/nuts-foundation/nuts-node/vcr/revocation"
	"github.com/nuts-foundation/nuts-node/vcr/signature"
	"github.com/nuts-foundation/nuts-node/vcr/signature/proof"
	"github.com/nuts-foundation/nuts-node/vcr/trust"
	"github.com/nuts-foundation/nuts-node/vdr/resolver"
	"github.com/sirupsen/logrus"
	"gorm.io/gorm"
	"pgregory.net/rapid"
	"verif.local/h"
	"verif.local/h/c19x"
	"verif.local/h/jsonmut"
)

func init() { logrus.SetOutput(io.Discard) }

const (
	c19Issuer    = "did:nuts:verifC19issuer"
	c19IssuerKid = c19Issuer + "#key-1"
	c19Holder    = "did:nuts:verifC19holder"
	c19HolderKid = c19Holder + "#key-1"
	c19ListURL   = "https://status.example.com/statuslist/1"
)

var c19ValidAt = time.Date(2024, 6, 1, 12, 0, 0, 0, time.UTC)
var c19Created = time.Date(2024, 1, 1, 12, 0, 0, 0, time.UTC)

type c19VCase struct {
	Kind           string     `json:"kind"` // vc | vp | revocation
	Seed           int        `json:"seed"`
	Plan           c19x.Plan  `json:"plan"`             // on the JSON-LD document / the JWT claims
	HeaderPlan     *c19x.Plan `json:"header,omitempty"` // JWT forms: on the JOSE header
	Sig            string     `json:"sig"`              // JWT forms
	InnerPlan      *c19x.Plan `json:"inner,omitempty"`  // vp: mutation of the first embedded credential instead (then embedded again)
	StatusPlan     *c19x.Plan `json:"status,omitempty"` // on the downloaded StatusList2021Credential
	StatusHTTP     int        `json:"statusHTTP"`
	AllowUntrusted bool       `json:"allowUntrusted"`
	CheckSignature bool       `json:"checkSignature"`
	VerifyVCs      bool       `json:"verifyVCs"`
	Revoked        bool       `json:"revoked"` // revocation store knows the credential id
}

// ---------------------------------------------------------------------------------------------------------------------
// process-wide fixture (read-only after construction, except the status-list table which is wiped per case)

type c19Env struct {
	ld                    jsonld.JSONLD
	db                    *gorm.DB
	trust                 *trust.Config
	vcLD                  [][]byte         // JSON-LD credential seeds
	vcJWT                 []map[string]any // JWT credential claim seeds
	vpLD                  [][]byte
	vpJWT                 []map[string]any
	revs                  [][]byte
	status                []byte         // valid StatusList2021Credential
	statusNoExp           []byte         // valid, without expirationDate
	statusRevokedTemplate map[string]any // unsigned list document (encodedList is filled in by the status list unit)
	jwtVC                 string         // a valid compact JWT credential (embedded in presentations)
	initErr               error
}

var (
	c19EnvOnce sync.Once
	c19TheEnv  *c19Env
)

type c19Keys struct{}

func (c19Keys) ResolveKeyByID(keyID string, _ *resolver.ResolveMetadata, _ resolver.RelationType) (crypto.PublicKey, error) {
	if keyID == "" {
		return nil, resolver.ErrKeyNotFound
	}
	return &c19x.ECKey().PublicKey, nil
}

func (c19Keys) ResolveKey(id did.DID, _ *time.Time, _ resolver.RelationType) (string, crypto.PublicKey, error) {
	return id.String() + "#key-1", &c19x.ECKey().PublicKey, nil
}

type c19DIDs struct{}

func (c19DIDs) Resolve(id did.DID, _ *resolver.ResolveMetadata) (*did.Document, *resolver.DocumentMetadata, error) {
	if id.Empty() {
		return nil, nil, resolver.ErrNotFound
	}
	return &did.Document{ID: id}, &resolver.DocumentMetadata{}, nil
}

type c19Store struct {
	revoked bool
	stored  int
}

func (s *c19Store) GetRevocations(id ssi.URI) ([]*credential.Revocation, error) {
	if s.revoked {
		return []*credential.Revocation{{Subject: id}}, nil
	}
	return nil, ErrNotFound
}
func (s *c19Store) StoreRevocation(credential.Revocation) error { s.stored++; return nil }
func (s *c19Store) Close() error                                { return nil }
func (s *c19Store) Diagnostics() []core.DiagnosticResult        { return nil }

type c19StatusHTTP struct {
	status int
	body   []byte
	calls  int
}

func (s *c19StatusHTTP) Do(req *http.Request) (*http.Response, error) {
	s.calls++
	if s.status == 0 {
		return nil, fmt.Errorf("connection refused")
	}
	return &http.Response{StatusCode: s.status, Header: http.Header{"Content-Type": []string{"application/json"}}, Body: io.NopCloser(bytes.NewReader(s.body)), Request: req}, nil
}

func c19Signer(kid string) nutsCrypto.MemoryJWTSigner {
	k, err := jwk.FromRaw(c19x.ECKey())
	if err != nil {
		panic(err)
	}
	_ = k.Set(jwk.KeyIDKey, kid)
	return nutsCrypto.MemoryJWTSigner{Key: k}
}

func (e *c19Env) signLD(doc map[string]any, kid string, opts proof.ProofOptions) []byte {
	suite := signature.JSONWebSignature2020{ContextLoader: e.ld.DocumentLoader(), Signer: c19Signer(kid)}
	res, err := proof.NewLDProof(opts).Sign(audit.TestContext(), doc, suite, kid)
	if err != nil {
		panic(fmt.Sprintf("sign seed: %v", err))
	}
	b, err := json.Marshal(res)
	if err != nil {
		panic(err)
	}
	return b
}

func c19Obj(raw []byte) map[string]any {
	var m map[string]any
	if err := json.Unmarshal(raw, &m); err != nil {
		panic(err)
	}
	return m
}

func c19GetEnv(x *h.Ctx) *c19Env {
	c19EnvOnce.Do(func() {
		e := &c19Env{}
		c19TheEnv = e
		defer func() {
			if r := recover(); r != nil {
				e.initErr = fmt.Errorf("building the process fixture: %v", r)
			}
		}()
		ld := jsonld.NewJSONLDInstance()
		if err := ld.(core.Configurable).Configure(core.ServerConfig{Strictmode: true}); err != nil {
			panic(err)
		}
		e.ld = ld
		e.db = storage.NewTestStorageEngine(x.TB).GetSQLDatabase()
		dir, err := os.MkdirTemp(os.Getenv("VERIF_TMP"), "c19trust-")
		if err != nil {
			panic(err)
		}
		e.trust = trust.NewConfig(filepath.Join(dir, "trust.yaml"))
		_ = e.trust.AddTrust(ssi.MustParseURI("NutsOrganizationCredential"), ssi.MustParseURI(c19Issuer))

		vcCtx := []any{"https://www.w3.org/2018/credentials/v1", "https://nuts.nl/credentials/v1"}
		orgVC := func(id, subject string) map[string]any {
			return map[string]any{"@context": vcCtx, "id": c19Issuer + "#" + id, "type": []any{"NutsOrganizationCredential", "VerifiableCredential"},
				"issuer": c19Issuer, "issuanceDate": c19Created.Format(time.RFC3339), "expirationDate": "2030-01-01T00:00:00Z",
				"credentialSubject": map[string]any{"id": subject, "organization": map[string]any{"name": "Because we care B.V.", "city": "Eibergen"}}}
		}
		authVC := map[string]any{"@context": vcCtx, "id": c19Issuer + "#auth-1", "type": []any{"NutsAuthorizationCredential", "VerifiableCredential"},
			"issuer": c19Issuer, "issuanceDate": c19Created.Format(time.RFC3339),
			"credentialSubject": map[string]any{"id": c19Holder, "purposeOfUse": "eTransfer",
				"resources":       []any{map[string]any{"path": "/composition/1", "operations": []any{"read"}, "userContext": true}},
				"localParameters": map[string]any{"a": "b"}}}
		statusVC := orgVC("org-status", c19Holder)
		statusVC["@context"] = []any{"https://www.w3.org/2018/credentials/v1", "https://nuts.nl/credentials/v1", "https://w3id.org/vc/status-list/2021/v1"}
		statusVC["credentialStatus"] = map[string]any{"id": c19ListURL + "#5", "type": "StatusList2021Entry", "statusPurpose": "revocation", "statusListIndex": "5", "statusListCredential": c19ListURL}
		opts := proof.ProofOptions{Created: c19Created}
		e.vcLD = [][]byte{e.signLD(orgVC("org-1", c19Holder), c19IssuerKid, opts), e.signLD(authVC, c19IssuerKid, opts), e.signLD(statusVC, c19IssuerKid, opts)}

		// the list credential a status server would return (bit 1 set, bit 5 not)
		list := map[string]any{"@context": []any{"https://www.w3.org/2018/credentials/v1", "https://w3id.org/vc/status-list/2021/v1"}, "id": c19ListURL,
			"type": []any{"VerifiableCredential", "StatusList2021Credential"}, "issuer": c19Issuer, "issuanceDate": c19Created.Format(time.RFC3339), "expirationDate": "2030-01-01T00:00:00Z",
			"credentialSubject": map[string]any{"id": c19ListURL, "type": "StatusList2021", "statusPurpose": "revocation",
				"encodedList": "H4sIAAAAAAAA_-zAsQAAAAACsNDypwqjZ2sAAAAAAAAAAAAAAAAAAACAtwUAAP__NxdfzQBAAAA="}}
		e.status = e.signLD(list, c19IssuerKid, opts)
		// the same list without expirationDate (allowed for external lists), and one with bit 5 set (credential revoked)
		noExp := c19Obj(jsonmut.Encode(list))
		delete(noExp, "expirationDate")
		e.statusNoExp = e.signLD(noExp, c19IssuerKid, opts)
		e.statusRevokedTemplate = c19Obj(jsonmut.Encode(list))

		// JWT credential claims
		jwtClaims := map[string]any{"iss": c19Issuer, "sub": c19Holder, "nbf": json.Number(fmt.Sprint(c19Created.Unix())), "exp": json.Number("1893456000"), "jti": c19Issuer + "#jwt-1",
			"vc": map[string]any{"@context": vcCtx, "type": []any{"NutsOrganizationCredential", "VerifiableCredential"},
				"credentialSubject": map[string]any{"id": c19Holder, "organization": map[string]any{"name": "care", "city": "IJbergen"}}}}
		jwtClaims2 := c19Obj(jsonmut.Encode(jwtClaims))
		jwtClaims2["vc"].(map[string]any)["credentialStatus"] = statusVC["credentialStatus"]
		jwtClaims2["vc"].(map[string]any)["@context"] = statusVC["@context"]
		e.vcJWT = []map[string]any{jwtClaims, jwtClaims2}
		e.jwtVC = c19x.Compact(c19JWTHeader(c19IssuerKid), jsonmut.Encode(jwtClaims), c19x.SigValid)

		// presentations
		vpLD := func(creds ...any) map[string]any {
			return map[string]any{"@context": []any{"https://www.w3.org/2018/credentials/v1"}, "id": c19Holder + "#vp-1", "type": []any{"VerifiablePresentation"},
				"holder": c19Holder, "verifiableCredential": creds}
		}
		ch, dom := "challenge-1", "verifier.example.com"
		exp := c19ValidAt.Add(time.Hour)
		vpOpts := proof.ProofOptions{Created: c19ValidAt.Add(-time.Minute), Expires: &exp, Challenge: &ch, Domain: &dom, ProofPurpose: "authentication"}
		selfAttested := map[string]any{"@context": vcCtx, "type": []any{"VerifiableCredential", "NutsEmployeeCredential"}, "issuer": c19Holder, "issuanceDate": c19Created.Format(time.RFC3339),
			"credentialSubject": map[string]any{"id": c19Holder, "member": map[string]any{"identifier": "1", "roleName": "x", "member": map[string]any{"familyName": "y"}}}}
		e.vpLD = [][]byte{
			e.signLD(vpLD(c19Obj(e.vcLD[0])), c19HolderKid, vpOpts),
			e.signLD(vpLD(c19Obj(e.vcLD[0]), e.jwtVC, c19Obj(e.vcLD[2])), c19HolderKid, vpOpts),
			e.signLD(vpLD(selfAttested), c19HolderKid, vpOpts),
			e.signLD(vpLD(), c19HolderKid, vpOpts),
		}
		e.vpJWT = []map[string]any{
			{"iss": c19Holder, "sub": c19Holder, "nbf": json.Number(fmt.Sprint(c19Created.Unix())), "exp": json.Number("1893456000"), "jti": c19Holder + "#vp-jwt-1",
				"aud": "did:web:verifier.example.com", "nonce": "n-1",
				"vp": map[string]any{"@context": []any{"https://www.w3.org/2018/credentials/v1"}, "type": []any{"VerifiablePresentation"}, "holder": c19Holder,
					"verifiableCredential": []any{e.jwtVC, c19Obj(e.vcLD[0])}}},
			{"iss": c19Holder, "nbf": json.Number(fmt.Sprint(c19Created.Unix())), "exp": json.Number("1893456000"),
				"vp": map[string]any{"@context": "https://www.w3.org/2018/credentials/v1", "type": "VerifiablePresentation", "verifiableCredential": e.jwtVC}},
		}

		// revocations (RFC011)
		rev := func(withCtx bool) []byte {
			d := map[string]any{"issuer": c19Issuer, "subject": c19Issuer + "#org-1", "date": c19Created.Format(time.RFC3339Nano), "reason": "because"}
			if withCtx {
				d["@context"] = []any{"https://nuts.nl/credentials/v1"}
				d["type"] = []any{"CredentialRevocation"}
			}
			return e.signLD(d, c19IssuerKid, opts)
		}
		e.revs = [][]byte{rev(true)}
	})
	if c19TheEnv.initErr != nil {
		x.Fatalf("%v", c19TheEnv.initErr)
	}
	return c19TheEnv
}

func c19JWTHeader(kid string) []byte {
	return []byte(fmt.Sprintf(`{"alg":"ES256","kid":%q,"typ":"JWT"}`, kid))
}

// ---------------------------------------------------------------------------------------------------------------------

var c19VCKeys = []string{"@context", "id", "type", "issuer", "issuanceDate", "expirationDate", "validFrom", "validUntil", "credentialSubject", "credentialStatus", "proof",
	"organization", "name", "city", "purposeOfUse", "resources", "path", "operations", "userContext", "localParameters", "statusPurpose", "statusListIndex", "statusListCredential",
	"encodedList", "verificationMethod", "created", "jws", "proofPurpose", "challenge", "domain", "nonce", "expires", "holder", "verifiableCredential",
	"iss", "sub", "nbf", "exp", "iat", "jti", "aud", "vc", "vp", "subject", "date", "reason", "@type", "@id", "@value", "@graph", "@list", "@set", "@language", "@vocab", "@base", "@reverse"}

func c19GenOptPlan(t *rapid.T, label string, oneIn int) *c19x.Plan {
	if rapid.IntRange(0, oneIn-1).Draw(t, label+".has") != 0 {
		return nil
	}
	p := c19x.GenPlan(t, c19VCKeys)
	return &p
}

func c19VGen(t *rapid.T) c19VCase {
	c := c19VCase{
		Kind:           rapid.SampledFrom([]string{"vc", "vc", "vc", "vp", "vp", "vp", "revocation"}).Draw(t, "kind"),
		Seed:           rapid.IntRange(0, 5).Draw(t, "seed"),
		Plan:           c19x.GenPlan(t, c19VCKeys),
		Sig:            rapid.SampledFrom(c19x.SigModes).Draw(t, "sig"),
		StatusHTTP:     rapid.SampledFrom([]int{200, 200, 200, 200, 404, 0}).Draw(t, "statusHTTP"),
		AllowUntrusted: rapid.SampledFrom([]bool{true, true, false}).Draw(t, "allowUntrusted"),
		CheckSignature: rapid.SampledFrom([]bool{true, true, false}).Draw(t, "checkSignature"),
		VerifyVCs:      rapid.SampledFrom([]bool{true, true, false}).Draw(t, "verifyVCs"),
		Revoked:        rapid.IntRange(0, 9).Draw(t, "revoked") == 0,
	}
	c.HeaderPlan = c19GenOptPlan(t, "header", 6)
	c.StatusPlan = c19GenOptPlan(t, "status", 2)
	if c.Kind == "vp" {
		c.InnerPlan = c19GenOptPlan(t, "inner", 3)
	}
	return c
}

// c19Build returns the wire form of the case's document and what was applied.
func c19Build(x *h.Ctx, e *c19Env, c c19VCase) (text string, applied c19x.Applied, form string) {
	jwtForm := func(claims map[string]any, kid string) (string, c19x.Applied) {
		body, ap := c.Plan.Apply(jsonmut.Encode(claims))
		hdr := c19JWTHeader(kid)
		if c.HeaderPlan != nil {
			var hap c19x.Applied
			hdr, hap = c.HeaderPlan.Apply(hdr)
			ap.Oversize = ap.Oversize || hap.Oversize
			ap.Descs = append(ap.Descs, hap.Descs...)
		}
		return c19x.Compact(hdr, body, c.Sig), ap
	}
	switch c.Kind {
	case "vc":
		n := len(e.vcLD) + len(e.vcJWT)
		k := ((c.Seed % n) + n) % n
		if k < len(e.vcLD) {
			b, ap := c.Plan.Apply(e.vcLD[k])
			return string(b), ap, "vc-jsonld"
		}
		s, ap := jwtForm(e.vcJWT[k-len(e.vcLD)], c19IssuerKid)
		return s, ap, "vc-jwt"
	case "vp":
		n := len(e.vpLD) + len(e.vpJWT)
		k := ((c.Seed % n) + n) % n
		embedMutated := func(doc map[string]any, path ...string) {
			// replace the first embedded credential by a mutated one (JSON-LD object, or re-signed JWT string)
			if c.InnerPlan == nil {
				return
			}
			cur := any(doc)
			for _, p := range path {
				m, ok := cur.(map[string]any)
				if !ok {
					return
				}
				cur = m[p]
			}
			holderObj := doc
			for _, p := range path[:len(path)-1] {
				holderObj, _ = holderObj[p].(map[string]any)
			}
			list, ok := cur.([]any)
			if !ok || len(list) == 0 || holderObj == nil {
				return
			}
			switch first := list[0].(type) {
			case map[string]any:
				b, _ := c.InnerPlan.Apply(jsonmut.Encode(first))
				if v, err := jsonmut.Decode(b); err == nil {
					list[0] = v
				}
			case string:
				if _, pl, _, err := c19x.SplitCompact(first); err == nil {
					b, _ := c.InnerPlan.Apply(pl)
					list[0] = c19x.Compact(c19JWTHeader(c19IssuerKid), b, c19x.SigValid)
				}
			}
		}
		if k < len(e.vpLD) {
			doc := c19Obj(e.vpLD[k])
			embedMutated(doc, "verifiableCredential")
			b, ap := c.Plan.Apply(jsonmut.Encode(doc))
			return string(b), ap, "vp-jsonld"
		}
		claims := c19Obj(jsonmut.Encode(e.vpJWT[k-len(e.vpLD)]))
		embedMutated(claims, "vp", "verifiableCredential")
		s, ap := jwtForm(claims, c19HolderKid)
		return s, ap, "vp-jwt"
	default:
		k := ((c.Seed % len(e.revs)) + len(e.revs)) % len(e.revs)
		b, ap := c.Plan.Apply(e.revs[k])
		return string(b), ap, "revocation"
	}
}

func c19VRun(x *h.Ctx, c c19VCase) {
	var e *c19Env
	var v Verifier
	store := &c19Store{revoked: c.Revoked}
	httpStub := &c19StatusHTTP{status: c.StatusHTTP}
	var text, form string
	var applied c19x.Applied
	c19x.Setup(x, "verifier fixture", func() {
		e = c19GetEnv(x)
		x.NoErr(e.db.Exec("DELETE FROM status_list_credential").Error, "wipe status list cache")
		httpStub.body = e.status
		if c.StatusPlan != nil {
			httpStub.body, _ = c.StatusPlan.Apply(e.status)
		}
		v = NewVerifier(store, c19DIDs{}, c19Keys{}, e.ld, e.trust, revocation.NewStatusList2021(e.db, httpStub, "https://node.example.com"))
		text, applied, form = c19Build(x, e, c)
	})
	if applied.Oversize || len(httpStub.body) > c19x.MaxInput {
		x.Class("skipped:oversize")
		return
	}
	for _, cl := range applied.Classes() {
		x.Class(cl)
	}
	x.Class("form=" + form)
	isJOSE := strings.Count(text, ".") == 2 && !strings.HasPrefix(strings.TrimSpace(text), "{")
	if c19x.IsJSON([]byte(text)) || isJOSE {
		x.Class("stage1:is-JSON-or-JOSE")
	}

	c19x.Guard(x, func() {
		switch c.Kind {
		case "vc":
			cred, err := vc.ParseVerifiableCredential(text)
			if err != nil {
				x.Class("parse:rejected")
				return
			}
			x.NonTrivial()
			x.Class("parse:ok")
			c19UseCredential(x, *cred)
			err = v.Verify(*cred, c.AllowUntrusted, c.CheckSignature, &c19ValidAt)
			c19ClassifyVerify(x, "verify", err)
			if httpStub.calls > 0 {
				x.Class("status-list:downloaded")
			}
			// the network path: json.Unmarshal of the payload, then Verify(allowUntrusted, checkSignature)
			var viaJSON vc.VerifiableCredential
			if json.Unmarshal([]byte(text), &viaJSON) == nil {
				_ = v.Verify(viaJSON, true, true, &c19ValidAt)
			}
		case "vp":
			vp, err := vc.ParseVerifiablePresentation(text)
			if err != nil {
				x.Class("parse:rejected")
				return
			}
			x.NonTrivial()
			x.Class("parse:ok")
			_, _ = credential.PresenterIsCredentialSubject(*vp)
			_, _ = credential.PresentationSigner(*vp)
			_ = credential.PresentationIssuanceDate(*vp)
			_ = credential.PresentationExpirationDate(*vp)
			_, _ = credential.ParseLDProof(*vp)
			for _, cred := range vp.VerifiableCredential {
				c19UseCredential(x, cred)
			}
			c19x.Own(x, func() {
				if b, err := json.Marshal(vp); err == nil {
					var back vc.VerifiablePresentation
					_ = json.Unmarshal(b, &back)
				}
			})
			creds, err := v.VerifyVP(*vp, c.VerifyVCs, c.AllowUntrusted, &c19ValidAt)
			c19ClassifyVerify(x, "verifyVP", err)
			if err == nil {
				x.Classf("verifyVP:ok:%d-credentials", min(len(creds), 3))
			}
		default:
			var r credential.Revocation
			if err := json.Unmarshal([]byte(text), &r); err != nil {
				x.Class("parse:rejected")
				return
			}
			x.NonTrivial()
			x.Class("parse:ok")
			err := v.RegisterRevocation(r)
			if err != nil {
				x.Class("revocation:rejected")
				if store.stored != 0 {
					x.Violate("revocation-stored-after-reject", "RegisterRevocation returned %v but stored the revocation", err)
				}
			} else {
				x.Class("revocation:accepted")
			}
		}
	})
}

func c19ClassifyVerify(x *h.Ctx, what string, err error) {
	if err == nil {
		x.Class(what + ":ok")
		return
	}
	x.Class(what + ":rejected")
	msg := err.Error()
	for _, k := range []string{"invalid signature", "invalid proof signature", "unable to validate JWT signature", "unable to resolve", "validation failed", "revoked", "untrusted", "not valid at",
		"verification method is not of issuer", "presenter is credential subject", "must be presented by subject", "could not validate issuer", "invalid LD-JSON", "unsupported proof", "at most 2 types", "canonicali", "jsonld", "loading"} {
		if strings.Contains(msg, k) {
			x.Classf("%s:rejected:%s", what, k)
			return
		}
	}
	x.Class(what + ":rejected:other")
}

// c19UseCredential applies the helpers production code applies to parsed credentials before/around verification.
func c19UseCredential(x *h.Ctx, cred vc.VerifiableCredential) {
	// library-only inspection by the harness
	c19x.Own(x, func() {
		_, _ = cred.SubjectDID()
		_, _ = cred.CredentialStatuses()
		_ = cred.ValidAt(c19ValidAt, time.Second)
	})
	c19x.Own(x, func() {
		if b, err := json.Marshal(cred); err == nil {
			var back vc.VerifiableCredential
			_ = json.Unmarshal(b, &back)
		}
	})
	// nuts-node helpers
	_, _ = credential.ResolveSubjectDID(cred)
	_ = credential.ExtractTypes(cred)
	_ = credential.FilterOnDIDMethod([]vc.VerifiableCredential{cred}, []string{"web", "nuts"})
	_ = credential.AutoCorrectSelfAttestedCredential(cred, did.MustParseDID(c19Holder))
	_ = credential.FindValidator(cred).Validate(cred)
}

var _ = context.Background

func TestVerif_C19_Verify(t *testing.T) {
	h.Check(t, "C19", c19VGen, c19VRun, h.PanicIsViolation(), h.Deadline(10*time.Second))
}

func TestVerifReplay_C19_Verify(t *testing.T) {
	h.Replay(t, "C19", "TestVerif_C19_Verify", c19VRun, h.PanicIsViolation(), h.Deadline(10*time.Second))
}

// Native fuzz target (thorough tier): raw bytes -> credential / presentation parsing + the validators and helpers that run
// before any signature check (no verifier fixture, so it runs at fuzzing speed).
func FuzzVerif_C19_CredentialBytes(f *testing.F) {
	f.Add([]byte(`{"@context":["https://www.w3.org/2018/credentials/v1","https://nuts.nl/credentials/v1"],"id":"did:nuts:a#1","type":["NutsOrganizationCredential","VerifiableCredential"],"issuer":"did:nuts:a","issuanceDate":"2024-01-01T00:00:00Z","credentialSubject":{"id":"did:nuts:b","organization":{"name":"n","city":"c"}},"proof":{"type":"JsonWebSignature2020","verificationMethod":"did:nuts:a#k","jws":"e30..AA","created":"2024-01-01T00:00:00Z","proofPurpose":"assertionMethod"}}`))
	f.Add([]byte(`{"@context":["https://www.w3.org/2018/credentials/v1"],"type":"VerifiablePresentation","holder":"did:nuts:b","verifiableCredential":[{"@context":["https://www.w3.org/2018/credentials/v1"],"type":["VerifiableCredential"],"issuer":"did:nuts:a","issuanceDate":"2024-01-01T00:00:00Z","credentialSubject":{"id":"did:nuts:b"}}],"proof":{"type":"JsonWebSignature2020","verificationMethod":"did:nuts:b#k","jws":"e30..AA","created":"2024-01-01T00:00:00Z"}}`))
	f.Add([]byte(c19x.Compact(c19JWTHeader(c19IssuerKid), []byte(`{"iss":"did:nuts:a","sub":"did:nuts:b","nbf":1700000000,"jti":"did:nuts:a#1","vc":{"@context":["https://www.w3.org/2018/credentials/v1"],"type":["VerifiableCredential","NutsAuthorizationCredential"],"credentialSubject":{"purposeOfUse":"x","resources":[{"path":"/a","operations":["read"]}]}}}`), c19x.SigGarbage)))
	f.Add([]byte(c19x.Compact(c19JWTHeader(c19HolderKid), []byte(`{"iss":"did:nuts:b","nbf":1700000000,"exp":1893456000,"vp":{"@context":["https://www.w3.org/2018/credentials/v1"],"type":["VerifiablePresentation"],"verifiableCredential":[]}}`), c19x.SigGarbage)))
	f.Fuzz(func(t *testing.T, data []byte) {
		h.Fuzz(t, "C19", "FuzzVerif_C19_CredentialBytes", data, func(x *h.Ctx) { c19CredFuzzBody(x, data) }, h.PanicIsViolation(), h.Deadline(10*time.Second))
	})
}

func c19CredFuzzBody(x *h.Ctx, data []byte) {
	if len(data) > c19x.MaxInput {
		return
	}
	c19x.Guard(x, func() {
		text := string(data)
		if cred, err := vc.ParseVerifiableCredential(text); err == nil {
			x.NonTrivial()
			x.Class("parsed-as-credential")
			c19UseCredential(x, *cred)
		}
		if vp, err := vc.ParseVerifiablePresentation(text); err == nil {
			x.NonTrivial()
			x.Class("parsed-as-presentation")
			_, _ = credential.PresenterIsCredentialSubject(*vp)
			_, _ = credential.PresentationSigner(*vp)
			_ = credential.PresentationIssuanceDate(*vp)
			_ = credential.PresentationExpirationDate(*vp)
			for _, cred := range vp.VerifiableCredential {
				c19UseCredential(x, cred)
			}
		}
		var r credential.Revocation
		if json.Unmarshal(data, &r) == nil {
			_ = credential.ValidateRevocation(r)
		}
	})
}

func TestVerifReplay_C19_CredentialBytes(t *testing.T) {
	h.Replay(t, "C19", "FuzzVerif_C19_CredentialBytes", func(x *h.Ctx, raw json.RawMessage) {
		c19CredFuzzBody(x, h.FuzzInput(raw))
	}, h.PanicIsViolation(), h.Deadline(10*time.Second))
}
