//go:build verif

package verifier_test

// C01-b: validity window x key history (component level, real verifier over a real didnuts store).
//
// A case is: a history of one issuer DID document (create / add assertion key / remove key / rotate / deactivate /
// hand control to another DID document, which may itself get deactivated / take control back, each at a generated signing time), one credential (JSON-LD or JWT) signed with one of the keys that ever existed, at a
// generated issuance instant with an optional expiry, optional revocation, generated trust configuration, and a list of
// probes = validation instants drawn around every boundary (issuance-skew, issuance, expiry, expiry+skew, every
// document version, +-1 s) plus nil (= now). Every probe calls Verifier.Verify(credential, allowUntrusted, true, at) and
// compares with the reference predicate
//
//	window(at) && version(at) exists && !deactivated(version(at)) && (no controller || controller active at `at`)
//	  && key in assertionMethod(version(at))
//	  && !revoked && (trusted || allowUntrusted)
//
// where version(at) is the last document version signed at or before `at`, and window is the documented one:
// JSON-LD: at+5s >= issuance && at-5s <= expiry (vc.ValidAt with maxSkew = 5 s, verifier.go); JWT: additionally the
// JWT's own nbf/exp are validated without skew, so inside the two skew zones a JWT credential may be rejected: those
// probes are "either" (counted, no expectation). Both directions are checked everywhere else.
// For JSON-LD credentials the signed proof options are a second window, generated independently of the credential's
// dates (proof.created earlier / later than issuanceDate, proof.expires absent / before / after expirationDate):
// proof.created <= at+5s && at <= proof.expires+5s (proof.ProofOptions.ValidAt with the same maxSkew, signature_verifier.go).

import (
	"fmt"
	"sort"
	"testing"
	"time"

	ssi "github.com/nuts-foundation/go-did"
	"github.com/nuts-foundation/nuts-node/vcr/credential"
	"pgregory.net/rapid"
	"verif.local/h"
)

type c01bEvent struct {
	Dt  int    `json:"dt"`  // seconds after the previous version (>= 1)
	Op  string `json:"op"`  // addkey | rmkey | rotate | deactivate | touch | setctrl | unsetctrl
	Sel uint32 `json:"sel"` // which present key (rmkey / rotate)
}

type c01bProbe struct {
	Base  string `json:"base"` // nil | issue-skew | issue | expiry | expiry+skew | version | ctrl | far | pcreated-skew | pcreated | pexpires | pexpires+skew
	Idx   uint32 `json:"idx,omitempty"`
	Delta int    `json:"delta,omitempty"` // seconds
}

type c01bCase struct {
	Hist           []c01bEvent `json:"hist"`
	Format         string      `json:"fmt"`
	Kind           string      `json:"kind"`    // org | ura
	KeySel         uint32      `json:"key"`     // which key signs (index into all keys ever created)
	IssueAt        int         `json:"issueAt"` // seconds relative to creation of the DID document
	ExpiryAfter    int         `json:"expiryAfter"`
	FarExpiry      bool        `json:"farExpiry,omitempty"` // expiry in 2090 instead
	// JSON-LD only: the proof's own window, independent of the credential's dates. created = issuance + ProofCreatedDelta;
	// ProofExpiresAfter != 0: proof option expires = issuance + that many seconds (may lie before or after expirationDate)
	ProofCreatedDelta int `json:"proofCreatedDelta,omitempty"`
	ProofExpiresAfter int `json:"proofExpiresAfter,omitempty"`
	Revoked        bool        `json:"revoked,omitempty"`
	ForeignKey     bool        `json:"foreignKey,omitempty"` // proof made with (and naming) a key of ANOTHER, active DID document
	// how that other DID relates to the issuer's: "" = unrelated | path | host-suffix | suffix | prefix | case (near-miss DIDs,
	// resolvable, own working key) | kid-bare | kid-double-fragment (a foreign key registered under the issuer's DID without
	// fragment / under issuer#a#b)
	Foreign string `json:"foreign,omitempty"`
	Trusted        bool        `json:"trusted"`
	TrustOtherType bool        `json:"trustOtherType,omitempty"` // trust entry exists but for another credential type
	AllowUntrusted bool        `json:"allowUntrusted"`
	CtrlDeactAt    int         `json:"ctrlDeactAt,omitempty"` // != 0: the controller document is deactivated at this offset (seconds from T0)
	// storage fault of the revocation store (c01RevStoreFaults; "" = healthy): the by-id look-up fails from probe
	// StoreFaultFrom on (the probes before it see a healthy store)
	StoreFault     string `json:"storeFault,omitempty"`
	StoreFaultFrom int    `json:"storeFaultFrom,omitempty"`
	Probes         []c01bProbe `json:"probes"`
}

const c01Skew = 5 // seconds: maxSkew documented in verifier.go

func c01bGen(t *rapid.T) c01bCase {
	c := c01bCase{
		Format:         rapid.SampledFrom([]string{"ldp_vc", "jwt_vc"}).Draw(t, "fmt"),
		Kind:           rapid.SampledFrom([]string{"org", "ura"}).Draw(t, "kind"),
		KeySel:         rapid.Uint32Range(0, 7).Draw(t, "key"),
		Revoked:        rapid.IntRange(0, 9).Draw(t, "revoked") == 0,
		ForeignKey:     rapid.IntRange(0, 5).Draw(t, "foreignKey") == 0,
		Foreign:        rapid.SampledFrom([]string{"", "path", "host-suffix", "suffix", "prefix", "case", "kid-bare", "kid-double-fragment"}).Draw(t, "foreign"),
		Trusted:        rapid.IntRange(0, 9).Draw(t, "trusted") > 1,
		TrustOtherType: rapid.IntRange(0, 6).Draw(t, "trustOther") == 0,
		AllowUntrusted: rapid.IntRange(0, 9).Draw(t, "allowUntrusted") > 6,
	}
	if rapid.IntRange(0, 3).Draw(t, "storeFault") == 0 {
		// the revocation store fails while the credential is verified; half of these credentials are revoked
		c.StoreFault = rapid.SampledFrom(c01RevStoreFaults).Draw(t, "storeFaultKind")
		c.StoreFaultFrom = rapid.SampledFrom([]int{0, 0, 0, 1, 2, 4}).Draw(t, "storeFaultFrom")
		if rapid.Bool().Draw(t, "storeFaultRevoked") {
			// steered: everything else in order (so that only the unreadable store stands between the revoked credential and "valid")
			c.Revoked, c.ForeignKey, c.Trusted, c.TrustOtherType = true, false, true, false
		}
	}
	if c.ForeignKey {
		// nothing else should reject such a credential: the signer's identity is what is being judged
		c.Revoked, c.Trusted, c.TrustOtherType = false, true, false
	} else {
		c.Foreign = ""
	}
	n := rapid.IntRange(0, 6).Draw(t, "nhist")
	total := 0
	for i := 0; i < n; i++ {
		e := c01bEvent{
			Dt:  rapid.SampledFrom([]int{1, 2, 3, 7, 11, 30, 100, 3600}).Draw(t, fmt.Sprintf("h%d.dt", i)),
			Op:  rapid.SampledFrom([]string{"addkey", "addkey", "rmkey", "rmkey", "rotate", "rotate", "deactivate", "touch", "setctrl", "setctrl", "unsetctrl"}).Draw(t, fmt.Sprintf("h%d.op", i)),
			Sel: rapid.Uint32Range(0, 7).Draw(t, fmt.Sprintf("h%d.sel", i)),
		}
		total += e.Dt
		c.Hist = append(c.Hist, e)
	}
	if rapid.Bool().Draw(t, "ctrlDeact") {
		c.CtrlDeactAt = rapid.IntRange(1, total+10).Draw(t, "ctrlDeactAt")
	}
	// issuance somewhere around the history (before creation, between versions, after the end)
	c.IssueAt = rapid.IntRange(-20, total+20).Draw(t, "issueAt")
	switch rapid.IntRange(0, 3).Draw(t, "expiry") {
	case 0:
	case 1:
		c.FarExpiry = true
	default:
		c.ExpiryAfter = rapid.SampledFrom([]int{1, 2, 6, 11, 12, 30, 200, 4000}).Draw(t, "expiryAfter")
	}
	bases := []string{"nil", "issue-skew", "issue", "expiry", "expiry+skew", "version", "version", "version", "ctrl", "far"}
	if c.Format == "ldp_vc" && rapid.Bool().Draw(t, "ownProofWindow") {
		c.ProofCreatedDelta = rapid.SampledFrom([]int{0, 0, -300, -30, -7, 7, 30, 300}).Draw(t, "proofCreatedDelta")
		c.ProofExpiresAfter = rapid.SampledFrom([]int{0, 0, 1, 6, 12, 40, 500, 5000}).Draw(t, "proofExpiresAfter")
		bases = append(bases, "pcreated-skew", "pcreated-skew", "pcreated", "pexpires", "pexpires+skew", "pexpires+skew")
	}
	np := rapid.IntRange(4, 14).Draw(t, "nprobes")
	for i := 0; i < np; i++ {
		p := c01bProbe{
			Base:  rapid.SampledFrom(bases).Draw(t, fmt.Sprintf("p%d.base", i)),
			Idx:   rapid.Uint32Range(0, 7).Draw(t, fmt.Sprintf("p%d.idx", i)),
			Delta: rapid.SampledFrom([]int{-1, 0, 1, -1, 0, 1, -2, 2, -6, 6}).Draw(t, fmt.Sprintf("p%d.delta", i)),
		}
		c.Probes = append(c.Probes, p)
	}
	return c
}

// model of one document version
type c01bVersion struct {
	at          time.Time
	assertion   []int
	deactivated bool
	ctrl        bool // controlled by the controller document (which may get deactivated)
}

func c01bRun(x *h.Ctx, c c01bCase) {
	if len(c.Hist) > 12 || len(c.Probes) > 40 {
		return
	}
	f := c01F
	issuer := f.newDID(x)
	// the controller document: created before everything, optionally deactivated later
	ctrl := f.newDID(x)
	ctrl.newKey(x)
	ctrl.publish(x, c01T0.Add(-50*time.Second), []int{0}, false)
	var ctrlDead *time.Time
	if c.CtrlDeactAt != 0 {
		ctrlDead = c01Ptr(c01T0.Add(time.Duration(c.CtrlDeactAt) * time.Second))
		ctrl.publish(x, *ctrlDead, nil, true)
	}
	// another, always active DID document whose key may be (mis)used to sign the credential: unrelated, or a near miss
	// of the issuer's DID; or a foreign key that merely carries a key id inside the issuer's DID
	foreignKID := ""
	if c.ForeignKey {
		switch c.Foreign {
		case "path", "host-suffix", "suffix", "prefix", "case":
			foreignKID = f.newNearMiss(x, issuer, c.Foreign, c01T0.Add(-50*time.Second)).keys[0].KID
		case "kid-bare":
			foreignKID = f.forgedKID(x, issuer.DID.String())
		case "kid-double-fragment":
			foreignKID = f.forgedKID(x, issuer.DID.String()+"#a#b")
			if _, err := ssi.ParseURI(foreignKID); err != nil {
				foreignKID = f.forgedKID(x, issuer.DID.String()+"#a%23b")
			}
		default:
			foreign := f.newDID(x)
			foreign.newKey(x)
			foreign.publish(x, c01T0.Add(-50*time.Second), []int{0}, false)
			foreignKID = foreign.keys[0].KID
		}
	}
	// history
	issuer.newKey(x)
	versions := []c01bVersion{{at: c01T0, assertion: []int{0}}}
	issuer.publish(x, c01T0, []int{0}, false)
	now := c01T0
	dead := false
	hasCtrl := false
	for _, e := range c.Hist {
		if e.Dt < 1 {
			e.Dt = 1
		}
		now = now.Add(time.Duration(e.Dt) * time.Second)
		if dead {
			// nothing can follow a deactivation (the VDR refuses updates of deactivated documents)
			break
		}
		last := versions[len(versions)-1]
		cur := append([]int{}, last.assertion...)
		withCtrl := last.ctrl
		switch e.Op {
		case "addkey":
			cur = append(cur, issuer.newKey(x))
		case "rmkey":
			if len(cur) > 0 {
				k := int(e.Sel) % len(cur)
				cur = append(cur[:k:k], cur[k+1:]...)
			}
		case "rotate":
			if len(cur) > 0 {
				k := int(e.Sel) % len(cur)
				cur = append(cur[:k:k], cur[k+1:]...)
			}
			cur = append(cur, issuer.newKey(x))
		case "deactivate":
			dead = true
			cur = nil
			withCtrl = false
		case "setctrl":
			withCtrl, hasCtrl = true, true
		case "unsetctrl":
			withCtrl = false
		case "touch":
		}
		if withCtrl {
			issuer.publish(x, now, cur, dead, ctrl.DID)
		} else {
			issuer.publish(x, now, cur, dead)
		}
		versions = append(versions, c01bVersion{at: now, assertion: cur, deactivated: dead, ctrl: withCtrl})
	}
	key := int(c.KeySel) % len(issuer.keys)
	// credential
	issued := c01T0.Add(time.Duration(c.IssueAt) * time.Second)
	var expires *time.Time
	if c.FarExpiry {
		expires = c01Ptr(time.Date(2090, 1, 1, 0, 0, 0, 0, time.UTC))
	} else if c.ExpiryAfter > 0 {
		expires = c01Ptr(issued.Add(time.Duration(c.ExpiryAfter) * time.Second))
	}
	subjectDID := "did:nuts:c01subject"
	spec := c01CredSpec{Format: c.Format, Issuer: issuer.DID.String(), KID: issuer.keys[key].KID,
		ID: fmt.Sprintf("%s#cred-%d", issuer.DID.String(), f.seq.Add(1)), Issued: issued, Expires: expires}
	if c.ForeignKey {
		spec.KID = foreignKID
		x.Class("foreign-signer=" + c01bForeignName(c.Foreign))
	}
	// JSON-LD: the proof's own window (ProofOptions.ValidAt: created <= at+skew, at <= expires+skew)
	proofCreated := issued
	var proofExpires *time.Time
	if c.Format == "ldp_vc" {
		proofCreated = issued.Add(time.Duration(c.ProofCreatedDelta) * time.Second)
		if c.ProofExpiresAfter != 0 {
			proofExpires = c01Ptr(issued.Add(time.Duration(c.ProofExpiresAfter) * time.Second))
		}
		spec.ProofCreated, spec.ProofExpires = &proofCreated, proofExpires
		if c.ProofCreatedDelta != 0 || proofExpires != nil {
			x.Class("proof-window-differs-from-credential-window")
		}
	}
	if c.Kind == "ura" {
		spec.Type, spec.Contexts = "NutsUraCredential", []string{"https://nuts.nl/credentials/2024"}
		spec.Subject = []any{map[string]any{"id": subjectDID, "organization": map[string]any{"ura": "1234", "name": "n", "city": "c"}}}
	} else {
		spec.Type, spec.Contexts = "NutsOrganizationCredential", []string{"https://nuts.nl/credentials/v1"}
		spec.Subject = []any{map[string]any{"id": subjectDID, "organization": map[string]any{"name": "n", "city": "c"}}}
	}
	cred := f.signCredential(x, spec)
	var faultStore *c01FaultStore
	for _, k := range c01RevStoreFaults {
		if k == c.StoreFault {
			faultStore = f.newFaultStore(x, k)
		}
	}
	revStore := f.revStore
	if faultStore != nil {
		revStore = faultStore
	}
	v, tc := f.newVerifierOn(x, revStore)
	if c.Trusted {
		ty := spec.Type
		if c.TrustOtherType {
			ty = "SomeOtherCredential"
		}
		x.NoErr(tc.AddTrust(ssi.MustParseURI(ty), cred.Issuer), "AddTrust")
	}
	trusted := c.Trusted && !c.TrustOtherType
	if c.Revoked {
		x.NoErr(revStore.StoreRevocation(credential.Revocation{Issuer: cred.Issuer, Subject: *cred.ID, Date: issued.Add(time.Second)}), "StoreRevocation")
	}

	// reference
	versionAt := func(at *time.Time) *c01bVersion {
		if at == nil {
			return &versions[len(versions)-1]
		}
		var cur *c01bVersion
		for i := range versions {
			if !versions[i].at.After(*at) {
				cur = &versions[i]
			}
		}
		return cur
	}
	type verdict int
	const (
		mustReject verdict = iota
		mustAccept
		either
	)
	var referenceRest func(at *time.Time) (verdict, string)
	reference := func(at *time.Time) (verdict, string) {
		if c.Revoked {
			// revoked => never valid, whatever the store does (an error is a rejection as well)
			if faultStore != nil && faultStore.active {
				if rest, _ := referenceRest(at); rest == mustAccept {
					x.Class("revoked+store-unreadable+otherwise-valid-probe")
				}
				return mustReject, "revoked-while-revocation-store-unreadable"
			}
			return mustReject, "revoked"
		}
		return referenceRest(at)
	}
	// everything but revocation
	referenceRest = func(at *time.Time) (verdict, string) {
		if c.ForeignKey {
			return mustReject, "proof-by-key-of-another-did:" + c01bForeignName(c.Foreign)
		}
		if !trusted && !c.AllowUntrusted {
			return mustReject, "untrusted"
		}
		t := time.Now()
		if at != nil {
			t = *at
		}
		// window with the documented skew
		if t.Add(c01Skew * time.Second).Before(issued) {
			return mustReject, "before-issuance"
		}
		if expires != nil && t.Add(-c01Skew*time.Second).After(*expires) {
			return mustReject, "after-expiry"
		}
		if c.Format == "ldp_vc" {
			// the signed proof options are bound to the validation time as well (same skew)
			if proofCreated.After(t.Add(c01Skew * time.Second)) {
				return mustReject, "before-proof-created"
			}
			if proofExpires != nil && proofExpires.Add(c01Skew*time.Second).Before(t) {
				return mustReject, "after-proof-expires"
			}
		}
		ver := versionAt(at)
		if ver == nil {
			return mustReject, "no-document-version-yet"
		}
		if ver.deactivated {
			return mustReject, "deactivated"
		}
		if ver.ctrl && ctrlDead != nil && (at == nil || !at.Before(*ctrlDead)) {
			return mustReject, "controller-deactivated"
		}
		has := false
		for _, k := range ver.assertion {
			if k == key {
				has = true
			}
		}
		if !has {
			return mustReject, "key-not-an-assertion-method"
		}
		if c.Format == "jwt_vc" {
			// the JWT's own nbf / exp are validated without skew
			if t.Before(issued) || (expires != nil && !t.Before(*expires)) {
				return either, "jwt-skew-zone"
			}
		}
		return mustAccept, "ok"
	}

	// probes
	instants := func(p c01bProbe) *time.Time {
		d := time.Duration(p.Delta) * time.Second
		switch p.Base {
		case "nil":
			return nil
		case "issue-skew":
			return c01Ptr(issued.Add(-c01Skew * time.Second).Add(d))
		case "issue":
			return c01Ptr(issued.Add(d))
		case "expiry":
			if expires == nil {
				return c01Ptr(issued.Add(d))
			}
			return c01Ptr(expires.Add(d))
		case "expiry+skew":
			if expires == nil {
				return c01Ptr(issued.Add(d))
			}
			return c01Ptr(expires.Add(c01Skew * time.Second).Add(d))
		case "version":
			return c01Ptr(versions[int(p.Idx)%len(versions)].at.Add(d))
		case "pcreated-skew":
			return c01Ptr(proofCreated.Add(-c01Skew * time.Second).Add(d))
		case "pcreated":
			return c01Ptr(proofCreated.Add(d))
		case "pexpires":
			if proofExpires == nil {
				return c01Ptr(proofCreated.Add(d))
			}
			return c01Ptr(proofExpires.Add(d))
		case "pexpires+skew":
			if proofExpires == nil {
				return c01Ptr(proofCreated.Add(d))
			}
			return c01Ptr(proofExpires.Add(c01Skew * time.Second).Add(d))
		case "ctrl":
			if ctrlDead != nil {
				return c01Ptr(ctrlDead.Add(d))
			}
			return c01Ptr(versions[int(p.Idx)%len(versions)].at.Add(d))
		default:
			return c01Ptr(versions[len(versions)-1].at.Add(time.Duration(1000+int(p.Idx)) * time.Second).Add(d))
		}
	}
	boundaries := []time.Time{issued.Add(-c01Skew * time.Second), issued}
	if expires != nil {
		boundaries = append(boundaries, *expires, expires.Add(c01Skew*time.Second))
	}
	for _, ver := range versions {
		boundaries = append(boundaries, ver.at)
	}
	if c.Format == "ldp_vc" {
		boundaries = append(boundaries, proofCreated.Add(-c01Skew*time.Second))
		if proofExpires != nil {
			boundaries = append(boundaries, proofExpires.Add(c01Skew*time.Second))
		}
	}
	if ctrlDead != nil && hasCtrl {
		boundaries = append(boundaries, *ctrlDead)
	}
	nearBoundary := func(at *time.Time) bool {
		if at == nil {
			return false
		}
		for _, b := range boundaries {
			d := at.Sub(b)
			if d < 0 {
				d = -d
			}
			if d <= c01Skew*time.Second {
				return true
			}
		}
		return false
	}
	x.Class("fmt=" + c.Format)
	x.Classf("versions=%d", len(versions))
	if dead {
		x.Class("history-has-deactivation")
	}
	if hasCtrl {
		x.Class("history-has-controller")
		if ctrlDead != nil {
			x.Class("controller-gets-deactivated")
		}
	}
	seenWhy := map[string]bool{}
	for i, p := range c.Probes {
		at := instants(p)
		if faultStore != nil && i >= c.StoreFaultFrom {
			faultStore.fail(x)
		}
		want, why := reference(at)
		if faultStore != nil && faultStore.active && want == mustAccept {
			// not revoked, but the node cannot know: an error is fine, no expectation
			want, why = either, "revocation-store-unreadable"
		}
		err := v.Verify(cred, c.AllowUntrusted, true, at)
		h.Count("C01", x.Unit, "probes", 1)
		seenWhy[why] = true
		if nearBoundary(at) {
			x.NonTrivial()
		}
		rel := "nil"
		if at != nil {
			rel = fmt.Sprintf("T0%+ds", int(at.Sub(c01T0)/time.Second))
		}
		switch {
		case want == mustReject && err == nil:
			x.Logf("probe %d (%s %d %+d = %s): accepted, reference: %s; issued T0%+ds expires %v versions %+v key %d", i, p.Base, p.Idx, p.Delta, rel, why, c.IssueAt, expires, versions, key)
			sig := "accepted:" + why
			if why == "before-issuance" || why == "after-expiry" {
				sig += ":" + c.Format // the window is checked per format; the other reasons are not
			}
			x.Violate(sig, "probe %d (validAt = %s): Verify accepts the credential, the reference rejects it (%s)", i, rel, why)
		case want == mustAccept && err != nil:
			x.Logf("probe %d (%s %d %+d = %s): rejected with %v; issued T0%+ds expires %v versions %+v key %d", i, p.Base, p.Idx, p.Delta, rel, err, c.IssueAt, expires, versions, key)
			x.Violate("rejected:"+c01bErrClass(err)+":"+c.Format, "probe %d (validAt = %s): Verify rejects the credential, the reference accepts it", i, rel)
		}
	}
	if faultStore != nil {
		x.Class("rev-store-fault=" + faultStore.kind)
		if faultStore.reads > 0 {
			x.Class("rev-store-fault-hit-by-a-look-up")
			if c.Revoked {
				x.Class("rev-store-fault-hit-while-revoked")
			}
		}
	}
	var whys []string
	for w := range seenWhy {
		whys = append(whys, w)
	}
	sort.Strings(whys)
	for _, w := range whys {
		x.Class("ref=" + w)
	}
}

func c01bForeignName(v string) string {
	switch v {
	case "path", "host-suffix", "suffix", "prefix", "case", "kid-bare", "kid-double-fragment":
		return v
	}
	return "unrelated"
}

func c01bErrClass(err error) string {
	s := err.Error()
	for _, k := range []string{"not valid at", "revoked", "untrusted", "deactivated", "unable to find the DID document", "key not found", "could not validate issuer", "invalid signature", "unable to validate JWT", "nbf", "exp"} {
		if containsFold(s, k) {
			return k
		}
	}
	return "other"
}

func containsFold(s, sub string) bool {
	return len(sub) > 0 && len(s) >= len(sub) && (indexFold(s, sub) >= 0)
}

func indexFold(s, sub string) int {
	ls, lsub := []byte(s), []byte(sub)
	lower := func(b byte) byte {
		if b >= 'A' && b <= 'Z' {
			return b + 32
		}
		return b
	}
	for i := 0; i+len(lsub) <= len(ls); i++ {
		ok := true
		for j := range lsub {
			if lower(ls[i+j]) != lower(lsub[j]) {
				ok = false
				break
			}
		}
		if ok {
			return i
		}
	}
	return -1
}

func TestVerif_C01_Window(t *testing.T) {
	c01Setup(t)
	h.Check(t, "C01", c01bGen, c01bRun)
}

func TestVerifReplay_C01_Window(t *testing.T) {
	c01Setup(t)
	h.Replay(t, "C01", "TestVerif_C01_Window", c01bRun)
}
