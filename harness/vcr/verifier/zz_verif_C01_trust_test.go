//go:build verif

package verifier_test

// C01-d: trust histories ("has a trusted issuer when trust is required", over histories and restarts).
//
// The real trust.Config, backed by a file in the case's scratch directory, is driven by a generated history of
// AddTrust / RemoveTrust per (credential type, issuer), interleaved with verifications and with RESTARTS (a new
// trust.Config on the same file + Load() and a new verifier on it, which is what vcr.Configure does). Two issuers x two
// credential types = four otherwise flawless credentials (valid proof, inside their window, not revoked).
// Oracle = a set of (type, issuer) pairs maintained by the same sequence of mutations:
//   - Verify(credential, allowUntrusted, true, nil) accepts  <=>  allowUntrusted || (type, issuer) in the set - before and
//     after every restart, and for all four credentials at the end of the history and once more after a final restart;
//   - after every mutation the running configuration lists exactly the set, and so does a fresh trust.Config loaded from
//     the file (the file content equals the model).

import (
	"fmt"
	"path/filepath"
	"sort"
	"strings"
	"testing"
	"time"

	ssi "github.com/nuts-foundation/go-did"
	"github.com/nuts-foundation/go-did/vc"
	"github.com/nuts-foundation/nuts-node/vcr/trust"
	"github.com/nuts-foundation/nuts-node/vcr/verifier"
	"pgregory.net/rapid"
	"verif.local/h"
)

type c01tOp struct {
	K     string `json:"k"`               // add | remove | restart | verify
	T     int    `json:"t,omitempty"`     // credential type 0 | 1
	I     int    `json:"i,omitempty"`     // issuer 0 | 1
	Allow bool   `json:"allow,omitempty"` // verify: allowUntrusted
}

type c01tCase struct {
	Format string   `json:"fmt"` // ldp_vc | jwt_vc
	Ops    []c01tOp `json:"ops"`
}

var c01tTypes = []struct{ name, context string }{
	{"NutsOrganizationCredential", "https://nuts.nl/credentials/v1"},
	{"NutsUraCredential", "https://nuts.nl/credentials/2024"},
}

func c01tGen(t *rapid.T) c01tCase {
	c := c01tCase{Format: rapid.SampledFrom([]string{"ldp_vc", "jwt_vc"}).Draw(t, "fmt")}
	n := rapid.IntRange(1, 14).Draw(t, "n")
	for i := 0; i < n; i++ {
		op := c01tOp{
			K: rapid.SampledFrom([]string{"add", "add", "add", "remove", "remove", "restart", "verify", "verify"}).Draw(t, fmt.Sprintf("o%d.k", i)),
			T: rapid.IntRange(0, 1).Draw(t, fmt.Sprintf("o%d.t", i)),
			I: rapid.IntRange(0, 1).Draw(t, fmt.Sprintf("o%d.i", i)),
		}
		if op.K == "verify" {
			op.Allow = rapid.IntRange(0, 4).Draw(t, fmt.Sprintf("o%d.allow", i)) == 0
		}
		if op.K == "restart" {
			op.T, op.I = 0, 0
		}
		c.Ops = append(c.Ops, op)
	}
	return c
}

func c01tRun(x *h.Ctx, c c01tCase) {
	if len(c.Ops) > 60 {
		return
	}
	f := c01F
	// two issuers, two types, four flawless credentials
	var issuers [2]*c01DID
	var creds [2][2]vc.VerifiableCredential
	issued := c01T0.Add(10 * time.Second)
	for i := range issuers {
		d := f.newDID(x)
		d.newKey(x)
		d.publish(x, c01T0, []int{0}, false)
		issuers[i] = d
		for ti, ty := range c01tTypes {
			org := map[string]any{"name": "n", "city": "c"}
			if ti == 1 {
				org["ura"] = "1234"
			}
			creds[ti][i] = f.signCredential(x, c01CredSpec{Format: c.Format, Type: ty.name, Contexts: []string{ty.context},
				Issuer: d.DID.String(), KID: d.keys[0].KID, ID: fmt.Sprintf("%s#t-%d", d.DID.String(), f.seq.Add(1)),
				Subject: []any{map[string]any{"id": "did:nuts:c01subject", "organization": org}}, Issued: issued})
		}
	}
	file := filepath.Join(x.TempDir(), "trusted_issuers.yaml")
	start := func() (*trust.Config, verifier.Verifier) {
		tc := trust.NewConfig(file)
		x.NoErr(tc.Load(), "trust.Config.Load")
		return tc, verifier.NewVerifier(f.revStore, f.didRes, f.keyRes, f.jsonld, tc, f.statusList)
	}
	tc, v := start()
	model := map[[2]int]bool{}
	restarts, removals, mutatedSinceRestart := 0, 0, false

	listed := func(cfg *trust.Config, ti int) string {
		var l []string
		for _, u := range cfg.List(ssi.MustParseURI(c01tTypes[ti].name)) {
			l = append(l, u.String())
		}
		sort.Strings(l)
		return strings.Join(l, " ")
	}
	expected := func(ti int) string {
		var l []string
		for i := range issuers {
			if model[[2]int{ti, i}] {
				l = append(l, issuers[i].DID.String())
			}
		}
		sort.Strings(l)
		return strings.Join(l, " ")
	}
	// the running configuration and the file both equal the model
	checkState := func(step int, after string) {
		fresh := trust.NewConfig(file)
		x.NoErr(fresh.Load(), "load trust file")
		for ti := range c01tTypes {
			if listed(tc, ti) != expected(ti) {
				x.Violate("trust-state-differs-from-history:"+after, "step %d: after %s the running trust configuration does not list what the history says for type %d", step, after, ti)
			}
			if listed(fresh, ti) != expected(ti) {
				x.Logf("step %d after %s: file lists [%s] for %s, history says [%s]", step, after, listed(fresh, ti), c01tTypes[ti].name, expected(ti))
				x.Violate("trust-file-differs-from-history:"+after, "step %d: after %s the trust file does not contain what the history says for type %d (a restart would trust other issuers than the running node)", step, after, ti)
			}
		}
	}
	verify := func(step int, ti, i int, allow bool, when string) {
		err := v.Verify(creds[ti][i], allow, true, nil)
		want := allow || model[[2]int{ti, i}]
		phase := "running"
		if restarts > 0 && !mutatedSinceRestart {
			phase = "after-restart"
		}
		switch {
		case want && err != nil:
			x.Logf("step %d (%s): %v", step, when, err)
			x.Violate("rejected:trusted-by-history:"+phase, "step %d (%s): Verify(allowUntrusted=%v) rejects a flawless credential of type %d whose issuer %d the trust history trusts", step, when, allow, ti, i)
		case !want && err == nil:
			x.Violate("accepted:untrusted-by-history:"+phase, "step %d (%s): Verify(allowUntrusted=false) accepts a credential of type %d whose issuer %d the trust history does not trust", step, when, ti, i)
		}
		h.Count("C01", x.Unit, "verifications", 1)
	}

	for step, op := range c.Ops {
		ti, i := ((op.T%2)+2)%2, ((op.I%2)+2)%2
		switch op.K {
		case "add":
			x.NoErr(tc.AddTrust(ssi.MustParseURI(c01tTypes[ti].name), creds[ti][i].Issuer), "AddTrust")
			model[[2]int{ti, i}] = true
			mutatedSinceRestart = true
			checkState(step, "add")
		case "remove":
			if model[[2]int{ti, i}] {
				removals++
			}
			x.NoErr(tc.RemoveTrust(ssi.MustParseURI(c01tTypes[ti].name), creds[ti][i].Issuer), "RemoveTrust")
			delete(model, [2]int{ti, i})
			mutatedSinceRestart = true
			checkState(step, "remove")
		case "restart":
			tc, v = start()
			restarts++
			mutatedSinceRestart = false
			checkState(step, "restart")
		case "verify":
			verify(step, ti, i, op.Allow, "verify")
		}
		if len(x.Violations()) > 0 {
			return
		}
	}
	// the end of every history: all four credentials, then once more after a restart
	for round := 0; round < 2; round++ {
		for ti := range c01tTypes {
			for i := range issuers {
				verify(len(c.Ops), ti, i, false, fmt.Sprintf("final round %d", round))
			}
		}
		if round == 0 {
			tc, v = start()
			restarts++
			mutatedSinceRestart = false
			checkState(len(c.Ops), "restart")
		}
	}
	x.Class("fmt=" + c.Format)
	if removals > 0 {
		x.Class("history-removes-a-trusted-issuer")
		x.NonTrivial()
	}
	if restarts > 1 {
		x.Class("history-has-a-restart-in-the-middle")
	}
	x.Classf("trusted-pairs-at-end=%d", len(model))
}

func TestVerif_C01_Trust(t *testing.T) {
	c01Setup(t)
	h.Check(t, "C01", c01tGen, c01tRun)
}

func TestVerifReplay_C01_Trust(t *testing.T) {
	c01Setup(t)
	h.Replay(t, "C01", "TestVerif_C01_Trust", c01tRun)
}
