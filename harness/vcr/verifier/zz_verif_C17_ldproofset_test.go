//go:build verif

package verifier

// C17, consumer 5c: JSON-LD proof SETS. "Exactly one signature" for a JSON-LD document means exactly one proof. A real
// credential / presentation / revocation of the victim is signed with the node's own LDProof.Sign and then offered with its
// `proof` member rewritten: the canonical single object, one-element array, the valid proof plus a copy / a second valid
// proof / a forged one / one naming another party's key, forged first, empty array, nulls, nested arrays, no proof at all.
// Entry points: vc.ParseVerifiableCredential + signatureVerifier.VerifySignature, vc.ParseVerifiablePresentation +
// VerifyVPSignature, json -> credential.Revocation (as the ambassador does) + verifier.RegisterRevocation.
// Ground truth: zero or >= 2 proofs -> must reject; exactly one proof -> it must be the valid one; the canonical form
// (proof is one object, the valid proof) must be accepted; one valid proof in a non-canonical wrapping carries no expectation.

import (
	"context"
	"crypto"
	"encoding/json"
	"fmt"
	"strings"
	"testing"
	"time"

	ssi "github.com/nuts-foundation/go-did"
	"github.com/nuts-foundation/go-did/vc"
	"github.com/nuts-foundation/nuts-node/audit"
	nutsCrypto "github.com/nuts-foundation/nuts-node/crypto"
	"github.com/nuts-foundation/nuts-node/jsonld"
	"github.com/nuts-foundation/nuts-node/vcr/credential"
	"github.com/nuts-foundation/nuts-node/vcr/signature"
	"github.com/nuts-foundation/nuts-node/vcr/signature/proof"
	"go.uber.org/mock/gomock"
	"pgregory.net/rapid"
	"verif.local/h"
	"verif.local/h/jose"
)

type c17SetCase struct {
	Doc   string   `json:"doc"`   // vc | vp | revocation
	Wrap  string   `json:"wrap"`  // object (elems[0] as the member; absent when there are no elems) | array | nested ([[...]]) | tail-nested ([e0,[rest]])
	Elems []string `json:"elems"` // valid | valid2 | forged | other | other-garbage | null | empty
	VKey  string   `json:"vkey"`
	AKey  string   `json:"akey"`
}

var c17SetElems = []string{"valid", "valid2", "forged", "other", "other-garbage", "null", "empty"}

// c17SetShapes are the shapes every run should see often; the rest is drawn freely.
var c17SetShapes = []struct {
	wrap  string
	elems []string
}{
	{"object", []string{"valid"}},
	{"array", []string{"valid"}},
	{"array", []string{"valid", "valid"}},
	{"array", []string{"valid", "valid2"}},
	{"array", []string{"valid", "forged"}},
	{"array", []string{"valid", "other"}},
	{"array", []string{"valid", "other-garbage"}},
	{"array", []string{"forged", "valid"}},
	{"array", []string{"other", "valid"}},
	{"array", nil},
	{"array", []string{"null"}},
	{"array", []string{"valid", "null"}},
	{"array", []string{"null", "valid"}},
	{"nested", []string{"valid"}},
	{"nested", []string{"valid", "forged"}},
	{"tail-nested", []string{"valid", "forged"}},
	{"tail-nested", []string{"valid", "valid2"}},
	{"object", nil},
	{"object", []string{"forged"}},
	{"object", []string{"null"}},
	{"object", []string{"empty"}},
	{"array", []string{"valid", "empty"}},
	{"array", []string{"valid", "forged", "other"}},
}

func c17SetGen(t *rapid.T) c17SetCase {
	c := c17SetCase{
		Doc:  rapid.SampledFrom([]string{"vc", "vc", "vp", "revocation"}).Draw(t, "doc"),
		VKey: rapid.SampledFrom(jose.AllKeyTypes).Draw(t, "vkey"),
		AKey: rapid.SampledFrom(jose.AllKeyTypes).Draw(t, "akey"),
	}
	if rapid.IntRange(0, 3).Draw(t, "free") == 3 {
		c.Wrap = rapid.SampledFrom([]string{"array", "array", "nested", "tail-nested", "object"}).Draw(t, "wrap")
		n := rapid.IntRange(0, 3).Draw(t, "n")
		for i := 0; i < n; i++ {
			c.Elems = append(c.Elems, rapid.SampledFrom(c17SetElems).Draw(t, "elem"))
		}
	} else {
		s := rapid.SampledFrom(c17SetShapes).Draw(t, "shape")
		c.Wrap, c.Elems = s.wrap, append([]string(nil), s.elems...)
	}
	return c
}

func c17SetDocument(x *h.Ctx, doc string) proof.Document {
	var raw string
	switch doc {
	case "vp":
		raw = `{"@context": ["https://www.w3.org/2018/credentials/v1"], "type": "VerifiablePresentation", "holder": "` + c17VictimDID + `"}`
	case "revocation":
		r := credential.BuildRevocation(ssi.MustParseURI(c17VictimDID), ssi.MustParseURI(c17VictimDID+"#6f1f3f0a-8e45-4c7b-9a53-0c7e2f1f3c17"))
		r.Date = time.Date(2024, 1, 1, 0, 0, 0, 0, time.UTC)
		b, err := json.Marshal(r)
		x.NoErr(err, "marshal revocation")
		raw = string(b)
	default:
		raw = `{
		"@context": ["https://www.w3.org/2018/credentials/v1", "https://www.w3.org/2018/credentials/examples/v1"],
		"id": "` + c17VictimDID + `#c17",
		"type": ["VerifiableCredential", "UniversityDegreeCredential"],
		"issuer": "` + c17VictimDID + `",
		"issuanceDate": "2020-03-10T04:24:12Z",
		"credentialSubject": {"id": "did:example:456", "degree": {"type": "BachelorDegree", "name": "Bachelor of Science and Arts"}}}`
	}
	var d proof.Document
	x.NoErr(json.Unmarshal([]byte(raw), &d), "document")
	return d
}

// c17SetSign makes a real proof over the document and returns the signed document as a generic map.
func c17SetSign(x *h.Ctx, docKind string, key jose.Key, kid string, created time.Time) map[string]interface{} {
	ctrl := gomock.NewController(x.TB)
	signer := nutsCrypto.NewMockJWTSigner(ctrl)
	signer.EXPECT().SignJWS(gomock.Any(), gomock.Any(), gomock.Any(), gomock.Any(), gomock.Any()).AnyTimes().DoAndReturn(
		func(_ context.Context, payload []byte, headers map[string]interface{}, kid string, detached bool) (string, error) {
			headers["kid"] = kid
			return nutsCrypto.SignJWS(audit.TestContext(), payload, headers, key.Priv.(crypto.Signer), detached)
		})
	signed, err := proof.NewLDProof(proof.ProofOptions{Created: created}).Sign(context.Background(), c17SetDocument(x, docKind),
		signature.JSONWebSignature2020{ContextLoader: c17LDBJSON.DocumentLoader(), Signer: signer}, kid)
	x.NoErr(err, "LDProof.Sign")
	b, err := json.Marshal(signed)
	x.NoErr(err, "marshal signed document")
	var m map[string]interface{}
	x.NoErr(json.Unmarshal(b, &m), "signed document as map")
	return m
}

func c17SetCopy(m map[string]interface{}) map[string]interface{} {
	out := map[string]interface{}{}
	for k, v := range m {
		out[k] = v
	}
	return out
}

func c17SetForgeJWS(jwsValue string) string {
	parts := strings.Split(jwsValue, "..")
	if len(parts) != 2 || len(parts[1]) < 4 {
		return "e30..AAAA"
	}
	// same header, same length, other signature bytes
	sig := []byte(parts[1])
	for i := 0; i < len(sig)-1; i++ {
		if sig[i] == 'A' {
			sig[i] = 'B'
		} else {
			sig[i] = 'A'
		}
	}
	return parts[0] + ".." + string(sig)
}

func c17SetRun(x *h.Ctx, c c17SetCase) {
	c17LDBOnce.Do(func() { c17LDBJSON = jsonld.NewTestJSONLDManager(x.TB) })
	if c.Doc != "vp" && c.Doc != "revocation" {
		c.Doc = "vc"
	}
	if len(c.Elems) > 6 {
		return
	}
	keys := jose.Keys(jose.Variant{VKey: c.VKey, AKey: c.AKey})
	w := jose.World{Kids: map[string]string{jose.Victim: c17VictimDID + "#0", jose.Attacker: c17AttackerDID + "#0"}}
	res, _ := c17NewResolver(w, keys)
	now := time.Now()

	base := c17SetSign(x, c.Doc, keys[jose.Victim], w.Kids[jose.Victim], now.Add(-time.Hour))
	validProof, _ := base["proof"].(map[string]interface{})
	if validProof == nil {
		x.Fatalf("signed document has no proof object: %v", base["proof"])
	}
	// build the elements
	var elems []interface{}
	proofCount := 0
	var single string
	for _, e := range c.Elems {
		switch e {
		case "valid":
			elems = append(elems, c17SetCopy(validProof))
		case "valid2":
			second := c17SetSign(x, c.Doc, keys[jose.Victim], w.Kids[jose.Victim], now.Add(-2*time.Hour))
			elems = append(elems, second["proof"])
		case "forged":
			f := c17SetCopy(validProof)
			f["jws"] = c17SetForgeJWS(fmt.Sprint(f["jws"]))
			elems = append(elems, f)
		case "other":
			other := c17SetSign(x, c.Doc, keys[jose.Attacker], w.Kids[jose.Attacker], now.Add(-time.Hour))
			elems = append(elems, other["proof"])
		case "other-garbage":
			f := c17SetCopy(validProof)
			f["verificationMethod"] = w.Kids[jose.Attacker]
			f["jws"] = c17SetForgeJWS(fmt.Sprint(f["jws"]))
			elems = append(elems, f)
		case "empty":
			elems = append(elems, map[string]interface{}{})
		default:
			e = "null"
			elems = append(elems, nil)
		}
		if e != "null" {
			proofCount++
			single = e
		}
	}
	doc := c17SetCopy(base)
	delete(doc, "proof")
	canonical := false
	switch c.Wrap {
	case "nested":
		doc["proof"] = []interface{}{append([]interface{}{}, elems...)}
	case "tail-nested":
		if len(elems) >= 2 {
			doc["proof"] = []interface{}{elems[0], append([]interface{}{}, elems[1:]...)}
		} else {
			doc["proof"] = append([]interface{}{}, elems...)
		}
	case "object":
		if len(elems) == 1 {
			doc["proof"] = elems[0]
			canonical = true
		} else if len(elems) > 1 {
			doc["proof"] = append([]interface{}{}, elems...)
		} // no elems: no proof member at all
	default:
		doc["proof"] = append([]interface{}{}, elems...)
	}
	raw, err := json.Marshal(doc)
	x.NoErr(err, "marshal offered document")

	// hand it over the way the node receives it
	stage := "parse"
	var verr error
	switch c.Doc {
	case "vp":
		var vp *vc.VerifiablePresentation
		if vp, verr = vc.ParseVerifiablePresentation(string(raw)); verr == nil {
			stage = "verify"
			sv := signatureVerifier{keyResolver: res, jsonldManager: c17LDBJSON}
			verr = sv.VerifyVPSignature(*vp, nil)
		}
	case "revocation":
		var r credential.Revocation
		if verr = json.Unmarshal(raw, &r); verr == nil {
			stage = "verify"
			ctrl := gomock.NewController(x.TB)
			store := NewMockStore(ctrl)
			store.EXPECT().StoreRevocation(gomock.Any()).AnyTimes().Return(nil)
			v := verifier{keyResolver: res, jsonldManager: c17LDBJSON, store: store}
			verr = v.RegisterRevocation(r)
		}
	default:
		var cred *vc.VerifiableCredential
		if cred, verr = vc.ParseVerifiableCredential(string(raw)); verr == nil {
			stage = "verify"
			sv := signatureVerifier{keyResolver: res, jsonldManager: c17LDBJSON}
			verr = sv.VerifySignature(*cred, nil)
		}
	}
	accepted := verr == nil

	// ground truth
	singleValid := single == "valid" || single == "valid2"
	verdict, reason := "no-expectation", ""
	switch {
	case proofCount == 0:
		verdict, reason = "must-reject", "sigcount-0"
	case proofCount >= 2:
		verdict, reason = "must-reject", "sigcount-multiple"
	case !singleValid:
		verdict, reason = "must-reject", "single-proof-"+single
		if single == "other" && c.Doc == "vp" {
			// a presentation is signed by whoever its proof names: a real proof by another party is that party's presentation
			verdict, reason = "no-expectation", ""
		}
	case canonical:
		verdict = "must-accept"
	}
	shape := c.Wrap + "[" + strings.Join(c.Elems, ",") + "]"
	x.NonTrivial()
	x.Class("doc:" + c.Doc)
	x.Classf("proofs:%d", proofCount)
	x.Classf("truth:%s:accepted=%v", verdict, accepted)
	if len(c.Elems) <= 2 {
		x.Classf("shape:%s:%s:accepted=%v", c.Doc, shape, accepted)
	}
	if !accepted {
		x.Class("rejected-at:" + stage)
	}
	if verdict == "no-expectation" {
		x.Classf("observe:%s:%s:accepted=%v", c.Doc, shape, accepted)
	}
	switch {
	case verdict == "must-reject" && accepted:
		x.Violate("C17:ldset:"+c.Doc+":accepted:"+reason, "%s with proof %s (%d proofs) was accepted (keys asked: %q): %s", c.Doc, shape, proofCount, res.asked, raw)
	case verdict == "must-accept" && !accepted:
		x.Violate("C17:ldset:"+c.Doc+":valid-rejected", "%s with its one valid proof as a single object was rejected at %s: %v", c.Doc, stage, verr)
	}
	if accepted {
		for _, asked := range res.asked {
			if asked != w.Kids[jose.Victim] && !(single == "other" && asked == w.Kids[jose.Attacker]) {
				x.Violate("C17:ldset:"+c.Doc+":key-source:not-the-verification-method", "accepted after asking the key source for %q (proof %s)", asked, shape)
			}
		}
	}
}

func TestVerif_C17_LDProofSet(t *testing.T) {
	h.Check(t, "C17", c17SetGen, c17SetRun, h.PanicIsViolation())
}
func TestVerifReplay_C17_LDProofSet(t *testing.T) {
	h.Replay(t, "C17", "TestVerif_C17_LDProofSet", c17SetRun, h.PanicIsViolation())
}
