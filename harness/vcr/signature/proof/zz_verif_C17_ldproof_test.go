//go:build verif

package proof

// C17, consumer 7: JSON-LD proofs (JsonWebSignature2020) — LDProof.Verify. The proof's `jws` member is a compact JWS with
// unencoded detached payload ("<header>..<signature>"); the key is the one named by the (signed) verificationMethod and the
// algorithm is derived from that key, so the games are played on the jws header, its shape and the signature.
// The signing payload (digest of canonical proof options || digest of canonical document) is captured from the real
// LDProof.Sign through a recording signer, so the valid variant is exactly what the node itself would emit.

import (
	"context"
	"encoding/json"
	"sync"
	"testing"
	"time"

	ssi "github.com/nuts-foundation/go-did"
	nutsCrypto "github.com/nuts-foundation/nuts-node/crypto"
	"github.com/nuts-foundation/nuts-node/jsonld"
	"github.com/nuts-foundation/nuts-node/vcr/signature"
	"github.com/piprate/json-gold/ld"
	"go.uber.org/mock/gomock"
	"pgregory.net/rapid"
	"verif.local/h"
	"verif.local/h/jose"
)

type c17LDCase struct {
	V jose.Variant `json:"v"`
}

const c17LDKid = "did:web:example.com:iam:victim#0"

const c17LDDoc = `{
	"@context": ["https://www.w3.org/2018/credentials/v1", "https://www.w3.org/2018/credentials/examples/v1"],
	"id": "did:web:example.com:iam:victim#c17",
	"type": ["VerifiableCredential", "UniversityDegreeCredential"],
	"issuer": "did:web:example.com:iam:victim",
	"issuanceDate": "2020-03-10T04:24:12Z",
	"credentialSubject": {"id": "did:example:456", "degree": {"type": "BachelorDegree", "name": "Bachelor of Science and Arts"}}
}`

var (
	c17LDOnce   sync.Once
	c17LDLoader ld.DocumentLoader
	c17LDTbs    []byte
	c17LDHdrs   map[string]interface{}
	c17LDErr    error
)

func c17LDOptions() ProofOptions {
	return ProofOptions{Created: time.Date(2024, 1, 1, 0, 0, 0, 0, time.UTC), ProofPurpose: AssertionMethodProofPurpose}
}

func c17LDDocument(x *h.Ctx) Document {
	var doc Document
	x.NoErr(json.Unmarshal([]byte(c17LDDoc), &doc), "document")
	return doc
}

// c17LDSetup runs the real LDProof.Sign once with a recording signer to learn the signing payload and headers.
func c17LDSetup(x *h.Ctx) {
	c17LDOnce.Do(func() {
		c17LDLoader = jsonld.NewTestJSONLDManager(x.TB).DocumentLoader()
		ctrl := gomock.NewController(x.TB)
		signer := nutsCrypto.NewMockJWTSigner(ctrl)
		signer.EXPECT().SignJWS(gomock.Any(), gomock.Any(), gomock.Any(), gomock.Any(), gomock.Any()).AnyTimes().DoAndReturn(
			func(_ context.Context, payload []byte, headers map[string]interface{}, _ string, detached bool) (string, error) {
				c17LDTbs = append([]byte(nil), payload...)
				c17LDHdrs = headers
				if !detached {
					x.Fatalf("expected a detached JWS")
				}
				return "e30..AA", nil
			})
		_, c17LDErr = NewLDProof(c17LDOptions()).Sign(context.Background(), c17LDDocument(x), signature.JSONWebSignature2020{ContextLoader: c17LDLoader, Signer: signer}, c17LDKid)
	})
	x.NoErr(c17LDErr, "LDProof.Sign with recording signer")
	if len(c17LDTbs) != 64 {
		x.Fatalf("unexpected signing payload of %d bytes", len(c17LDTbs))
	}
	if b, ok := c17LDHdrs["b64"].(bool); !ok || b {
		x.Fatalf("unexpected jws headers %v", c17LDHdrs)
	}
}

func c17LDGen(t *rapid.T) c17LDCase {
	return c17LDCase{V: jose.Gen(t, jose.GenOpts{})}
}

func c17LDRun(x *h.Ctx, c c17LDCase) {
	c17LDSetup(x)
	w := jose.World{
		KeyRef:     "fixed",
		AlgFromKey: true,
		Detached:   true,
		Kids:       map[string]string{jose.Victim: c17LDKid, jose.Attacker: "did:web:example.com:iam:attacker#0", "unknown": "did:web:example.com:iam:nobody#0"},
		Header:     jose.Header{jose.RawM("b64", "false"), jose.RawM("crit", `["b64"]`)},
		Payload:    c17LDTbs,
	}
	keys := jose.Keys(c.V)
	b := jose.Build(w, c.V)

	p := LDProof{ProofOptions: c17LDOptions(), Type: ssi.JsonWebSignature2020, VerificationMethod: ssi.MustParseURI(c17LDKid), JWS: string(b.Token)}
	// the key the protocol designates: the one verificationMethod (covered by the signature) resolves to
	err := p.Verify(c17LDDocument(x), signature.JSONWebSignature2020{ContextLoader: c17LDLoader}, keys[jose.Victim].Public())
	obs := jose.Observation{Accepted: err == nil}
	if err != nil {
		obs.Err = err.Error()
	}
	fs, classes, nt := jose.Judge("ldproof", w, c.V, b, obs)
	for _, f := range fs {
		x.Violate(f.Sig, "%s", f.Msg)
	}
	for _, cl := range classes {
		x.Class(cl)
	}
	if nt {
		x.NonTrivial()
	}
}

func TestVerif_C17_LDProof(t *testing.T) {
	h.Check(t, "C17", c17LDGen, c17LDRun, h.PanicIsViolation())
}
func TestVerifReplay_C17_LDProof(t *testing.T) {
	h.Replay(t, "C17", "TestVerif_C17_LDProof", c17LDRun, h.PanicIsViolation())
}
