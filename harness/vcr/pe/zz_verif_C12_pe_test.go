//go:build verif

package pe

// C12 — Presentation Exchange: wallet and verifier agree; mappings cannot be forged.
//
// Flow per case: ParsePresentationDefinition → Match → PresentationSubmissionBuilder.Build → VP envelope (built the
// way vcr/holder/presenter.go does, unsigned) → ParseEnvelope → ParsePresentationSubmission → Validate / Resolve /
// ResolveConstraintsFields, then forged submissions → Validate. Expectations come from the reference matcher in
// zz_verif_C12_ref_test.go.
//
// Oracles (ids as in DESIGN.md §3 C12):
//  O1  every mapped (descriptor, credential) satisfies the reference predicate incl. both format constraints;
//      the number of selected credentials does not exceed what count/max allow (O1-cap)
//  (2) counter only: class "mapping-covers-less-than-selection"
//  O3  Match reports ErrNoCredentials  ⇔  the reference finds no complete selection; a successful Match covers the
//      requirement tree (never partial); other errors only where the implementation documents them
//  O4  Validate accepts the builder's own submission (when credentials map to descriptors in one way only: the
//      documented assumption of Validate) and returns the builder's mapping
//  O5  Validate accepts a forged submission only if every entry names a descriptor of the definition and resolves,
//      inside the envelope, to a presented credential that satisfies that descriptor; and, when the selection is
//      unambiguous (so the verifier's own matching must reproduce the builder's mapping), to exactly the credential
//      the builder mapped to that descriptor, with no mapped descriptor missing and none added
//  O6  ResolveConstraintsFields returns, per field id, the value at the path in the mapped credential / its capture
//  O7  no panic (recovered in C12Run with a stable message, signature from h.PanicSignature)
//
// Not demanded (classes "undecided:*", "selection-ambiguous", "O4-O5-not-demanded:*" count how often): verdicts where the
// implementation documents an error (pattern with several capture groups, object value under a filter), definitions
// whose groups are not referenced or whose count/min/max contradict each other (incl. max 0), the nested-requirement-
// satisfied-by-nothing reading, and Validate's behaviour when a credential fits several descriptors.

import (
	"encoding/json"
	"errors"
	"fmt"
	"runtime/debug"
	"sort"
	"strings"
	"testing"

	ssi "github.com/nuts-foundation/go-did"
	"github.com/nuts-foundation/go-did/did"
	"github.com/nuts-foundation/go-did/vc"
	"verif.local/h"
	"verif.local/h/jsonmut"
	. "verif.local/h/pegen"
)

func C12MustJSON(x *h.Ctx, v any) []byte {
	b, err := json.Marshal(v)
	x.NoErr(err, "marshal")
	return b
}

func C12FakeJWT(x *h.Ctx, header, payload map[string]any, unsigned bool) string {
	raw, err := C12CompactJWS(header, payload, unsigned)
	x.NoErr(err, "build JWS")
	return raw
}

type C12Built struct {
	label string // for messages: wallet position and id
	spec  C12Cred
	vc    vc.VerifiableCredential
	view  any // what a path is evaluated against (decoded JSON), built from the spec
	facts C12CredFacts
	raw   string
}

func C12Build(x *h.Ctx, c C12Cred) C12Built {
	b := C12Built{spec: c}
	var err error
	b.raw, b.view, b.facts, err = C12RawCredential(c)
	x.NoErr(err, "build generated credential")
	parsed, err := vc.ParseVerifiableCredential(b.raw)
	x.NoErr(err, "parse generated credential")
	b.vc = *parsed
	return b
}

// C12VP builds the presentation the holder would create for the selected credentials (vcr/holder/presenter.go),
// without a real signature: JSON-LD = marshalled VP + proof with verificationMethod; JWT = claims iss/sub/jti/vp.
func C12VP(x *h.Ctx, format string, creds []vc.VerifiableCredential) string {
	raw, err := C12VPRaw(format, creds)
	x.NoErr(err, "build presentation")
	return raw
}

func C12VPRaw(format string, creds []vc.VerifiableCredential) (string, error) {
	holder := ssi.MustParseURI(C12Holder)
	vp := vc.VerifiablePresentation{
		Context:              []ssi.URI{vc.VCContextV1URI()},
		Type:                 []ssi.URI{vc.VerifiablePresentationTypeV1URI()},
		Holder:               &holder,
		VerifiableCredential: creds,
	}
	vpJSON, err := json.Marshal(vp)
	if err != nil {
		return "", err
	}
	var doc map[string]any
	if err := json.Unmarshal(vpJSON, &doc); err != nil {
		return "", err
	}
	if format == "jwt" {
		hb, _ := json.Marshal(map[string]any{"alg": "ES256", "typ": "JWT", "kid": C12HolderKey})
		pb, err := json.Marshal(map[string]any{"iss": C12Holder, "sub": C12Holder, "jti": C12Holder + "#vp-1", "nbf": C12DateUnix, "exp": C12DateUnix + 60, "vp": doc})
		if err != nil {
			return "", err
		}
		return C12B64(hb) + "." + C12B64(pb) + "." + C12B64([]byte("not-a-real-signature-0123456789abcdef0123456789abcdef0123456789ab")), nil
	}
	doc["proof"] = map[string]any{"type": "JsonWebSignature2020", "verificationMethod": C12HolderKey, "proofPurpose": "authentication",
		"created": C12Date, "challenge": "n-1", "domain": "verifier", "jws": "e30..c2ln"}
	out, err := json.Marshal(doc)
	return string(out), err
}

// C12EnvelopeView is the JSON document mapping paths are relative to, built independently of ParseEnvelope:
// JSON-LD VP = the document, JWT VP = its vp claim (+ id from jti), array = list of those.
func C12VPView(x *h.Ctx, raw string) any {
	v, err := C12PresentationView(raw)
	x.NoErr(err, "decode presentation")
	return v
}

// ---------------------------------------------------------------------------------------------------------------------

// C12Run wraps the case so that a panic of the code under test becomes a violation with a *stable* message
// (function names only). h.PanicIsViolation would do the same but puts the raw stack (addresses, goroutine ids)
// into the failure text, which makes rapid treat the re-run of a shrunk case as a different failure and stop
// shrinking.
func C12Run(x *h.Ctx, c C12Case) {
	defer C12RecoverPanic(x)
	C12RunCase(x, c)
}

func C12RecoverPanic(x *h.Ctx) {
	r := recover()
	if r == nil {
		return
	}
	typ := fmt.Sprintf("%T", r)
	if strings.HasPrefix(typ, "h.") || strings.HasPrefix(typ, "rapid.") || strings.HasPrefix(typ, "*rapid.") {
		panic(r) // harness failure (x.Fatalf) or rapid control flow: not ours
	}
	stack := string(debug.Stack())
	sig := h.PanicSignature(stack)
	if sig == "panic:outside-nuts-node" {
		panic(r)
	}
	var frames []string
	for _, l := range strings.Split(stack, "\n") {
		l = strings.TrimSpace(l)
		if strings.HasPrefix(l, "github.com/nuts-foundation/nuts-node/") && !strings.Contains(l, ".c12") && !strings.Contains(l, "Verif") {
			if k := strings.LastIndex(l, "("); k > 0 {
				l = l[:k]
			}
			frames = append(frames, strings.TrimPrefix(l, "github.com/nuts-foundation/nuts-node/"))
		}
	}
	x.Violate(sig, "panic: %v\ncall chain (innermost first): %s", r, strings.Join(frames, " <- "))
}

func C12RunCase(x *h.Ctx, c C12Case) {
	if len(c.Wallet) > 12 || len(c.Def) > 1<<16 {
		return
	}
	def, err := ParsePresentationDefinition(c.Def)
	if err != nil {
		x.Fatalf("generated definition refused by ParsePresentationDefinition: %v\n%s", err, c.Def)
	}
	ref := C12ParseRefDef(c.Def)
	if ref.Unsupported != "" {
		x.Fatalf("generated definition outside the reference subset: %s\n%s", ref.Unsupported, c.Def)
	}

	// ---- fixture: wallet
	// Credentials are identified by content, never by id: two credentials are the same one iff their bytes are equal
	// (an exact duplicate is legitimately de-duplicated); credentials may share an id or have none.
	var built []C12Built
	byRaw := map[string]int{} // raw -> first wallet index with these bytes (the canonical one)
	canon := make([]int, len(c.Wallet))
	var creds []vc.VerifiableCredential
	idUsers := map[string][]int{}
	for i, spec := range c.Wallet {
		b := C12Build(x, spec)
		b.label = fmt.Sprintf("#%d(%s)", i, spec.ID)
		if first, dup := byRaw[b.raw]; dup {
			canon[i] = first
			x.Class("wallet:exact-duplicate")
		} else {
			byRaw[b.raw] = i
			canon[i] = i
			if spec.ID == "" {
				x.Class("wallet:credential-without-id")
			} else {
				idUsers[spec.ID] = append(idUsers[spec.ID], i)
			}
		}
		built = append(built, b)
		creds = append(creds, b.vc)
	}
	sharedID := false
	for _, users := range idUsers {
		if len(users) > 1 {
			sharedID = true
			x.Class("wallet:shared-id-different-content")
			if built[users[0]].spec.Fmt != built[users[1]].spec.Fmt {
				x.Class("wallet:shared-id-across-formats")
			}
		}
	}

	// ---- reference: satisfaction matrix
	// errOK: somewhere the verdict itself is undefined (several capture groups): nothing is demanded of Match's verdict.
	// objErrAny: somewhere an object meets a filter: Match may fail with the documented ErrUnsupportedFilter, but when it
	// does not fail, everything is demanded (an object never satisfies a filter, optional or not).
	nFilters, errOK, objErrAny := 0, false, false
	for _, d := range ref.Descriptors {
		if d.Constraints != nil {
			for _, f := range d.Constraints.Fields {
				if f.Flt != nil {
					nFilters++
				}
			}
		}
	}
	sat := make([][]C12Sat, len(ref.Descriptors))
	avail := map[string]bool{}
	nearMatch := false
	for di, d := range ref.Descriptors {
		sat[di] = make([]C12Sat, len(built))
		for ci, b := range built {
			s := ref.Sat(d, b.view, b.facts)
			sat[di][ci] = s
			if s.ErrOK {
				errOK = true
			}
			if s.ObjErr {
				objErrAny = true
			}
			if s.OK {
				avail[d.ID] = true
			}
			if !s.ErrOK && s.Fails == 1 && (s.Conds >= 2 || s.LastRes) {
				nearMatch = true
			}
		}
	}
	exists, decided, undecidedWhy := ref.Complete(avail)
	// shapes in which credential identity matters: a group whose descriptors are served by different credentials that
	// share an id; requirements over a group that need at least two distinct credentials
	if sharedID {
		groups := map[string]bool{}
		for _, d := range ref.Descriptors {
			for _, g := range d.Group {
				groups[g] = true
			}
		}
		for g := range groups {
			members := ref.GroupMembers(g)
			for ai, da := range members {
				for _, db := range members[ai+1:] {
					for ca := range built {
						for cb := range built {
							if canon[ca] != canon[cb] && built[ca].spec.ID != "" && built[ca].spec.ID == built[cb].spec.ID &&
								sat[C12DescIndex(ref, da.ID)][ca].OK && sat[C12DescIndex(ref, db.ID)][cb].OK {
								x.Class("shared-id-credentials-serve-different-descriptors-of-one-group")
							}
						}
					}
				}
			}
		}
	}
	var needTwo func(r *C12RefReq)
	needTwo = func(r *C12RefReq) {
		if r.From != "" {
			n := len(ref.GroupMembers(r.From))
			lo, _, _ := C12Bounds(r)
			if n >= 2 && (r.Rule == "all" || lo >= 2) {
				x.Class("req:group-needs>=2-distinct-credentials")
			}
		}
		for _, n := range r.FromNested {
			needTwo(n)
		}
	}
	for _, r := range ref.Reqs {
		needTwo(r)
	}
	if errOK {
		decided = false
		undecidedWhy = "documented-error-possible"
	}

	// ---- classes
	x.Classf("descriptors=%d", len(ref.Descriptors))
	x.Classf("wallet=%d", len(built))
	if len(ref.Reqs) > 0 {
		x.Class("with-requirements")
		C12ReqClasses(x, ref.Reqs, 0)
	} else {
		x.Class("basic")
	}
	if nFilters > 0 {
		x.Class("with-filter")
	}
	if ref.Format != nil {
		x.Class("definition-format")
	}
	for _, d := range ref.Descriptors {
		if d.Format != nil {
			x.Class("descriptor-format")
		}
	}
	if nearMatch {
		x.Class("wallet-has-near-match")
	}
	for _, b := range built {
		x.Class("cred-" + b.spec.Fmt)
	}
	if objErrAny {
		x.Class("object-meets-filter")
	}
	if !decided {
		x.Class("undecided:" + undecidedWhy)
	} else if exists {
		x.Class("ref:complete-selection-exists")
		for _, r := range ref.Reqs {
			if len(r.FromNested) >= 2 && r.Rule == "pick" && ((r.Count != nil && *r.Count >= 2) || (r.Min != nil && *r.Min >= 2)) {
				x.Class("ref:complete-selection-needs>=2-nested-requirements")
			}
		}
	} else {
		x.Class("ref:no-complete-selection")
	}
	if (nFilters > 0 || len(ref.Reqs) > 0) && nearMatch {
		x.NonTrivial()
	}
	C12ShapeClasses(x, ref, built)

	// ---- Match
	selected, mappings, merr := def.Match(creds)
	noCreds := merr != nil && errors.Is(merr, ErrNoCredentials)
	switch {
	case merr == nil:
		x.Class("match:ok")
	case noCreds:
		x.Class("match:no-credentials")
	default:
		x.Class("match:other-error")
	}

	// O3
	if decided {
		switch {
		case merr != nil && !noCreds && objErrAny && errors.Is(merr, ErrUnsupportedFilter):
			x.Class("match:documented-unsupported-filter")
		case merr != nil && !noCreds:
			x.Violate("O3-unexpected-error:"+C12ErrClass(merr), "Match returned an error that is neither documented for this input nor ErrNoCredentials: %v", merr)
		case noCreds && exists:
			x.Violate("O3-false-no-credentials:"+C12ReqKind(ref), "Match reports missing credentials but the reference finds a complete selection (available descriptors %v): %v", C12Keys(avail), merr)
		}
	}
	if merr != nil {
		// Build must agree with Match (single wallet, credentials required)
		b := def.PresentationSubmissionBuilder()
		b.AddWallet(did.MustParseDID(C12Holder), creds)
		if _, _, berr := b.Build("ldp_vp"); berr == nil && len(ref.Descriptors) > 0 {
			x.Violate("O3-build-without-match", "Match failed (%v) but Build returned a submission", merr)
		}
		return
	}

	// ---- O1 on the Match result
	if len(selected) != len(mappings) {
		x.Violate("O1-mapping-count", "Match returned %d credentials but %d mappings", len(selected), len(mappings))
		return
	}
	covered := map[string]bool{} // descriptors that some selected credential satisfies
	honest := map[string]int{}   // descriptor id -> wallet index
	distinct := map[int]bool{}
	for i, m := range mappings {
		wantPath := fmt.Sprintf("$.verifiableCredential[%d]", i)
		if m.Path != wantPath {
			x.Violate("O1-mapping-path", "mapping %d has path %q, want %q", i, m.Path, wantPath)
		}
		ci, ok := byRaw[selected[i].Raw()]
		if !ok {
			x.Violate("O1-selected-unknown", "selected credential %d is not a wallet credential", i)
			return
		}
		distinct[ci] = true
		if m.Format != built[ci].spec.Fmt {
			x.Violate("O1-mapping-format", "mapping %d says format %q for a %s credential", i, m.Format, built[ci].spec.Fmt)
		}
		d := ref.Descriptor(m.Id)
		if d == nil {
			x.Violate("O1-mapping-unknown-descriptor", "mapping %d refers to descriptor %q which the definition does not have", i, m.Id)
			continue
		}
		if _, dup := honest[m.Id]; dup {
			x.Violate("O1-descriptor-mapped-twice", "descriptor %q is mapped twice", m.Id)
		}
		honest[m.Id] = ci
		di := C12DescIndex(ref, m.Id)
		if s := sat[di][ci]; !s.OK && !s.ErrOK {
			x.Violate("O1-mapped-credential-does-not-satisfy:"+C12WhyNot(ref, d, built[ci]), "descriptor %q is mapped to credential %s which does not satisfy it (%d of %d conditions fail)\ncredential view: %s",
				m.Id, built[ci].label, s.Fails, s.Conds, C12MustJSON(x, built[ci].view))
		}
		for dj := range ref.Descriptors {
			if sat[dj][ci].OK {
				covered[ref.Descriptors[dj].ID] = true
			}
		}
	}
	// O3, other direction: a successful Match while no complete selection exists; and never partial: the selected
	// credentials must themselves allow a complete selection. Both are consequences when O1 already failed (a wrongly
	// accepted credential), so they only speak when O1 held: then they point at the requirement logic.
	if o1Failed := len(x.Violations()) > 0; o1Failed {
		// everything downstream (Validate, extracted fields, forgeries) would only report consequences
		return
	} else if decided && !exists {
		x.Violate("O3-match-without-complete-selection:"+C12UnmetReqKind(ref, avail), "Match succeeded (mappings %s) but the reference finds no complete selection (available descriptors %v)", C12MapStr(mappings), C12Keys(avail))
	} else if !errOK {
		if ex, dec, _ := ref.Complete(covered); dec && !ex {
			x.Violate("O3-partial-selection:"+C12UnmetReqKind(ref, covered), "Match succeeded with mappings %s, but the selected credentials do not fulfil the definition (descriptors satisfied by the selection: %v)", C12MapStr(mappings), C12Keys(covered))
		}
	}
	// O1-cap: more credentials than count/max allow
	if len(ref.Reqs) > 0 {
		cap := 0
		contra := false
		for _, r := range ref.Reqs {
			cap += ref.CapReq(r)
			if o := ref.EvalReq(r, avail, false); o.Contra {
				contra = true
			}
		}
		if !contra && len(distinct) > cap {
			x.Violate("O1-cap-exceeded", "%d distinct credentials selected, the submission requirements allow at most %d (mappings %s)", len(distinct), cap, C12MapStr(mappings))
		}
	}
	// (2) counter only
	if len(mappings) > 0 {
		if ex, dec, _ := ref.Complete(C12SetOf(honest)); dec && !ex {
			x.Class("mapping-covers-less-than-selection")
		}
	} else {
		x.Class("empty-selection")
	}

	// ---- Build
	builder := def.PresentationSubmissionBuilder()
	builder.AddWallet(did.MustParseDID(C12Holder), creds)
	vpFormat := "ldp_vp"
	if strings.HasPrefix(c.Env, "jwt") {
		vpFormat = "jwt_vp"
	}
	submission, sign, berr := builder.Build(vpFormat)
	if berr != nil {
		x.Violate("O4-build-fails-after-match", "Match succeeded but Build failed: %v", berr)
		return
	}
	if len(sign.Mappings) != len(mappings) || len(sign.VerifiableCredentials) != len(selected) || len(submission.DescriptorMap) != len(mappings) {
		x.Violate("O4-build-differs-from-match", "Build returned %d mappings / %d credentials, Match %d / %d", len(sign.Mappings), len(sign.VerifiableCredentials), len(mappings), len(selected))
		return
	}
	for i := range mappings {
		if sign.Mappings[i].Id != mappings[i].Id || sign.VerifiableCredentials[i].Raw() != selected[i].Raw() {
			x.Violate("O4-build-differs-from-match", "Build mapping %d differs from Match", i)
			return
		}
	}

	// ---- envelope (fixture) and its independent view
	var selectedVCs []vc.VerifiableCredential
	selectedVCs = append(selectedVCs, sign.VerifiableCredentials...)
	inner := "ld"
	if strings.HasPrefix(c.Env, "jwt") {
		inner = "jwt"
	}
	mainVP := C12VP(x, inner, selectedVCs)
	mainView := C12VPView(x, mainVP)
	var envRaw string
	var envView any
	vpIndex := -1
	blockedByEarlierVP := false
	if strings.HasSuffix(c.Env, "-array") {
		x.Class("envelope:" + c.Env)
		// the other presentation holds the credentials that were not selected
		var rest []vc.VerifiableCredential
		restAvail := map[string]bool{}
		for ci, b := range built {
			if !distinct[canon[ci]] {
				rest = append(rest, b.vc)
				for di, d := range ref.Descriptors {
					if sat[di][ci].OK {
						restAvail[d.ID] = true
					}
				}
			}
		}
		elem := func(raw string) any {
			if strings.HasPrefix(raw, "{") {
				return json.RawMessage(raw)
			}
			return raw
		}
		switch c.Extra {
		case 0:
			envRaw = string(C12MustJSON(x, []any{elem(mainVP)}))
			envView = []any{mainView}
			vpIndex = 0
		case 1:
			other := C12VP(x, "ld", rest)
			envRaw = string(C12MustJSON(x, []any{elem(mainVP), elem(other)}))
			envView = []any{mainView, C12VPView(x, other)}
			vpIndex = 0
		default:
			other := C12VP(x, "ld", rest)
			envRaw = string(C12MustJSON(x, []any{elem(other), elem(mainVP)}))
			envView = []any{C12VPView(x, other), mainView}
			vpIndex = 1
			// Validate takes the first presentation that fulfils the definition on its own
			if ex, dec, _ := ref.Complete(restAvail); !dec || ex {
				blockedByEarlierVP = true
			}
		}
		// the submission for an array envelope nests the builder's mapping under the presentation's index
		// (nuts-node exposes a JWT presentation inside an array as its decoded claims, addressed as ldp_vp)
		for i := range submission.DescriptorMap {
			in := submission.DescriptorMap[i]
			submission.DescriptorMap[i] = InputDescriptorMappingObject{Id: in.Id, Format: "ldp_vp", Path: fmt.Sprintf("$[%d]", vpIndex), PathNested: &in}
		}
	} else {
		x.Class("envelope:" + c.Env)
		envRaw = mainVP
		envView = mainView
	}
	envelope, err := ParseEnvelope([]byte(envRaw))
	x.NoErr(err, "ParseEnvelope of generated presentation")

	// the submission travels as JSON and is parsed (schema-validated) by the verifier
	subForValidate := submission
	if len(submission.DescriptorMap) > 0 {
		sj := C12MustJSON(x, submission)
		parsedSub, perr := ParsePresentationSubmission(sj)
		if perr != nil {
			x.Violate("O4-submission-refused-by-parser", "the builder's submission is refused by ParsePresentationSubmission: %v\n%s", perr, sj)
			return
		}
		subForValidate = *parsedSub
	}

	// is the mapping unambiguous? (documented assumption of Validate: credentials map to descriptors in one way)
	unambiguous := !errOK
	// contradictory bounds (min > max, max 0, count outside min..max): the selection is whatever the loop order makes
	// of it and need not be reproducible from the presented subset; nothing is demanded of Validate then
	for _, r := range ref.Reqs {
		if o := ref.EvalReq(r, avail, false); o.Contra {
			unambiguous = false
			x.Class("O4-O5-not-demanded:contradictory-bounds")
		}
	}
	// re-matching the presented credentials evaluates every descriptor against every selected credential: if an object
	// meets a filter there, Validate may fail with the documented error although the wallet's Match did not
	validateMayErr := false
	for ci := range distinct {
		for di := range ref.Descriptors {
			if sat[di][ci].ObjErr {
				validateMayErr = true
			}
		}
	}
	// Array envelope with a second presentation: Validate tries the presentations in order and takes the first one whose
	// credentials fulfil the definition. When the builder's presentation fails with the documented ErrUnsupportedFilter
	// (the verifier evaluates every descriptor against every presented credential, the wallet stopped at its first match),
	// that error is swallowed and the other presentation decides the expectation. That outcome belongs to the documented
	// error, it is not demanded that the builder's mapping wins then.
	if validateMayErr && strings.HasSuffix(c.Env, "-array") && c.Extra != 0 {
		blockedByEarlierVP = true
		x.Class("O4-O5-not-demanded:documented-error-hands-over-to-other-presentation")
	}
	// every credential that is somewhere in the envelope
	presented := map[int]bool{}
	for ci := range built {
		if distinct[canon[ci]] || (strings.HasSuffix(c.Env, "-array") && c.Extra != 0) {
			presented[ci] = true
		}
	}
	descHits := map[string]int{}
	for ci := range distinct {
		n := 0
		for di, d := range ref.Descriptors {
			if sat[di][ci].OK {
				n++
				descHits[d.ID]++
			}
		}
		if n != 1 {
			unambiguous = false
		}
	}
	for _, n := range descHits {
		if n != 1 {
			unambiguous = false
		}
	}
	if len(distinct) != len(mappings) {
		unambiguous = false
	}
	if unambiguous {
		x.Class("selection-unambiguous")
	} else {
		x.Class("selection-ambiguous")
	}

	// ---- O4
	got, verr := subForValidate.Validate(*envelope, *def)
	if verr != nil {
		x.Class("validate-own:rejected")
		if validateMayErr && errors.Is(verr, ErrUnsupportedFilter) {
			x.Class("validate-own:documented-unsupported-filter")
		} else if unambiguous && !blockedByEarlierVP {
			x.Class("O4-checked")
			x.Violate("O4-validate-rejects-own-submission:"+c.Env, "Validate rejects the submission the builder made for the same definition: %v\nsubmission: %s", verr, C12MustJSON(x, subForValidate))
		}
	} else {
		x.Class("validate-own:accepted")
		if unambiguous && !blockedByEarlierVP {
			x.Class("O4-checked")
		}
		if len(got) != len(honest) {
			x.Violate("O4-validate-returns-other-mapping", "Validate returned %d credentials, the builder mapped %d", len(got), len(honest))
		}
		for id, ci := range honest {
			g, ok := got[id]
			if !ok || !C12IsCredential(g, built[ci]) {
				x.Violate("O4-validate-returns-other-mapping", "Validate maps descriptor %q to another credential than the builder (%s)", id, built[ci].label)
			}
		}
		// Resolve is what consumers call afterwards
		res, rerr := subForValidate.Resolve(*envelope)
		if rerr != nil {
			x.Violate("O4-resolve-fails-after-validate", "Resolve fails on a submission Validate accepted: %v", rerr)
		} else {
			for id, ci := range honest {
				if r, ok := res[id]; !ok || !C12IsCredential(r, built[ci]) {
					x.Violate("O4-resolve-returns-other-mapping", "Resolve maps descriptor %q to another credential than the builder (%s)", id, built[ci].label)
				}
			}
		}
	}

	// ---- O6: extracted field values. Own map = what Validate returned, else (as discovery does) the Match result.
	// Called as auth/api/iam calls it: with 0-3 additional entries whose ids belong to other definitions; those must
	// contribute nothing and change nothing. Repeated, because the function ranges over a map.
	if !errOK {
		own := got
		if verr != nil {
			own = map[string]vc.VerifiableCredential{}
			for i, m := range mappings {
				own[m.Id] = selected[i]
			}
		}
		want := map[string]any{}
		for id, ci := range honest {
			for k, v := range sat[C12DescIndex(ref, id)][ci].Values {
				want[k] = v
			}
		}
		if len(want) > 0 {
			x.Class("O6-field-values-compared")
			for _, v := range want {
				x.Class("O6-value:" + C12JSONType(C12Norm(v)))
			}
		}
		fields, ferr := def.ResolveConstraintsFields(own)
		if ferr != nil && validateMayErr && errors.Is(ferr, ErrUnsupportedFilter) {
			x.Class("O6-documented-unsupported-filter")
		} else if ferr != nil {
			x.Violate("O6-resolve-fields-error", "ResolveConstraintsFields failed on validated credentials: %v", ferr)
		} else {
			C12CompareFields(x, want, fields)
		}
		merged := map[string]vc.VerifiableCredential{}
		for k, v := range own {
			merged[k] = v
		}
		var foreignDesc []string
		for _, f := range c.Foreign {
			if ref.Descriptor(f.ID) != nil || len(built) == 0 {
				continue
			}
			ci := f.Cred % len(built)
			merged[f.ID] = built[ci].vc
			foreignDesc = append(foreignDesc, fmt.Sprintf("%q→%s", f.ID, built[ci].label))
			for di := range ref.Descriptors {
				if sat[di][ci].OK {
					x.Class("O6-foreign-credential-satisfies-a-descriptor")
				}
			}
		}
		if len(merged) > len(own) && ferr == nil && len(x.Violations()) == 0 {
			x.Class("O6-with-foreign-entries")
			rep := c.Repeat
			if rep < 1 {
				rep = 1
			}
			if rep > 64 {
				rep = 64
			}
			bad, failed := 0, 0
			for i := 0; i < rep; i++ {
				f, err := def.ResolveConstraintsFields(merged)
				if err != nil {
					failed++
				} else if !C12DeepEqualJSON(want, map[string]any(f)) {
					bad++
				}
			}
			// (messages carry no values of a particular repetition: which entry wins depends on map order)
			if failed > 0 {
				x.Violate("O6-foreign-entry-makes-resolve-fail", "ResolveConstraintsFields fails when the credential map also holds entries for descriptors of other definitions (%s)", strings.Join(foreignDesc, ", "))
			} else if bad > 0 {
				x.Violate("O6-foreign-entry-changes-result", "ResolveConstraintsFields returns other values than %s when the credential map also holds entries for descriptors of other definitions (%s)",
					C12MustJSON(x, want), strings.Join(foreignDesc, ", "))
			}
		}
	}

	// ---- O5: forged submissions
	if len(submission.DescriptorMap) == 0 {
		return
	}
	x.Class("forgeries-tried")
	for fi, fg := range c.Forge {
		forged, ok := C12ApplyForge(x, ref, subForValidate, fg, len(selectedVCs))
		if !ok {
			x.Class("forge-skipped:" + fg.Op)
			continue
		}
		// identical to the honest submission: not a forgery
		if string(C12MustJSON(x, forged.DescriptorMap)) == string(C12MustJSON(x, subForValidate.DescriptorMap)) {
			x.Class("forge-noop:" + fg.Op)
			continue
		}
		_, ferr := forged.Validate(*envelope, *def)
		if ferr != nil {
			x.Class("forge-rejected:" + fg.Op)
			continue
		}
		x.Class("forge-accepted:" + fg.Op)
		// accepted. Always: every entry names a descriptor of the definition and selects, inside the envelope, a presented
		// credential that satisfies that descriptor. When the selection is unambiguous (so that the verifier's own
		// matching must arrive at the builder's mapping): every entry selects exactly the builder's credential for its
		// descriptor and no mapped descriptor is missing.
		idCount := map[string]int{}
		for _, entry := range forged.DescriptorMap {
			idCount[entry.Id]++
		}
		opOrDup := func(id string) string {
			if idCount[id] > 1 {
				return "duplicate-descriptor-entry"
			}
			return fg.Op
		}
		seen := map[string]bool{}
		for ei, entry := range forged.DescriptorMap {
			seen[entry.Id] = true
			di := C12DescIndex(ref, entry.Id)
			if di < 0 {
				x.Violate("O5-forged-accepted:unknown-descriptor:"+fg.Op, "forgery %d (%s) accepted although entry %d maps %q, which is not a descriptor of the definition\n%s", fi, fg.Op, ei, entry.Id, C12MustJSON(x, forged.DescriptorMap))
				continue
			}
			val, state := C12ResolveEntry(entry, envView)
			if state == "unsupported" {
				x.Class("forge-accepted-unchecked-path")
				continue
			}
			if state == "unresolved" {
				x.Violate("O5-forged-accepted:path-resolves-nothing:"+opOrDup(entry.Id), "forgery %d (%s) accepted although entry %d (%s) selects nothing in the envelope\n%s", fi, fg.Op, ei, C12PathStr(entry), C12MustJSON(x, forged.DescriptorMap))
				continue
			}
			which := -1
			for ci := range built {
				if presented[ci] && C12SameCredential(val, built[ci]) && (which < 0 || !distinct[which]) {
					which = canon[ci]
				}
			}
			if which < 0 {
				x.Violate("O5-forged-accepted:not-a-presented-credential:"+opOrDup(entry.Id), "forgery %d (%s) accepted although entry %d (descriptor %q, path %s) does not select one of the presented credentials\n%s",
					fi, fg.Op, ei, entry.Id, C12PathStr(entry), C12MustJSON(x, forged.DescriptorMap))
				continue
			}
			if st := sat[di][which]; !st.OK && !st.ErrOK {
				x.Violate("O5-forged-accepted:credential-does-not-satisfy:"+opOrDup(entry.Id), "forgery %d (%s) accepted although entry %d maps descriptor %q to credential %s, which does not satisfy it\n%s",
					fi, fg.Op, ei, entry.Id, built[which].label, C12MustJSON(x, forged.DescriptorMap))
				continue
			}
			if !unambiguous || blockedByEarlierVP {
				continue
			}
			if ci, mapped := honest[entry.Id]; !mapped {
				x.Violate("O5-forged-accepted:surplus-descriptor:"+fg.Op, "forgery %d (%s) accepted although entry %d maps descriptor %q, which matching does not map\n%s", fi, fg.Op, ei, entry.Id, C12MustJSON(x, forged.DescriptorMap))
			} else if ci != which {
				x.Violate("O5-forged-accepted:wrong-credential:"+opOrDup(entry.Id), "forgery %d (%s) accepted although entry %d (descriptor %q, path %s) selects %s, not the credential matching selects (%s)\n%s",
					fi, fg.Op, ei, entry.Id, C12PathStr(entry), built[which].label, built[ci].label, C12MustJSON(x, forged.DescriptorMap))
			}
		}
		if unambiguous && !blockedByEarlierVP {
			for id := range honest {
				if !seen[id] {
					x.Violate("O5-forged-accepted:incomplete:"+fg.Op, "forgery %d (%s) accepted although descriptor %q is not mapped\n%s", fi, fg.Op, id, C12MustJSON(x, forged.DescriptorMap))
				}
			}
		} else {
			x.Class("forge-accepted-under-ambiguity")
		}
	}
}

// ---------------------------------------------------------------------------------------------------------------------
// helpers of run

func C12DescIndex(ref *C12RefDef, id string) int {
	for i, d := range ref.Descriptors {
		if d.ID == id {
			return i
		}
	}
	return -1
}

func C12Keys(m map[string]bool) []string {
	var out []string
	for k, v := range m {
		if v {
			out = append(out, k)
		}
	}
	sort.Strings(out)
	return out
}

func C12SetOf(m map[string]int) map[string]bool {
	out := map[string]bool{}
	for k := range m {
		out[k] = true
	}
	return out
}

func C12MapStr(ms []InputDescriptorMappingObject) string {
	var parts []string
	for _, m := range ms {
		parts = append(parts, m.Id+"→"+m.Path)
	}
	return "[" + strings.Join(parts, " ") + "]"
}

func C12PathStr(e InputDescriptorMappingObject) string {
	s := e.Path
	for n := e.PathNested; n != nil; n = n.PathNested {
		s += " / " + n.Path
	}
	return s
}

// C12ErrClass gives a stable class for an unexpected error text (no random values).
func C12ErrClass(err error) string {
	s := err.Error()
	switch {
	case strings.Contains(s, "is required but not available"):
		return "group-not-available"
	case strings.Contains(s, "multiple regex capture groups"):
		return "multiple-capture-groups"
	case strings.Contains(s, "unsupported filter"):
		return "unsupported-filter"
	case strings.Contains(s, "error parsing regexp"):
		return "regexp"
	}
	return "other"
}

// C12ReqKind is the discriminating feature for O3 signatures: which requirement features the definition uses.
func C12ReqKind(ref *C12RefDef) string {
	if len(ref.Reqs) == 0 {
		return "basic"
	}
	feat := map[string]bool{}
	var walk func(r *C12RefReq)
	walk = func(r *C12RefReq) {
		k := r.Rule
		if r.Rule == "pick" {
			switch {
			case r.Count != nil:
				k += "-count"
			case r.Min != nil && r.Max != nil:
				k += "-min-max"
			case r.Min != nil:
				k += "-min"
			case r.Max != nil:
				k += "-max"
			default:
				k += "-bare"
			}
		}
		if len(r.FromNested) > 0 {
			k += "-nested"
		}
		feat[k] = true
		for _, n := range r.FromNested {
			walk(n)
		}
	}
	for _, r := range ref.Reqs {
		walk(r)
	}
	return strings.Join(C12Keys(feat), "+")
}

// C12OneReqKind names one requirement by its own features (not its children's).
func C12OneReqKind(r *C12RefReq) string {
	k := r.Rule
	if r.Rule == "pick" {
		switch {
		case r.Count != nil:
			k += "-count"
		case r.Min != nil && r.Max != nil:
			k += "-min-max"
		case r.Min != nil:
			k += "-min"
		case r.Max != nil:
			k += "-max"
		default:
			k += "-bare"
		}
	}
	if len(r.FromNested) > 0 {
		k += "-over-nested"
	}
	return k
}

// C12UnmetReqKind: the first top-level requirement the given descriptor availability does not fulfil (one root cause,
// one signature: the features of unrelated requirements stay out of it).
func C12UnmetReqKind(ref *C12RefDef, avail map[string]bool) string {
	if len(ref.Reqs) == 0 {
		return "basic"
	}
	for _, r := range ref.Reqs {
		if o := ref.EvalReq(r, avail, false); !o.Sat {
			return C12OneReqKind(r)
		}
	}
	for _, r := range ref.Reqs {
		if o := ref.EvalReq(r, avail, true); !o.Sat {
			return C12OneReqKind(r)
		}
	}
	return "?"
}

func C12ReqClasses(x *h.Ctx, reqs []*C12RefReq, depth int) {
	for _, r := range reqs {
		k := "req:" + r.Rule
		if r.Rule == "pick" {
			switch {
			case r.Count != nil && (r.Min != nil || r.Max != nil):
				k += "-count-and-bounds"
			case r.Count != nil:
				k += "-count"
			case r.Min != nil && r.Max != nil:
				k += "-min-max"
			case r.Min != nil:
				k += "-only-min"
			case r.Max != nil:
				k += "-only-max"
			default:
				k += "-bare"
			}
		}
		x.Class(k)
		if r.Max != nil && *r.Max == 0 {
			x.Class("req:max-zero")
		}
		if len(r.FromNested) > 0 && r.Rule == "pick" {
			for _, bnd := range []*int{r.Count, r.Min, r.Max} {
				if bnd != nil && *bnd >= 2 {
					x.Class("req:pick-bound>=2-over-nested")
				}
			}
		}
		if len(r.FromNested) > 0 {
			x.Classf("req:nested-depth>=%d", depth+1)
			C12ReqClasses(x, r.FromNested, depth+1)
		}
	}
}

// C12ShapeClasses records which value shapes filters meet (measured by the reference, not by generator intent).
func C12ShapeClasses(x *h.Ctx, ref *C12RefDef, built []C12Built) {
	for _, d := range ref.Descriptors {
		if d.Constraints == nil {
			continue
		}
		for i := range d.Constraints.Fields {
			f := &d.Constraints.Fields[i]
			if len(f.Path) > 1 {
				x.Class("field:multi-path")
				// per-path outcomes against every credential of the wallet, in path order (measured by the reference)
				for _, b := range built {
					oc := C12PathOutcomes(f, b.view)
					x.Class("paths:" + strings.Join(oc, ","))
					if C12EarlierFailsLaterPasses(oc) {
						x.Class("multi-path:earlier-path-fails-later-path-passes")
						if f.Optional != nil && *f.Optional {
							x.Class("multi-path:earlier-path-fails-later-path-passes:optional-field")
						}
						if f.ID != nil {
							x.Class("multi-path:earlier-path-fails-later-path-passes:named-field")
						}
					}
				}
			}
			if f.Optional != nil && *f.Optional {
				x.Class("field:optional")
			}
			if f.Flt == nil {
				x.Class("field:no-filter")
				continue
			}
			kind := "type-only"
			switch {
			case f.Flt.Enum != nil:
				kind = "enum"
			case f.Flt.Const != nil && f.Flt.Pattern != nil:
				kind = "const+pattern"
			case f.Flt.Const != nil:
				kind = "const"
			case f.Flt.Pattern != nil:
				kind = "pattern"
			}
			x.Class("filter:" + kind)
			for _, b := range built {
				for _, p := range f.Path {
					steps, _ := C12ParsePath(p)
					v, found := C12Eval(steps, b.view)
					if !found {
						continue
					}
					r := C12MatchFilter(f.Flt, v)
					res := "no"
					if r.ErrOK {
						res = "undefined(documented-error)"
					} else if r.Matched {
						res = "yes"
					}
					if r.ObjErr {
						res += "(object:may-error)"
						if f.Optional != nil && *f.Optional {
							x.Class("optional-filtered-field-meets-object")
						}
					}
					shape := C12JSONType(v)
					if arr, ok := v.([]any); ok {
						shape = "array-of-" + C12ElemType(arr)
					}
					x.Classf("eval:%s/%s-on-%s=%s", *f.Flt.Type, kind, shape, res)
				}
			}
		}
	}
}

func C12ElemType(arr []any) string {
	if len(arr) == 0 {
		return "nothing"
	}
	t := C12JSONType(arr[0])
	for _, e := range arr[1:] {
		if C12JSONType(e) != t {
			return "mixed"
		}
	}
	return t
}

// C12WhyNot names the first failing condition class for an O1 signature: filter kind + value shape, or format.
func C12WhyNot(ref *C12RefDef, d *C12RefDescriptor, b C12Built) string {
	if d.Constraints != nil {
		for i := range d.Constraints.Fields {
			f := &d.Constraints.Fields[i]
			r := C12MatchField(f, b.view)
			if r.Matched || r.ErrOK {
				continue
			}
			if f.Flt == nil {
				return "field-without-value"
			}
			kind := "type-only"
			switch {
			case f.Flt.Enum != nil:
				kind = "enum"
			case f.Flt.Const != nil:
				kind = "const"
			case f.Flt.Pattern != nil:
				kind = "pattern"
			}
			shape := "no-value"
			for _, p := range f.Path {
				steps, _ := C12ParsePath(p)
				if v, found := C12Eval(steps, b.view); found {
					shape = C12JSONType(v)
					break
				}
			}
			return "filter-" + kind + "-on-" + shape
		}
	}
	if !C12MatchFormat(ref.Format, b.facts) {
		return "definition-format"
	}
	if !C12MatchFormat(d.Format, b.facts) {
		return "descriptor-format"
	}
	return "?"
}

func C12CompareFields(x *h.Ctx, want map[string]any, got map[string]interface{}) {
	for k, wv := range want {
		gv, ok := got[k]
		if !ok {
			x.Violate("O6-field-missing", "ResolveConstraintsFields has no value for field id %q (want %s)", k, C12MustJSON(x, wv))
			continue
		}
		if !C12DeepEqualJSON(wv, gv) {
			x.Violate("O6-field-value:"+C12JSONType(C12Norm(wv)), "field id %q: ResolveConstraintsFields returned %s, the mapped credential has %s", k, C12MustJSON(x, gv), C12MustJSON(x, wv))
		}
	}
	for k := range got {
		if _, ok := want[k]; !ok {
			x.Violate("O6-field-surplus", "ResolveConstraintsFields returned a value for %q which is not a field id of a mapped descriptor", k)
		}
	}
}

// C12ResolveEntry evaluates a descriptor-map entry on the envelope view with the reference path evaluator.
// state: "ok" (val is the selected JSON value), "unresolved" (selects nothing), "unsupported" (path outside the subset,
// or a nested path below a JWT string, which the reference does not decode).
func C12ResolveEntry(e InputDescriptorMappingObject, view any) (any, string) {
	cur := view
	for m := &e; m != nil; m = m.PathNested {
		steps, ok := C12ParsePath(m.Path)
		if !ok {
			return nil, "unsupported"
		}
		if _, isStr := cur.(string); isStr {
			return nil, "unsupported"
		}
		v, found := C12Eval(steps, cur)
		if !found {
			return nil, "unresolved"
		}
		cur = v
	}
	return cur, "ok"
}

// C12IsCredential: is the parsed credential (possibly re-parsed out of an envelope) exactly the given wallet credential?
// Compared by content: JWT by its compact form, JSON-LD by its decoded JSON. Never by id.
func C12IsCredential(v vc.VerifiableCredential, b C12Built) bool {
	if b.spec.Fmt == "jwt_vc" {
		return v.Raw() == b.raw
	}
	if v.Format() != vc.JSONLDCredentialProofFormat {
		return false
	}
	var got, want any
	if json.Unmarshal([]byte(v.Raw()), &got) != nil || json.Unmarshal([]byte(b.raw), &want) != nil {
		return false
	}
	return C12DeepEqualJSON(got, want)
}

// C12SameCredential: is the JSON value selected in the envelope exactly the given wallet credential?
func C12SameCredential(val any, b C12Built) bool {
	switch tv := val.(type) {
	case string:
		return b.spec.Fmt == "jwt_vc" && tv == b.raw
	case map[string]any:
		if b.spec.Fmt != "ldp_vc" {
			return false
		}
		var doc any
		if json.Unmarshal([]byte(b.raw), &doc) != nil {
			return false
		}
		return C12DeepEqualJSON(doc, tv)
	}
	return false
}

// C12ApplyForge derives a forged submission from the honest one. ok=false: operator not applicable.
func C12ApplyForge(x *h.Ctx, ref *C12RefDef, honest PresentationSubmission, fg C12Forge, nVCs int) (PresentationSubmission, bool) {
	out := PresentationSubmission{Id: honest.Id, DefinitionId: honest.DefinitionId}
	var dm []InputDescriptorMappingObject
	b := C12MustJSON(x, honest.DescriptorMap)
	x.NoErr(json.Unmarshal(b, &dm), "clone descriptor map")
	n := len(dm)
	if n == 0 {
		return out, false
	}
	i, j := fg.I%n, fg.J%n
	// innermost returns the entry that addresses the credential (below path_nested wrappers)
	innermost := func(e *InputDescriptorMappingObject) *InputDescriptorMappingObject {
		for e.PathNested != nil {
			e = e.PathNested
		}
		return e
	}
	setID := func(e *InputDescriptorMappingObject, id string) {
		for ; e != nil; e = e.PathNested {
			e.Id = id
		}
	}
	vcPath := func(k int) string {
		if nVCs == 1 && k == 0 {
			return "$.verifiableCredential"
		}
		return fmt.Sprintf("$.verifiableCredential[%d]", k)
	}
	switch fg.Op {
	case "swap-ids":
		if n < 2 || i == j {
			return out, false
		}
		a, bb := dm[i].Id, dm[j].Id
		setID(&dm[i], bb)
		setID(&dm[j], a)
	case "drop":
		dm = append(dm[:i], dm[i+1:]...)
	case "dup-retarget":
		// a second entry for the same descriptor that points at another credential, placed first
		if nVCs < 2 {
			return out, false
		}
		var cp InputDescriptorMappingObject
		x.NoErr(json.Unmarshal(C12MustJSON(x, dm[i]), &cp), "clone entry")
		innermost(&cp).Path = vcPath((i + 1 + fg.J%(nVCs-1)) % nVCs)
		dm = append([]InputDescriptorMappingObject{cp}, dm...)
	case "surplus-unknown":
		var cp InputDescriptorMappingObject
		x.NoErr(json.Unmarshal(C12MustJSON(x, dm[i]), &cp), "clone entry")
		setID(&cp, "no-such-descriptor")
		dm = append(dm, cp)
	case "surplus-other-desc":
		// map a descriptor the builder did not map onto one of the presented credentials
		mapped := map[string]bool{}
		for _, e := range dm {
			mapped[e.Id] = true
		}
		var free []string
		for _, d := range ref.Descriptors {
			if !mapped[d.ID] {
				free = append(free, d.ID)
			}
		}
		if len(free) == 0 {
			return out, false
		}
		var cp InputDescriptorMappingObject
		x.NoErr(json.Unmarshal(C12MustJSON(x, dm[i]), &cp), "clone entry")
		setID(&cp, free[fg.J%len(free)])
		dm = append(dm, cp)
	case "retarget":
		innermost(&dm[i]).Path = vcPath(fg.J % (nVCs + 1))
	case "format":
		innermost(&dm[i]).Format = fg.S
	case "wrap-vp":
		in := dm[i]
		dm[i] = InputDescriptorMappingObject{Id: in.Id, Format: "ldp_vp", Path: "$", PathNested: &in}
	case "nest-subject":
		e := innermost(&dm[i])
		e.PathNested = &InputDescriptorMappingObject{Id: e.Id, Format: e.Format, Path: "$.credentialSubject"}
	case "nest-vc":
		e := innermost(&dm[i])
		e.PathNested = &InputDescriptorMappingObject{Id: e.Id, Format: e.Format, Path: vcPath(fg.J % (nVCs + 1))}
	case "alias-path":
		e := innermost(&dm[i])
		e.Path = strings.Replace(e.Path, "$.verifiableCredential", `$["verifiableCredential"]`, 1)
	case "exotic-path", "leave-envelope":
		innermost(&dm[i]).Path = fg.S
	case "rename-id":
		setID(&dm[i], dm[i].Id+"x")
	case "reverse":
		if n < 2 {
			return out, false
		}
		for a, z := 0, n-1; a < z; a, z = a+1, z-1 {
			dm[a], dm[z] = dm[z], dm[a]
		}
	case "jsonmut":
		if fg.Mut == nil {
			return out, false
		}
		doc, err := jsonmut.Decode(b)
		if err != nil {
			return out, false
		}
		mutated, _, ok := jsonmut.Apply(doc, *fg.Mut)
		if !ok {
			return out, false
		}
		var ndm []InputDescriptorMappingObject
		if json.Unmarshal(jsonmut.Encode(mutated), &ndm) != nil {
			return out, false
		}
		dm = ndm
	default:
		return out, false
	}
	out.DescriptorMap = dm
	return out, true
}

// ---------------------------------------------------------------------------------------------------------------------

func TestVerif_C12_PE(t *testing.T) { h.Check(t, "C12", C12Gen, C12Run, h.PanicIsViolation()) }

func TestVerifReplay_C12_PE(t *testing.T) {
	h.Replay(t, "C12", "TestVerif_C12_PE", C12Run, h.PanicIsViolation())
}
