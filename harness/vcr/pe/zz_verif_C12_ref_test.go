//go:build verif

package pe

// C12 reference matcher. Independent of the code under test: it decodes the definition JSON into its own
// structs, evaluates a JSONPath subset (member / index steps) on decoded JSON, applies the filter semantics of
// the supported subset (type / const / enum / pattern; an array value matches when one of its elements does,
// as documented and tested in this package), the two claim-format constraints, and evaluates
// submission requirements by direct recursion. It never calls anything from package pe.

import (
	"encoding/json"
	"reflect"
	"regexp"
	"strconv"
	"strings"
)

// ---------------------------------------------------------------------------------------------------------------------
// own model of a presentation definition (only what the supported subset needs)

type c12RefFilter struct {
	Type    *string          `json:"type"`
	Const   *json.RawMessage `json:"const"`
	Enum    []any            `json:"enum"`
	Pattern *string          `json:"pattern"`
}

type c12RefField struct {
	ID       *string          `json:"id"`
	Optional *bool            `json:"optional"`
	Path     []string         `json:"path"`
	Filter   *json.RawMessage `json:"filter"`
	filter   *c12RefFilter
}

type c12RefConstraints struct {
	Fields []c12RefField `json:"fields"`
}

type c12RefFormat map[string]map[string][]string

type c12RefDescriptor struct {
	ID          string             `json:"id"`
	Group       []string           `json:"group"`
	Format      *c12RefFormat      `json:"format"`
	Constraints *c12RefConstraints `json:"constraints"`
}

type c12RefReq struct {
	Rule       string       `json:"rule"`
	Count      *int         `json:"count"`
	Min        *int         `json:"min"`
	Max        *int         `json:"max"`
	From       string       `json:"from"`
	FromNested []*c12RefReq `json:"from_nested"`
}

type c12RefDef struct {
	ID          string              `json:"id"`
	Format      *c12RefFormat       `json:"format"`
	Reqs        []*c12RefReq        `json:"submission_requirements"`
	Descriptors []*c12RefDescriptor `json:"input_descriptors"`

	// unsupported != "" means the definition uses something outside the subset the reference decides
	unsupported string
}

var c12SupportedTypes = map[string]bool{"string": true, "number": true, "boolean": true, "array": true}

// c12ParseRefDef decodes the definition for the reference. It never fails hard: anything outside the decided
// subset is recorded in unsupported, and the caller then applies only the oracles that do not need the reference.
func c12ParseRefDef(raw []byte) *c12RefDef {
	d := &c12RefDef{}
	if err := json.Unmarshal(raw, d); err != nil {
		d.unsupported = "decode: " + err.Error()
		return d
	}
	note := func(s string) {
		if d.unsupported == "" {
			d.unsupported = s
		}
	}
	ids := map[string]bool{}
	fieldIDs := map[string]bool{}
	for _, desc := range d.Descriptors {
		if desc == nil {
			note("null descriptor")
			continue
		}
		if ids[desc.ID] {
			note("duplicate descriptor id")
		}
		ids[desc.ID] = true
		seenG := map[string]bool{}
		for _, g := range desc.Group {
			if seenG[g] {
				note("duplicate group in descriptor")
			}
			seenG[g] = true
		}
		if desc.Constraints == nil {
			continue
		}
		for i := range desc.Constraints.Fields {
			f := &desc.Constraints.Fields[i]
			if f.ID != nil {
				if fieldIDs[*f.ID] {
					note("duplicate field id")
				}
				fieldIDs[*f.ID] = true
			}
			if len(f.Path) == 0 {
				note("field without path")
			}
			for _, p := range f.Path {
				if _, ok := c12ParsePath(p); !ok {
					note("path outside subset: " + p)
				}
			}
			if f.Filter == nil {
				continue
			}
			// the filter must be an object with only type/const/enum/pattern
			var asMap map[string]json.RawMessage
			if err := json.Unmarshal(*f.Filter, &asMap); err != nil {
				note("filter is not an object")
				continue
			}
			for k := range asMap {
				switch k {
				case "type", "const", "enum", "pattern":
				default:
					note("filter keyword outside subset: " + k)
				}
			}
			var flt c12RefFilter
			if err := json.Unmarshal(*f.Filter, &flt); err != nil {
				note("filter decode: " + err.Error())
				continue
			}
			if flt.Type == nil || !c12SupportedTypes[*flt.Type] {
				note("filter type outside subset")
			}
			if flt.Const != nil {
				var s string
				if json.Unmarshal(*flt.Const, &s) != nil {
					note("non-string const")
				}
			}
			for _, e := range flt.Enum {
				if _, ok := e.(string); !ok {
					note("non-string enum")
				}
			}
			if flt.Enum != nil && (flt.Const != nil || flt.Pattern != nil || (flt.Type != nil && *flt.Type != "string")) {
				// enum combined with other keywords: the implementation documents enum as "strings only" and
				// ignores the rest; JSON Schema would intersect. Not decided here.
				note("enum combined with other keywords")
			}
			f.filter = &flt
		}
	}
	var walk func(r *c12RefReq, depth int)
	walk = func(r *c12RefReq, depth int) {
		if r == nil {
			note("null requirement")
			return
		}
		if r.Rule != "all" && r.Rule != "pick" {
			note("unknown rule")
		}
		if (r.From != "") == (len(r.FromNested) > 0) {
			note("requirement needs exactly one of from/from_nested")
		}
		for _, n := range r.FromNested {
			walk(n, depth+1)
		}
	}
	for _, r := range d.Reqs {
		walk(r, 0)
	}
	return d
}

// ---------------------------------------------------------------------------------------------------------------------
// JSONPath subset: $ followed by .name | [n] | ['name'] | ["name"]

type c12Step struct {
	name  string
	index int
	isIdx bool
}

func c12IsIdent(s string) bool {
	if s == "" {
		return false
	}
	for i, r := range s {
		switch {
		case r == '_' || (r >= 'a' && r <= 'z') || (r >= 'A' && r <= 'Z'):
		case r >= '0' && r <= '9' && i > 0:
		default:
			return false
		}
	}
	return true
}

func c12ParsePath(p string) ([]c12Step, bool) {
	if !strings.HasPrefix(p, "$") {
		return nil, false
	}
	rest := p[1:]
	var steps []c12Step
	for rest != "" {
		switch rest[0] {
		case '.':
			rest = rest[1:]
			j := 0
			for j < len(rest) && rest[j] != '.' && rest[j] != '[' {
				j++
			}
			name := rest[:j]
			if !c12IsIdent(name) {
				return nil, false
			}
			steps = append(steps, c12Step{name: name})
			rest = rest[j:]
		case '[':
			end := strings.IndexByte(rest, ']')
			if end < 0 {
				return nil, false
			}
			inner := rest[1:end]
			rest = rest[end+1:]
			if len(inner) >= 2 && (inner[0] == '\'' || inner[0] == '"') && inner[len(inner)-1] == inner[0] {
				name := inner[1 : len(inner)-1]
				if strings.ContainsAny(name, `'"\[]`) || name == "" {
					return nil, false
				}
				steps = append(steps, c12Step{name: name})
				continue
			}
			n, err := strconv.Atoi(inner)
			if err != nil || n < 0 || strconv.Itoa(n) != inner {
				return nil, false
			}
			steps = append(steps, c12Step{index: n, isIdx: true})
		default:
			return nil, false
		}
	}
	return steps, true
}

// c12Eval returns the value the steps select in doc. found=false when a step does not apply (missing member,
// index out of range, member step on a non-object, index step on a non-array) or the selected value is null.
func c12Eval(steps []c12Step, doc any) (any, bool) {
	cur := doc
	for _, s := range steps {
		if s.isIdx {
			arr, ok := cur.([]any)
			if !ok || s.index >= len(arr) {
				return nil, false
			}
			cur = arr[s.index]
		} else {
			obj, ok := cur.(map[string]any)
			if !ok {
				return nil, false
			}
			v, ok := obj[s.name]
			if !ok {
				return nil, false
			}
			cur = v
		}
	}
	if cur == nil {
		return nil, false
	}
	return cur, true
}

// ---------------------------------------------------------------------------------------------------------------------
// filter semantics

// c12FilterRes is the outcome of a reference filter evaluation.
type c12FilterRes struct {
	match bool
	value any // the value a consumer should extract (whole value, or regex match / single capture)
	// errOK: the implementation is documented to (possibly) return an error here and the verdict is not defined:
	// pattern with more than one capture group, pattern that does not compile. The reference then decides nothing.
	errOK bool
	// objErr: an object met the filter. The implementation documents ErrUnsupportedFilter for that, so Match may fail
	// with that error; but the verdict is defined: an object is not a string/number/boolean/array and equals no string,
	// so it does not satisfy the filter (a present value that violates the filter; "optional" does not excuse it).
	objErr bool
}

func c12JSONType(v any) string {
	switch v.(type) {
	case string:
		return "string"
	case float64, json.Number:
		return "number"
	case bool:
		return "boolean"
	case []any:
		return "array"
	case map[string]any:
		return "object"
	case nil:
		return "null"
	}
	return "?"
}

func c12MatchFilter(f *c12RefFilter, v any) c12FilterRes {
	typ := ""
	if f.Type != nil {
		typ = *f.Type
	}
	switch tv := v.(type) {
	case map[string]any:
		return c12FilterRes{objErr: true}
	case []any:
		// documented behaviour: an array matches when one of its elements matches; the extracted value is the array
		anyErr, anyObj := false, false
		for _, e := range tv {
			r := c12MatchFilter(f, e)
			anyErr = anyErr || r.errOK
			anyObj = anyObj || r.objErr
		}
		if anyErr {
			return c12FilterRes{errOK: true, objErr: anyObj}
		}
		for _, e := range tv {
			if r := c12MatchFilter(f, e); r.match {
				return c12FilterRes{match: true, value: v, objErr: anyObj}
			}
		}
		// the array itself as an instance of the schema: type array; const/enum are strings and can never equal an
		// array; pattern only constrains strings
		if typ == "array" && f.Const == nil && f.Enum == nil {
			return c12FilterRes{match: true, value: v, objErr: anyObj}
		}
		return c12FilterRes{objErr: anyObj}
	}
	// scalar
	if f.Enum != nil {
		// (enum is only decided in combination with type string, see c12ParseRefDef)
		s, ok := v.(string)
		if !ok {
			return c12FilterRes{}
		}
		for _, e := range f.Enum {
			if es, _ := e.(string); es == s {
				return c12FilterRes{match: true, value: v}
			}
		}
		return c12FilterRes{}
	}
	if c12JSONType(v) != typ {
		return c12FilterRes{}
	}
	if f.Const != nil {
		var cs string
		_ = json.Unmarshal(*f.Const, &cs)
		s, ok := v.(string)
		if !ok || s != cs {
			return c12FilterRes{}
		}
	}
	if f.Pattern != nil && typ == "string" {
		s := v.(string)
		re, err := regexp.Compile(*f.Pattern)
		if err != nil {
			return c12FilterRes{errOK: true}
		}
		m := re.FindStringSubmatch(s)
		if m == nil {
			return c12FilterRes{}
		}
		switch re.NumSubexp() {
		case 0:
			return c12FilterRes{match: true, value: m[0]}
		case 1:
			return c12FilterRes{match: true, value: m[1]}
		default:
			return c12FilterRes{errOK: true}
		}
	}
	return c12FilterRes{match: true, value: v}
}

// c12FieldRes is the outcome for one field of a descriptor against one credential view.
type c12FieldRes struct {
	match    bool
	value    any
	errOK    bool
	objErr   bool
	resolved bool // some path selected a value (used for the near-match measure)
}

func c12MatchField(f *c12RefField, view any) c12FieldRes {
	invalid := 0
	res := c12FieldRes{}
	for _, p := range f.Path {
		steps, ok := c12ParsePath(p)
		if !ok {
			return c12FieldRes{errOK: true}
		}
		v, found := c12Eval(steps, view)
		if !found {
			continue
		}
		res.resolved = true
		if f.filter == nil {
			return c12FieldRes{match: true, value: v, resolved: true}
		}
		r := c12MatchFilter(f.filter, v)
		res.objErr = res.objErr || r.objErr
		if r.errOK {
			return c12FieldRes{errOK: true, objErr: res.objErr, resolved: true}
		}
		if r.match {
			return c12FieldRes{match: true, value: r.value, objErr: res.objErr, resolved: true}
		}
		invalid++
	}
	// optional only helps when no path selected anything (documented in matchField and covered by its tests)
	if f.Optional != nil && *f.Optional && invalid == 0 {
		return c12FieldRes{match: true, value: nil}
	}
	return res
}

// ---------------------------------------------------------------------------------------------------------------------
// format

// c12CredFacts is what the format rule needs to know about a credential; filled by the fixture builder from the
// generated credential description, not from parsed library objects.
type c12CredFacts struct {
	format    string // ldp_vc | jwt_vc
	proofType string // ldp_vc: type of the proof; "" = no proof
	alg       string // jwt_vc: alg header
	unsigned  bool   // jwt_vc: empty signature part
}

func c12MatchFormat(f *c12RefFormat, c c12CredFacts) bool {
	if f == nil || len(*f) == 0 {
		return true
	}
	entry, ok := (*f)[c.format]
	if !ok {
		return false
	}
	switch c.format {
	case "ldp_vc":
		if c.proofType == "" {
			return true
		}
		for _, pt := range entry["proof_type"] {
			if pt == c.proofType {
				return true
			}
		}
	case "jwt_vc":
		if c.unsigned {
			return true
		}
		for _, a := range entry["alg"] {
			if a == c.alg {
				return true
			}
		}
	}
	return false
}

// ---------------------------------------------------------------------------------------------------------------------
// descriptor vs credential

type c12Sat struct {
	ok      bool
	errOK   bool
	objErr  bool           // an object met a filter somewhere: Match may fail with ErrUnsupportedFilter, the verdict stands
	fails   int            // number of failing conditions (fields + format constraints)
	conds   int            // number of conditions
	values  map[string]any // field id -> extracted value (only meaningful when ok)
	lastRes bool           // the single failing field resolved to a value (filter said no)
}

func (d *c12RefDef) sat(desc *c12RefDescriptor, view any, facts c12CredFacts) c12Sat {
	s := c12Sat{values: map[string]any{}}
	if desc.Constraints != nil {
		for i := range desc.Constraints.Fields {
			f := &desc.Constraints.Fields[i]
			s.conds++
			r := c12MatchField(f, view)
			s.objErr = s.objErr || r.objErr
			if r.errOK {
				s.errOK = true
				continue
			}
			if !r.match {
				s.fails++
				s.lastRes = r.resolved
				continue
			}
			if f.ID != nil {
				s.values[*f.ID] = r.value
			}
		}
	}
	for _, f := range []*c12RefFormat{d.Format, desc.Format} {
		if f != nil && len(*f) > 0 {
			s.conds++
			if !c12MatchFormat(f, facts) {
				s.fails++
			}
		}
	}
	s.ok = s.fails == 0 && !s.errOK
	return s
}

// ---------------------------------------------------------------------------------------------------------------------
// submission requirements by direct recursion

// c12ReqEval evaluates a requirement given which descriptors have a satisfying credential.
//
// Two readings exist for a nested requirement that is satisfied by selecting nothing (pick with min 0 / max 0 /
// no bounds over unavailable members): the PEX text counts it as satisfied, the implementation counts a member
// only when it contributes at least one credential. strict=false uses the first reading, strict=true the second.
// The oracle only speaks when both readings agree.
type c12ReqOut struct {
	sat      bool
	nonEmpty bool // satisfied and contributes at least one credential under any maximal selection
	contra   bool // the bounds are contradictory (count vs min/max, min > max): nothing is decided
}

func (d *c12RefDef) groupMembers(g string) []*c12RefDescriptor {
	var out []*c12RefDescriptor
	for _, desc := range d.Descriptors {
		for _, dg := range desc.Group {
			if dg == g {
				out = append(out, desc)
				break
			}
		}
	}
	return out
}

func c12Bounds(r *c12RefReq) (lo int, hi int, contra bool) {
	hi = 1 << 30
	if r.Count != nil {
		lo, hi = *r.Count, *r.Count
		if r.Min != nil && *r.Min > *r.Count {
			contra = true
		}
		if r.Max != nil && *r.Max < *r.Count {
			contra = true
		}
		return
	}
	if r.Min != nil {
		lo = *r.Min
	}
	if r.Max != nil {
		hi = *r.Max
	}
	if lo > hi {
		contra = true
	}
	// max 0 passes the JSON schema, but the PEX text requires max to be greater than zero: nothing is decided
	if r.Max != nil && *r.Max == 0 {
		contra = true
	}
	return
}

func (d *c12RefDef) evalReq(r *c12RefReq, avail map[string]bool, strict bool) c12ReqOut {
	var total, have int
	contra := false
	if r.From != "" {
		for _, m := range d.groupMembers(r.From) {
			total++
			if avail[m.ID] {
				have++
			}
		}
	} else {
		for _, n := range r.FromNested {
			o := d.evalReq(n, avail, strict)
			contra = contra || o.contra
			total++
			if o.sat && (!strict || o.nonEmpty) {
				have++
			}
		}
	}
	if r.Rule == "all" {
		return c12ReqOut{sat: have == total, nonEmpty: have == total && total > 0, contra: contra}
	}
	lo, hi, c := c12Bounds(r)
	contra = contra || c
	sat := have >= lo
	return c12ReqOut{sat: sat, nonEmpty: sat && have > 0 && hi > 0, contra: contra}
}

// c12Complete says whether a complete selection exists given descriptor availability.
// decided=false when the definition is inconsistent or the two readings disagree.
func (d *c12RefDef) complete(avail map[string]bool) (exists bool, decided bool, why string) {
	if len(d.Reqs) == 0 {
		for _, desc := range d.Descriptors {
			if !avail[desc.ID] {
				return false, true, ""
			}
		}
		return true, true, ""
	}
	// every group used by a descriptor must be referenced by a requirement, otherwise the definition is
	// inconsistent (the implementation reports a plain error)
	refd := map[string]bool{}
	var collect func(r *c12RefReq)
	collect = func(r *c12RefReq) {
		if r.From != "" {
			refd[r.From] = true
		}
		for _, n := range r.FromNested {
			collect(n)
		}
	}
	for _, r := range d.Reqs {
		collect(r)
	}
	for _, desc := range d.Descriptors {
		for _, g := range desc.Group {
			if !refd[g] {
				return false, false, "group-not-referenced"
			}
		}
	}
	res := [2]bool{true, true}
	for i, strict := range []bool{false, true} {
		for _, r := range d.Reqs {
			o := d.evalReq(r, avail, strict)
			if o.contra {
				return false, false, "contradictory-bounds"
			}
			if !o.sat {
				res[i] = false
			}
		}
	}
	if res[0] != res[1] {
		return false, false, "nested-empty-reading"
	}
	return res[0], true, ""
}

// c12Cap is an upper bound on the number of distinct credentials a correct selection contains:
// all = every member, pick = count, else max, else every member.
func (d *c12RefDef) capReq(r *c12RefReq) int {
	var caps []int
	if r.From != "" {
		for range d.groupMembers(r.From) {
			caps = append(caps, 1)
		}
	} else {
		for _, n := range r.FromNested {
			caps = append(caps, d.capReq(n))
		}
	}
	take := len(caps)
	if r.Rule == "pick" {
		if r.Count != nil {
			take = *r.Count
		} else if r.Max != nil {
			take = *r.Max
		}
	}
	if take > len(caps) {
		take = len(caps)
	}
	// the largest `take` caps
	for i := 0; i < len(caps); i++ {
		for j := i + 1; j < len(caps); j++ {
			if caps[j] > caps[i] {
				caps[i], caps[j] = caps[j], caps[i]
			}
		}
	}
	sum := 0
	for i := 0; i < take; i++ {
		sum += caps[i]
	}
	return sum
}

func (d *c12RefDef) descriptor(id string) *c12RefDescriptor {
	for _, desc := range d.Descriptors {
		if desc.ID == id {
			return desc
		}
	}
	return nil
}

func c12DeepEqualJSON(a, b any) bool {
	return reflect.DeepEqual(c12Norm(a), c12Norm(b))
}

// c12Norm round-trips through JSON so that int/float64/json.Number and typed slices compare equal.
func c12Norm(v any) any {
	b, err := json.Marshal(v)
	if err != nil {
		return v
	}
	var out any
	if json.Unmarshal(b, &out) != nil {
		return v
	}
	return out
}
