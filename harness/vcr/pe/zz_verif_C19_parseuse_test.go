//go:build verif

package pe

// C19 target (light; matching semantics belong to C12): Presentation Exchange inputs from remote parties.
// One of {presentation definition (from a remote verifier), presentation submission, envelope of presentations (from a
// remote wallet)} is a jsonmut mutation of a valid instance, the other two stay valid. Then exactly what the callers do:
// ParsePresentationDefinition -> Match / submission builder / ResolveConstraintsFields;
// ParsePresentationSubmission + ParseEnvelope -> Resolve / Validate; Envelope JSON (un)marshalling.
// Oracle: no panic / hang.

import (
	"encoding/json"
	"os"
	"testing"
	"time"

	"github.com/nuts-foundation/go-did/did"
	"github.com/nuts-foundation/go-did/vc"
	"pgregory.net/rapid"
	"verif.local/h"
	"verif.local/h/c19x"
	"verif.local/h/jsonmut"
)

type c19PECase struct {
	What     string    `json:"what"` // definition | submission | envelope | jwt-vp-claims | jwt-vp-header | jwt-vc-claims
	PD       int       `json:"pd"`
	Envelope int       `json:"envelope"` // 0 JSON-LD VP object, 1 array of VPs, 2 JWT VP string, 3 array with JWT + JSON-LD
	Plan     c19x.Plan `json:"plan"`
	Redos    bool      `json:"redos,omitempty"` // the (remote verifier's) definition carries a pattern with catastrophic backtracking for the wallet's credential values
}

// c19PERedosDefinition: `^([a-z:.]+)+\d$` against the credential's issuer / subject id (30 characters of [a-z:.], no digit at
// the end) needs about 2^29 backtracking steps in a backtracking engine.
var c19PERedosDefinition = []byte(`{"id":"redos","input_descriptors":[{"id":"1","constraints":{"fields":[{"path":["$.issuer"],"filter":{"type":"string","pattern":"^([a-z:.]+)+\\d$"}}]}}]}`)

var c19PEFiles = []string{"vcr/pe/test/pd_jsonld.json", "vcr/pe/test/pd_jwt.json", "vcr/pe/test/pd_jsonld_jwt.json", "vcr/pe/test/pd_jsonld_jwt_pick.json"}

var c19PEKeys = []string{"id", "name", "purpose", "format", "input_descriptors", "submission_requirements", "constraints", "fields", "path", "filter", "type", "const", "enum", "pattern",
	"optional", "group", "rule", "count", "min", "max", "from", "from_nested", "limit_disclosure", "ldp_vc", "jwt_vc", "ldp_vp", "jwt_vp", "proof_type", "alg",
	"definition_id", "descriptor_map", "path_nested", "verifiableCredential", "credentialSubject", "holder", "proof", "@context", "vp", "vc", "iss", "sub", "jti"}

const c19PEHolder = "did:web:example.com:iam:holder"

// Definitions with submission requirements in which ONE credential of the wallet fulfils two (or three) input descriptors:
// Match / the submission builder / Validate then have to keep mappings and selected credentials aligned (callers index the
// credential list by mapping position: PresentationSubmission.Validate, discovery Search).
func c19PEInlineDefinitions() [][]byte {
	field := func(path, key string, val any) map[string]any {
		return map[string]any{"path": []any{path}, "filter": map[string]any{"type": "string", key: val}}
	}
	desc := func(id string, groups []any, fields ...map[string]any) map[string]any {
		fs := make([]any, len(fields))
		for i := range fields {
			fs[i] = fields[i]
		}
		return map[string]any{"id": id, "group": groups, "constraints": map[string]any{"fields": fs}}
	}
	city := field("$.credentialSubject.organization.city", "const", "IJbergen")
	name := field("$.credentialSubject.organization.name", "pattern", "care")
	typ := field("$.type", "const", "NutsOrganizationCredential")
	never := field("$.credentialSubject.organization.city", "const", "Nowhere")
	a := []any{"A"}
	ab := []any{"A", "B"}
	b := []any{"B"}
	return [][]byte{
		jsonmut.Encode(map[string]any{"id": "sr-all", "submission_requirements": []any{map[string]any{"rule": "all", "from": "A"}},
			"input_descriptors": []any{desc("by_city", a, city), desc("by_name", a, name)}}),
		jsonmut.Encode(map[string]any{"id": "sr-pick", "submission_requirements": []any{map[string]any{"rule": "pick", "min": 1, "from": "A"}},
			"input_descriptors": []any{desc("by_city", a, city), desc("by_name", a, name, typ), desc("never", a, never)}}),
		jsonmut.Encode(map[string]any{"id": "sr-nested", "submission_requirements": []any{map[string]any{"rule": "all", "from_nested": []any{
			map[string]any{"rule": "pick", "count": 1, "from": "A"}, map[string]any{"rule": "all", "from": "B"}}}},
			"input_descriptors": []any{desc("by_city", ab, city), desc("by_name", b, name), desc("by_type", b, typ)}}),
	}
}

func c19PEGen(t *rapid.T) c19PECase {
	return c19PECase{
		What:     rapid.SampledFrom([]string{"definition", "definition", "submission", "envelope", "jwt-vp-claims", "jwt-vp-claims", "jwt-vp-header", "jwt-vc-claims"}).Draw(t, "what"),
		PD:       rapid.IntRange(0, len(c19PEFiles)+2).Draw(t, "pd"), // files, then the 3 inline definitions
		Envelope: rapid.IntRange(0, 3).Draw(t, "envelope"),
		Plan:     c19x.GenPlan(t, c19PEKeys),
		Redos:    rapid.IntRange(0, 99).Draw(t, "redos") == 57, // (rapid favours the bounds of a range: an interior value is drawn in well under 1% of the cases)
	}
}

func c19PECredentials() (ld map[string]any, jwtVC string) {
	ld = map[string]any{"@context": []any{"https://www.w3.org/2018/credentials/v1", "https://nuts.nl/credentials/v1"}, "id": "did:web:example.com:iam:issuer#1",
		"type": []any{"VerifiableCredential", "NutsOrganizationCredential"}, "issuer": "did:web:example.com:iam:issuer", "issuanceDate": "2024-01-01T00:00:00Z",
		"credentialSubject": map[string]any{"id": c19PEHolder, "organization": map[string]any{"name": "care", "city": "IJbergen"}},
		"proof":             map[string]any{"type": "JsonWebSignature2020", "verificationMethod": "did:web:example.com:iam:issuer#0", "jws": "e30..AAAA", "created": "2024-01-01T00:00:00Z", "proofPurpose": "assertionMethod"}}
	claims := map[string]any{"iss": "did:web:example.com:iam:issuer", "sub": c19PEHolder, "nbf": json.Number("1700000000"), "jti": "did:web:example.com:iam:issuer#2",
		"vc": map[string]any{"@context": ld["@context"], "type": ld["type"], "credentialSubject": map[string]any{"id": c19PEHolder, "organization": map[string]any{"name": "care", "city": "IJbergen"}}}}
	jwtVC = c19x.Compact([]byte(`{"alg":"ES384","kid":"did:web:example.com:iam:issuer#0","typ":"JWT"}`), jsonmut.Encode(claims), c19x.SigGarbage)
	return ld, jwtVC
}

// c19PEJWTParts are the JSON parts of the JWT-form inputs; a case may replace one of them by a mutated version.
type c19PEJWTParts struct {
	vpHeader, vpClaims, vcClaims []byte // nil = the valid one
}

func c19PEEnvelopeSeed(kind int) []byte { return c19PEEnvelope(kind, c19PEJWTParts{}) }

// c19PEValidJWTParts returns the valid header and claims of the JWT presentation and the claims of the JWT credential.
func c19PEValidJWTParts() c19PEJWTParts {
	ld, jwtVC := c19PECredentials()
	_, vcClaims, _, _ := c19x.SplitCompact(jwtVC)
	vpClaims := map[string]any{"iss": c19PEHolder, "sub": c19PEHolder, "jti": c19PEHolder + "#vp", "nbf": json.Number("1700000000"), "exp": json.Number("1893456000"),
		"aud": "did:web:example.com:iam:verifier", "nonce": "n-1",
		"vp": map[string]any{"@context": []any{"https://www.w3.org/2018/credentials/v1"}, "type": []any{"VerifiablePresentation"}, "verifiableCredential": []any{jwtVC, ld}}}
	return c19PEJWTParts{vpHeader: []byte(`{"alg":"ES256","kid":"` + c19PEHolder + `#0","typ":"JWT"}`), vpClaims: jsonmut.Encode(vpClaims), vcClaims: vcClaims}
}

func c19PEEnvelope(kind int, parts c19PEJWTParts) []byte {
	ld, jwtVC := c19PECredentials()
	valid := c19PEValidJWTParts()
	if parts.vcClaims != nil {
		// the JWT credential with mutated claims, embedded in the presentations
		jwtVC = c19x.Compact([]byte(`{"alg":"ES384","kid":"did:web:example.com:iam:issuer#0","typ":"JWT"}`), parts.vcClaims, c19x.SigGarbage)
		var vpc map[string]any
		if json.Unmarshal(valid.vpClaims, &vpc) == nil {
			vpc["vp"].(map[string]any)["verifiableCredential"] = []any{jwtVC, ld}
			valid.vpClaims = jsonmut.Encode(vpc)
		}
	}
	if parts.vpHeader == nil {
		parts.vpHeader = valid.vpHeader
	}
	if parts.vpClaims == nil {
		parts.vpClaims = valid.vpClaims
	}
	vpLD := map[string]any{"@context": []any{"https://www.w3.org/2018/credentials/v1"}, "type": []any{"VerifiablePresentation"}, "holder": c19PEHolder,
		"verifiableCredential": []any{ld, jwtVC},
		"proof":                map[string]any{"type": "JsonWebSignature2020", "verificationMethod": c19PEHolder + "#0", "jws": "e30..AAAA", "created": "2024-01-01T00:00:00Z", "proofPurpose": "authentication"}}
	vpJWT := c19x.Compact(parts.vpHeader, parts.vpClaims, c19x.SigGarbage)
	switch kind {
	case 1:
		return jsonmut.Encode([]any{vpLD, vpLD})
	case 2:
		return []byte(vpJWT)
	case 3:
		return jsonmut.Encode([]any{vpJWT, vpLD})
	}
	return jsonmut.Encode(vpLD)
}

func c19PERun(x *h.Ctx, c c19PECase) {
	var pdRaw, subRaw, envRaw []byte
	var creds []vc.VerifiableCredential
	envKind := ((c.Envelope % 4) + 4) % 4
	if (c.What == "jwt-vp-claims" || c.What == "jwt-vp-header") && envKind < 2 {
		envKind += 2 // an envelope that contains the JWT presentation (2: the JWT itself, 3: array of JWT and JSON-LD)
	}
	c19x.Setup(x, "pe fixture", func() {
		var err error
		inline := c19PEInlineDefinitions()
		npd := len(c19PEFiles) + len(inline)
		if k := ((c.PD % npd) + npd) % npd; k < len(c19PEFiles) {
			pdRaw, err = os.ReadFile(h.RepoPath(c19PEFiles[k]))
			x.NoErr(err, "read definition fixture")
		} else {
			pdRaw = inline[k-len(c19PEFiles)]
			x.Class("definition=one-credential-fulfils-several-descriptors-under-submission-requirements")
		}
		ld, jwtVC := c19PECredentials()
		c1, err := vc.ParseVerifiableCredential(string(jsonmut.Encode(ld)))
		x.NoErr(err, "parse LD credential")
		c2, err := vc.ParseVerifiableCredential(jwtVC)
		x.NoErr(err, "parse JWT credential")
		creds = []vc.VerifiableCredential{*c1, *c2}
		envRaw = c19PEEnvelopeSeed(envKind)
		// a valid submission for the valid definition
		pd, err := ParsePresentationDefinition(pdRaw)
		if c.Redos {
			pdRaw = c19PERedosDefinition // (the submission stays the one for the valid definition)
			x.Class("definition=catastrophic-pattern")
		}
		x.NoErr(err, "parse definition fixture")
		b := pd.PresentationSubmissionBuilder()
		b.AddWallet(did.MustParseDID(c19PEHolder), creds)
		sub, _, err := b.Build("ldp_vp")
		x.NoErr(err, "build submission")
		sub.Id = "fixed-id"
		if envKind == 1 || envKind == 3 {
			// several presentations: entries are addressed through path_nested
			for i := range sub.DescriptorMap {
				inner := sub.DescriptorMap[i]
				inner.Path = "$.verifiableCredential[0]"
				sub.DescriptorMap[i] = InputDescriptorMappingObject{Id: inner.Id, Format: "ldp_vp", Path: "$[1]", PathNested: &inner}
			}
		}
		subRaw, err = json.Marshal(sub)
		x.NoErr(err, "marshal submission")
	})
	var ap c19x.Applied
	switch c.What {
	case "definition":
		if !c.Redos {
			pdRaw, ap = c.Plan.Apply(pdRaw)
		}
	case "submission":
		subRaw, ap = c.Plan.Apply(subRaw)
	case "jwt-vp-claims", "jwt-vp-header", "jwt-vc-claims":
		// claim-level mutation of the JWT-form inputs: decode, mutate the claims (or header) object itself, re-encode.
		// The envelope parser does not check signatures, so the signature stays garbage.
		valid := c19PEValidJWTParts()
		var parts c19PEJWTParts
		switch c.What {
		case "jwt-vp-claims":
			parts.vpClaims, ap = c.Plan.Apply(valid.vpClaims)
		case "jwt-vp-header":
			parts.vpHeader, ap = c.Plan.Apply(valid.vpHeader)
		default:
			parts.vcClaims, ap = c.Plan.Apply(valid.vcClaims)
		}
		if !ap.Oversize {
			envRaw = c19PEEnvelope(envKind, parts)
		}
	default:
		envRaw, ap = c.Plan.Apply(envRaw)
	}
	if ap.Oversize {
		x.Class("skipped:oversize")
		return
	}
	for _, cl := range ap.Classes() {
		x.Class(cl)
	}
	x.Class("mutated=" + c.What)
	mutated, known := map[string][]byte{"definition": pdRaw, "submission": subRaw, "envelope": envRaw}[c.What]
	if !known {
		mutated = envRaw // JWT-form mutation: the envelope is a JWS or a JSON array holding one
	}
	if c19x.IsJSON(mutated) || envKind == 2 {
		x.NonTrivial()
		x.Class("stage1:is-JSON-or-JOSE")
	}
	c19x.Guard(x, func() {
		pd, err := ParsePresentationDefinition(pdRaw)
		if err != nil {
			x.Class("definition:rejected")
			return
		}
		_ = pd.CredentialsRequired()
		if c.Redos {
			// one credential, one evaluation: with a match timeout in place every evaluation of this pattern costs that timeout
			_, _, merr := pd.Match(creds[:1])
			x.Classf("catastrophic-pattern:match-error=%v", merr != nil)
			return
		}
		matched, mappings, merr := pd.Match(creds)
		if merr == nil {
			x.Classf("definition:matched-%d", min(len(matched), 3))
			m := map[string]vc.VerifiableCredential{}
			if len(mappings) > len(matched) {
				x.Class("match:more-mappings-than-credentials") // callers index the credentials by mapping position (they are run below)
			}
			for i, mp := range mappings {
				if i < len(matched) {
					m[mp.Id] = matched[i]
				}
			}
			_, _ = pd.ResolveConstraintsFields(m)
		} else {
			x.Class("definition:match-error")
		}
		b := pd.PresentationSubmissionBuilder()
		b.AddWallet(did.MustParseDID(c19PEHolder), creds)
		b.AddWallet(did.MustParseDID("did:web:example.com:iam:other"), nil)
		_, _, _ = b.Build("ldp_vp")
		_ = ChooseVPFormat(map[string]map[string][]string{"ldp_vp": {"proof_type": {"JsonWebSignature2020"}}})

		sub, err := ParsePresentationSubmission(subRaw)
		if err != nil {
			x.Class("submission:rejected")
			return
		}
		env, err := ParseEnvelope(envRaw)
		if err != nil {
			x.Class("envelope:rejected")
			return
		}
		if eb, err := json.Marshal(env); err == nil {
			var back Envelope
			_ = json.Unmarshal(eb, &back)
		}
		var viaJSON Envelope
		if q, err := json.Marshal(string(envRaw)); err == nil {
			_ = json.Unmarshal(q, &viaJSON)
		}
		if _, err := sub.Resolve(*env); err == nil {
			x.Class("submission:resolved")
		} else {
			x.Class("submission:resolve-error")
		}
		if _, err := sub.Validate(*env, *pd); err == nil {
			x.Class("submission:valid")
		} else {
			x.Class("submission:invalid")
		}
	})
}

func TestVerif_C19_PEParseUse(t *testing.T) {
	h.Check(t, "C19", c19PEGen, c19PERun, h.PanicIsViolation(), h.Deadline(10*time.Second))
}

func TestVerifReplay_C19_PEParseUse(t *testing.T) {
	h.Replay(t, "C19", "TestVerif_C19_PEParseUse", c19PERun, h.PanicIsViolation(), h.Deadline(10*time.Second))
}
