//go:build verif

package pe

// C12 native fuzz target (thorough tier only) over (definition JSON, wallet JSON).
// Input = definition JSON + "\n====\n" + wallet JSON (array whose elements are JSON-LD credentials or JWT strings).
// Oracles: no panic in ParsePresentationDefinition / Match / Build / ParseEnvelope / Validate / Resolve /
// ResolveConstraintsFields, and Validate accepts the builder's own submission when the selected credentials map to
// the descriptors in one way only (Validate's documented assumption; here decided with the package's own matcher,
// because arbitrary definitions are outside the reference's subset — it only gates the oracle, it is not the expectation).

import (
	"bytes"
	"encoding/base64"
	"encoding/json"
	"os"
	"testing"

	"github.com/nuts-foundation/go-did/did"
	"github.com/nuts-foundation/go-did/vc"
	"github.com/nuts-foundation/nuts-node/vcr/pe/test"
	"verif.local/h"
	"verif.local/h/pegen"
)

var C12FuzzSep = []byte("\n====\n")

func C12FuzzBody(x *h.Ctx, data []byte) {
	defer C12RecoverPanic(x)
	defJSON, walletJSON, ok := bytes.Cut(data, C12FuzzSep)
	if !ok || len(defJSON) > 1<<14 || len(walletJSON) > 1<<15 {
		return
	}
	def, err := ParsePresentationDefinition(defJSON)
	if err != nil {
		x.Class("definition-refused")
		return
	}
	x.Class("definition-accepted")
	var rawCreds []json.RawMessage
	if json.Unmarshal(walletJSON, &rawCreds) != nil || len(rawCreds) > 8 {
		x.Class("wallet-unparsable")
		return
	}
	var creds []vc.VerifiableCredential
	seen := map[string]bool{}
	for _, rc := range rawCreds {
		var c vc.VerifiableCredential
		if json.Unmarshal(rc, &c) != nil {
			continue
		}
		if seen[c.Raw()] {
			continue
		}
		seen[c.Raw()] = true
		creds = append(creds, c)
	}
	x.Classf("wallet=%d", len(creds))
	if len(def.SubmissionRequirements) > 0 {
		x.Class("with-requirements")
	}

	selected, mappings, merr := def.Match(creds)
	if merr != nil {
		x.Class("match:error")
	} else {
		x.Class("match:ok")
		x.NonTrivial()
		if len(selected) != len(mappings) {
			x.Violate("O1-mapping-count", "Match returned %d credentials but %d mappings", len(selected), len(mappings))
			return
		}
	}
	builder := def.PresentationSubmissionBuilder()
	builder.AddWallet(did.MustParseDID(pegen.C12Holder), creds)
	submission, sign, berr := builder.Build("ldp_vp")
	if berr != nil || merr != nil || len(submission.DescriptorMap) == 0 {
		return
	}
	// fixture: the presentation; credentials that do not survive being presented are not interesting
	vpRaw, err := C12VPRaw("ld", sign.VerifiableCredentials)
	if err != nil {
		x.Class("presentation-not-buildable")
		return
	}
	env, err := ParseEnvelope([]byte(vpRaw))
	if err != nil {
		x.Class("presentation-not-parsable")
		return
	}
	if len(env.Presentations) != 1 || len(env.Presentations[0].VerifiableCredential) != len(sign.VerifiableCredentials) {
		x.Class("presentation-not-buildable")
		return
	}
	// unambiguous? every selected credential matches exactly one descriptor and the other way round
	unambiguous := true
	hits := map[string]int{}
	for _, c := range env.Presentations[0].VerifiableCredential {
		n := 0
		for _, d := range def.InputDescriptors {
			ok, err := matchCredential(*d, c)
			if err != nil {
				unambiguous = false
				continue
			}
			if ok && matchFormat(def.Format, c) && matchFormat(d.Format, c) {
				n++
				hits[d.Id]++
			}
		}
		if n != 1 {
			unambiguous = false
		}
	}
	for _, n := range hits {
		if n != 1 {
			unambiguous = false
		}
	}
	ids := map[string]bool{}
	for _, d := range def.InputDescriptors {
		if ids[d.Id] {
			unambiguous = false
		}
		ids[d.Id] = true
	}
	got, verr := submission.Validate(*env, *def)
	if verr != nil {
		x.Class("validate-own:rejected")
		if unambiguous {
			x.Violate("O4-fuzz-validate-rejects-own-submission", "Validate rejects the submission the builder made for the same definition and credentials: %v\ndefinition: %s\nsubmission: %s", verr, defJSON, C12MustJSON(x, submission))
		}
		return
	}
	x.Class("validate-own:accepted")
	if _, rerr := submission.Resolve(*env); rerr != nil {
		x.Violate("O4-resolve-fails-after-validate", "Resolve fails on a submission Validate accepted: %v", rerr)
	}
	_, _ = def.ResolveConstraintsFields(got)
}

func C12SeedJWT(header, payload map[string]any) string {
	hb, _ := json.Marshal(header)
	pb, _ := json.Marshal(payload)
	return base64.RawURLEncoding.EncodeToString(hb) + "." + base64.RawURLEncoding.EncodeToString(pb) + "." + base64.RawURLEncoding.EncodeToString([]byte("signature-bytes-signature-bytes-signature-bytes"))
}

func C12FuzzSeeds() [][]byte {
	var defs [][]byte
	for _, name := range []string{"pd_jsonld.json", "pd_jsonld_jwt.json", "pd_jsonld_jwt_pick.json", "pd_jwt.json"} {
		if b, err := os.ReadFile(h.RepoPath("vcr/pe/test/" + name)); err == nil {
			defs = append(defs, b)
		}
	}
	for _, s := range []string{test.Empty, test.PickOne, test.PickMinMax, test.PickOnePerGroup, test.All, test.PickOneFromNested, test.AllFromNested, test.PickMinMaxFromNested, test.DeduplicationRequired} {
		defs = append(defs, []byte(s))
	}
	// wallets: the repository's organization credential (JSON-LD), the same claims as JWT (as vcr/test builds it),
	// and the id-only credentials the submission-requirement fixtures are written for
	var wallet []any
	if b, err := os.ReadFile(h.RepoPath("vcr/assets/test_assets/vc.json")); err == nil {
		wallet = append(wallet, json.RawMessage(b))
	}
	wallet = append(wallet, C12SeedJWT(map[string]any{"alg": "ES384", "typ": "JWT"}, map[string]any{
		"iss": "did:nuts:issuer", "sub": "did:web:example.com", "jti": "did:nuts:issuer#1",
		"vc": map[string]any{"type": "NutsOrganizationCredential", "credentialSubject": map[string]any{"id": "did:web:example.com", "organization": map[string]any{"city": "IJbergen", "name": "care"}}},
	}))
	var idWallet []any
	for _, id := range []string{"1", "2", "3", "4"} {
		idWallet = append(idWallet, map[string]any{"@context": []any{"https://www.w3.org/2018/credentials/v1"}, "id": id, "type": []any{"VerifiableCredential", "Example"},
			"issuer": "did:example:issuer", "issuanceDate": pegen.C12Date, "credentialSubject": map[string]any{"id": pegen.C12Holder, "field": "value", "tags": []any{"a", "b"}}})
	}
	w1, _ := json.Marshal(wallet)
	w2, _ := json.Marshal(idWallet)
	var out [][]byte
	for _, d := range defs {
		for _, w := range [][]byte{w1, w2} {
			out = append(out, append(append(append([]byte{}, bytes.TrimSpace(d)...), C12FuzzSep...), w...))
		}
	}
	// the shapes behind the known weak spots: array-valued claims under type/pattern filters, pick with min only
	out = append(out, []byte(`{"id":"s","input_descriptors":[{"id":"d","group":["A"],"constraints":{"fields":[{"path":["$.credentialSubject.tags"],"filter":{"type":"string","pattern":"^a"}}]}}],"submission_requirements":[{"rule":"pick","min":1,"max":2,"from":"A"}]}`+"\n====\n"+string(w2)))
	// small inputs (a byte-level mutator gets nowhere on kilobytes of JSON): one tiny credential, one-field definitions
	tiny := `[{"@context":["https://www.w3.org/2018/credentials/v1"],"id":"1","type":["VerifiableCredential","T"],"issuer":"did:x:i","issuanceDate":"2024-01-01T00:00:00Z","credentialSubject":{"id":"did:x:h","n":"ab","t":["a","b"],"k":[1]}}]`
	for _, d := range []string{
		`{"id":"s","input_descriptors":[{"id":"d","constraints":{"fields":[{"id":"f","path":["$.credentialSubject.n"],"filter":{"type":"string","pattern":"^a(b)"}}]}}]}`,
		`{"id":"s","input_descriptors":[{"id":"d","constraints":{"fields":[{"path":["$.credentialSubject.t"],"filter":{"type":"string","pattern":"^a"}}]}}]}`,
		`{"id":"s","input_descriptors":[{"id":"d","constraints":{"fields":[{"path":["$.credentialSubject.k","$.type"],"filter":{"type":"string","const":"T"}}]}}]}`,
		`{"id":"s","input_descriptors":[{"id":"d","constraints":{"fields":[{"path":["$.credentialSubject.k"],"filter":{"type":"number"}}]}}]}`,
		`{"id":"s","input_descriptors":[{"id":"d","group":["A"],"constraints":{}}],"submission_requirements":[{"rule":"pick","min":1,"max":1,"from":"A"}]}`,
		`{"id":"s","input_descriptors":[{"id":"d","group":["A"],"constraints":{}}],"submission_requirements":[{"rule":"pick","count":1,"from_nested":[{"rule":"all","from":"A"}]}]}`,
		`{"id":"s","format":{"ldp_vc":{"proof_type":["JsonWebSignature2020"]}},"input_descriptors":[{"id":"d","constraints":{"fields":[{"path":["$.id"],"optional":true}]}}]}`,
	} {
		out = append(out, []byte(d+"\n====\n"+tiny))
	}
	return out
}

func FuzzVerif_C12_DefWallet(f *testing.F) {
	for _, s := range C12FuzzSeeds() {
		f.Add(s)
	}
	f.Fuzz(func(t *testing.T, data []byte) {
		h.Fuzz(t, "C12", "FuzzVerif_C12_DefWallet", data, func(x *h.Ctx) { C12FuzzBody(x, data) }, h.PanicIsViolation())
	})
}

func TestVerifReplay_C12_DefWallet(t *testing.T) {
	h.Replay(t, "C12", "FuzzVerif_C12_DefWallet", func(x *h.Ctx, raw json.RawMessage) {
		C12FuzzBody(x, h.FuzzInput(raw))
	}, h.PanicIsViolation())
}
