//go:build verif

package vcr

// C19 target: credentials arriving over the network: the "vcr" DAG subscriber (ambassador.vcCallback) unmarshals the payload
// and calls vcr.StoreCredential, which only verifies the SIGNATURE and then indexes the document in the credential store
// (go-leia JSON-LD collection) — and any network participant can sign credentials with its own DID.
// So here the unsigned credential is mutated FIRST and then really signed (JSON-LD proof by the fixed test key whose DID
// document sits in the node's DID store), which yields validly signed hostile credentials that reach the indexer; the
// readers (Resolve by id, Search) run afterwards. Real vcr instance (NewTestVCRContext), one per process.
// Oracle: no panic / hang; a rejected credential does not change the number of stored documents.
// Documents are kept below c19SCMaxDoc here: indexing cost in go-leia grows with (number of tokens/values of an indexed
// field) x (document size), because the document is JSON-LD-expanded again for every key of the preceding index part
// (index_organization = tokenised name, then city) — 40 KB take 6 s, 150 KB 40 s, inside the bbolt write transaction.
// That terminates and is reported as an observation; with larger documents the 10 s hang deadline would trip on it (and
// not reproduce under the 100 s replay deadline), which makes runs inconclusive instead of telling anything new.
// The fixture is process-wide; when a case was abandoned by the hang deadline its goroutine may still hold the store's
// write lock, so the next case (e.g. while the failing case is minimised) gets a fresh fixture instead of queueing behind it.

import (
	"context"
	"encoding/json"
	"fmt"
	"io"
	"sync"
	"sync/atomic"
	"testing"
	"time"

	"github.com/lestrrat-go/jwx/v2/jwk"
	ssi "github.com/nuts-foundation/go-did"
	"github.com/nuts-foundation/go-did/did"
	"github.com/nuts-foundation/go-did/vc"
	"github.com/nuts-foundation/nuts-node/audit"
	nutsCrypto "github.com/nuts-foundation/nuts-node/crypto"
	"github.com/nuts-foundation/nuts-node/crypto/hash"
	"github.com/nuts-foundation/nuts-node/jsonld"
	"github.com/nuts-foundation/nuts-node/vcr/signature"
	"github.com/nuts-foundation/nuts-node/vcr/signature/proof"
	"github.com/nuts-foundation/nuts-node/vdr/didnuts/didstore"
	"github.com/sirupsen/logrus"
	"pgregory.net/rapid"
	"verif.local/h"
	"verif.local/h/c19x"
	"verif.local/h/jsonmut"
)

func init() { logrus.SetOutput(io.Discard) }

const (
	c19SCIssuer    = "did:nuts:verifC19netissuer"
	c19SCIssuerKid = c19SCIssuer + "#key-1"
	c19SCSubject   = "did:nuts:verifC19subject"
)

var c19SCValidAt = time.Date(2024, 6, 1, 12, 0, 0, 0, time.UTC)

const c19SCMaxDoc = 8 * 1024

type c19SCCase struct {
	Seed   int       `json:"seed"`
	Plan   c19x.Plan `json:"plan"`
	Signed string    `json:"signed"` // after (mutate, then sign: valid signature) | before (sign, then mutate: signature broken)
}

type c19SCEnv struct {
	ctx  TestVCRContext
	vcr  *vcr
	ld   jsonld.JSONLD
	n    int
	err  error
	busy atomic.Int32 // cases currently inside this fixture (a case abandoned by the hang deadline stays counted)
}

var (
	c19SCMu sync.Mutex
	c19SC   *c19SCEnv
)

func c19SCGetEnv(x *h.Ctx) *c19SCEnv {
	c19SCMu.Lock()
	defer c19SCMu.Unlock()
	if c19SC != nil && c19SC.err == nil && c19SC.busy.Load() > 0 {
		// an earlier case never came back (cases of one process run one after the other): leave its fixture to it
		c19SC = nil
	}
	if c19SC == nil {
		e := &c19SCEnv{}
		c19SC = e
		func() {
			defer func() {
				if r := recover(); r != nil {
					e.err = fmt.Errorf("building the process fixture: %v", r)
				}
			}()
			t := x.TB.(*testing.T)
			e.ctx = NewTestVCRContext(t, nutsCrypto.NewMemoryCryptoInstance(t))
			e.vcr = e.ctx.VCR.(*vcr)
			e.ld = jsonld.NewTestJSONLDManager(t)
			// the issuer's DID document (fixed key as assertion method) is known to the node
			id := did.MustParseDID(c19SCIssuer)
			vm, err := did.NewVerificationMethod(did.MustParseDIDURL(c19SCIssuerKid), ssi.JsonWebKey2020, id, &c19x.ECKey().PublicKey)
			if err != nil {
				panic(err)
			}
			doc := did.Document{Context: []interface{}{did.DIDContextV1URI()}, ID: id}
			doc.AddAssertionMethod(vm)
			doc.AddCapabilityInvocation(vm)
			b, _ := json.Marshal(doc)
			if err := e.ctx.DIDStore.Add(doc, didstore.Transaction{Ref: hash.SHA256Sum([]byte("verif-c19-tx")), PayloadHash: hash.SHA256Sum(b), SigningTime: time.Date(2020, 1, 1, 0, 0, 0, 0, time.UTC)}); err != nil {
				panic(err)
			}
		}()
	}
	if c19SC.err != nil {
		x.Fatalf("%v", c19SC.err)
	}
	return c19SC
}

func c19SCSeeds(n int) []map[string]any {
	ctx := []any{"https://www.w3.org/2018/credentials/v1", "https://nuts.nl/credentials/v1"}
	base := func(typ string, subject map[string]any) map[string]any {
		return map[string]any{"@context": ctx, "id": fmt.Sprintf("%s#c-%d", c19SCIssuer, n), "type": []any{typ, "VerifiableCredential"}, "issuer": c19SCIssuer,
			"issuanceDate": "2024-01-01T12:00:00Z", "credentialSubject": subject}
	}
	return []map[string]any{
		base("NutsOrganizationCredential", map[string]any{"id": c19SCSubject, "organization": map[string]any{"name": "Because we care B.V.", "city": "Eibergen"}}),
		base("NutsAuthorizationCredential", map[string]any{"id": c19SCSubject, "purposeOfUse": "eTransfer",
			"resources": []any{map[string]any{"path": "/composition/1", "operations": []any{"read"}, "userContext": true}}}),
		base("NutsEmployeeCredential", map[string]any{"id": c19SCSubject, "member": map[string]any{"identifier": "1", "roleName": "nurse",
			"member": map[string]any{"familyName": "Tester", "initials": "T"}}}),
	}
}

var c19SCKeys = []string{"@context", "id", "type", "issuer", "issuanceDate", "expirationDate", "credentialSubject", "credentialStatus", "proof", "organization", "name", "city",
	"purposeOfUse", "resources", "member", "@type", "@id", "@value", "@graph", "@list", "@set", "@language", "@vocab", "@base", "@reverse", "@json", "@index", "@container"}

func c19SCGen(t *rapid.T) c19SCCase {
	return c19SCCase{
		Seed:   rapid.IntRange(0, 2).Draw(t, "seed"),
		Plan:   c19x.GenPlan(t, c19SCKeys),
		Signed: rapid.SampledFrom([]string{"after", "after", "after", "before"}).Draw(t, "signed"),
	}
}

func (e *c19SCEnv) sign(doc map[string]any) ([]byte, error) {
	k, err := jwk.FromRaw(c19x.ECKey())
	if err != nil {
		return nil, err
	}
	_ = k.Set(jwk.KeyIDKey, c19SCIssuerKid)
	suite := signature.JSONWebSignature2020{ContextLoader: e.ld.DocumentLoader(), Signer: nutsCrypto.MemoryJWTSigner{Key: k}}
	res, err := proof.NewLDProof(proof.ProofOptions{Created: time.Date(2024, 1, 1, 12, 0, 0, 0, time.UTC)}).Sign(audit.TestContext(), doc, suite, c19SCIssuerKid)
	if err != nil {
		return nil, err
	}
	return json.Marshal(res)
}

func c19SCRun(x *h.Ctx, c c19SCCase) {
	var e *c19SCEnv
	var payload []byte
	var ap c19x.Applied
	skip := ""
	c19x.Setup(x, "vcr fixture", func() {
		e = c19SCGetEnv(x)
		e.n++
		seeds := c19SCSeeds(e.n)
		seed := seeds[((c.Seed%len(seeds))+len(seeds))%len(seeds)]
		if c.Signed == "before" {
			signed, err := e.sign(seed)
			x.NoErr(err, "sign the valid seed")
			payload, ap = c.Plan.Apply(signed)
			return
		}
		mutated, a := c.Plan.ApplyDoc(jsonmut.Clone(any(seed)))
		ap = a
		raw := jsonmut.Encode(mutated)
		if len(raw) > c19SCMaxDoc {
			ap.Oversize = true
			return
		}
		var asMap map[string]any
		if json.Unmarshal(raw, &asMap) != nil {
			skip = "mutated-root-not-an-object"
			payload = raw
			return
		}
		// signing = what a hostile issuer does with its own key; if the document cannot even be canonicalised it cannot be
		// validly signed, then it goes out unsigned
		func() {
			defer func() {
				if r := recover(); r != nil {
					skip = "signing-panicked(issuer side, not the node under test)"
				}
			}()
			signed, err := e.sign(asMap)
			if err != nil {
				x.Class("sign:impossible")
				payload = raw
				return
			}
			x.Class("sign:ok")
			payload = signed
		}()
	})
	if ap.Oversize || len(payload) > c19SCMaxDoc+2048 { // (+ the proof)
		x.Class("skipped:oversize")
		return
	}
	if skip != "" {
		x.Class("skipped:" + skip)
		if payload == nil {
			return
		}
	}
	for _, cl := range ap.Classes() {
		x.Class(cl)
	}
	x.Class("signed=" + c.Signed)
	if c19x.IsJSON(payload) {
		x.NonTrivial()
		x.Class("stage1:is-JSON")
	}
	e.busy.Add(1)
	defer e.busy.Add(-1) // not reached by a case the hang deadline abandoned: the next case then takes a fresh fixture
	c19x.Guard(x, func() {
		// ambassador.vcCallback
		target := vc.VerifiableCredential{}
		if err := json.Unmarshal(payload, &target); err != nil {
			x.Class("unmarshal:rejected")
			return
		}
		before, cerr := e.vcr.credentialCollection().DocumentCount()
		x.NoErr(cerr, "DocumentCount")
		err := e.vcr.StoreCredential(target, &c19SCValidAt)
		after, cerr := e.vcr.credentialCollection().DocumentCount()
		x.NoErr(cerr, "DocumentCount")
		if err != nil {
			x.Class("store:rejected")
			if before != after {
				x.Violate("vcr-store-changed-after-reject", "StoreCredential returned %v but the document count went from %d to %d", err, before, after)
			}
			return
		}
		x.Class("store:accepted")
		// readers
		if target.ID != nil {
			if _, err := e.vcr.Resolve(*target.ID, &c19SCValidAt); err == nil {
				x.Class("resolve:ok")
			}
		}
		for _, q := range [][]SearchTerm{
			{{IRIPath: jsonld.OrganizationNamePath, Value: "Because", Type: Prefix}, {IRIPath: jsonld.CredentialSubjectPath, Type: NotNil}},
			{{IRIPath: jsonld.CredentialSubjectPath, Value: c19SCSubject, Type: Exact}},
			{{IRIPath: jsonld.CredentialIssuerPath, Value: c19SCIssuer, Type: Exact}},
		} {
			if res, err := e.vcr.Search(context.Background(), q, true, &c19SCValidAt); err == nil && len(res) > 0 {
				x.Class("search:hits")
			}
		}
	})
}

func TestVerif_C19_StoreCredential(t *testing.T) {
	h.Check(t, "C19", c19SCGen, c19SCRun, h.PanicIsViolation(), h.Deadline(10*time.Second))
}

func TestVerifReplay_C19_StoreCredential(t *testing.T) {
	h.Replay(t, "C19", "TestVerif_C19_StoreCredential", c19SCRun, h.PanicIsViolation(), h.Deadline(10*time.Second))
}
