//go:build verif

package vcr

// C11 (delivery of network revocations): revocation and credential transactions are handed to the REAL VCR ambassador
// entry points the DAG notifier calls (handleNetworkRevocations / handleNetworkVCs -> handleError), with a real
// vcr/verifier and a real leia revocation store underneath, and the real vcr instance as credential writer. A fault plan
// (case data) makes the revocation store write (and the credential write) fail per delivery attempt with the errors a
// busy BBolt store produces (wrapped context.DeadlineExceeded / context.Canceled behind "unable to obtain BBolt write
// lock: database error: ..."), with the bare context errors, or with a permanent I/O error. The harness then redelivers
// the event the way the notifier does: again unless the handler answered "finished" or wrapped its error in EventFatal.
//
// Oracle: a transient (time-out / cancellation) storage failure makes the handler ask for a retry - never "finished",
// never EventFatal; once an attempt without fault went through, every verification of the credential fails as revoked,
// also when the revocation was delivered before the credential; nothing is stored for a forged revocation; credentials
// nobody revoked keep verifying. A permanent storage error may be final (HEAD documents that go-leia errors cannot be
// told apart; repaired by Reprocess): the model follows the handler's answer there.

import (
	"context"
	"encoding/json"
	"errors"
	"fmt"
	"path/filepath"
	"sync"
	"testing"
	"time"

	ssi "github.com/nuts-foundation/go-did"
	"github.com/nuts-foundation/go-did/did"
	"github.com/nuts-foundation/go-did/vc"
	"github.com/nuts-foundation/go-stoabs"
	"github.com/nuts-foundation/go-stoabs/bbolt"
	"github.com/nuts-foundation/nuts-node/audit"
	"github.com/nuts-foundation/nuts-node/crypto"
	"github.com/nuts-foundation/nuts-node/jsonld"
	"github.com/nuts-foundation/nuts-node/network/dag"
	"github.com/nuts-foundation/nuts-node/storage"
	"github.com/nuts-foundation/nuts-node/vcr/credential"
	"github.com/nuts-foundation/nuts-node/vcr/issuer"
	"github.com/nuts-foundation/nuts-node/vcr/revocation"
	"github.com/nuts-foundation/nuts-node/vcr/signature"
	"github.com/nuts-foundation/nuts-node/vcr/signature/proof"
	"github.com/nuts-foundation/nuts-node/vcr/trust"
	"github.com/nuts-foundation/nuts-node/vcr/types"
	"github.com/nuts-foundation/nuts-node/vcr/verifier"
	"github.com/nuts-foundation/nuts-node/vdr/resolver"
	"github.com/sirupsen/logrus"
	"pgregory.net/rapid"
	"verif.local/h"
)

// ---------------------------------------------------------------------------------------------------------------------
// fixture

type c11aResolver struct{ docs map[string]*did.Document }

func (r *c11aResolver) Resolve(id did.DID, _ *resolver.ResolveMetadata) (*did.Document, *resolver.DocumentMetadata, error) {
	d, ok := r.docs[id.String()]
	if !ok {
		return nil, nil, resolver.ErrNotFound
	}
	return d, &resolver.DocumentMetadata{}, nil
}

type c11aPublisher struct {
	mu   sync.Mutex
	last *credential.Revocation
}

func (p *c11aPublisher) PublishCredential(context.Context, vc.VerifiableCredential, bool) error {
	return nil
}
func (p *c11aPublisher) PublishRevocation(_ context.Context, r credential.Revocation) error {
	p.mu.Lock()
	p.last = &r
	p.mu.Unlock()
	return nil
}

// c11aFaultErr builds the error a storage layer returns for a fault kind. transient = a time-out or cancellation.
func c11aFaultErr(kind string) (err error, transient bool) {
	switch kind {
	case "lock-timeout": // go-stoabs bbolt doTX when the write lock is not obtained within LockAcquireTimeout
		return fmt.Errorf("unable to obtain BBolt write lock: %w", stoabs.DatabaseError(context.DeadlineExceeded)), true
	case "lock-canceled":
		return fmt.Errorf("unable to obtain BBolt write lock: %w", stoabs.DatabaseError(context.Canceled)), true
	case "timeout-wrapped":
		return fmt.Errorf("backup of revocation failed: %w", context.DeadlineExceeded), true
	case "deadline-bare":
		return context.DeadlineExceeded, true
	case "canceled-bare":
		return context.Canceled, true
	case "permanent":
		return errors.New("write verifier-store.db: no space left on device"), false
	}
	return nil, false
}

var c11aFaultKinds = []string{"lock-timeout", "lock-timeout", "lock-canceled", "timeout-wrapped", "deadline-bare", "canceled-bare", "permanent"}

// c11aStore is the verifier's revocation store with a fault in front of the write.
type c11aStore struct {
	verifier.Store
	next  string // fault kind for the next StoreRevocation call ("" = none)
	fired bool
}

func (s *c11aStore) StoreRevocation(r credential.Revocation) error {
	if k := s.next; k != "" {
		s.next, s.fired = "", true
		err, _ := c11aFaultErr(k)
		return err
	}
	return s.Store.StoreRevocation(r)
}

// c11aWriter is the credential writer (the real vcr instance) with a fault in front of the write.
type c11aWriter struct {
	inner types.Writer
	next  string
	fired bool
}

func (w *c11aWriter) StoreCredential(c vc.VerifiableCredential, validAt *time.Time) error {
	if k := w.next; k != "" {
		w.next, w.fired = "", true
		err, _ := c11aFaultErr(k)
		return err
	}
	return w.inner.StoreCredential(c, validAt)
}

type c11aFix struct {
	ctx   context.Context
	vcr   *vcr
	keys  *crypto.Crypto
	res   *c11aResolver
	ld    jsonld.JSONLD
	sl    *revocation.StatusList2021
	iss   issuer.Issuer
	pub   *c11aPublisher
	trust *trust.Config
	dids  [3]did.DID // issuer A, issuer B, attacker
	kids  [3]string
	txNum uint32
}

var (
	c11aOnce sync.Once
	c11aTheF *c11aFix
)

func c11aFixture(t *testing.T) *c11aFix {
	c11aOnce.Do(func() {
		f := &c11aFix{ctx: audit.TestContext(), res: &c11aResolver{docs: map[string]*did.Document{}}, pub: &c11aPublisher{}}
		f.vcr = NewTestVCRInstance(t)
		logrus.SetLevel(logrus.PanicLevel)
		eng := storage.NewTestStorageEngine(t)
		if err := eng.Start(); err != nil {
			t.Fatalf("HARNESS: storage: %v", err)
		}
		db := eng.GetSQLDatabase()
		f.keys = crypto.NewDatabaseCryptoInstance(db)
		f.ld = jsonld.NewTestJSONLDManager(t)
		dir := t.TempDir()
		for i, name := range []string{"did:nuts:C11ambIssuerA", "did:nuts:C11ambIssuerB", "did:nuts:C11ambAttacker"} {
			d := did.MustParseDID(name)
			kid := name + "#key-1"
			_, pub, err := f.keys.New(f.ctx, crypto.StringNamingFunc(kid))
			if err != nil {
				t.Fatalf("HARNESS: key: %v", err)
			}
			vm, err := did.NewVerificationMethod(did.MustParseDIDURL(kid), ssi.JsonWebKey2020, d, pub)
			if err != nil {
				t.Fatalf("HARNESS: vm: %v", err)
			}
			doc := &did.Document{Context: []interface{}{did.DIDContextV1URI()}, ID: d}
			doc.AddAssertionMethod(vm)
			f.res.docs[name] = doc
			f.dids[i], f.kids[i] = d, kid
		}
		back, err := eng.GetProvider("vcr").GetKVStore("backup-issued-credentials", storage.PersistentStorageClass)
		if err != nil {
			t.Fatalf("HARNESS: %v", err)
		}
		issStore, err := issuer.NewStore(db, filepath.Join(dir, "issued.db"), back)
		if err != nil {
			t.Fatalf("HARNESS: issuer store: %v", err)
		}
		t.Cleanup(func() { _ = issStore.Close() })
		f.trust = trust.NewConfig(filepath.Join(dir, "trust.yaml"))
		f.sl = revocation.NewStatusList2021(db, nil, "https://node.example")
		f.iss = issuer.NewIssuer(issStore, nil, f.pub, nil, f.res, f.keys, f.ld, f.trust, f.sl)
		c11aTheF = f
	})
	if c11aTheF == nil {
		t.Fatalf("HARNESS: fixture construction failed earlier")
	}
	return c11aTheF
}

func (f *c11aFix) signRevocation(issuerURI, subject ssi.URI, kid string) ([]byte, error) {
	r := credential.BuildRevocation(issuerURI, subject)
	m := map[string]interface{}{}
	b, _ := json.Marshal(r)
	_ = json.Unmarshal(b, &m)
	res, err := proof.NewLDProof(proof.ProofOptions{Created: time.Now()}).Sign(f.ctx, m, signature.JSONWebSignature2020{ContextLoader: f.ld.DocumentLoader(), Signer: f.keys}, kid)
	if err != nil {
		return nil, err
	}
	return json.Marshal(res)
}

func (f *c11aFix) event(payloadType string, payload []byte, retries int) dag.Event {
	f.txNum++
	tx := dag.CreateSignedTestTransaction(f.txNum, time.Now(), nil, payloadType, true)
	return dag.Event{Type: dag.PayloadEventType, Hash: tx.Ref(), Retries: retries, Transaction: tx, Payload: payload}
}

// ---------------------------------------------------------------------------------------------------------------------
// case

type c11aOp struct {
	K      string   `json:"k"`                // issue | rev | vc | verify
	I      int      `json:"i,omitempty"`      // issue: issuer (0 = A, 1 = B)
	C      uint32   `json:"c,omitempty"`      // credential selector
	L      bool     `json:"l,omitempty"`      // most recently issued credential
	V      string   `json:"v,omitempty"`      // rev: real | genuine | forged | undecodable
	Faults []string `json:"faults,omitempty"` // fault kind per delivery attempt ("" = none); the fault plan
	Redo   int      `json:"redo,omitempty"`   // how many times the notifier gets to redeliver
	T      string   `json:"t,omitempty"`      // verify: reference time (validAt / resolveTime), see c11aRefTimes; "" = nil
	R      bool     `json:"r,omitempty"`      // verify: through vcr.Resolve(id, resolveTime) when the credential was delivered to the node
}

var c11aRefTimes = []string{"", "", "now", "issuance", "mid", "rev-10s", "rev-6s", "rev-4s", "rev", "rev+1s", "far-past", "far-future"}

func c11aVerifyOp(t *rapid.T, op c11aOp) c11aOp {
	op.K = "verify"
	op.T = rapid.SampledFrom(c11aRefTimes).Draw(t, "refTime")
	op.R = rapid.Bool().Draw(t, "viaResolve")
	return op
}

type c11aCase struct {
	Ops []c11aOp `json:"ops"`
}

func c11aGen(t *rapid.T) c11aCase {
	var c c11aCase
	c.Ops = append(c.Ops, c11aOp{K: "issue", I: rapid.IntRange(0, 1).Draw(t, "i")})
	plan := func(t *rapid.T) ([]string, int) {
		n := rapid.SampledFrom([]int{0, 1, 1, 1, 2, 3}).Draw(t, "nfaults")
		var fl []string
		for i := 0; i < n; i++ {
			fl = append(fl, rapid.SampledFrom(c11aFaultKinds).Draw(t, "kind"))
		}
		return fl, rapid.IntRange(0, 4).Draw(t, "redo")
	}
	step := rapid.Custom(func(t *rapid.T) []c11aOp {
		switch rapid.SampledFrom([]string{"issue", "rev", "rev", "rev", "forged", "vc", "verify", "verify", "sc-fault", "sc-fault", "sc-before"}).Draw(t, "k") {
		case "issue":
			return []c11aOp{{K: "issue", I: rapid.IntRange(0, 1).Draw(t, "i")}}
		case "rev":
			fl, redo := plan(t)
			return []c11aOp{{K: "rev", C: rapid.Uint32().Draw(t, "c"), V: rapid.SampledFrom([]string{"real", "genuine"}).Draw(t, "v"), Faults: fl, Redo: redo}}
		case "forged":
			fl, redo := plan(t)
			return []c11aOp{{K: "rev", C: rapid.Uint32().Draw(t, "c"), V: rapid.SampledFrom([]string{"forged", "undecodable"}).Draw(t, "v"), Faults: fl, Redo: redo}}
		case "vc":
			fl, redo := plan(t)
			return []c11aOp{{K: "vc", C: rapid.Uint32().Draw(t, "c"), Faults: fl, Redo: redo}}
		case "verify":
			return []c11aOp{c11aVerifyOp(t, c11aOp{C: rapid.Uint32().Draw(t, "c")})}
		case "sc-fault":
			// the store is busy for the first 1-3 attempts, the notifier keeps redelivering, then somebody verifies
			n := rapid.IntRange(1, 3).Draw(t, "busy")
			var fl []string
			for i := 0; i < n; i++ {
				fl = append(fl, rapid.SampledFrom(c11aFaultKinds[:6]).Draw(t, "kind"))
			}
			sel := rapid.Uint32().Draw(t, "c")
			return []c11aOp{{K: "rev", C: sel, V: rapid.SampledFrom([]string{"real", "genuine"}).Draw(t, "v"), Faults: fl, Redo: n + rapid.IntRange(0, 1).Draw(t, "extra")}, c11aVerifyOp(t, c11aOp{C: sel})}
		default: // sc-before: the revocation reaches the node before the credential does
			fl, redo := plan(t)
			return []c11aOp{{K: "issue", I: rapid.IntRange(0, 1).Draw(t, "i")}, {K: "rev", L: true, V: "real", Faults: fl, Redo: redo + len(fl)},
				{K: "vc", L: true}, c11aVerifyOp(t, c11aOp{L: true}), c11aVerifyOp(t, c11aOp{L: true})}
		}
	})
	for _, st := range rapid.SliceOfN(step, 2, 10).Draw(t, "steps") {
		if len(c.Ops)+len(st) > 20 {
			break
		}
		c.Ops = append(c.Ops, st...)
	}
	return c
}

type c11aCred struct {
	vc        vc.VerifiableCredential
	owner     int
	realUsed  bool
	delivered bool        // the credential transaction went through handleNetworkVCs
	revDates  []time.Time // dates stated by the revocations the node stored
}

type c11aRun struct {
	x       *h.Ctx
	f       *c11aFix
	store   *c11aStore
	writer  *c11aWriter
	v       verifier.Verifier
	amb     ambassador
	creds   []*c11aCred
	revoked map[string]bool
}

func (r *c11aRun) pick(op c11aOp) *c11aCred {
	if len(r.creds) == 0 {
		return nil
	}
	if op.L {
		return r.creds[len(r.creds)-1]
	}
	return r.creds[int(op.C%uint32(len(r.creds)))]
}

func (r *c11aRun) checkStore(why string) {
	for _, c := range r.creds {
		got, err := r.v.IsRevoked(*c.vc.ID)
		r.x.NoErr(err, "IsRevoked")
		if want := r.revoked[c.vc.ID.String()]; got != want {
			r.x.Violate(fmt.Sprintf("ambassador:store-state:want-revoked=%v:%s", want, why), "IsRevoked(%s) = %v", c.vc.ID, got)
		}
	}
}

// deliver hands an event to handler and redelivers it like the notifier: until "finished", a fatal error, or the
// redelivery budget is used up. faultFired reports (and resets) whether the injected fault hit during the last attempt.
func (r *c11aRun) deliver(what string, payloadType string, payload []byte, op c11aOp, handler func(dag.Event) (bool, error), arm func(kind string), faultFired func() bool) (outcome string, attempts int, transientSeen int) {
	x := r.x
	for a := 0; a <= op.Redo; a++ {
		kind := ""
		if a < len(op.Faults) {
			kind = op.Faults[a]
		}
		arm(kind)
		finished, err := handler(r.f.event(payloadType, payload, a))
		attempts++
		fired := faultFired()
		arm("")
		fatal := err != nil && errors.As(err, new(dag.EventFatal))
		if fired {
			_, transient := c11aFaultErr(kind)
			x.Classf("amb:%s:fault=%s", what, kind)
			if finished && err == nil {
				x.Violate("ambassador:storage-failure-reported-finished:"+what+":"+kind, "the %s write failed (%s) but the handler answered finished: the event is never redelivered", what, kind)
				return "lost", attempts, transientSeen
			}
			if transient {
				transientSeen++
				if fatal || finished {
					x.Violate("ambassador:transient-storage-failure-not-retried:"+what+":"+kind, "the %s write timed out / was cancelled (%v) and the handler answered finished=%v fatal=%v: the event is dropped instead of redelivered", what, err, finished, fatal)
					return "lost", attempts, transientSeen
				}
			}
		}
		switch {
		case finished && err == nil:
			return "finished", attempts, transientSeen
		case fatal:
			return "dropped", attempts, transientSeen
		}
		// anything else: the notifier schedules a retry
	}
	return "pending", attempts, transientSeen
}

func (r *c11aRun) opIssue(op c11aOp) {
	f := r.f
	owner := op.I % 2
	tmpl := vc.VerifiableCredential{
		Context:           []ssi.URI{ssi.MustParseURI("https://nuts.nl/credentials/v1")},
		Type:              []ssi.URI{ssi.MustParseURI("NutsEmployeeCredential")},
		Issuer:            f.dids[owner].URI(),
		CredentialSubject: []any{map[string]any{"id": "did:nuts:C11ambHolder"}},
	}
	// issued 20 days ago, so that reference times between issuance and revocation exist
	issuer.TimeFunc = func() time.Time { return time.Now().Add(-20 * 24 * time.Hour) }
	cred, err := f.iss.Issue(f.ctx, tmpl, issuer.CredentialOptions{})
	issuer.TimeFunc = time.Now
	r.x.NoErr(err, "Issue")
	r.creds = append(r.creds, &c11aCred{vc: *cred, owner: owner})
}

func (r *c11aRun) opRev(op c11aOp) bool {
	x, f := r.x, r.f
	c := r.pick(op)
	if c == nil {
		return false
	}
	id := *c.vc.ID
	var payload []byte
	var err error
	variant := op.V
	switch variant {
	case "real":
		if !c.realUsed {
			c.realUsed = true
			f.pub.last = nil
			_, rerr := f.iss.Revoke(f.ctx, id)
			x.NoErr(rerr, "issuer.Revoke")
			if f.pub.last == nil {
				x.Fatalf("issuer.Revoke did not publish a revocation")
			}
			payload, err = json.Marshal(f.pub.last)
			break
		}
		variant = "genuine"
		fallthrough
	case "genuine":
		payload, err = f.signRevocation(f.dids[c.owner].URI(), id, f.kids[c.owner])
	case "forged": // the attacker, correctly signing in its own name, about the owner's credential
		payload, err = f.signRevocation(f.dids[2].URI(), id, f.kids[2])
	case "undecodable":
		payload = []byte(`{"issuer": 5, "subject": [`)
	default:
		x.Fatalf("unknown variant %q", variant)
	}
	x.NoErr(err, "build revocation")
	x.Class("amb:rev:" + variant)
	outcome, attempts, transient := r.deliver("revocation", types.RevocationLDDocumentType, payload, op, r.amb.handleNetworkRevocations,
		func(k string) { r.store.next = k }, func() bool { fd := r.store.fired; r.store.fired = false; return fd })
	x.Classf("amb:rev:outcome=%s", outcome)
	x.Classf("amb:rev:attempts=%d", attempts)
	genuine := variant == "real" || variant == "genuine"
	switch {
	case genuine && outcome == "finished":
		r.revoked[id.String()] = true
		var rv credential.Revocation
		if json.Unmarshal(payload, &rv) == nil {
			c.revDates = append(c.revDates, rv.Date)
		}
		if transient > 0 {
			x.Classf("amb:rev:accepted-after-%d-transient-failures", transient)
		}
	case genuine && outcome == "dropped":
		if len(op.Faults) == 0 {
			x.Violate("ambassador:genuine-revocation-dropped", "a genuine revocation for %s was answered with a fatal error without any storage fault", id)
		}
		x.Class("amb:rev:dropped-on-permanent-storage-error(documented)")
	case !genuine && outcome == "pending":
		x.Class("amb:rev:forged-kept-pending")
	}
	r.checkStore("after-" + variant + "-" + outcome)
	return genuine && outcome == "finished"
}

func (r *c11aRun) opVC(op c11aOp) {
	x := r.x
	c := r.pick(op)
	if c == nil {
		return
	}
	payload, _ := json.Marshal(c.vc)
	outcome, attempts, _ := r.deliver("credential", types.VcDocumentType, payload, op, r.amb.handleNetworkVCs,
		func(k string) { r.writer.next = k }, func() bool { fd := r.writer.fired; r.writer.fired = false; return fd })
	x.Classf("amb:vc:outcome=%s", outcome)
	x.Classf("amb:vc:attempts=%d", attempts)
	if outcome == "dropped" && len(op.Faults) == 0 {
		x.Violate("ambassador:genuine-credential-dropped", "credential %s was answered with a fatal error without any storage fault", c.vc.ID)
	}
	if outcome == "finished" {
		c.delivered = true
	}
	if outcome == "finished" && r.revoked[c.vc.ID.String()] {
		x.Class("amb:credential-arrived-after-its-revocation")
	}
	r.checkStore("after-vc")
}

func (r *c11aRun) refTime(c *c11aCred, kind string) *time.Time {
	now := time.Now()
	issued := c.vc.IssuanceDate
	rev := now
	for i, d := range c.revDates {
		if i == 0 || d.Before(rev) {
			rev = d
		}
	}
	var t time.Time
	switch kind {
	case "":
		return nil
	case "now":
		t = now
	case "issuance":
		t = issued
	case "mid":
		t = issued.Add(rev.Sub(issued) / 2)
	case "rev-10s":
		t = rev.Add(-10 * time.Second)
	case "rev-6s":
		t = rev.Add(-6 * time.Second)
	case "rev-4s":
		t = rev.Add(-4 * time.Second)
	case "rev":
		t = rev
	case "rev+1s":
		t = rev.Add(time.Second)
	case "far-past":
		t = issued.Add(-365 * 24 * time.Hour)
	case "far-future":
		t = now.Add(365 * 24 * time.Hour)
	default:
		r.x.Fatalf("unknown reference time %q", kind)
	}
	return &t
}

// opVerify: a verification that happens now, asked for any reference time, through Verifier.Verify or - when the
// credential transaction was delivered to the node - through vcr.Resolve(id, resolveTime). Once the node stored the
// revocation, it fails as revoked whatever the reference time, unless the credential is not valid then anyway.
func (r *c11aRun) opVerify(op c11aOp) bool {
	x := r.x
	c := r.pick(op)
	if c == nil {
		return false
	}
	at := r.refTime(c, op.T)
	validThen := at == nil || !at.Before(c.vc.IssuanceDate)
	how := "Verify"
	var err error
	if op.R && c.delivered {
		how = "Resolve"
		_, err = r.f.vcr.Resolve(*c.vc.ID, at)
	} else {
		err = r.v.Verify(c.vc, true, true, at)
	}
	isRevoked := errors.Is(err, types.ErrRevoked)
	want := r.revoked[c.vc.ID.String()]
	bucket := op.T
	if bucket == "" {
		bucket = "nil"
	}
	x.Classf("amb:verify:%s:ref=%s:revoked=%v", how, bucket, want)
	switch {
	case !validThen:
		x.Class("amb:verify:reference-time-before-validity")
	case want && !isRevoked:
		x.Violate(fmt.Sprintf("ambassador:verify:want-revoked=true:%s:ref=%s", how, bucket), "%s(%s, %v) = %v although the node stored a revocation (dates %v)", how, c.vc.ID, at, err, c.revDates)
		return true
	case !want && isRevoked:
		x.Violate(fmt.Sprintf("ambassador:verify:want-revoked=false:%s:ref=%s", how, bucket), "%s(%s, %v) = %v", how, c.vc.ID, at, err)
		return true
	case !want && err != nil:
		x.Fatalf("credential that is not revoked failed %s at %v: %v", how, at, err)
	}
	x.Classf("amb:verify:revoked=%v", want)
	return true
}

func c11aRunCase(t *testing.T) func(x *h.Ctx, c c11aCase) {
	return func(x *h.Ctx, c c11aCase) {
		if len(c.Ops) > 200 {
			return
		}
		f := c11aFixture(t)
		dir := x.TempDir()
		backup, err := bbolt.CreateBBoltStore(filepath.Join(dir, "backup.db"), stoabs.WithNoSync())
		x.NoErr(err, "backup store")
		x.Cleanup(func() { _ = backup.Close(context.Background()) })
		inner, err := verifier.NewLeiaVerifierStore(filepath.Join(dir, "verifier-store.db"), backup)
		x.NoErr(err, "leia verifier store")
		x.Cleanup(func() { _ = inner.Close() })
		r := &c11aRun{x: x, f: f, store: &c11aStore{Store: inner}, revoked: map[string]bool{}}
		r.v = verifier.NewVerifier(r.store, f.res, resolver.DIDKeyResolver{Resolver: f.res}, f.ld, f.trust, f.sl)
		f.vcr.verifier = r.v // the real vcr instance verifies incoming credentials with this node's verifier
		r.writer = &c11aWriter{inner: f.vcr}
		r.amb = ambassador{writer: r.writer, verifier: r.v}
		accepted := false
		for i, op := range c.Ops {
			before := len(x.Violations())
			switch op.K {
			case "issue":
				r.opIssue(op)
			case "rev":
				if len(op.Faults) > 8 || op.Redo > 16 || op.Redo < 0 {
					return
				}
				if r.opRev(op) {
					accepted = true
				}
			case "vc":
				if len(op.Faults) > 8 || op.Redo > 16 || op.Redo < 0 {
					return
				}
				r.opVC(op)
			case "verify":
				if r.opVerify(op) && accepted {
					x.NonTrivial()
				}
			}
			if len(x.Violations()) > before {
				x.Logf("violation at step %d (%s %s)", i, op.K, op.V)
				return
			}
		}
		for i := range r.creds {
			r.opVerify(c11aOp{K: "verify", C: uint32(i)})
		}
	}
}

func TestVerif_C11_AmbassadorDelivery(t *testing.T) {
	h.Check(t, "C11", c11aGen, c11aRunCase(t))
}

func TestVerifReplay_C11_AmbassadorDelivery(t *testing.T) {
	h.Replay(t, "C11", "TestVerif_C11_AmbassadorDelivery", c11aRunCase(t))
}
