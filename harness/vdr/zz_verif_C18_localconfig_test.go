//go:build verif

package vdr

// C18 (locally managed DIDs, whatever the node's `didmethods` is): the REAL vdr.Module is configured through its real
// Configure with a generated didmethods setting, subjects are created / changed / deactivated through the manager it builds,
// and the module is "restarted" (new Module, real Configure, same SQL database, same key store, same did:nuts store) 0-2 times
// with another didmethods value. The recording fake network (c18net) is the default transport; it plays a web that serves,
// for every did.json URL, an active document carrying exactly the id that URL encodes — so a managed DID that leaks to the
// web would even resolve; only the log and the document's "from-the-web" tag tell.
//
// Oracle, for every DID in this node's SQL store and every configuration: resolving it through Module.Resolve (the method
// router) makes no outbound request and either returns the local document (id == DID, not the web's, the model's number of
// services; a deactivated one only with AllowDeactivated, otherwise ErrDeactivated) or refuses; with "web" among the managed
// methods an active managed did:web DID must resolve. A did:web DID of another party is fetched from exactly its origin.
//
// Limits of the fixture: network.Transactions is a gomock stub (CreateTransaction succeeds, nothing is delivered), so did:nuts
// documents exist in the SQL store only; their resolution is judged on "no outbound request, never the web's document".
// Updates and deactivation are only performed while didmethods = [web] on subjects that only have a did:web DID (with "nuts"
// among the methods they need the did:nuts document in the did:nuts store).

import (
	"context"
	"database/sql"
	"database/sql/driver"
	"encoding/json"
	"errors"
	"fmt"
	"net"
	"net/http"
	"net/url"
	"strings"
	"sync"
	"testing"

	"github.com/nuts-foundation/go-did/did"
	"github.com/nuts-foundation/nuts-node/audit"
	"github.com/nuts-foundation/nuts-node/core"
	nutsCrypto "github.com/nuts-foundation/nuts-node/crypto"
	"github.com/nuts-foundation/nuts-node/http/client"
	"github.com/nuts-foundation/nuts-node/network"
	"github.com/nuts-foundation/nuts-node/pki"
	"github.com/nuts-foundation/nuts-node/storage"
	"github.com/nuts-foundation/nuts-node/storage/orm"
	"github.com/nuts-foundation/nuts-node/vdr/didnuts/didstore"
	"github.com/nuts-foundation/nuts-node/vdr/didsubject"
	"github.com/nuts-foundation/nuts-node/vdr/didweb"
	"github.com/nuts-foundation/nuts-node/vdr/resolver"
	"github.com/sirupsen/logrus"
	"go.uber.org/mock/gomock"
	"gorm.io/gorm"
	"pgregory.net/rapid"
	"verif.local/h"
	"verif.local/h/c18net"
)

// the didmethods settings; index 0 = not set (the default of core.NewServerConfig)
var c18CfgMethods = [][]string{nil, {"web", "nuts"}, {"nuts", "web"}, {"web"}, {"nuts"}}

func c18CfgName(i int) string {
	if c18CfgMethods[i] == nil {
		return "default"
	}
	return "[" + strings.Join(c18CfgMethods[i], ",") + "]"
}

type c18CfgOp struct {
	K     string `json:"k"`               // restart | create | service | addvm | deactivate | resolve | resolve-foreign
	S     int    `json:"s,omitempty"`     // subject selector
	M     int    `json:"m,omitempty"`     // restart: index into c18CfgMethods
	Allow bool   `json:"allow,omitempty"` // resolve: AllowDeactivated
	Meta  bool   `json:"meta,omitempty"`  // resolve: pass a non-nil, empty ResolveMetadata
	// resolve: the node's SQL storage fails while Module.Resolve runs (nil = healthy storage)
	Fault *c18CfgFault `json:"fault,omitempty"`
}

// c18CfgFault is a storage fault that lasts exactly as long as the Module.Resolve call under test. The module holds the
// node's real database handle, so the fault is applied underneath it:
// hook = SQL statement number At issued during the call fails with error Err before it reaches the driver;
// no-table = table number At of the four the managed-DID read touches is missing (renamed away and back).
type c18CfgFault struct {
	Kind string `json:"kind"`
	At   int    `json:"at,omitempty"`
	Err  string `json:"err,omitempty"` // hook: generic | conn-done | bad-conn | canceled | deadline | tx-done | invalid-db | closed
}

var c18CfgHookErrs = map[string]error{
	"generic":    errors.New("c18: injected storage failure"),
	"conn-done":  sql.ErrConnDone,
	"bad-conn":   driver.ErrBadConn,
	"canceled":   context.Canceled,
	"deadline":   context.DeadlineExceeded,
	"tx-done":    sql.ErrTxDone,
	"invalid-db": gorm.ErrInvalidDB,
	"closed":     errors.New("sql: database is closed"),
}

var c18CfgReadTables = []string{"did_document_version", "did", "did_service", "did_verification_method"}

func (f *c18CfgFault) String() string {
	if f == nil {
		return "none"
	}
	if f.Kind == "hook" {
		return fmt.Sprintf("hook(statement %d fails: %s)", f.At, f.Err)
	}
	return fmt.Sprintf("%s(%d)", f.Kind, f.At)
}

// c18CfgHook: callbacks registered once on the node's shared handle (gorm keeps callbacks per configuration, so every
// session the module derives from it runs them); a no-op unless armed.
var c18CfgHook struct {
	armed, fired bool
	at, seen     int
	err          error
}

func c18CfgInstallFaultHook(db *gorm.DB) error {
	fn := func(tx *gorm.DB) {
		if !c18CfgHook.armed {
			return
		}
		if c18CfgHook.seen == c18CfgHook.at {
			c18CfgHook.fired = true
			_ = tx.AddError(c18CfgHook.err)
		}
		c18CfgHook.seen++
	}
	if err := db.Callback().Query().Before("gorm:query").Register("c18:storage-fault", fn); err != nil {
		return err
	}
	if err := db.Callback().Row().Before("gorm:row").Register("c18:storage-fault", fn); err != nil {
		return err
	}
	return db.Callback().Raw().Before("gorm:raw").Register("c18:storage-fault", fn)
}

// c18CfgApplyFault starts the fault; the returned function ends it and tells whether it took effect.
func c18CfgApplyFault(x *h.Ctx, db *gorm.DB, f *c18CfgFault) func() bool {
	switch f.Kind {
	case "hook":
		e := c18CfgHookErrs[f.Err]
		if e == nil {
			e = c18CfgHookErrs["generic"]
		}
		c18CfgHook.armed, c18CfgHook.fired, c18CfgHook.at, c18CfgHook.seen, c18CfgHook.err = true, false, f.At, 0, e
		return func() bool { c18CfgHook.armed = false; return c18CfgHook.fired }
	case "no-table":
		tbl := c18CfgReadTables[((f.At%len(c18CfgReadTables))+len(c18CfgReadTables))%len(c18CfgReadTables)]
		x.NoErr(db.Exec("ALTER TABLE "+tbl+" RENAME TO "+tbl+"_c18gone").Error, "rename table away")
		restored := false
		restore := func() bool {
			if !restored {
				restored = true
				x.NoErr(db.Exec("ALTER TABLE "+tbl+"_c18gone RENAME TO "+tbl).Error, "rename table back")
			}
			return true
		}
		x.Cleanup(func() { restore() })
		return restore
	}
	return func() bool { return false }
}

type c18CfgCase struct {
	URL  string     `json:"url"`  // the node's public URL
	Init int        `json:"init"` // first didmethods setting
	Ops  []c18CfgOp `json:"ops"`
}

func c18CfgHasWeb(i int) bool {
	return c18CfgMethods[i] == nil || strings.Contains(strings.Join(c18CfgMethods[i], ","), "web")
}

func c18GenLocalConfig(t *rapid.T) c18CfgCase {
	c := c18CfgCase{
		URL:  rapid.SampledFrom([]string{"https://nuts.example.com", "https://example.com:8443", "https://node.example.nl/tenant"}).Draw(t, "url"),
		Init: rapid.SampledFrom([]int{3, 0, 1, 3, 2, 4}).Draw(t, "init"),
	}
	cur := c.Init
	restarts := rapid.IntRange(0, 2).Draw(t, "restarts")
	state := map[int]int{}    // 0 absent, 1 active, 2 deactivated
	webOnly := map[int]bool{} // subject was created while didmethods = [web]
	// phases separated by restarts; the generator follows the model so that every op applies: the first phase mostly builds
	// histories (create, change, deactivate), the phases after a restart mostly resolve what is there
	for phase := 0; phase <= restarts; phase++ {
		if phase > 0 {
			op := c18CfgOp{K: "restart", M: rapid.SampledFrom([]int{4, 3, 0, 1, 2, 4}).Draw(t, "m")}
			cur = op.M
			c.Ops = append(c.Ops, op)
		}
		n := rapid.IntRange(2, 6).Draw(t, "n")
		for i := 0; i < n; i++ {
			op := c18CfgOp{S: rapid.IntRange(0, 2).Draw(t, "s")}
			var kinds []string
			switch state[op.S] {
			case 0:
				kinds = []string{"create", "create", "create", "resolve-foreign"}
			case 1:
				if cur == 3 && webOnly[op.S] {
					kinds = []string{"deactivate", "resolve", "service", "deactivate", "addvm", "resolve", "resolve-foreign"}
				} else {
					kinds = []string{"resolve", "resolve", "resolve", "resolve-foreign"}
				}
			default:
				kinds = []string{"resolve", "resolve", "resolve", "resolve-foreign"}
			}
			if phase > 0 && state[op.S] != 0 {
				kinds = append([]string{"resolve", "resolve"}, kinds...)
			}
			op.K = rapid.SampledFrom(kinds).Draw(t, "k")
			switch op.K {
			case "create":
				state[op.S] = 1
				webOnly[op.S] = cur == 3
			case "deactivate":
				state[op.S] = 2
			case "resolve":
				op.Allow = rapid.IntRange(0, 2).Draw(t, "allow") == 2
				op.Meta = rapid.Bool().Draw(t, "meta")
				if rapid.IntRange(0, 2).Draw(t, "faulty") == 0 {
					f := &c18CfgFault{Kind: rapid.SampledFrom([]string{"hook", "hook", "hook", "hook", "hook", "no-table"}).Draw(t, "fault")}
					if f.Kind == "hook" {
						f.At = rapid.SampledFrom([]int{0, 0, 0, 1, 2, 3, 4}).Draw(t, "faultat") // beyond the last statement: never fires
						f.Err = rapid.SampledFrom([]string{"generic", "closed", "conn-done", "bad-conn", "canceled", "deadline", "tx-done", "invalid-db"}).Draw(t, "faulterr")
					} else {
						f.At = rapid.IntRange(0, len(c18CfgReadTables)-1).Draw(t, "faultat")
					}
					op.Fault = f
				}
			}
			c.Ops = append(c.Ops, op)
		}
	}
	return c
}

var (
	c18CfgOnce    sync.Once
	c18CfgStorage storage.Engine
	c18CfgStore   didstore.Store
	c18CfgSeq     int
)

func c18CfgFixture(tb testing.TB) (storage.Engine, didstore.Store) {
	c18CfgOnce.Do(func() {
		logrus.SetLevel(logrus.PanicLevel)
		e := storage.NewTestStorageEngine(tb)
		if err := e.Start(); err != nil {
			tb.Fatal(err)
		}
		st := didstore.New(e.GetProvider("VDR"))
		if err := st.(core.Configurable).Configure(core.ServerConfig{}); err != nil {
			tb.Fatal(err)
		}
		if err := c18CfgInstallFaultHook(e.GetSQLDatabase()); err != nil {
			tb.Fatal(err)
		}
		c18CfgStorage, c18CfgStore = e, st
	})
	return c18CfgStorage, c18CfgStore
}

type c18CfgSubject struct {
	name        string
	dids        []did.DID
	deactivated bool
	services    int
	webOnly     bool
}

func c18RunLocalConfig(x *h.Ctx, c c18CfgCase) {
	if len(c.Ops) > 48 || c.Init < 0 || c.Init >= len(c18CfgMethods) {
		return
	}
	nodeURL, err := url.Parse(c.URL)
	if err != nil || nodeURL.Scheme != "https" {
		return
	}
	eng, nutsStore := c18CfgFixture(x.TB)
	db := eng.GetSQLDatabase()
	keys := nutsCrypto.NewDatabaseCryptoInstance(db)
	ctrl := gomock.NewController(x.TB)
	netMock := network.NewMockTransactions(ctrl)
	netMock.EXPECT().CreateTransaction(gomock.Any(), gomock.Any()).AnyTimes().Return(nil, nil)
	pkiMock := pki.NewMockValidator(ctrl)

	// the web: every did.json URL is answered with an active document carrying the id that URL encodes
	nw := &c18net.Net{}
	nw.Respond = func(_ int, r *http.Request) c18net.Answer {
		hd := http.Header{}
		hd.Set("Content-Type", "application/did+json")
		id, err := didweb.URLToDID(*r.URL)
		if err != nil {
			return c18net.Answer{Status: 404, Header: hd}
		}
		body, _ := json.Marshal(map[string]any{
			"@context": "https://www.w3.org/ns/did/v1", "id": id.String(), "controller": id.String(),
			"service": []any{map[string]any{"id": id.String() + "#leak", "type": "from-the-web", "serviceEndpoint": "https://evil.example"}},
		})
		return c18net.Answer{Status: 200, Header: hd, Body: body}
	}
	oldDef, oldCache, oldDial := http.DefaultTransport, client.DefaultCachingTransport, client.SafeHttpTransport.DialContext
	http.DefaultTransport, client.DefaultCachingTransport = nw, nw
	client.SafeHttpTransport.DialContext = func(_ context.Context, network, addr string) (net.Conn, error) {
		_, _ = nw.RoundTrip(&http.Request{Method: "DIAL", URL: &url.URL{Scheme: "https", Host: addr}})
		return nil, fmt.Errorf("c18: dial %s %s refused", network, addr)
	}
	x.Cleanup(func() {
		http.DefaultTransport, client.DefaultCachingTransport, client.SafeHttpTransport.DialContext = oldDef, oldCache, oldDial
	})

	cur := c.Init
	configure := func(mi int) *Module {
		m := NewVDR(keys, netMock, nutsStore, nil, eng, pkiMock)
		cfg := core.TestServerConfig(func(sc *core.ServerConfig) {
			sc.URL = c.URL
			sc.Strictmode = false // strict mode refuses the reserved example host names used here
			if c18CfgMethods[mi] != nil {
				sc.DIDMethods = append([]string{}, c18CfgMethods[mi]...)
			}
		})
		x.NoErr(m.Configure(cfg), "vdr configure "+c18CfgName(mi))
		return m
	}
	m := configure(cur)
	x.Class("didmethods:initial=" + c18CfgName(cur))

	c18CfgSeq++
	ctx := audit.TestContext()
	subs := map[int]*c18CfgSubject{}
	restarted, sawFault := false, false

	for i, op := range c.Ops {
		s := subs[op.S]
		switch op.K {
		case "restart":
			if op.M < 0 || op.M >= len(c18CfgMethods) {
				continue
			}
			x.Class("didmethods:" + c18CfgName(cur) + "->" + c18CfgName(op.M))
			cur = op.M
			m = configure(cur)
			restarted = true
		case "create":
			if s != nil {
				continue
			}
			name := fmt.Sprintf("c18cfg-%d-%d", c18CfgSeq, op.S)
			docs, _, err := m.Create(ctx, didsubject.DefaultCreationOptions().With(didsubject.SubjectCreationOption{Subject: name}))
			x.NoErr(err, "create subject under "+c18CfgName(cur))
			s = &c18CfgSubject{name: name, webOnly: true}
			for _, d := range docs {
				s.dids = append(s.dids, d.ID)
				if d.ID.Method != "web" {
					s.webOnly = false
				}
			}
			if len(s.dids) == 0 {
				x.Fatalf("create returned no documents")
			}
			subs[op.S] = s
		case "service", "addvm", "deactivate":
			if s == nil || s.deactivated || !s.webOnly || cur != 3 {
				x.Class("op-skipped:mutation-needs-didmethods=[web]")
				continue
			}
			switch op.K {
			case "service":
				_, err := m.CreateService(ctx, s.name, did.Service{Type: fmt.Sprintf("t%d", i), ServiceEndpoint: "https://example.com/x"})
				x.NoErr(err, "create service")
				s.services++
			case "addvm":
				_, err := m.AddVerificationMethod(ctx, s.name, orm.AssertionKeyUsage())
				x.NoErr(err, "add verification method")
			default:
				x.NoErr(m.Deactivate(ctx, s.name), "deactivate")
				s.deactivated = true
			}
		case "resolve":
			if s == nil {
				continue
			}
			var md *resolver.ResolveMetadata
			if op.Allow || op.Meta {
				md = &resolver.ResolveMetadata{AllowDeactivated: op.Allow}
			}
			for _, id := range s.dids {
				// managed by this node = in its SQL store, whatever didmethods says now
				nw.Reset()
				if _, err := m.ResolveManaged(id); err != nil && !errors.Is(err, resolver.ErrDeactivated) {
					x.Fatalf("step %d: %s is not in the node's store: %v", i, id, err)
				}
				what := fmt.Sprintf("didmethods=%s, DID deactivated=%v, allow=%v, nil-metadata=%v, after-restart=%v, storage-fault=%s", c18CfgName(cur), s.deactivated, op.Allow, md == nil, restarted, op.Fault)
				nw.Reset()
				endFault := func() bool { return false }
				if op.Fault != nil {
					endFault = c18CfgApplyFault(x, db, op.Fault)
				}
				doc, dmd, err := m.Resolve(id, md)
				faulted := endFault()
				if op.Fault != nil {
					x.Classf("storage-fault:%s:%s", op.Fault.Kind, c18CfgFaultEffect(op.Fault.Kind, faulted))
				}
				if faulted {
					// The storage failed while the module read this managed DID: which error comes back is not prescribed. What
					// the statement still guarantees: no network access for a managed DID, never the web's document, and a
					// deactivated DID stays unresolvable. An error is the expected outcome and is accepted as it is.
					sawFault = true
					x.Classf("resolved-managed-under-storage-fault:did:%s:under=%s", id.Method, c18CfgName(cur))
					if l := nw.Log(); len(l) > 0 {
						x.Violate("localcfg-net:request:storage-fault", "step %d: the storage failed while %s, which this node manages, was read and the resolution made an outbound request to %s (%s)", i, id, l[0].URL, what)
					}
					if err != nil {
						x.Classf("storage-fault-outcome:error(%s)", c18CfgErrClass(err))
						if doc != nil || dmd != nil {
							x.Violate("localcfg-result:doc-with-error", "step %d: %s: error %v together with a document", i, id, err)
						}
						continue
					}
					webDoc := false
					if doc != nil {
						for _, sv := range doc.Service {
							webDoc = webDoc || sv.Type == "from-the-web"
						}
					}
					if webDoc {
						x.Violate("localcfg-net:web-document-returned:storage-fault", "step %d: the storage failed and %s, which this node manages, resolved to the document served by the web (%s)", i, id, what)
						if s.deactivated && !op.Allow {
							x.Violate("localcfg-deactivated:resolved:storage-fault", "step %d: locally deactivated %s resolved (from the web) without AllowDeactivated while the storage failed (%s)", i, id, what)
						}
						continue
					}
					// a document without an error although a statement failed: judged like any other local answer
					x.Class("storage-fault-outcome:document")
				}
				x.Classf("resolved-managed:did:%s:under=%s", id.Method, c18CfgName(cur))
				if s.deactivated {
					x.Classf("resolved-managed-deactivated:under=%s", c18CfgName(cur))
				}
				if l := nw.Log(); len(l) > 0 {
					x.Violate("localcfg-net:request", "step %d: resolving %s, which this node manages, made an outbound request to %s (%s)", i, id, l[0].URL, what)
				}
				if err != nil {
					x.Classf("managed-outcome:refused(%s)", c18CfgErrClass(err))
					if doc != nil || dmd != nil {
						x.Violate("localcfg-result:doc-with-error", "step %d: %s: error %v together with a document", i, id, err)
					}
					if id.Method == "web" && c18CfgHasWeb(cur) {
						switch {
						case s.deactivated && !op.Allow:
							if !errors.Is(err, resolver.ErrDeactivated) {
								x.Violate("localcfg-deactivated:wrong-error", "step %d: deactivated %s: %v is not ErrDeactivated (%s)", i, id, err, what)
							}
						default:
							x.Violate("localcfg-active:rejected", "step %d: managed %s does not resolve although did:web is a managed method: %v (%s)", i, id, err, what)
						}
					}
					continue
				}
				x.Class("managed-outcome:document")
				if doc == nil || doc.ID.String() != id.String() {
					x.Violate("localcfg-docid:differs", "step %d: %s resolved to a document with another id (%s)", i, id, what)
					continue
				}
				for _, sv := range doc.Service {
					if sv.Type == "from-the-web" {
						x.Violate("localcfg-net:web-document-returned", "step %d: %s, which this node manages, resolved to the document served by the web (%s)", i, id, what)
					}
				}
				if s.deactivated && !op.Allow {
					x.Violate("localcfg-deactivated:resolved", "step %d: locally deactivated %s resolved without AllowDeactivated (%s)", i, id, what)
					continue
				}
				if id.Method == "web" {
					if s.deactivated && (!resolver.IsDeactivated(*doc) || dmd == nil || !dmd.Deactivated) {
						x.Violate("localcfg-deactivated:not-marked", "step %d: deactivated %s resolved with AllowDeactivated but is not marked deactivated (%s)", i, id, what)
					}
					if !s.deactivated && len(doc.Service) != s.services {
						x.Violate("localcfg-stale:services", "step %d: %s resolved with %d services, the local history has %d (%s)", i, id, len(doc.Service), s.services, what)
					}
				}
			}
		case "resolve-foreign":
			// a did:web DID of another party: fetched from exactly its origin whenever did:web resolution is available
			id := did.MustParseDID(fmt.Sprintf("did:web:other-party.example:iam:%d", op.S))
			nw.Reset()
			doc, _, err := m.Resolve(id, nil)
			l := nw.Traffic()
			x.Classf("resolved-foreign:under=%s:%s", c18CfgName(cur), map[bool]string{true: "ok", false: "refused"}[err == nil])
			want, _ := didweb.DIDToURL(id)
			for _, e := range l {
				if want == nil || e.URL != want.String()+"/did.json" {
					x.Violate("localcfg-foreign:origin", "step %d: %s of another party fetched from %s", i, id, e.URL)
				}
			}
			if c18CfgHasWeb(cur) {
				if err != nil || doc == nil || doc.ID.String() != id.String() || len(l) != 1 {
					x.Violate("localcfg-foreign:rejected", "step %d: %s served correctly by its origin does not resolve under %s: %v (%d requests)", i, id, c18CfgName(cur), err, len(l))
				}
			} else if err == nil && (doc == nil || doc.ID.String() != id.String() || len(l) == 0) {
				x.Violate("localcfg-foreign:unbound", "step %d: %s resolved under %s without a request to its origin", i, id, c18CfgName(cur))
			}
		}
	}
	if restarted {
		x.Class("case:restarted")
		x.NonTrivial()
	}
	if sawFault {
		x.Class("case:managed-did-resolved-under-storage-fault")
		x.NonTrivial()
	}
}

func c18CfgErrClass(err error) string {
	switch {
	case errors.Is(err, resolver.ErrDIDMethodNotSupported):
		return "method-not-supported"
	case errors.Is(err, resolver.ErrDeactivated):
		return "deactivated"
	case errors.Is(err, resolver.ErrNotFound):
		return "not-found"
	}
	return "other"
}

func TestVerif_C18_LocalConfig(t *testing.T) {
	h.Check(t, "C18", c18GenLocalConfig, c18RunLocalConfig, h.PanicIsViolation())
}

func TestVerifReplay_C18_LocalConfig(t *testing.T) {
	h.Replay(t, "C18", "TestVerif_C18_LocalConfig", c18RunLocalConfig, h.PanicIsViolation())
}

func c18CfgFaultEffect(kind string, faulted bool) string {
	switch {
	case kind == "no-table":
		return "table-missing-during-the-call"
	case faulted:
		return "took-effect"
	}
	return "did-not-fire"
}
