//go:build verif

package didjwk

// C18 (did:jwk): the document is a pure function of the identifier. Two independent resolver instances give the same
// bytes, no network request is made, the document id is the identifier, the verification method carries exactly the public
// key that the identifier encodes (judged by the harness's own decoding of the identifier: base64 + encoding/json), and
// identifiers that embed private key material are refused (as resolver_test.go demands for every key type).

import (
	"bytes"
	"context"
	"crypto/ecdh"
	"crypto/ed25519"
	"encoding/base64"
	"encoding/json"
	"fmt"
	"net"
	"net/http"
	"sort"
	"strings"
	"testing"

	"github.com/nuts-foundation/go-did/did"
	"github.com/nuts-foundation/nuts-node/http/client"
	"pgregory.net/rapid"
	"verif.local/h"
	"verif.local/h/c18net"
)

type c18JwkCase struct {
	ID   string `json:"id"`   // method-specific id (text after "did:jwk:")
	Note string `json:"note"` // how the generator built it (informative)
}

// a fixed RSA-2048 key (generated once for this harness) and a 1024 bit one
const (
	c18RsaN  = "2XzxiVpDKxSHnf27OGUQd62y-Er0sA9jLxEtOabhmBEiovfC5a5IzTI1nxUw1KbSKiXH5xgYVo2epGKNi90frFKwuJtf0CoIK8AQPhPxo0FGecBj7B9SpNKTOCmjeVSoC-IDgKY1Lc-jBWK7GmBFTAs87j0_AFFKMZXUsmDQ0lQ5vcrbOtpad2fFgd-iBk-cENkMcmzsKsQxk-c7Dm-9gibeFZxKN887QDY-9-BNc0fnGH7CqLhUqF9xtKq8LzniZmgjqnOTt05MS1G-RMQhHLef79dXIVRI93PG-c9-xP-odABpJ-D9neNomqrif7H9QF3tGvN31YholeoGsvuD2w"
	c18RsaD  = "eSCRFUJkLlYcwe1SnDINXdor1wVICdZIEyqp2XYMJrlEZSdAMNNEUKQqIROYQpc2barlDtvokiwFsuAAnWjl_v9-1RIT5sfCDTvG0AwjhB0StzRjclpvmMR-ocTu-uAfR570_G2VKJJ_5Lv8INCFR7jqknUh5XdgrwUXlNE-_CRNjcCpgAC9YTJXA9zlDBE7TvLlslmE4uhhU-Edxi9L_k-3LyszSouzkT3pw8Q5D9xIVn4Wyc7xR7NyvlYQOtzDIILKLg_TCXLPu7iu8Gb5sJwT0frVYa4Jp-baomlK1WUg2mC79Hro1CdNcEYZoAP2aBPlwt7bYzR9Ic6fofWZYQ"
	c18RsaP  = "4xp6sh-16kPVl8miQxFCTHPZ0Kmygt1lYx1NcJt56xZs1Eo8NCLWwbROzvr-UAbleyslRNW6RrYjNHaDh71QK2MAOeGpc8rAV1X5xetfEA6HaLMOPplOvxtGyXaiMeWUfJGA1Dbx6cgoitn4FLHBQeExy0xCAkf97ZMabANNqgU"
	c18RsaQ  = "9SlCXOP4jQc35ZNKzYOx1CSSAv4Q2oAVo1AtNQi8vkQkuFvz-VBB6Ezaw37DNUB4InXRsoMGKzBX8LJg5USRxvexkPT2OBktPmNX85KAPK78bHFl0HunTp9u_ETlVLy-QQNznTVzoJB2NHkbGSw_24W0GcrYaVWoGqBsrEXDfF8"
	c18RsaDP = "WIKLazyco67IYh39lXH2iuFj9MUOg55R020qL0cJHyxgQeSkzhT96gSh6l08HGhzq6tHHSrHLKPz2JCP9qk7w40UG3rtlelhSSiC7jYrmJBxCccvOAp7_FNfJUmNMTEuy9XRhePcKKcP1f3ZiAc3MLvZskgIOedg-eSpGYu4Cxk"
	c18RsaDQ = "jeClxiosQjlmMNbv2EWZmSLc2Rx9VmX_n7abovB-gkHfWk3kwGig67XmeHKYt-2qWI8EnyFSZZYhnmssxiHLl3Dq8u_AujBfzZYiZRRoYDYIYR2zBVc6OLbtvNKGQWbFV8yOkPFJDCfuMGnRs9y2y-zxkGeinDr1AQvMOFpbSlM"
	c18RsaQI = "YOvC92Q7DSyd4EybdX2E1hhAQgDXhHBBkwQsohORwPlNvf74VCaBNd5uaYB3VRmAgRFuAEbiM8d14iwUJPOH-_-tVbL032DFDTmq9G9oooV7zgRYzToYhqgrhnDGasdwo6lAp1va0k6SdMHAWItealHEWV9tRPJiq6V1-jguRuE"
)

type c18KV struct{ K, V string } // V is a raw JSON value

func c18B64(b []byte) string { return base64.RawURLEncoding.EncodeToString(b) }
func c18Str(s string) string { b, _ := json.Marshal(s); return string(b) }

// c18GenKey returns the public members and the private members of a fresh key of the given kind.
func c18GenKey(t *rapid.T, kind string) (pub, priv []c18KV) {
	seed := func(n int) []byte {
		b := rapid.SliceOfN(rapid.Byte(), n, n).Draw(t, "seed")
		b[n-1] |= 1 // never zero
		return b
	}
	ec := func(c ecdh.Curve, crv string, size int) {
		s := seed(size)
		if size == 66 {
			s[0] &= 0x01
		} else {
			s[0] &= 0x7f // keep below the group order
		}
		k, err := c.NewPrivateKey(s)
		if err != nil {
			one := make([]byte, size)
			one[size-1] = 1
			k, _ = c.NewPrivateKey(one)
			s = one
		}
		p := k.PublicKey().Bytes() // 0x04 || X || Y
		pub = []c18KV{{"kty", `"EC"`}, {"crv", c18Str(crv)}, {"x", c18Str(c18B64(p[1 : 1+size]))}, {"y", c18Str(c18B64(p[1+size:]))}}
		priv = []c18KV{{"d", c18Str(c18B64(s))}}
	}
	switch kind {
	case "ec256":
		ec(ecdh.P256(), "P-256", 32)
	case "ec384":
		ec(ecdh.P384(), "P-384", 48)
	case "ec521":
		ec(ecdh.P521(), "P-521", 66)
	case "ed25519":
		s := seed(32)
		k := ed25519.NewKeyFromSeed(s)
		pub = []c18KV{{"kty", `"OKP"`}, {"crv", `"Ed25519"`}, {"x", c18Str(c18B64(k.Public().(ed25519.PublicKey)))}}
		priv = []c18KV{{"d", c18Str(c18B64(s))}}
	case "x25519":
		s := seed(32)
		k, _ := ecdh.X25519().NewPrivateKey(s)
		pub = []c18KV{{"kty", `"OKP"`}, {"crv", `"X25519"`}, {"x", c18Str(c18B64(k.PublicKey().Bytes()))}}
		priv = []c18KV{{"d", c18Str(c18B64(s))}}
	case "rsa":
		pub = []c18KV{{"kty", `"RSA"`}, {"n", c18Str(c18RsaN)}, {"e", `"AQAB"`}}
		priv = []c18KV{{"d", c18Str(c18RsaD)}, {"p", c18Str(c18RsaP)}, {"q", c18Str(c18RsaQ)}, {"dp", c18Str(c18RsaDP)}, {"dq", c18Str(c18RsaDQ)}, {"qi", c18Str(c18RsaQI)}}
	case "oct":
		pub = []c18KV{{"kty", `"oct"`}, {"k", c18Str(c18B64(seed(32)))}}
	case "offcurve":
		pub = []c18KV{{"kty", `"EC"`}, {"crv", `"P-256"`}, {"x", c18Str(c18B64(seed(32)))}, {"y", c18Str(c18B64(seed(32)))}}
	}
	return
}

func c18GenJwk(t *rapid.T) c18JwkCase {
	kind := rapid.SampledFrom([]string{"ec256", "ec256", "ed25519", "ec384", "ec521", "x25519", "rsa", "oct", "offcurve", "notjwk"}).Draw(t, "kind")
	note := kind
	var text string
	if kind == "notjwk" {
		text = rapid.SampledFrom([]string{`{"json": "this valid JSON is not a JWK"}`, `__NOT_JSON__`, `{}`, `[]`, `null`, `{"kty":"EC"}`, `{"kty":"EC","crv":"P-256"}`, `{"kty":"XX","x":"AA"}`, `"string"`, `{"kty":1}`, ``}).Draw(t, "text")
	} else {
		pub, priv := c18GenKey(t, kind)
		members := pub
		switch pk := rapid.IntRange(0, 9).Draw(t, "privkind"); {
		case pk < 5 || len(priv) == 0:
		case pk < 8:
			members = append(members, priv...)
			note += "+private"
		case pk == 8:
			members = append(members, priv[0]) // RSA: d without the CRT values
			note += "+private(d-only)"
		default:
			// private member hidden behind an escaped member name
			members = append(members, c18KV{`d`, priv[0].V})
			note += "+private(escaped-name)"
		}
		switch rapid.IntRange(0, 7).Draw(t, "extra") {
		case 1:
			members = append(members, c18KV{"kid", `"key-1"`})
		case 2:
			members = append(members, c18KV{"use", `"sig"`})
		case 3:
			members = append(members, c18KV{"alg", `"ES256"`})
		case 4:
			members = append(members, c18KV{"ext", `true`}, c18KV{"key_ops", `["verify"]`})
		case 5:
			members = append(members, c18KV{"d", `""`})
			note += "+d-empty"
		case 6:
			members = append(members, c18KV{"x5u", `"https://evil.example/cert.pem"`}, c18KV{"jku", `"https://evil.example/keys"`})
			note += "+x5u"
		}
		// member order
		perm := rapid.Permutation(members).Draw(t, "order")
		sep, colon := ",", ":"
		if rapid.IntRange(0, 3).Draw(t, "spaces") == 0 {
			sep, colon = ", ", ": "
		}
		var sb strings.Builder
		sb.WriteString("{")
		for i, m := range perm {
			if i > 0 {
				sb.WriteString(sep)
			}
			sb.WriteString(`"` + m.K + `"` + colon + m.V)
		}
		sb.WriteString("}")
		text = sb.String()
	}
	var id string
	switch rapid.IntRange(0, 9).Draw(t, "enc") {
	case 8:
		id = base64.StdEncoding.EncodeToString([]byte(text)) // padded
		note += "/padded"
	case 9:
		id = base64.RawURLEncoding.EncodeToString([]byte(text))
		b := []byte(id)
		if len(b) > 0 {
			pos := rapid.IntRange(0, len(b)-1).Draw(t, "mutpos")
			b[pos] = "ABCDEFGHIJKLMNOPQRSTUVWXYZabcdefghijklmnopqrstuvwxyz0123456789-_.:%"[rapid.IntRange(0, 66).Draw(t, "mutch")]
		}
		id = string(b)
		note += "/mutated"
	default:
		id = base64.RawURLEncoding.EncodeToString([]byte(text))
	}
	return c18JwkCase{ID: id, Note: note}
}

// c18JwkReference decodes the identifier independently: base64 (either alphabet, padding tolerated) + encoding/json.
func c18JwkReference(id string) (m map[string]any, ok bool) {
	s := strings.TrimRight(strings.NewReplacer("-", "+", "_", "/").Replace(id), "=")
	raw, err := base64.RawStdEncoding.DecodeString(s)
	if err != nil {
		return nil, false
	}
	if json.Unmarshal(raw, &m) != nil || m == nil {
		return nil, false
	}
	return m, true
}

// private members of asymmetric keys (RFC 7518 §6.2.2, §6.3.2; RFC 8037). The symmetric "k" (kty oct) is deliberately not
// judged here: the statement and resolver_test.go only speak of private keys; what happens to oct keys is counted as a class.
var c18PrivateMembers = []string{"d", "p", "q", "dp", "dq", "qi", "oth"}

func c18NonEmptyString(v any) bool {
	s, ok := v.(string)
	if !ok || s == "" {
		return false
	}
	b, err := base64.RawURLEncoding.DecodeString(strings.TrimRight(strings.NewReplacer("+", "-", "/", "_").Replace(s), "="))
	return err == nil && len(b) > 0
}

func c18SameB64(a, b any) bool {
	as, ok1 := a.(string)
	bs, ok2 := b.(string)
	if !ok1 || !ok2 {
		return false
	}
	// either base64 alphabet: the JWK library is lenient about it
	norm := strings.NewReplacer("+", "-", "/", "_")
	ab, err1 := base64.RawURLEncoding.DecodeString(strings.TrimRight(norm.Replace(as), "="))
	bb, err2 := base64.RawURLEncoding.DecodeString(strings.TrimRight(norm.Replace(bs), "="))
	return err1 == nil && err2 == nil && bytes.Equal(bytes.TrimLeft(ab, "\x00"), bytes.TrimLeft(bb, "\x00"))
}

// c18Guard makes every way this process could reach the network record and fail, for the duration of one case.
func c18Guard(x *h.Ctx) *c18net.Net {
	nw := c18net.Forbid()
	oldDef, oldCache, oldDial := http.DefaultTransport, client.DefaultCachingTransport, client.SafeHttpTransport.DialContext
	http.DefaultTransport = nw
	client.DefaultCachingTransport = nw
	client.SafeHttpTransport.DialContext = func(_ context.Context, network, addr string) (net.Conn, error) {
		_, _ = nw.RoundTrip(&http.Request{Method: "DIAL", URL: nil})
		return nil, fmt.Errorf("c18: dial %s %s refused", network, addr)
	}
	x.Cleanup(func() {
		http.DefaultTransport, client.DefaultCachingTransport, client.SafeHttpTransport.DialContext = oldDef, oldCache, oldDial
	})
	return nw
}

func c18RunJwk(x *h.Ctx, c c18JwkCase) {
	if len(c.ID) > 1<<16 {
		return
	}
	for _, part := range strings.FieldsFunc(c.Note, func(r rune) bool { return r == '+' || r == '/' }) {
		x.Class("gen:" + part)
	}
	p, err := did.ParseDID("did:jwk:" + c.ID)
	if err != nil || p.ID != c.ID {
		x.Class("outcome:did-parse-rejected")
		return
	}
	d := *p
	nw := c18Guard(x)

	doc1, md1, err1 := NewResolver().Resolve(d, nil)
	doc2, _, err2 := (&Resolver{}).Resolve(d, nil)

	// no network
	if l := nw.Log(); len(l) > 0 {
		x.Violate("jwk-net:request", "resolving %s touched the network: %+v", d, l)
	}
	// pure function
	if (err1 == nil) != (err2 == nil) || (err1 != nil && err1.Error() != err2.Error()) {
		x.Violate("jwk-pure:outcome-differs", "two resolutions of %s: %v vs %v", d, err1, err2)
		return
	}
	ref, refOK := c18JwkReference(c.ID)
	hasPrivate := false
	if refOK {
		kty, _ := ref["kty"].(string)
		switch kty {
		case "EC", "OKP", "RSA", "oct", "":
			x.Class("kty:" + kty)
		default:
			x.Class("kty:other")
		}
		// a private key JWK is one that has "d" (RFC 7518 §6.2.2.1, §6.3.2.1, RFC 8037 §2); CRT members without "d" are a
		// malformed public key, not judged (counted)
		hasPrivate = c18NonEmptyString(ref["d"])
		if !hasPrivate {
			for _, k := range c18PrivateMembers {
				if c18NonEmptyString(ref[k]) {
					x.Class("observed:crt-members-without-d")
				}
			}
		}
		if hasPrivate {
			x.Class("id:has-private-or-secret-member")
		}
	} else {
		x.Class("id:not-base64-json")
	}
	if err1 != nil {
		x.Class("resolve:error")
		if doc1 != nil || md1 != nil {
			x.Violate("jwk-result:doc-with-error", "Resolve(%s) returned an error together with a document", d)
		}
		c18JwkPositive(x, d, ref, refOK, hasPrivate, err1)
		return
	}
	x.Class("resolve:ok")
	x.NonTrivial()
	if doc1 == nil || doc2 == nil {
		x.Violate("jwk-result:nil-doc", "Resolve(%s) returned neither error nor document", d)
		return
	}
	b1, _ := json.Marshal(doc1)
	b2, _ := json.Marshal(doc2)
	if !bytes.Equal(b1, b2) {
		x.Violate("jwk-pure:bytes-differ", "two resolutions of %s gave different documents:\n%s\n%s", d, b1, b2)
	}
	if doc1.ID.String() != d.String() {
		x.Violate("jwk-docid:differs", "Resolve(%s) returned document id %s", d, doc1.ID)
	}
	if !refOK {
		x.Violate("jwk-bind:undecodable-id-resolved", "Resolve(%s) succeeded although the identifier is not base64 of a JSON object", d)
		return
	}
	if ref["kty"] == "oct" {
		x.Class("observed:oct-secret-key-resolved-and-published")
	}
	if hasPrivate {
		kty, _ := ref["kty"].(string)
		x.Violate("jwk-private-accepted:"+kty, "Resolve(%s) succeeded although the embedded JWK carries private/secret key members (%s)", d, c.Note)
	}
	if len(doc1.VerificationMethod) != 1 {
		x.Violate("jwk-bind:vm-count", "Resolve(%s) returned %d verification methods", d, len(doc1.VerificationMethod))
		return
	}
	vm := doc1.VerificationMethod[0]
	if vm.ID.DID.String() != d.String() || vm.Controller.String() != d.String() {
		x.Violate("jwk-bind:vm-id", "verification method %s (controller %s) does not belong to %s", vm.ID, vm.Controller, d)
	}
	for _, k := range c18PrivateMembers {
		if _, has := vm.PublicKeyJwk[k]; has {
			x.Violate("jwk-doc-has-private-member:"+k, "document of %s publishes JWK member %q", d, k)
		}
	}
	// the published key is the identifier's key
	var names []string
	switch ref["kty"] {
	case "EC":
		names = []string{"x", "y"}
	case "OKP":
		names = []string{"x"}
	case "RSA":
		names = []string{"n", "e"}
	}
	for _, k := range []string{"kty", "crv"} {
		if _, has := ref[k]; has && fmt.Sprint(ref[k]) != fmt.Sprint(vm.PublicKeyJwk[k]) {
			x.Violate("jwk-bind:key-differs", "member %s of the published key (%v) differs from the identifier's (%v)", k, vm.PublicKeyJwk[k], ref[k])
		}
	}
	for _, k := range names {
		if !c18SameB64(ref[k], vm.PublicKeyJwk[k]) {
			x.Violate("jwk-bind:key-differs", "member %s of the published key (%v) differs from the identifier's (%v)", k, vm.PublicKeyJwk[k], ref[k])
		}
	}
	// nothing of the identifier's other members (x5u, jku ...) may make the resolver fetch anything: covered by the empty log
	var keys []string
	for k := range vm.PublicKeyJwk {
		keys = append(keys, k)
	}
	sort.Strings(keys)
	x.Class("vm-members:" + strings.Join(keys, ","))
}

// c18JwkPositive: a well-formed public EC / OKP key in canonical encoding must resolve.
func c18JwkPositive(x *h.Ctx, d did.DID, ref map[string]any, refOK, hasPrivate bool, err error) {
	if !refOK || hasPrivate || strings.ContainsAny(d.ID, "-_=") {
		return
	}
	for k := range ref {
		switch k {
		case "kty", "crv", "x", "y", "kid", "use", "alg":
		default:
			return
		}
	}
	dec := func(k string) []byte {
		s, _ := ref[k].(string)
		b, _ := base64.RawURLEncoding.DecodeString(s)
		return b
	}
	ok := false
	switch ref["kty"] {
	case "EC":
		var c ecdh.Curve
		switch ref["crv"] {
		case "P-256":
			c = ecdh.P256()
		case "P-384":
			c = ecdh.P384()
		case "P-521":
			c = ecdh.P521()
		default:
			return
		}
		_, perr := c.NewPublicKey(append(append([]byte{4}, dec("x")...), dec("y")...))
		ok = perr == nil
	case "OKP":
		ok = (ref["crv"] == "Ed25519" || ref["crv"] == "X25519") && len(dec("x")) == 32
	}
	if ok {
		x.Violate("jwk-resolve:valid-public-key-rejected", "Resolve(%s) = %v although the identifier is a well-formed public %v/%v key", d, err, ref["kty"], ref["crv"])
	}
}

func TestVerif_C18_Jwk(t *testing.T) {
	h.Check(t, "C18", c18GenJwk, c18RunJwk, h.PanicIsViolation())
}

func TestVerifReplay_C18_Jwk(t *testing.T) {
	h.Replay(t, "C18", "TestVerif_C18_Jwk", c18RunJwk, h.PanicIsViolation())
}
