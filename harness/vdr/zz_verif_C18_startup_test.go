//go:build verif

package vdr

// C18 (did:web origin binding in the real start-up order): cmd/root.go registers the HTTP engine LAST, so in a running node
// vdr.Module.Configure creates the did:web resolver BEFORE http.Engine.Configure installs the response cache
// (client.DefaultCachingTransport = client.NewCachingTransport(client.SafeHttpTransport, cache.maxbytes)).
// This unit replicates exactly that with the two real engines: vdr.NewVDR(...).Configure and http.New(...).Configure, in
// production order or reversed, with cache.maxbytes = default or 0, and then resolves a did:web DID of another party through
// Module.Resolve while its origin answers with a redirect (18 Location kinds) followed by a perfectly acceptable document.
// The REAL client.SafeHttpTransport carries the traffic; its dial functions are pointed at an in-memory web (c18net.PipeWeb),
// so every request that would have left the node is seen, whatever host, port or scheme it went to.
// Oracle (unchanged): every outbound request of a resolution goes to exactly https://<host><path>/did.json of the identifier;
// redirects are never followed; a successful resolution returns the identifier's document.

import (
	"encoding/json"
	"net/http"
	"strings"
	"testing"
	"time"

	"github.com/nuts-foundation/go-did/did"
	"github.com/nuts-foundation/nuts-node/core"
	nutsCrypto "github.com/nuts-foundation/nuts-node/crypto"
	"github.com/nuts-foundation/nuts-node/http/client"
	"github.com/nuts-foundation/nuts-node/network"
	"github.com/nuts-foundation/nuts-node/pki"
	"github.com/nuts-foundation/nuts-node/vdr/didweb"
	"go.uber.org/mock/gomock"
	"pgregory.net/rapid"
	"verif.local/h"
	"verif.local/h/c18net"

	httpEngine "github.com/nuts-foundation/nuts-node/http"
)

type c18StartCase struct {
	Order   string `json:"order"`   // vdr-then-http (what cmd/root.go does) | http-then-vdr | vdr-then-http-twice
	Cache   bool   `json:"cache"`   // http.cache.maxbytes: default (10 MB) or 0
	Methods int    `json:"methods"` // index into c18CfgMethods (only settings that can resolve did:web)
	ID      string `json:"id"`      // method-specific id of the foreign did:web
	Status  int    `json:"status"`  // first answer of the origin
	Loc     string `json:"loc"`     // its Location
	Twice   bool   `json:"twice"`   // resolve a second time (cached answers)
}

var c18StartLocs = map[string]string{
	"other-host":   "https://evil.example/did.json",
	"http":         "http://HOST/PATH",
	"http-other":   "http://evil.example/did.json",
	"other-path":   "https://HOST/moved/PATH",
	"relative":     "/moved/did.json",
	"other-port":   "https://HOSTNAME:8444/PATH",
	"ip":           "https://127.0.0.1/PATH",
	"metadata-ip":  "http://169.254.169.254/latest/meta-data/",
	"localhost":    "http://localhost:8081/internal/vdr/v2/did",
	"userinfo":     "https://user:pw@HOST/PATH",
	"sub-domain":   "https://evil.HOST/PATH",
	"scheme-rel":   "//evil.example/did.json",
	"same":         "https://HOST/PATH",
	"ipv6":         "https://[::1]/did.json",
	"no-location":  "",
	"bad-location": "https://%zz/",
}

func c18GenStartup(t *rapid.T) c18StartCase {
	locs := []string{"other-host", "http-other", "http", "other-path", "ip", "metadata-ip", "localhost", "other-port", "userinfo", "sub-domain", "relative", "scheme-rel", "ipv6", "same", "no-location", "bad-location"}
	return c18StartCase{
		Order:   rapid.SampledFrom([]string{"vdr-then-http", "vdr-then-http", "http-then-vdr", "vdr-then-http-twice"}).Draw(t, "order"),
		Cache:   rapid.IntRange(0, 3).Draw(t, "cache") != 0,
		Methods: rapid.SampledFrom([]int{0, 3, 1, 2}).Draw(t, "methods"),
		ID:      rapid.SampledFrom([]string{"other-party.example", "other-party.example:iam:alice", "other-party.example%3A8443:x", "Other.Example:a%2Bb"}).Draw(t, "id"),
		Status:  rapid.SampledFrom([]int{302, 301, 303, 307, 308, 200}).Draw(t, "status"),
		Loc:     rapid.SampledFrom(locs).Draw(t, "loc"),
		Twice:   rapid.Bool().Draw(t, "twice"),
	}
}

func c18RunStartup(x *h.Ctx, c c18StartCase) {
	if c.Methods < 0 || c.Methods >= len(c18CfgMethods) || !c18CfgHasWeb(c.Methods) {
		return
	}
	id, err := did.ParseDID("did:web:" + c.ID)
	if err != nil {
		return
	}
	want, err := didweb.DIDToURL(*id)
	if err != nil {
		return
	}
	wantURL := want.String() + "/did.json"
	if want.Path == "" {
		wantURL = want.String() + "/.well-known/did.json"
	}
	loc, known := c18StartLocs[c.Loc]
	if !known {
		return
	}
	loc = strings.NewReplacer("HOSTNAME", want.Hostname(), "HOST", want.Host, "PATH", strings.TrimPrefix(strings.TrimPrefix(wantURL, "https://"+want.Host), "/")).Replace(loc)

	// the web
	nw := &c18net.Net{}
	nw.Respond = func(i int, r *http.Request) c18net.Answer {
		hd := http.Header{}
		hd.Set("Content-Type", "application/did+json")
		hd.Set("Cache-Control", "max-age=60")
		body, _ := json.Marshal(map[string]any{"@context": "https://www.w3.org/ns/did/v1", "id": id.String()})
		if r.URL.String() == wantURL && c.Status != 200 {
			if loc != "" {
				hd.Set("Location", loc)
			}
			return c18net.Answer{Status: c.Status, Header: hd, Body: body}
		}
		return c18net.Answer{Status: 200, Header: hd, Body: body} // wherever a followed redirect lands: a document that would be accepted
	}
	pw := &c18net.PipeWeb{Net: nw}
	oldDial, oldDialTLS := client.SafeHttpTransport.DialContext, client.SafeHttpTransport.DialTLSContext
	oldCache, oldStrict := client.DefaultCachingTransport, client.StrictMode
	client.SafeHttpTransport.DialContext, client.SafeHttpTransport.DialTLSContext = pw.Dial("http"), pw.Dial("https")
	client.DefaultCachingTransport = client.SafeHttpTransport // state after package init
	x.Cleanup(func() {
		client.SafeHttpTransport.CloseIdleConnections()
		client.SafeHttpTransport.DialContext, client.SafeHttpTransport.DialTLSContext = oldDial, oldDialTLS
		client.DefaultCachingTransport, client.StrictMode = oldCache, oldStrict
	})

	eng, nutsStore := c18CfgFixture(x.TB)
	ctrl := gomock.NewController(x.TB)
	cfg := core.TestServerConfig(func(sc *core.ServerConfig) {
		sc.URL = "https://nuts.example.com"
		sc.Strictmode = false
		if c18CfgMethods[c.Methods] != nil {
			sc.DIDMethods = append([]string{}, c18CfgMethods[c.Methods]...)
		}
	})
	var m *Module
	configureVDR := func() {
		m = NewVDR(nutsCrypto.NewDatabaseCryptoInstance(eng.GetSQLDatabase()), network.NewMockTransactions(ctrl), nutsStore, nil, eng, pki.NewMockValidator(ctrl))
		x.NoErr(m.Configure(cfg), "vdr configure")
	}
	configureHTTP := func() {
		he := httpEngine.New(func() {}, nil)
		hc := he.Config().(*httpEngine.Config)
		if !c.Cache {
			hc.ResponseCacheSize = 0
		}
		x.NoErr(he.Configure(cfg), "http engine configure")
	}
	switch c.Order {
	case "http-then-vdr":
		configureHTTP()
		configureVDR()
	case "vdr-then-http-twice":
		configureVDR()
		configureHTTP()
		configureHTTP()
	default:
		configureVDR()
		configureHTTP()
	}
	cacheClass := map[bool]string{true: "cache-on", false: "cache-off"}[c.Cache]
	x.Class("order:" + c.Order + ":" + cacheClass)
	if c.Status != 200 {
		x.Class("redirect:" + c.Order + ":" + cacheClass + ":" + c.Loc)
	}

	rounds := 1
	if c.Twice {
		rounds = 2
	}
	for round := 0; round < rounds; round++ {
		done := make(chan struct{})
		var doc *did.Document
		var rerr error
		go func() { defer close(done); doc, _, rerr = m.Resolve(*id, nil) }()
		select {
		case <-done:
		case <-time.After(20 * time.Second):
			x.Fatalf("resolution did not finish")
		}
		for k, e := range nw.Traffic() {
			if e.URL != wantURL {
				x.Violate("startup-origin:redirect-followed", "round %d: resolving %s in start-up order %s (%s) sent request #%d to %s; the identifier encodes %s only (origin answered %d Location %q); log: %v", round, id, c.Order, cacheClass, k+1, e.URL, wantURL, c.Status, loc, c18StartURLs(nw.Traffic()))
				break
			}
		}
		switch {
		case c.Status == 200:
			if rerr != nil || doc == nil || doc.ID.String() != id.String() {
				x.Violate("startup-resolve:rejected", "round %d: %s served correctly by its origin does not resolve (%s, %s): %v", round, id, c.Order, cacheClass, rerr)
			}
		case rerr == nil:
			x.Violate("startup-origin:redirect-accepted", "round %d: %s resolved although its origin only answered %d (Location %q)", round, id, c.Status, loc)
		}
	}
	h.Count("C18", x.Unit, "outbound_requests", len(nw.Traffic()))
	if c.Status != 200 {
		x.NonTrivial()
	}
}

func c18StartURLs(l []c18net.Entry) []string {
	var out []string
	for _, e := range l {
		out = append(out, e.URL)
	}
	return out
}

func TestVerif_C18_StartupOrder(t *testing.T) {
	h.Check(t, "C18", c18GenStartup, c18RunStartup, h.PanicIsViolation())
}

func TestVerifReplay_C18_StartupOrder(t *testing.T) {
	h.Replay(t, "C18", "TestVerif_C18_StartupOrder", c18RunStartup, h.PanicIsViolation())
}
