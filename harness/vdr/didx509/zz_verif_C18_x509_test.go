//go:build verif

package didx509

// C18 (did:x509): Resolve may return a document only when the document is bound to the identifier:
//   (1) document.ID == the DID, every verification method is <DID>#fragment controlled by the DID;
//   (2) the document's key is the public key of the certificate the x5t / x5t#S256 headers select, a member of x5c;
//   (3) that certificate chains (signatures, CA flags, validity periods: crypto/x509 Verify with the certificate the identifier's
//       fingerprint names as the only root and the other x5c members as intermediates) up to the fingerprinted certificate;
//   (4) every policy of the identifier is satisfied by that certificate (the harness's own reading of san / subject policies,
//       judged on the attributes the generator DECLARED for the certificate, not on the repository's certificate parsing);
// and a plain well-formed chain with a matching identifier resolves (completeness), and resolving twice gives the same result.
// Everything is generated in the case: certificates are created at run time from fixed keys with validity periods relative to now.

import (
	"crypto"
	"crypto/ecdsa"
	"crypto/ed25519"
	"crypto/elliptic"
	"crypto/rand"
	"crypto/sha1"
	"crypto/sha256"
	"crypto/sha512"
	"crypto/x509"
	"crypto/x509/pkix"
	"encoding/asn1"
	"encoding/base64"
	"encoding/hex"
	"encoding/json"
	"encoding/pem"
	"fmt"
	"math/big"
	"net/url"
	"strings"
	"sync"
	"testing"
	"time"

	"github.com/lestrrat-go/jwx/v2/cert"
	"github.com/nuts-foundation/go-did/did"
	"github.com/nuts-foundation/nuts-node/core"
	"github.com/nuts-foundation/nuts-node/pki"
	"github.com/nuts-foundation/nuts-node/vdr/resolver"
	"pgregory.net/rapid"
	"verif.local/h"
)

type c18xCert struct {
	Key      int      `json:"key"`              // subject key: index into the fixed key pool
	Issuer   int      `json:"issuer"`           // index of the issuing certificate in Certs (smaller than the own index); -1 = self-signed
	SignKey  int      `json:"sign_key"`         // -1 = the issuer's real key; otherwise the pool key that signs instead (issuer NAME stays)
	CA       bool     `json:"ca"`               // basicConstraints CA
	PathLen  int      `json:"path_len"`         // -1 = none
	Validity string   `json:"validity"`         // ok | expired | future
	CN       string   `json:"cn,omitempty"`     // subject attributes
	Serial   string   `json:"serial,omitempty"` // subject serialNumber
	O        []string `json:"o,omitempty"`
	OU       []string `json:"ou,omitempty"`
	L        []string `json:"l,omitempty"`
	ST       []string `json:"st,omitempty"`
	C        []string `json:"c,omitempty"`
	Street   []string `json:"street,omitempty"`
	DNS      []string `json:"dns,omitempty"` // subject alternative names
	Email    []string `json:"email,omitempty"`
	URI      []string `json:"uri,omitempty"`
	Other    []string `json:"other,omitempty"` // otherName 2.5.5.5 values
	OtherU8  bool     `json:"other_utf8,omitempty"`
}

type c18xCase struct {
	Certs    []c18xCert `json:"certs"`
	X5cKind  string     `json:"x5c_kind"` // chain | string | absent | nometa | noheaders
	X5c      []int      `json:"x5c"`      // presented certificates (indexes into Certs), in this order
	Version  string     `json:"version"`
	Alg      string     `json:"alg"`
	FpOf     int        `json:"fp_of"`    // certificate whose fingerprint the identifier carries
	FpEnc    string     `json:"fp_enc"`   // ok | trunc | hex | flip | otheralg | std
	Policies []string   `json:"policies"` // raw policy texts, each appended after "::"
	X5t      int        `json:"x5t"`      // -1 absent, -2 junk, else certificate index
	X5tS256  int        `json:"x5t_s256"`
	// informative labels of the generator (classes only, never used by the oracle)
	Focus   string   `json:"focus"`
	Shape   string   `json:"shape"`
	Hostile string   `json:"hostile"`
	Header  string   `json:"header"`
	Order   string   `json:"order"`
	PolKind []string `json:"pol_kind"`
}

// ---------------------------------------------------------------------------------------------------------------------
// fixed keys

type c18xKey struct {
	priv crypto.Signer
}

var (
	c18xKeysOnce sync.Once
	c18xKeys     []c18xKey
)

const c18xNKeys = 10

func c18xKeyPool() []c18xKey {
	c18xKeysOnce.Do(func() {
		for i := 0; i < c18xNKeys; i++ {
			seed := sha256.Sum256([]byte(fmt.Sprintf("verif-C18-x509-key-%d", i)))
			if i < 8 {
				c18xKeys = append(c18xKeys, c18xKey{priv: ed25519.NewKeyFromSeed(seed[:])})
				continue
			}
			d := new(big.Int).SetBytes(seed[:])
			curve := elliptic.P256()
			d.Mod(d, new(big.Int).Sub(curve.Params().N, big.NewInt(1)))
			d.Add(d, big.NewInt(1))
			k := &ecdsa.PrivateKey{D: d}
			k.Curve = curve
			k.X, k.Y = curve.ScalarBaseMult(d.Bytes())
			c18xKeys = append(c18xKeys, c18xKey{priv: k})
		}
	})
	return c18xKeys
}

// ---------------------------------------------------------------------------------------------------------------------
// generator

var (
	c18xCNs     = []string{"www.example.com", "Alice Smith", "a:b", "100%25 zorg", "Zorg/Instelling B.V.", "Ünïcode", "x", "CN=evil,O=x"}
	c18xOrgs    = []string{"NUTS Foundation", "Example Corp", "ACME", "Zorg & Co", "o-two", "Ex:ample"}
	c18xOUs     = []string{"The A-Team", "IT", "unit/7", "R&D"}
	c18xLocs    = []string{"Amsterdam", "The Hague", "Enschede", "'s-Hertogenbosch"}
	c18xSTs     = []string{"Noord-Holland", "Overijssel", "NH"}
	c18xCs      = []string{"NL", "DE", "BE"}
	c18xStreets = []string{"Amsterdamseweg 100", "Main St. 1"}
	c18xSerials = []string{"32121323", "0001", "SN-77:a"}
	c18xDNSs    = []string{"www.example.com", "example.com", "node.nuts.example", "xn--bcher-kva.example", "a.b"}
	c18xEmails  = []string{"info@example.com", "no-reply@example.org", "a.b@c.example"}
	c18xURIs    = []string{"https://example.com/path", "urn:uuid:1234", "https://zorg.example:8443/x?y=1"}
	c18xOthers  = []string{"A_BIG_STRING", "A_SECOND_STRING", "2.16.528.1.1007.99.2110-1-900030787-S-90000380-00.000-11223344", "x:y z"}
	c18xAlgs    = []string{"sha256", "sha256", "sha256", "sha1", "sha384", "sha512"}
)

func c18xSome(t *rapid.T, pool []string, max int, label string) []string {
	n := rapid.IntRange(0, max).Draw(t, label+"-n")
	if n == 0 {
		return nil
	}
	perm := rapid.Permutation(pool).Draw(t, label)
	return append([]string(nil), perm[:n]...)
}

// c18xEsc percent-encodes everything outside the DID idchar set (ALPHA DIGIT . - _).
func c18xEsc(s string, lower bool, all bool) string {
	var b strings.Builder
	for i := 0; i < len(s); i++ {
		ch := s[i]
		plain := ch >= 'a' && ch <= 'z' || ch >= 'A' && ch <= 'Z' || ch >= '0' && ch <= '9' || ch == '.' || ch == '-' || ch == '_'
		if plain && !all {
			b.WriteByte(ch)
			continue
		}
		if lower {
			fmt.Fprintf(&b, "%%%02x", ch)
		} else {
			fmt.Fprintf(&b, "%%%02X", ch)
		}
	}
	return b.String()
}

type c18xAttr struct{ policy, key, value string }

func c18xAttrsOf(c c18xCert) []c18xAttr {
	var out []c18xAttr
	add := func(policy, key string, vals ...string) {
		for _, v := range vals {
			out = append(out, c18xAttr{policy, key, v})
		}
	}
	if c.CN != "" {
		add("subject", "CN", c.CN)
	}
	if c.Serial != "" {
		add("subject", "serialNumber", c.Serial)
	}
	add("subject", "O", c.O...)
	add("subject", "OU", c.OU...)
	add("subject", "L", c.L...)
	add("subject", "ST", c.ST...)
	add("subject", "C", c.C...)
	add("subject", "STREET", c.Street...)
	add("san", "dns", c.DNS...)
	add("san", "email", c.Email...)
	add("san", "uri", c.URI...)
	add("san", "otherName", c.Other...)
	return out
}

func c18xSwapCase(s string) string {
	b := []byte(s)
	for i, ch := range b {
		if ch >= 'a' && ch <= 'z' {
			b[i] = ch - 32
		} else if ch >= 'A' && ch <= 'Z' {
			b[i] = ch + 32
		}
	}
	return string(b)
}

func c18xGenPolicy(t *rapid.T, leaf c18xCert, other c18xCert, prev []string, benign bool) (string, string) {
	attrs := c18xAttrsOf(leaf)
	if len(attrs) == 0 {
		return "subject:CN:nobody", "wrong-value"
	}
	a := rapid.SampledFrom(attrs).Draw(t, "attr")
	kinds := []string{"match", "match", "match-multi", "pct-lower", "pct-all", "duplicate", "match", "match", "wrong-value", "other-attr", "other-cert",
		"double-enc", "case-value", "case-key", "case-policy", "unknown-key", "unknown-policy", "empty", "odd",
		"empty-value", "prefix-value", "cross-policy"}
	if benign {
		kinds = kinds[:6]
	}
	kind := rapid.SampledFrom(kinds).Draw(t, "polkind")
	switch kind {
	case "match":
		return a.policy + ":" + a.key + ":" + c18xEsc(a.value, false, false), kind
	case "match-multi":
		b := rapid.SampledFrom(attrs).Draw(t, "attr2")
		if b.policy != a.policy {
			return a.policy + ":" + a.key + ":" + c18xEsc(a.value, false, false), "match"
		}
		return a.policy + ":" + a.key + ":" + c18xEsc(a.value, false, false) + ":" + b.key + ":" + c18xEsc(b.value, false, false), kind
	case "wrong-value":
		return a.policy + ":" + a.key + ":" + c18xEsc(a.value+"x", false, false), kind
	case "other-attr":
		b := rapid.SampledFrom(attrs).Draw(t, "attr2")
		return a.policy + ":" + a.key + ":" + c18xEsc(b.value, false, false), kind // matches only when the values coincide
	case "other-cert":
		oa := c18xAttrsOf(other)
		if len(oa) == 0 {
			return a.policy + ":" + a.key + ":" + c18xEsc(a.value+"y", false, false), "wrong-value"
		}
		b := rapid.SampledFrom(oa).Draw(t, "attr2")
		return b.policy + ":" + b.key + ":" + c18xEsc(b.value, false, false), kind
	case "pct-lower":
		return a.policy + ":" + a.key + ":" + c18xEsc(a.value, true, false), kind
	case "pct-all":
		return a.policy + ":" + a.key + ":" + c18xEsc(a.value, false, true), kind
	case "double-enc":
		return a.policy + ":" + a.key + ":" + c18xEsc(c18xEsc(a.value, false, true), false, false), kind
	case "case-value":
		return a.policy + ":" + a.key + ":" + c18xEsc(c18xSwapCase(a.value), false, false), kind
	case "case-key":
		return a.policy + ":" + c18xSwapCase(a.key) + ":" + c18xEsc(a.value, false, false), kind
	case "case-policy":
		return strings.ToUpper(a.policy) + ":" + a.key + ":" + c18xEsc(a.value, false, false), kind
	case "unknown-key":
		k := rapid.SampledFrom([]string{"ip", "postalCode", "DC", "rid", "x400", "E", "T", "uri", "dn"}).Draw(t, "ukey")
		return a.policy + ":" + k + ":" + c18xEsc(a.value, false, false), kind
	case "unknown-policy":
		p := rapid.SampledFrom([]string{"eku", "fulcio-issuer", "issuer", "any", "sanx"}).Draw(t, "upol")
		return p + ":" + a.key + ":" + c18xEsc(a.value, false, false), kind
	case "empty":
		return "", kind
	case "odd":
		return rapid.SampledFrom([]string{a.policy, a.policy + ":" + a.key, a.policy + ":" + a.key + ":" + c18xEsc(a.value, false, false) + ":" + a.key}).Draw(t, "odd"), kind
	case "duplicate":
		if len(prev) > 0 {
			return prev[len(prev)-1], kind
		}
		return a.policy + ":" + a.key + ":" + c18xEsc(a.value, false, false), "match"
	case "empty-value":
		return a.policy + ":" + a.key + ":", kind
	case "prefix-value":
		if len(a.value) < 2 {
			return a.policy + ":" + a.key + ":" + c18xEsc(a.value+"z", false, false), "wrong-value"
		}
		return a.policy + ":" + a.key + ":" + c18xEsc(a.value[:len(a.value)-1], false, false), kind
	default: // cross-policy: the key under the other policy name
		p := "san"
		if a.policy == "san" {
			p = "subject"
		}
		return p + ":" + a.key + ":" + c18xEsc(a.value, false, false), "cross-policy"
	}
}

func c18xGenLeafAttrs(t *rapid.T, c *c18xCert, label string) {
	if rapid.IntRange(0, 9).Draw(t, label+"-hascn") > 0 {
		c.CN = rapid.SampledFrom(c18xCNs).Draw(t, label+"-cn")
	}
	if rapid.IntRange(0, 2).Draw(t, label+"-hasserial") == 0 {
		c.Serial = rapid.SampledFrom(c18xSerials).Draw(t, label+"-serial")
	}
	c.O = c18xSome(t, c18xOrgs, 2, label+"-o")
	c.OU = c18xSome(t, c18xOUs, 2, label+"-ou")
	c.L = c18xSome(t, c18xLocs, 2, label+"-l")
	c.ST = c18xSome(t, c18xSTs, 1, label+"-st")
	c.C = c18xSome(t, c18xCs, 1, label+"-c")
	c.Street = c18xSome(t, c18xStreets, 1, label+"-street")
	c.DNS = c18xSome(t, c18xDNSs, 2, label+"-dns")
	c.Email = c18xSome(t, c18xEmails, 2, label+"-email")
	c.URI = c18xSome(t, c18xURIs, 1, label+"-uri")
	c.Other = c18xSome(t, c18xOthers, 2, label+"-other")
	c.OtherU8 = rapid.Bool().Draw(t, label+"-otheru8")
	if c.CN == "" && len(c.O) == 0 {
		c.O = []string{"fallback org"}
	}
}

func c18xGen(t *rapid.T) c18xCase {
	keys := rapid.Permutation([]int{0, 1, 2, 3, 4, 5, 6, 7, 8, 9}).Draw(t, "keys")
	nk := 0
	nextKey := func() int { nk++; return keys[nk-1] }
	nInter := rapid.IntRange(0, 2).Draw(t, "inter")
	c := c18xCase{X5cKind: "chain", Version: "0", FpEnc: "ok", Shape: fmt.Sprintf("inter=%d", nInter)}
	c.Alg = rapid.SampledFrom(c18xAlgs).Draw(t, "alg")
	ca := func(issuer int, name string) c18xCert {
		return c18xCert{Key: nextKey(), Issuer: issuer, SignKey: -1, CA: true, PathLen: -1, Validity: "ok", CN: name, O: []string{"verif CA"}}
	}
	c.Certs = append(c.Certs, ca(-1, "verif root"))
	for i := 0; i < nInter; i++ {
		c.Certs = append(c.Certs, ca(len(c.Certs)-1, fmt.Sprintf("verif intermediate %d", i+1)))
	}
	lowestCA := len(c.Certs) - 1
	leaf := c18xCert{Key: nextKey(), Issuer: lowestCA, SignKey: -1, PathLen: -1, Validity: "ok"}
	c18xGenLeafAttrs(t, &leaf, "leaf")
	c.Certs = append(c.Certs, leaf)
	leafIdx := len(c.Certs) - 1
	// an unrelated self-signed CA with its own leaf-like attributes (used by several hostile kinds and as "extra" in x5c)
	unrelated := ca(-1, "unrelated root")
	c18xGenLeafAttrs(t, &unrelated, "unrel")
	unrelated.CN = "unrelated root"
	c.Certs = append(c.Certs, unrelated)
	unrelIdx := len(c.Certs) - 1

	chain := make([]int, 0, 4) // leaf-first genuine chain
	for i := leafIdx; i >= 0; i-- {
		chain = append(chain, i)
	}
	c.FpOf = rapid.IntRange(0, lowestCA).Draw(t, "fpof") // a genuine CA certificate
	sel := leafIdx

	// focus: "chain" = a hostile chain with everything else benign (the heart of the unit); "benign" = no hostile chain, benign
	// presentation, satisfiable policies (completeness); "free" = every dimension drawn independently
	// "policy" / "header" / "ident" = only the policies / only x5c and the thumbprint headers / only the identifier head drawn freely
	focus := rapid.SampledFrom([]string{"chain", "policy", "header", "chain", "policy", "free", "chain", "ident", "benign", "chain", "policy", "header", "free"}).Draw(t, "focus")
	c.Focus = focus
	freeHeader := focus == "header" || focus == "free"
	freeIdent := focus == "ident" || focus == "free"
	freePolicy := focus == "policy" || focus == "free"
	hostiles := []string{"forged-selfsigned", "forged-selfsigned", "forged-same-issuer", "forged-same-issuer", "forged-intermediate",
		"inter-not-ca", "leaf-as-issuer", "expired-leaf", "future-leaf", "expired-inter", "future-inter", "fp-unrelated", "fp-leaf", "truncated", "pathlen",
		"fp-absent", "forged-root-name"}
	if focus == "free" {
		hostiles = append(hostiles, "", "", "", "", "", "")
	}
	c.Hostile = hostiles[rapid.IntRange(0, len(hostiles)-1).Draw(t, "hostile")]
	if focus != "chain" && focus != "free" {
		c.Hostile = ""
	}
	needInter := map[string]bool{"forged-intermediate": true, "inter-not-ca": true, "expired-inter": true, "future-inter": true, "truncated": true, "pathlen": true}
	if needInter[c.Hostile] && nInter == 0 {
		c.Hostile = "forged-same-issuer"
	}
	switch c.Hostile {
	case "forged-selfsigned": // the attacker's own self-signed leaf next to the genuine CA certificates
		f := c.Certs[leafIdx]
		f.Key, f.Issuer = nextKey(), -1
		c.Certs = append(c.Certs, f)
		sel = len(c.Certs) - 1
		chain[0] = sel
	case "forged-same-issuer": // issuer NAME of the genuine CA, signed by the attacker's key
		f := c.Certs[leafIdx]
		f.Key, f.SignKey = nextKey(), nextKey()
		c.Certs = append(c.Certs, f)
		sel = len(c.Certs) - 1
		chain[0] = sel
	case "forged-root-name": // a self-made CA carrying the genuine root's NAME issues the leaf; the genuine root is presented too
		fr := c.Certs[0]
		fr.Key = nextKey()
		c.Certs = append(c.Certs, fr)
		f := c.Certs[leafIdx]
		f.Key, f.Issuer = nextKey(), len(c.Certs)-1
		c.Certs = append(c.Certs, f)
		sel = len(c.Certs) - 1
		chain = append([]int{sel, len(c.Certs) - 2}, chain[1:]...)
	case "forged-intermediate": // lowest intermediate not signed by its issuer's key
		c.Certs[lowestCA].SignKey = nextKey()
		c.FpOf = rapid.IntRange(0, lowestCA-1).Draw(t, "fpof2")
	case "inter-not-ca":
		c.Certs[lowestCA].CA = false
	case "leaf-as-issuer": // a genuine (non-CA) leaf issues another leaf
		f := c.Certs[leafIdx]
		f.Key, f.Issuer = nextKey(), leafIdx
		c18xGenLeafAttrs(t, &f, "leaf2")
		c.Certs = append(c.Certs, f)
		sel = len(c.Certs) - 1
		chain = append([]int{sel}, chain...)
	case "expired-leaf":
		c.Certs[leafIdx].Validity = "expired"
	case "future-leaf":
		c.Certs[leafIdx].Validity = "future"
	case "expired-inter":
		c.Certs[lowestCA].Validity = "expired"
		c.FpOf = rapid.IntRange(0, lowestCA-1).Draw(t, "fpof2")
	case "future-inter":
		c.Certs[lowestCA].Validity = "future"
		c.FpOf = rapid.IntRange(0, lowestCA-1).Draw(t, "fpof2")
	case "fp-unrelated":
		c.FpOf = unrelIdx
		chain = append(chain, unrelIdx)
	case "fp-leaf":
		c.FpOf = leafIdx
	case "truncated": // an intermediate between the leaf and the fingerprinted certificate is not presented
		c.FpOf = 0
		drop := rapid.IntRange(1, lowestCA).Draw(t, "drop")
		var nc []int
		for _, i := range chain {
			if i != drop {
				nc = append(nc, i)
			}
		}
		chain = nc
	case "pathlen":
		c.Certs[0].PathLen = 0
		if nInter == 2 && rapid.Bool().Draw(t, "pl1") {
			c.Certs[0].PathLen = 1
		}
		c.FpOf = 0
	case "fp-absent": // the identifier names a genuine CA certificate that is not presented
		var nc []int
		for _, i := range chain {
			if i != c.FpOf {
				nc = append(nc, i)
			}
		}
		chain = nc
	}

	// x5c order and extras
	orders := []string{"leaf-first", "leaf-first", "root-first", "shuffled", "extra", "duplicate", "leaf-only", "empty"}
	if !freeHeader {
		orders = orders[:6]
	}
	c.Order = rapid.SampledFrom(orders).Draw(t, "order")
	switch c.Order {
	case "leaf-first":
		c.X5c = chain
	case "root-first":
		for i := len(chain) - 1; i >= 0; i-- {
			c.X5c = append(c.X5c, chain[i])
		}
	case "shuffled":
		c.X5c = rapid.Permutation(chain).Draw(t, "perm")
	case "extra":
		pos := rapid.IntRange(0, len(chain)).Draw(t, "extrapos")
		c.X5c = append(append(append([]int{}, chain[:pos]...), unrelIdx), chain[pos:]...)
	case "duplicate":
		c.X5c = append(append([]int{}, chain...), chain[rapid.IntRange(0, len(chain)-1).Draw(t, "dup")])
	case "leaf-only":
		c.X5c = []int{sel}
	case "empty":
		c.X5c = []int{}
	}
	if k := rapid.IntRange(0, 29).Draw(t, "x5ckind"); k > 25 && freeHeader {
		c.X5cKind = []string{"string", "absent", "nometa", "noheaders"}[k-26]
	}

	// headers
	headers := []string{"both", "x5t", "s256", "both", "none", "junk-x5t", "junk-s256", "mismatch", "other-chain-cert", "outside", "x5t-leaf-s256-outside"}
	if !freeHeader {
		headers = headers[:3]
	}
	c.Header = rapid.SampledFrom(headers).Draw(t, "header")
	otherChain := c.FpOf
	if otherChain == sel && len(chain) > 1 {
		otherChain = chain[1]
	}
	outside := unrelIdx
	switch c.Header {
	case "both":
		c.X5t, c.X5tS256 = sel, sel
	case "x5t":
		c.X5t, c.X5tS256 = sel, -1
	case "s256":
		c.X5t, c.X5tS256 = -1, sel
	case "none":
		c.X5t, c.X5tS256 = -1, -1
	case "junk-x5t":
		c.X5t, c.X5tS256 = -2, sel
	case "junk-s256":
		c.X5t, c.X5tS256 = sel, -2
	case "mismatch":
		c.X5t, c.X5tS256 = sel, otherChain
		if rapid.Bool().Draw(t, "mismatchflip") {
			c.X5t, c.X5tS256 = otherChain, sel
		}
	case "other-chain-cert":
		c.X5t, c.X5tS256 = otherChain, otherChain
	case "outside":
		c.X5t, c.X5tS256 = outside, outside
	case "x5t-leaf-s256-outside":
		c.X5t, c.X5tS256 = sel, outside
	}

	// identifier details
	idkind := rapid.IntRange(0, 39).Draw(t, "idkind")
	if !freeIdent {
		idkind = 39
	} else if focus == "ident" {
		idkind %= 4
	}
	switch idkind {
	case 0:
		c.Version = rapid.SampledFrom([]string{"1", "00", "", "v0"}).Draw(t, "version")
	case 1:
		c.Alg = rapid.SampledFrom([]string{"SHA256", "Sha256", "md5", "sha3-256", "sha224", "", "sha-256"}).Draw(t, "badalg")
	case 2, 3:
		c.FpEnc = rapid.SampledFrom([]string{"trunc", "hex", "flip", "otheralg", "std"}).Draw(t, "fpenc")
	}

	// policies, drawn against the selected certificate
	np := rapid.SampledFrom([]int{0, 1, 1, 1, 2, 2, 3}).Draw(t, "npol")
	for i := 0; i < np; i++ {
		p, k := c18xGenPolicy(t, c.Certs[sel], c.Certs[unrelIdx], c.Policies, !freePolicy)
		c.Policies = append(c.Policies, p)
		c.PolKind = append(c.PolKind, k)
	}
	if c.Policies == nil {
		c.Policies = []string{}
	}
	return c
}

// ---------------------------------------------------------------------------------------------------------------------
// certificate construction (run time)

var c18xOtherNameOID = asn1.ObjectIdentifier{2, 5, 5, 5}

type c18xOtherName struct {
	TypeID asn1.ObjectIdentifier
	Value  asn1.RawValue
}

func c18xSanExtension(c c18xCert) (pkix.Extension, error) {
	var list []asn1.RawValue
	for _, v := range c.Other {
		params := "ia5"
		if c.OtherU8 {
			params = "utf8"
		}
		inner, err := asn1.MarshalWithParams(v, params)
		if err != nil {
			return pkix.Extension{}, err
		}
		on := c18xOtherName{TypeID: c18xOtherNameOID, Value: asn1.RawValue{Class: asn1.ClassContextSpecific, Tag: 0, IsCompound: true, Bytes: inner}}
		b, err := asn1.MarshalWithParams(on, "tag:0")
		if err != nil {
			return pkix.Extension{}, err
		}
		list = append(list, asn1.RawValue{FullBytes: b})
	}
	for _, v := range c.Email {
		list = append(list, asn1.RawValue{Class: asn1.ClassContextSpecific, Tag: 1, Bytes: []byte(v)})
	}
	for _, v := range c.DNS {
		list = append(list, asn1.RawValue{Class: asn1.ClassContextSpecific, Tag: 2, Bytes: []byte(v)})
	}
	for _, v := range c.URI {
		list = append(list, asn1.RawValue{Class: asn1.ClassContextSpecific, Tag: 6, Bytes: []byte(v)})
	}
	b, err := asn1.Marshal(list)
	if err != nil {
		return pkix.Extension{}, err
	}
	return pkix.Extension{Id: asn1.ObjectIdentifier{2, 5, 29, 17}, Value: b}, nil
}

func c18xBuildCerts(x *h.Ctx, c c18xCase, now time.Time) []*x509.Certificate {
	keys := c18xKeyPool()
	out := make([]*x509.Certificate, len(c.Certs))
	for i, cc := range c.Certs {
		if cc.Key < 0 || cc.Key >= len(keys) || cc.Issuer >= i || cc.SignKey >= len(keys) {
			x.Fatalf("case: certificate %d has bad indexes", i)
		}
		tmpl := &x509.Certificate{
			SerialNumber: big.NewInt(int64(1000 + i)),
			Subject: pkix.Name{CommonName: cc.CN, SerialNumber: cc.Serial, Organization: cc.O, OrganizationalUnit: cc.OU, Locality: cc.L,
				Province: cc.ST, Country: cc.C, StreetAddress: cc.Street},
			BasicConstraintsValid: true,
			IsCA:                  cc.CA,
			KeyUsage:              x509.KeyUsageDigitalSignature,
		}
		if cc.CA {
			tmpl.KeyUsage |= x509.KeyUsageCertSign
		}
		if cc.PathLen >= 0 {
			tmpl.MaxPathLen = cc.PathLen
			tmpl.MaxPathLenZero = cc.PathLen == 0
		} else {
			tmpl.MaxPathLen = -1
		}
		switch cc.Validity {
		case "expired":
			tmpl.NotBefore, tmpl.NotAfter = now.Add(-2000*time.Hour), now.Add(-48*time.Hour)
		case "future":
			tmpl.NotBefore, tmpl.NotAfter = now.Add(48*time.Hour), now.Add(2000*time.Hour)
		default:
			tmpl.NotBefore, tmpl.NotAfter = now.Add(-1000*time.Hour), now.Add(1000*time.Hour)
		}
		if len(cc.Other) > 0 {
			ext, err := c18xSanExtension(cc)
			x.NoErr(err, "SAN extension")
			tmpl.ExtraExtensions = []pkix.Extension{ext}
		} else {
			tmpl.DNSNames, tmpl.EmailAddresses = cc.DNS, cc.Email
			for _, u := range cc.URI {
				pu, err := url.Parse(u)
				x.NoErr(err, "uri SAN")
				tmpl.URIs = append(tmpl.URIs, pu)
			}
		}
		pub := keys[cc.Key].priv.Public()
		var parent *x509.Certificate
		var signer crypto.Signer
		if cc.Issuer < 0 {
			parent, signer = tmpl, keys[cc.Key].priv
			if cc.SignKey >= 0 {
				signer = keys[cc.SignKey].priv
			}
		} else {
			parent, signer = out[cc.Issuer], keys[c.Certs[cc.Issuer].Key].priv
			if cc.SignKey >= 0 {
				fake := *out[cc.Issuer] // same issuer name and key id, another key
				signer = keys[cc.SignKey].priv
				fake.PublicKey = signer.Public()
				parent = &fake
			}
		}
		der, err := x509.CreateCertificate(rand.Reader, tmpl, parent, pub, signer)
		x.NoErr(err, fmt.Sprintf("create certificate %d", i))
		crt, err := x509.ParseCertificate(der)
		x.NoErr(err, fmt.Sprintf("parse certificate %d", i))
		out[i] = crt
	}
	return out
}

func c18xHash(alg string, data []byte) ([]byte, bool) {
	switch alg {
	case "sha1":
		s := sha1.Sum(data)
		return s[:], true
	case "sha256":
		s := sha256.Sum256(data)
		return s[:], true
	case "sha384":
		s := sha512.Sum384(data)
		return s[:], true
	case "sha512":
		s := sha512.Sum512(data)
		return s[:], true
	}
	return nil, false
}

// ---------------------------------------------------------------------------------------------------------------------
// reference reading of the policies

// c18xPctDecode is RFC 3986 percent-decoding; ok=false on a malformed escape.
func c18xPctDecode(s string) (string, bool) {
	var b []byte
	for i := 0; i < len(s); i++ {
		if s[i] != '%' {
			b = append(b, s[i])
			continue
		}
		if i+3 > len(s) {
			return "", false
		}
		v, err := hex.DecodeString(s[i+1 : i+3])
		if err != nil {
			return "", false
		}
		b = append(b, v[0])
		i += 2
	}
	return string(b), true
}

// c18xPolicyVerdict: "yes" satisfied, "no" not satisfied or malformed, "lenient" = an empty value (outside the grammar) that a reader
// may take as "attribute absent" — neither direction is judged for it.
func c18xPolicyVerdict(policy string, crt c18xCert) string {
	parts := strings.Split(policy, ":")
	if len(parts) < 3 || len(parts)%2 != 1 {
		return "no"
	}
	name := parts[0]
	if name != "san" && name != "subject" {
		return "no"
	}
	attrs := c18xAttrsOf(crt)
	lenient := false
	for i := 1; i < len(parts); i += 2 {
		key := parts[i]
		val, ok := c18xPctDecode(parts[i+1])
		if !ok {
			return "no"
		}
		if val == "" {
			lenient = true
			continue
		}
		found := false
		for _, a := range attrs {
			if a.policy == name && a.key == key && a.value == val {
				found = true
			}
		}
		if !found {
			return "no"
		}
	}
	if lenient {
		return "lenient"
	}
	return "yes"
}

// ---------------------------------------------------------------------------------------------------------------------
// run

var (
	c18xPKIOnce sync.Once
	c18xPKI     *pki.PKI
	c18xPKIErr  error
)

// the REAL pki validator, constructed offline: no denylist URL; the generated certificates carry no CRL distribution points.
func c18xValidator() (*pki.PKI, error) {
	c18xPKIOnce.Do(func() {
		p := pki.New()
		p.Config().(*pki.Config).Denylist.URL = ""
		c18xPKIErr = p.Configure(core.ServerConfig{})
		c18xPKI = p
	})
	return c18xPKI, c18xPKIErr
}

type c18xOutcome struct {
	doc  *did.Document
	err  error
	text string
}

func c18xResolve(r *Resolver, id did.DID, md *resolver.ResolveMetadata) c18xOutcome {
	doc, _, err := r.Resolve(id, md)
	o := c18xOutcome{doc: doc, err: err}
	if err != nil {
		o.text = "error: " + err.Error()
		if i := strings.Index(o.text, "current time"); i >= 0 { // crypto/x509 puts the wall clock into its message
			o.text = o.text[:i]
		}
	} else {
		b, _ := json.Marshal(doc)
		o.text = string(b)
	}
	return o
}

func c18xRun(x *h.Ctx, c c18xCase) {
	now := time.Now()
	certs := c18xBuildCerts(x, c, now)
	idx := func(i int) bool { return i >= 0 && i < len(certs) }
	if !idx(c.FpOf) {
		x.Fatalf("case: fp_of out of range")
	}

	// identifier
	algLower := strings.ToLower(c.Alg)
	fpAlg := algLower
	if c.FpEnc == "otheralg" {
		fpAlg = map[string]string{"sha256": "sha512", "sha1": "sha256", "sha384": "sha256", "sha512": "sha384"}[algLower]
	}
	sum, known := c18xHash(fpAlg, certs[c.FpOf].Raw)
	if !known {
		s := sha256.Sum256(certs[c.FpOf].Raw)
		sum = s[:]
	}
	fp := base64.RawURLEncoding.EncodeToString(sum)
	switch c.FpEnc {
	case "trunc":
		fp = fp[:len(fp)-4]
	case "hex":
		fp = hex.EncodeToString(sum)
	case "flip":
		sum[0] ^= 0x01
		fp = base64.RawURLEncoding.EncodeToString(sum)
	case "std":
		fp = base64.RawStdEncoding.EncodeToString(sum)
	}
	idText := "did:x509:" + c.Version + ":" + c.Alg + ":" + fp
	for _, p := range c.Policies {
		idText += "::" + p
	}
	x.Class("focus:" + c.Focus)
	x.Class("shape:" + c.Shape)
	x.Class("hostile:" + map[bool]string{true: "none", false: c.Hostile}[c.Hostile == ""])
	x.Class("header:" + c.Header)
	x.Class("order:" + c.Order)
	x.Class("x5c:" + c.X5cKind)
	x.Class("alg:" + c.Alg)
	x.Class("fpenc:" + c.FpEnc)
	x.Classf("policies:%d", len(c.Policies))
	for _, k := range c.PolKind {
		x.Class("policy:" + k)
	}
	plain := c.Hostile == "" && c.Header == "both" && c.Order == "leaf-first" && c.X5cKind == "chain" && c.FpEnc == "ok" && c.Version == "0"
	for _, k := range c.PolKind {
		if k != "match" {
			plain = false
		}
	}
	if _, ok := c18xHash(c.Alg, nil); !ok {
		plain = false
	}
	if !plain {
		x.NonTrivial()
	}

	id, perr := did.ParseDID(idText)
	if perr != nil {
		x.Class("verdict:unparseable-did")
		return
	}
	if id.String() != idText {
		x.Class("verdict:did-text-changed-by-parser")
		return
	}

	// metadata
	var md *resolver.ResolveMetadata
	if c.X5cKind != "nometa" {
		md = &resolver.ResolveMetadata{}
		if c.X5cKind != "noheaders" {
			md.JwtProtectedHeaders = map[string]interface{}{}
			switch c.X5cKind {
			case "chain":
				ch := &cert.Chain{}
				for _, i := range c.X5c {
					if !idx(i) {
						x.Fatalf("case: x5c index out of range")
					}
					x.NoErr(ch.Add(pem.EncodeToMemory(&pem.Block{Type: "CERTIFICATE", Bytes: certs[i].Raw})), "chain add")
				}
				md.JwtProtectedHeaders[X509CertChainHeader] = ch
			case "string":
				md.JwtProtectedHeaders[X509CertChainHeader] = "GARBAGE"
			}
			thumb := func(i int, s256 bool) (string, bool) {
				switch {
				case i == -1:
					return "", false
				case i == -2:
					return "AAAAAAAAAAAAAAAAAAAAAAAAAAA", true
				case !idx(i):
					x.Fatalf("case: thumbprint index out of range")
				}
				if s256 {
					s := sha256.Sum256(certs[i].Raw)
					return base64.RawURLEncoding.EncodeToString(s[:]), true
				}
				s := sha1.Sum(certs[i].Raw)
				return base64.RawURLEncoding.EncodeToString(s[:]), true
			}
			if v, ok := thumb(c.X5t, false); ok {
				md.JwtProtectedHeaders[X509CertThumbprintHeader] = v
			}
			if v, ok := thumb(c.X5tS256, true); ok {
				md.JwtProtectedHeaders[X509CertThumbprintS256Header] = v
			}
		}
	}

	// ---- reference ----
	// may: upper bound (anything outside it must not resolve); must: lower bound (must resolve)
	reject := "" // first reason why the reference refuses
	rejectSig := ""
	refuse := func(sig, why string) {
		if reject == "" {
			reject, rejectSig = why, sig
		}
	}
	if c.Version != "0" {
		refuse("x509:resolved-bad-identifier:version", "version is not 0")
	}
	if _, ok := c18xHash(algLower, nil); !ok {
		refuse("x509:resolved-bad-identifier:alg", "unknown hash algorithm "+c.Alg)
	}
	presented := map[int]bool{}
	if c.X5cKind == "chain" {
		for _, i := range c.X5c {
			presented[i] = true
		}
	}
	if len(presented) == 0 {
		refuse("x509:resolved-without-chain", "no x5c chain presented")
	}
	// the certificate the identifier names: compare the identifier's text with the harness's own fingerprints of the presented certificates
	fpCert := -1
	for _, i := range c.X5c {
		if !presented[i] {
			continue
		}
		if s, ok := c18xHash(algLower, certs[i].Raw); ok && base64.RawURLEncoding.EncodeToString(s) == fp {
			fpCert = i
			break
		}
	}
	if fpCert < 0 {
		refuse("x509:resolved-fingerprint-not-in-chain", "no presented certificate has the fingerprint the identifier names")
	}
	sel := -1
	switch {
	case c.X5t == -1 && c.X5tS256 == -1:
		refuse("x509:resolved-unselectable:no-thumbprint", "no x5t / x5t#S256 header")
	case c.X5t == -2 || c.X5tS256 == -2:
		refuse("x509:resolved-unselectable:junk-thumbprint", "a thumbprint header names no certificate")
	case c.X5t >= 0 && c.X5tS256 >= 0 && !certs[c.X5t].Equal(certs[c.X5tS256]):
		refuse("x509:resolved-unselectable:mismatch", "x5t and x5t#S256 name different certificates")
	default:
		sel = c.X5t
		if sel < 0 {
			sel = c.X5tS256
		}
		inChain := false
		for i := range presented {
			if certs[i].Equal(certs[sel]) {
				inChain = true
			}
		}
		if !inChain {
			refuse("x509:resolved-unselectable:outside-chain", "the thumbprint names a certificate that is not in x5c")
			sel = -1
		}
	}
	lenient := false
	usesURI := false
	if sel >= 0 {
		for n, p := range c.Policies {
			switch c18xPolicyVerdict(p, c.Certs[sel]) {
			case "no":
				kind := "?"
				if n < len(c.PolKind) {
					kind = c.PolKind[n]
				}
				refuse("x509:policy-not-satisfied:"+kind, fmt.Sprintf("policy %q is not satisfied by the selected certificate", p))
			case "lenient":
				lenient = true
			}
			if strings.HasPrefix(p, "san:") && strings.Contains(":"+p, ":uri:") {
				usesURI = true
			}
		}
	}
	chainOK := false
	if sel >= 0 && fpCert >= 0 {
		verify := func(at time.Time) error {
			roots, inter := x509.NewCertPool(), x509.NewCertPool()
			roots.AddCert(certs[fpCert])
			for i := range presented {
				if i != fpCert {
					inter.AddCert(certs[i])
				}
			}
			_, err := certs[sel].Verify(x509.VerifyOptions{Roots: roots, Intermediates: inter, CurrentTime: at, KeyUsages: []x509.ExtKeyUsage{x509.ExtKeyUsageAny}})
			return err
		}
		if err := verify(now); err == nil {
			chainOK = true
		} else {
			// would it verify at an instant inside every presented certificate's validity period? then only time is wrong
			var from, to time.Time
			for i := range presented {
				if from.IsZero() || certs[i].NotBefore.After(from) {
					from = certs[i].NotBefore
				}
				if to.IsZero() || certs[i].NotAfter.Before(to) {
					to = certs[i].NotAfter
				}
			}
			if from.Before(to) && verify(from.Add(time.Minute)) == nil {
				refuse("x509:chain-validity-not-checked", "a certificate of the chain is expired or not yet valid: "+err.Error())
			} else {
				refuse("x509:chain-not-verified", "the selected certificate does not chain to the certificate the identifier names: "+err.Error())
			}
		}
	}
	may := reject == ""
	// must: canonical presentation only
	must := may && chainOK && !lenient && !usesURI && c.Alg == algLower && sel != fpCert && len(c.X5c) == len(presented) && len(c.X5c) >= 2
	if must {
		// x5c is exactly the issuer path of the selected certificate up to a self-signed certificate, leaf-first or root-first
		var path []int
		for i := sel; i >= 0; i = c.Certs[i].Issuer {
			path = append(path, i)
		}
		same := func(a, b []int) bool {
			if len(a) != len(b) {
				return false
			}
			for i := range a {
				if a[i] != b[i] {
					return false
				}
			}
			return true
		}
		rev := make([]int, len(path))
		for i := range path {
			rev[len(path)-1-i] = path[i]
		}
		if !same(c.X5c, path) && !same(c.X5c, rev) {
			must = false
		}
	}

	// ---- execute ----
	val, err := c18xValidator()
	x.NoErr(err, "pki validator")
	r := NewResolver(val)
	o1 := c18xResolve(r, *id, md)
	o2 := c18xResolve(NewResolver(val), *id, md)
	if o1.text != o2.text {
		x.Violate("x509:impure", "two resolutions of %s differ:\n%s\n%s", idText, o1.text, o2.text)
	}
	if o1.err == nil && o1.doc == nil {
		x.Violate("x509:nil-document", "Resolve returned neither a document nor an error")
		return
	}
	if o1.err != nil {
		x.Class("verdict:refused")
		if must {
			x.Class("ref:must")
			x.Violate("x509:refused-valid", "a well-formed chain with a matching identifier %s was refused: %v", idText, o1.err)
		} else if may {
			x.Class("ref:may-refused")
			switch {
			case usesURI:
				x.Class("ref:may-refused:uri-policy")
			case lenient:
				x.Class("ref:may-refused:empty-value")
			case sel == fpCert:
				x.Class("ref:may-refused:fingerprint-names-selected-cert")
			case c.Alg != algLower:
				x.Class("ref:may-refused:alg-case")
			default:
				x.Class("ref:may-refused:presentation")
			}
		} else {
			x.Class("ref:reject")
		}
		return
	}
	x.Class("verdict:resolved")
	switch {
	case must:
		x.Class("ref:must")
	case may:
		x.Class("ref:may-resolved")
	}
	if lenient {
		x.Class("ref:lenient-empty-value")
	}
	if sel >= 0 && sel == fpCert {
		x.Class("ref:fingerprint-names-selected-cert")
	}
	doc := o1.doc
	// (1) id binding
	if doc.ID.String() != idText {
		x.Violate("x509:doc-id", "asked %s, document id %s", idText, doc.ID.String())
	}
	if len(doc.VerificationMethod) == 0 {
		x.Violate("x509:no-verification-method", "document of %s has no verification method", idText)
	}
	for _, vm := range doc.VerificationMethod {
		if vm.ID.DID.String() != idText || vm.ID.Fragment == "" || vm.Controller.String() != idText {
			x.Violate("x509:vm-binding", "verification method %s (controller %s) is not of %s", vm.ID.String(), vm.Controller.String(), idText)
		}
	}
	if !may {
		x.Violate(rejectSig, "%s resolved, but %s (hostile=%q header=%s order=%s)", idText, reject, c.Hostile, c.Header, c.Order)
		return
	}
	// (2) the key is the selected certificate's
	for _, vm := range doc.VerificationMethod {
		pk, err := vm.PublicKey()
		if err != nil {
			x.Violate("x509:vm-key-unreadable", "verification method key: %v", err)
			continue
		}
		want, ok := certs[sel].PublicKey.(interface{ Equal(crypto.PublicKey) bool })
		if !ok {
			x.Fatalf("certificate key without Equal")
		}
		if !want.Equal(pk) {
			x.Violate("x509:doc-key-not-selected-cert", "the document key of %s is not the key of the certificate x5t/x5t#S256 select", idText)
		}
	}
}

func TestVerif_C18_X509(t *testing.T) { h.Check(t, "C18", c18xGen, c18xRun, h.PanicIsViolation()) }
func TestVerifReplay_C18_X509(t *testing.T) {
	h.Replay(t, "C18", "TestVerif_C18_X509", c18xRun, h.PanicIsViolation())
}
