//go:build verif

package didsubject_test

// C13, concurrency component — "a subject name maps to at most one set of DIDs" (and the all-or-nothing clauses) when
// operations on the SAME subject name run at the same time.
//
// (a) TestVerif_C13_RaceEnum — harness-owned interleaving. A gorm query callback on the case's own database recognises
// the "does this subject exist?" lookup (a query on table did filtered by subject). The first caller that completes
// such a lookup is parked right after it until the other caller (1) has completed its own lookup, or (2) is blocked
// waiting for the single sqlite connection (sql.DBStats.WaitCount grew: the parked caller holds the connection because
// its lookup is part of its transaction — that is the intended protection), or (3) has returned. No timeouts decide
// anything: one of the three must happen, because the only thing the other caller can wait for is the connection. The
// second caller is never parked, so a parked caller never waits for somebody who needs the connection it holds.
// The case fixes which operation reaches its lookup first (it is started alone and the other one only once the first
// is parked or done).
//
// (b) TestVerif_C13_RaceSampled — SAMPLED: 2-4 goroutines call Create with the same subject name behind a start
// barrier, the Go scheduler decides. Not reproducible run by run; a saved case replays the same configuration.
//
// Oracle (both): at most one Create succeeds (exactly one if the name was free, none if it existed), every other
// Create returns ErrSubjectAlreadyExists; afterwards the subject has exactly one DID per enabled method; a concurrent
// deactivate / add-service / add-key on the existing subject took effect on every DID or on none; versions are
// consecutive, SQL and network agree version by version, and the change log is empty after the sweep.

import (
	"errors"
	"fmt"
	"strings"
	"sync"
	"sync/atomic"
	"testing"
	"time"

	"github.com/nuts-foundation/go-did/did"
	"github.com/nuts-foundation/nuts-node/storage/orm"
	"github.com/nuts-foundation/nuts-node/vdr/didsubject"
	"gorm.io/gorm"
	"pgregory.net/rapid"
	"verif.local/h"
)

type c13RaceCase struct {
	Methods string   `json:"methods"`
	Pre     bool     `json:"pre"`   // the subject exists before the race
	Ops     []string `json:"ops"`   // create | deactivate | svc_add | vm_add, all on the same subject name
	First   int      `json:"first"` // actor that reaches its subject lookup first; -1 = free start (sampled)
}

const c13RaceSubject = "race"

func c13RaceEnum(yield func(c13RaceCase) bool) {
	for _, methods := range []string{"web+nuts", "nuts", "web"} {
		for _, pre := range []bool{false, true} {
			if !yield(c13RaceCase{Methods: methods, Pre: pre, Ops: []string{"create", "create"}, First: 0}) {
				return
			}
		}
		for _, other := range []string{"deactivate", "svc_add", "vm_add"} {
			for first := 0; first < 2; first++ {
				if !yield(c13RaceCase{Methods: methods, Pre: true, Ops: []string{"create", other}, First: first}) {
					return
				}
			}
		}
	}
}

func c13RaceGen(t *rapid.T) c13RaceCase {
	c := c13RaceCase{
		Methods: rapid.SampledFrom([]string{"web+nuts", "web+nuts", "nuts", "web"}).Draw(t, "methods"),
		Pre:     rapid.IntRange(0, 9).Draw(t, "pre") == 0,
		First:   -1,
	}
	n := rapid.IntRange(2, 4).Draw(t, "n")
	for i := 0; i < n; i++ {
		c.Ops = append(c.Ops, "create")
	}
	return c
}

// c13Rendezvous is the parking point after the subject lookup.
type c13Rendezvous struct {
	armed     atomic.Bool
	arrivals  atomic.Int32
	finished  atomic.Int32
	actors    int32
	baseWait  int64
	waitCount func() int64
	released  string // why the parked caller went on: second-lookup | other-blocked-on-connection | others-finished | stuck
	parkedTx  bool   // the parked lookup ran inside a transaction
}

func (r *c13Rendezvous) callback(tx *gorm.DB) {
	if !r.armed.Load() || tx.Statement.Table != "did" || !strings.Contains(tx.Statement.SQL.String(), "subject") {
		return
	}
	if r.arrivals.Add(1) != 1 {
		return
	}
	_, r.parkedTx = tx.Statement.ConnPool.(gorm.TxCommitter)
	deadline := time.Now().Add(30 * time.Second) // harness safety net only: reaching it makes the case inconclusive
	for {
		switch {
		case r.arrivals.Load() >= 2:
			r.released = "second-lookup"
		case r.waitCount() > r.baseWait:
			r.released = "other-blocked-on-connection"
		case r.finished.Load() >= r.actors-1:
			r.released = "others-finished"
		case time.Now().After(deadline):
			r.released = "stuck"
		default:
			time.Sleep(50 * time.Microsecond)
			continue
		}
		return
	}
}

func c13RaceRun(x *h.Ctx, c c13RaceCase) {
	fx := c13Setup(x, c13Case{Methods: c.Methods})
	x.Class("methods:" + c.Methods)
	x.Classf("pre:%v", c.Pre)
	x.Class("race:" + strings.Join(c.Ops, "|"))
	fx.script.begin("")
	sqlDB, err := fx.db.DB()
	x.NoErr(err, "sql.DB")

	var pre c13Obs
	if c.Pre {
		_, _, err := fx.mgr.Create(fx.ctx, didsubject.DefaultCreationOptions().With(didsubject.SubjectCreationOption{Subject: c13RaceSubject}))
		x.NoErr(err, "create the pre-existing subject")
		pre = fx.observe(c13RaceSubject)
	}

	rv := &c13Rendezvous{actors: int32(len(c.Ops)), waitCount: func() int64 { return sqlDB.Stats().WaitCount }}
	if c.First >= 0 {
		x.NoErr(fx.db.Callback().Query().After("gorm:query").Register("verif:c13race", rv.callback), "register rendezvous")
		rv.baseWait = sqlDB.Stats().WaitCount
		rv.armed.Store(true)
	}

	svc := c13Service(0)
	errs := make([]error, len(c.Ops))
	rets := make([]any, len(c.Ops))
	panics := make([]any, len(c.Ops))
	done := make([]chan struct{}, len(c.Ops))
	start := make(chan struct{})
	var wg sync.WaitGroup
	actor := func(i int) {
		defer wg.Done()
		defer close(done[i])
		defer rv.finished.Add(1)
		defer func() { panics[i] = recover() }()
		<-start
		switch c.Ops[i] {
		case "create":
			var docs []did.Document
			docs, _, errs[i] = fx.mgr.Create(fx.ctx, didsubject.DefaultCreationOptions().With(didsubject.SubjectCreationOption{Subject: c13RaceSubject}))
			rets[i] = docs
		case "deactivate":
			errs[i] = fx.mgr.Deactivate(fx.ctx, c13RaceSubject)
		case "svc_add":
			rets[i], errs[i] = fx.mgr.CreateService(fx.ctx, c13RaceSubject, svc)
		case "vm_add":
			rets[i], errs[i] = fx.mgr.AddVerificationMethod(fx.ctx, c13RaceSubject, orm.AssertionKeyUsage())
		}
	}
	for i := range c.Ops {
		done[i] = make(chan struct{})
	}
	wg.Add(len(c.Ops))
	if c.First >= 0 {
		// harness-owned order: the chosen actor runs alone until it is parked after its lookup (or returns)
		close(start)
		go actor(c.First)
		for rv.arrivals.Load() == 0 {
			select {
			case <-done[c.First]:
			default:
				time.Sleep(50 * time.Microsecond)
				continue
			}
			break
		}
		for i := range c.Ops {
			if i != c.First {
				go actor(i)
			}
		}
	} else {
		for i := range c.Ops {
			go actor(i)
		}
		close(start)
	}
	all := make(chan struct{})
	go func() { wg.Wait(); close(all) }()
	select {
	case <-all:
	case <-time.After(90 * time.Second):
		x.Fatalf("race did not finish (deadlock in the harness?) released=%q", rv.released)
	}
	rv.armed.Store(false)
	for i, p := range panics {
		if p != nil {
			panic(fmt.Sprintf("actor %d (%s) panicked: %v", i, c.Ops[i], p))
		}
	}
	if rv.released == "stuck" {
		x.Fatalf("parked caller was never released")
	}
	if c.First >= 0 {
		x.Class("released:" + rv.released)
		x.Classf("parked-in-transaction:%v", rv.parkedTx)
		if rv.released != "" {
			x.NonTrivial()
		}
	} else {
		x.Classf("sampled:%d-creates", len(c.Ops))
		x.NonTrivial()
	}

	// ---- oracle
	kind := strings.Join(c.Ops[:2], "|")
	if c.First < 0 {
		kind = "create|create"
	}
	okCreates := 0
	for i, op := range c.Ops {
		if op != "create" {
			continue
		}
		switch {
		case errs[i] == nil:
			okCreates++
		case errors.Is(errs[i], didsubject.ErrSubjectAlreadyExists):
		default:
			fx.violate("race:"+kind+":create-undocumented-error", "concurrent Create(%s) failed with an error other than ErrSubjectAlreadyExists: %v", c13RaceSubject, errs[i])
			return
		}
	}
	x.Classf("creates-succeeded:%d", okCreates)
	now := fx.observe(c13RaceSubject)
	perMethod := map[string]int{}
	var ids []string
	for _, d := range now.Docs {
		perMethod[d.Method]++
		ids = append(ids, d.DID)
	}
	for _, m := range fx.methods {
		if perMethod[m] != 1 {
			fx.violate("race:"+kind+":subject-has-not-one-did-per-method", "after the race subject %s has %d did:%s DIDs (all: %v); %d of the concurrent Creates succeeded",
				c13RaceSubject, perMethod[m], m, ids, okCreates)
			return
		}
	}
	want := 1
	if c.Pre {
		want = 0
	}
	if okCreates != want {
		fx.violate("race:"+kind+":create-successes", "%d concurrent Creates of subject %s succeeded, expected %d (subject existed before: %v)", okCreates, c13RaceSubject, want, c.Pre)
		return
	}
	// the concurrent non-create operation: on every DID or on none
	for i, op := range c.Ops {
		if op == "create" || !c.Pre {
			continue
		}
		if errs[i] != nil {
			x.Classf("other-op-failed:%s", op)
			if a, m, det := c13Diff(pre, now); a != "" {
				fx.violate("race:"+kind+":failed-op-left-traces:"+a+":"+m, "%s returned %v but %s", op, errs[i], det)
				return
			}
			continue
		}
		x.Classf("other-op-succeeded:%s", op)
		p := &c13Pending{op: c13Op{K: op}, subj: &c13Subj{name: c13RaceSubject}, pre: pre}
		if op == "svc_add" {
			p.svc = &svc
		}
		fx.checkApplied(p, now, rets[i], "after the race")
		if fx.bad {
			return
		}
	}
	// settle: whatever is left in the change log is handed to the sweep
	fx.ageChangeLog()
	fx.mgr.Rollback(fx.ctx)
	if n := fx.changeLogCount(); n != 0 {
		fx.violate("race:"+kind+":changelog-remains", "%d did_change_log rows remain after the race and the sweep", n)
		return
	}
	after := fx.observe(c13RaceSubject)
	if a, m, det := c13Diff(now, after); a != "" {
		fx.violate("race:"+kind+":sweep-changed-settled-state:"+a+":"+m, "all operations had returned, yet the sweep changed the subject: %s", det)
		return
	}
	fx.checkInvariants(c13RaceSubject, after, "after the race")
	if fx.bad {
		return
	}
	for name := range fx.list() {
		if name != c13RaceSubject {
			fx.violate("race:"+kind+":phantom-subject", "List() returns unexpected subject %s", name)
			return
		}
	}
	if len(fx.net.deliverE) > 0 {
		x.Fatalf("ambassador refused a published document: %v", fx.net.deliverE)
	}
}

func TestVerif_C13_RaceEnum(t *testing.T) { h.Each(t, "C13", c13RaceEnum, c13RaceRun) }
func TestVerifReplay_C13_RaceEnum(t *testing.T) {
	h.Replay(t, "C13", "TestVerif_C13_RaceEnum", c13RaceRun)
}
func TestVerif_C13_RaceSampled(t *testing.T) { h.Check(t, "C13", c13RaceGen, c13RaceRun) }
func TestVerifReplay_C13_RaceSampled(t *testing.T) {
	h.Replay(t, "C13", "TestVerif_C13_RaceSampled", c13RaceRun)
}
