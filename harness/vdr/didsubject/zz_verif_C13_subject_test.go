//go:build verif

package didsubject_test

// C13 — Subject operations change all of a subject's DIDs together or not at all.
//
// System under test: the real didsubject.SqlManager on a sqlite file database with the REAL didweb.Manager and the REAL
// didnuts.Manager over a real didstore (bbolt). The only scripted part is network.Transactions: c13Net signs a genuine
// dag.Transaction with the real key store (as network.CreateTransaction does) and delivers it to the REAL ambassador
// (callback via the C13 hook in package didnuts), which validates it and writes it to the didstore. The script can make
// CreateTransaction fail, or STOP THE RUN before/after publishing (panic with a sentinel that is recovered at the top of
// the operation: no code of the operation runs afterwards, exactly like a process stop; the manager objects are then
// abandoned and new ones are built on the same database = restart). The second database transaction of
// transactionHelper can be made to fail through a gorm delete callback that is armed after the deciding Commit.
//
// The external test package is required: didnuts and didweb import didsubject.

import (
	"context"
	"crypto/sha256"
	"encoding/hex"
	"encoding/json"
	"errors"
	"fmt"
	"io"
	"os"
	"path/filepath"
	"sort"
	"strings"
	"sync"
	"testing"
	"time"

	ssi "github.com/nuts-foundation/go-did"
	"github.com/nuts-foundation/go-did/did"
	"github.com/nuts-foundation/go-stoabs"
	"github.com/nuts-foundation/nuts-node/audit"
	"github.com/nuts-foundation/nuts-node/core"
	nutsCrypto "github.com/nuts-foundation/nuts-node/crypto"
	"github.com/nuts-foundation/nuts-node/crypto/hash"
	"github.com/nuts-foundation/nuts-node/network"
	"github.com/nuts-foundation/nuts-node/network/dag"
	"github.com/nuts-foundation/nuts-node/network/transport"
	"github.com/nuts-foundation/nuts-node/storage"
	"github.com/nuts-foundation/nuts-node/storage/orm"
	"github.com/nuts-foundation/nuts-node/vdr/didnuts"
	"github.com/nuts-foundation/nuts-node/vdr/didnuts/didstore"
	"github.com/nuts-foundation/nuts-node/vdr/didsubject"
	"github.com/nuts-foundation/nuts-node/vdr/didweb"
	"github.com/nuts-foundation/nuts-node/vdr/resolver"
	"github.com/sirupsen/logrus"
	"gorm.io/gorm"
	"pgregory.net/rapid"
	"verif.local/h"
)

// ---------------------------------------------------------------------------------------------------------------------
// case

// Fault plans (what happens to the operation after its first database transaction committed):
//
//	""                  nothing injected
//	pub_fail            the did:nuts publish (CreateTransaction) returns an error             -> tx2 deletes the versions
//	stop_pre            the run stops after tx1, before anything was published               -> sweep must undo
//	stop_post           the run stops after the did:nuts publish, before tx2                 -> sweep must keep (all methods new)
//	tx2_fail            publish succeeded, the clean-up transaction fails (SQL error)        -> sweep must keep
//	pub_fail_tx2_fail   publish failed and the clean-up transaction fails too                -> sweep must undo
//
// With did:web only, stop_pre stops inside the (empty) did:web Commit, i.e. between tx1 and tx2, and the expected outcome
// is "kept" (the database IS the publication); pub_fail/stop_post/pub_fail_tx2_fail do not exist there (did:web's Commit
// cannot fail) and are never generated.
type c13Op struct {
	K     string `json:"k"`               // create | svc_add | svc_upd | svc_del | vm_add | deactivate | sweep | restart
	Subj  int    `json:"s,omitempty"`     // subject selector (index into the settled live subjects, modulo); create: naming (0 generated, 1..2 fixed, 3 legacy)
	Arg   int    `json:"a,omitempty"`     // service type / endpoint / target selector
	Fault string `json:"f,omitempty"`     // fault plan
	Defer bool   `json:"defer,omitempty"` // leave the interrupted operation pending: the sweep runs at the next `sweep` op / at the end
	Retry bool   `json:"retry,omitempty"` // after the operation was undone, repeat it without a fault: it must succeed
	// Err is the KIND of error the failing publish returns (pub_fail, pub_fail_tx2_fail): "" plain | canceled | deadline
	// (fmt.Errorf %w context.Canceled / DeadlineExceeded) | stoabs_canceled | stoabs_deadline (the shape go-stoabs produces when the
	// request context ends before the bbolt commit) | join (errors.Join(plain, DeadlineExceeded)) | cancel_before | cancel_during
	// (the request context is REALLY cancelled before the deciding Commit is called / inside CreateTransaction; the network
	// then refuses with the stoabs-wrapped ctx.Err(), as the real one does).
	Err string `json:"err,omitempty"`
	// The grace period (Rollback leaves alone what is younger than a minute):
	Sweep string `json:"sweep,omitempty"` // unfaulted op: Rollback fires WHILE the operation is in flight, "pre" = after tx1 before the publish, "post" = after the publish before tx2
	Young int    `json:"young,omitempty"` // seconds (<60): the pending rows are made this old and swept first; they must not be touched
	Age   int    `json:"age,omitempty"`   // seconds (>60): age given to the pending rows for the sweep that must handle them (0 = an hour)
}

type c13Case struct {
	Methods string  `json:"methods"` // web+nuts | nuts | web
	Ops     []c13Op `json:"ops"`
}

var c13OpKinds = []string{"create", "svc_add", "svc_upd", "svc_del", "vm_add", "deactivate"}

func c13Faults(methods string) []string {
	if methods == "web" {
		return []string{"stop_pre", "tx2_fail"}
	}
	return []string{"pub_fail", "stop_pre", "stop_post", "tx2_fail", "pub_fail_tx2_fail"}
}

func c13Gen(t *rapid.T) c13Case {
	c := c13Case{Methods: rapid.SampledFrom([]string{"web+nuts", "web+nuts", "web+nuts", "nuts", "web"}).Draw(t, "methods")}
	faults := c13Faults(c.Methods)
	n := rapid.IntRange(3, 12).Draw(t, "n")
	for i := 0; i < n; i++ {
		var k string
		if i == 0 {
			k = "create"
		} else {
			k = rapid.SampledFrom([]string{"create", "create", "svc_add", "svc_add", "svc_add", "svc_add", "svc_add", "svc_upd", "svc_upd", "svc_del", "svc_del",
				"vm_add", "vm_add", "deactivate", "sweep", "restart"}).Draw(t, "k")
		}
		op := c13Op{K: k}
		if k != "sweep" && k != "restart" {
			op.Subj = rapid.IntRange(0, 3).Draw(t, "subj")
			op.Arg = rapid.IntRange(0, 35).Draw(t, "arg")
			// the first creation succeeds, so that there is a subject to work on
			if i > 0 && rapid.IntRange(0, 99).Draw(t, "faulty") < 40 {
				op.Fault = rapid.SampledFrom(faults).Draw(t, "fault")
				op.Defer = op.Fault != "pub_fail" && rapid.IntRange(0, 99).Draw(t, "defer") < 35
				op.Retry = rapid.Bool().Draw(t, "retry")
				op.Young = rapid.SampledFrom([]int{0, 0, 1, 30, 59}).Draw(t, "young")
				op.Age = rapid.SampledFrom([]int{0, 61, 62, 3600}).Draw(t, "age")
				if op.Fault == "pub_fail" || op.Fault == "pub_fail_tx2_fail" {
					op.Err = rapid.SampledFrom(c13ErrKinds).Draw(t, "errkind")
				}
			} else if i > 0 && rapid.IntRange(0, 99).Draw(t, "inflight") < 25 {
				op.Sweep = rapid.SampledFrom([]string{"pre", "post"}).Draw(t, "sweepAt")
				op.Young = rapid.SampledFrom([]int{0, 1, 30, 59}).Draw(t, "young")
			}
		} else if k == "sweep" {
			op.Young = rapid.SampledFrom([]int{0, 1, 30, 59}).Draw(t, "young")
			op.Age = rapid.SampledFrom([]int{0, 61, 62, 3600}).Draw(t, "age")
		}
		c.Ops = append(c.Ops, op)
	}
	return c
}

// c13Enum: every single-fault position of every operation kind under every method configuration, on a short history,
// (a) swept at once, the operation repeated, a further operation; (b) left pending together with a second pending
// operation of another subject, then one sweep for both, the operation repeated.
func c13Enum(yield func(c13Case) bool) {
	for _, methods := range []string{"web+nuts", "nuts", "web"} {
		type kind struct {
			k    string
			subj int
		}
		kinds := []kind{{"create", 0}, {"create", 1}, {"svc_add", 0}, {"svc_upd", 0}, {"svc_del", 0}, {"vm_add", 0}, {"deactivate", 0}}
		if methods != "web" {
			kinds = append(kinds, kind{"create", 3})
		}
		for _, kd := range kinds {
			for _, f := range append([]string{""}, c13Faults(methods)...) {
				// prefix: subject subj-2 exists with one service; (fixed-name creates use subj-1, which is free)
				prefix := []c13Op{{K: "create", Subj: 2}, {K: "svc_add", Subj: 0, Arg: 0}}
				target := c13Op{K: kd.k, Subj: kd.subj, Arg: 1, Fault: f, Retry: f != ""}
				if f != "" {
					// grace period: a sweep over the rows at 59 s must not touch them, the one at 61 s must handle them
					target.Young, target.Age = 59, 61
				}
				if kd.k == "svc_del" {
					target.Arg = 0 // index 0 = the existing service (see c13SvcTarget); svc_upd with Arg 1: existing service -> T1
				}
				a := c13Case{Methods: methods}
				a.Ops = append(a.Ops, prefix...)
				a.Ops = append(a.Ops, target, c13Op{K: "svc_add", Subj: 0, Arg: 2}, c13Op{K: "vm_add", Subj: 0})
				if !yield(a) {
					return
				}
				if f == "pub_fail" || f == "pub_fail_tx2_fail" {
					// the same failing publish with every other KIND of error (context cancellation / deadline in the shapes the
					// real stack produces, and a really cancelled request context)
					for _, kind := range c13ErrKinds[1:] {
						tg := target
						tg.Err = kind
						e := c13Case{Methods: methods}
						e.Ops = append(e.Ops, prefix...)
						e.Ops = append(e.Ops, tg, c13Op{K: "svc_add", Subj: 0, Arg: 2})
						if !yield(e) {
							return
						}
					}
				}
				if f == "" {
					// the sweep fires while the (unfaulted) operation is in flight, before / after the publish, with the
					// in-flight rows 1 s and 59 s old
					for _, pos := range []string{"pre", "post"} {
						for _, young := range []int{1, 59} {
							tg := target
							tg.Sweep, tg.Young = pos, young
							g := c13Case{Methods: methods}
							g.Ops = append(g.Ops, prefix...)
							g.Ops = append(g.Ops, tg, c13Op{K: "svc_add", Subj: 0, Arg: 2})
							if !yield(g) {
								return
							}
						}
					}
				}
				if f == "" || f == "pub_fail" {
					continue
				}
				// (b) two pending operations, one sweep. The other pending operation is the creation of another subject
				// that stopped before it was published.
				b := c13Case{Methods: methods}
				b.Ops = append(b.Ops, prefix...)
				other := c13Op{K: "create", Subj: 0, Fault: "stop_pre", Defer: true}
				tg := target
				tg.Defer = true
				b.Ops = append(b.Ops, other, tg, c13Op{K: "sweep"}, c13Op{K: "svc_add", Subj: 0, Arg: 2})
				if !yield(b) {
					return
				}
				// and in the other order
				b2 := c13Case{Methods: methods}
				b2.Ops = append(b2.Ops, prefix...)
				b2.Ops = append(b2.Ops, tg, other, c13Op{K: "sweep"}, c13Op{K: "svc_add", Subj: 0, Arg: 2})
				if !yield(b2) {
					return
				}
			}
		}
	}
}

// ---------------------------------------------------------------------------------------------------------------------
// fault script shared by the fake network, the method wrappers and the delete callback

type c13Stop struct{} // sentinel panic = the process stops here

type c13Script struct {
	mu        sync.Mutex
	plan      string
	fired     bool // the injection point was reached
	reached   bool // the operation got as far as publishing (tx1 committed and the method manager accepted the change)
	published bool // a did:nuts transaction of the current operation reached the didstore
	failTx2   bool // armed: every SQL delete fails
	webOnly   bool
	errKind   string           // kind of the injected publish error
	cancel    func()           // cancels the request context of the running operation
	sweepAt   string           // "pre" | "post": call hook at that point of the deciding Commit
	hook      func(pos string) // runs Rollback while the operation is in flight (no database transaction is open there)
}

func (s *c13Script) begin(plan string) {
	s.mu.Lock()
	s.plan, s.fired, s.published, s.failTx2, s.reached = plan, false, false, false, false
	s.mu.Unlock()
}

func (s *c13Script) end() (fired, published, reached bool) {
	s.mu.Lock()
	defer s.mu.Unlock()
	s.plan, s.failTx2, s.sweepAt, s.errKind, s.cancel = "", false, "", "", nil
	return s.fired, s.published, s.reached
}

var errC13Publish = errors.New("C13 injected: network refuses the transaction")

var c13ErrKinds = []string{"", "canceled", "deadline", "stoabs_canceled", "stoabs_deadline", "join", "cancel_before", "cancel_during"}

// c13CtxRefusal is what network.CreateTransaction returns when the request context has ended: dag.State.Add runs in a
// go-stoabs write transaction, which checks ctx.Err() before committing and returns it as a database error.
func c13CtxRefusal(err error) error {
	return fmt.Errorf("unable to add newly created transaction to State: %w", stoabs.DatabaseError(err))
}

func c13PublishError(kind string, ctx context.Context, cancel func()) error {
	switch kind {
	case "canceled":
		return fmt.Errorf("C13 injected: client went away: %w", context.Canceled)
	case "deadline":
		return fmt.Errorf("C13 injected: request timed out: %w", context.DeadlineExceeded)
	case "stoabs_canceled":
		return c13CtxRefusal(context.Canceled)
	case "stoabs_deadline":
		return c13CtxRefusal(context.DeadlineExceeded)
	case "join":
		return errors.Join(errC13Publish, context.DeadlineExceeded)
	case "cancel_during":
		if cancel != nil {
			cancel()
		}
		if ctx.Err() != nil {
			return c13CtxRefusal(ctx.Err())
		}
		return errC13Publish
	}
	return errC13Publish
}

var errC13Tx2 = errors.New("C13 injected: database error in clean-up transaction")

// c13Method delegates everything to the real method manager; it only marks/stops at Commit boundaries.
type c13Method struct {
	inner   didsubject.MethodManager
	s       *c13Script
	decider bool // the method whose Commit decides the outcome: did:nuts, or did:web when it is the only method
}

func (m c13Method) NewDocument(ctx context.Context, f orm.DIDKeyFlags) (*orm.DidDocument, error) {
	return m.inner.NewDocument(ctx, f)
}
func (m c13Method) NewVerificationMethod(ctx context.Context, c did.DID, f orm.DIDKeyFlags) (*did.VerificationMethod, error) {
	return m.inner.NewVerificationMethod(ctx, c, f)
}
func (m c13Method) IsCommitted(ctx context.Context, e orm.DIDChangeLog) (bool, error) {
	return m.inner.IsCommitted(ctx, e)
}
func (m c13Method) Commit(ctx context.Context, e orm.DIDChangeLog) error {
	s := m.s
	if m.decider {
		s.mu.Lock()
		at, hook := s.sweepAt, s.hook
		s.mu.Unlock()
		if at == "pre" && hook != nil {
			hook("pre")
		}
		s.mu.Lock()
		cancelNow := (s.plan == "pub_fail" || s.plan == "pub_fail_tx2_fail") && s.errKind == "cancel_before" && !s.webOnly
		cancel := s.cancel
		if cancelNow {
			s.fired = true // even if the method manager gives up before it reaches the network (key lookup with a dead context)
		}
		s.mu.Unlock()
		if cancelNow && cancel != nil {
			cancel() // the client hangs up after tx1, before the method manager is asked to commit
		}
	}
	if m.decider && s.webOnly {
		s.mu.Lock()
		// did:web is the only method: its documents are served from the database, so the change is public as soon as
		// tx1 has committed (IsCommitted is constantly true) — the sweep must keep it
		s.published = true
		s.reached = true
		stop := s.plan == "stop_pre"
		if stop {
			s.fired = true
		}
		s.mu.Unlock()
		if stop {
			panic(c13Stop{})
		}
	}
	err := m.inner.Commit(ctx, e)
	if m.decider {
		s.mu.Lock()
		at, hook := s.sweepAt, s.hook
		s.mu.Unlock()
		if at == "post" && hook != nil && err == nil {
			hook("post")
		}
		s.mu.Lock()
		if s.plan == "tx2_fail" || s.plan == "pub_fail_tx2_fail" {
			s.failTx2 = true
			s.fired = true
		}
		s.mu.Unlock()
	}
	return err
}

// c13Net is the scripted network.Transactions: an in-memory DAG whose new transactions are really signed and handed to
// the real ambassador.
type c13Net struct {
	mu       sync.Mutex
	s        *c13Script
	signer   nutsCrypto.JWTSigner
	amb      didnuts.Ambassador
	txs      map[hash.SHA256Hash]dag.Transaction
	head     hash.SHA256Hash
	count    int
	deliverE []string
}

var _ network.Transactions = (*c13Net)(nil)

func (n *c13Net) CreateTransaction(ctx context.Context, tpl network.Template) (dag.Transaction, error) {
	s := n.s
	s.mu.Lock()
	plan, kind, cancel := s.plan, s.errKind, s.cancel
	s.reached = true
	switch plan {
	case "stop_pre", "pub_fail", "pub_fail_tx2_fail":
		s.fired = true
	}
	s.mu.Unlock()
	switch plan {
	case "stop_pre":
		panic(c13Stop{})
	case "pub_fail", "pub_fail_tx2_fail":
		if kind == "cancel_before" && ctx.Err() != nil {
			return nil, c13CtxRefusal(ctx.Err())
		}
		return nil, c13PublishError(kind, ctx, cancel)
	}
	if ctx.Err() != nil {
		// like the real network: nothing is added once the request context has ended
		return nil, c13CtxRefusal(ctx.Err())
	}
	// as network.CreateTransaction: additional prevs must be known, prevs = head + additional, clock = max+1.
	// n.mu only guards the in-memory DAG (never held while signing: signing needs the single SQL connection).
	var prevs []hash.SHA256Hash
	n.mu.Lock()
	if n.count > 0 {
		prevs = append(prevs, n.head)
	} else if len(tpl.AdditionalPrevs) != 0 {
		n.mu.Unlock()
		return nil, errors.New("cannot have previous transactions on root transaction")
	}
	for _, p := range tpl.AdditionalPrevs {
		if _, ok := n.txs[p]; !ok {
			n.mu.Unlock()
			return nil, fmt.Errorf("additional prev is unknown or missing payload (prev=%s)", p)
		}
	}
	prevs = append(prevs, tpl.AdditionalPrevs...)
	clock := uint32(0)
	for _, p := range prevs {
		if c := n.txs[p].Clock() + 1; c > clock {
			clock = c
		}
	}
	n.mu.Unlock()
	unsigned, err := dag.NewTransaction(hash.SHA256Sum(tpl.Payload), tpl.Type, prevs, nil, clock)
	if err != nil {
		return nil, fmt.Errorf("unable to create new transaction: %w", err)
	}
	ts := time.Now()
	if !tpl.Timestamp.IsZero() {
		ts = tpl.Timestamp
	}
	tx, err := dag.NewTransactionSigner(n.signer, tpl.KID, tpl.PublicKey).Sign(ctx, unsigned, ts)
	if err != nil {
		return nil, fmt.Errorf("unable to sign newly created transaction: %w", err)
	}
	n.mu.Lock()
	n.txs[tx.Ref()] = tx
	n.head = tx.Ref()
	n.count++
	n.mu.Unlock()
	// the DAG notifies the ambassador synchronously; a rejected document does not undo the transaction
	if err := didnuts.VerifC13Deliver(n.amb, tx, tpl.Payload); err != nil {
		n.mu.Lock()
		n.deliverE = append(n.deliverE, err.Error())
		n.mu.Unlock()
	} else {
		s.mu.Lock()
		s.published = true
		s.mu.Unlock()
	}
	if plan == "stop_post" {
		s.mu.Lock()
		s.fired = true
		s.mu.Unlock()
		panic(c13Stop{})
	}
	return tx, nil
}

func (n *c13Net) Subscribe(string, dag.ReceiverFn, ...network.SubscriberOption) error { return nil }
func (n *c13Net) Subscribers() []dag.Notifier                                         { return nil }
func (n *c13Net) GetTransactionPayload(hash.SHA256Hash) ([]byte, error) {
	return nil, dag.ErrPayloadNotFound
}
func (n *c13Net) GetTransaction(r hash.SHA256Hash) (dag.Transaction, error) {
	n.mu.Lock()
	defer n.mu.Unlock()
	if tx, ok := n.txs[r]; ok {
		return tx, nil
	}
	return nil, dag.ErrTransactionNotFound
}
func (n *c13Net) ListTransactionsInRange(uint32, uint32) ([]dag.Transaction, error) { return nil, nil }
func (n *c13Net) PeerDiagnostics() map[transport.PeerID]transport.Diagnostics       { return nil }
func (n *c13Net) Reprocess(context.Context, string) (*network.ReprocessReport, error) {
	return nil, errors.New("not supported")
}
func (n *c13Net) WithPersistency() network.SubscriberOption { return nil }
func (n *c13Net) DiscoverServices(did.DID)                  {}
func (n *c13Net) AddressBook() []transport.Contact          { return nil }
func (n *c13Net) Disabled() bool                            { return false }

// ---------------------------------------------------------------------------------------------------------------------
// fixture

type c13LogHook struct {
	mu   sync.Mutex
	msgs []string
}

func (l *c13LogHook) Levels() []logrus.Level {
	return []logrus.Level{logrus.ErrorLevel, logrus.FatalLevel, logrus.PanicLevel}
}
func (l *c13LogHook) Fire(e *logrus.Entry) error {
	l.mu.Lock()
	msg := e.Message
	if err, ok := e.Data[logrus.ErrorKey]; ok {
		msg += fmt.Sprintf(" (%v)", err)
	}
	if len(l.msgs) < 20 {
		l.msgs = append(l.msgs, msg)
	}
	l.mu.Unlock()
	return nil
}
func (l *c13LogHook) take() string {
	l.mu.Lock()
	defer l.mu.Unlock()
	s := strings.Join(l.msgs, " | ")
	l.msgs = nil
	return s
}

var c13Log = &c13LogHook{}

func init() {
	logrus.SetOutput(io.Discard)
	logrus.SetLevel(logrus.ErrorLevel)
	logrus.AddHook(c13Log)
	storage.DefaultBBoltOptions = append(storage.DefaultBBoltOptions, stoabs.WithNoSync())
}

type c13DocObs struct {
	DID      string
	Method   string
	Found    bool     // resolves through didsubject.Resolver
	Versions []int    // did_document_version rows of the DID, ascending
	Raws     []string // raw document per row
	VMs      []string // verification method ids of the visible version
	Svcs     []string // service id fragments of the visible version
	Deact    bool
	Net      []string // did:nuts only: hashes of the published versions in the didstore, in order
	NetDeact bool
	NetVMs   []string // verification method ids over ALL published versions
}

func (d c13DocObs) version() int {
	if len(d.Versions) == 0 {
		return -1
	}
	return d.Versions[len(d.Versions)-1]
}

type c13Obs struct {
	Listed bool // ListDIDs knows the subject
	Docs   []c13DocObs
}

type c13Subj struct {
	name string
	obs  c13Obs
	dead bool
}

type c13Pending struct {
	op      c13Op
	subj    *c13Subj // nil for create
	name    string   // create: requested name ("" = generated/legacy)
	pre     c13Obs
	preList map[string][]string
	publ    bool // outcome the sweep must produce: true = all methods show the new version
	fired   bool
	reached bool // the operation got as far as publishing: without the fault it would have succeeded
	newKids []string
	gained  []string // create: subject names List() gained during the call
	svc     *did.Service
	target  string
}

type c13Fix struct {
	x           *h.Ctx
	c           c13Case
	ctx         context.Context
	methods     []string
	db          *gorm.DB
	keys        *nutsCrypto.Crypto
	store       didstore.Store
	script      *c13Script
	net         *c13Net
	mgr         *didsubject.SqlManager
	subjects    []*c13Subj
	pending     []*c13Pending
	abandoned   map[string]string // key id -> operation that created it
	bad         bool              // a violation was reported: stop the case (the model is no longer aligned)
	faultSeen   bool
	laterOp     bool
	lastReached bool
	inflight    string // position of the in-flight sweep for the next invoke
	inflightRan bool
}

func c13Setup(x *h.Ctx, c c13Case) *c13Fix {
	dir := x.TempDir()
	eng := storage.New()
	cfg := eng.(core.Injectable).Config().(*storage.Config)
	cfg.SQL.ConnectionString = "sqlite:file:" + filepath.Join(dir, "sqlite.db") + "?_pragma=foreign_keys(1)&_pragma=synchronous(OFF)&_pragma=journal_mode(MEMORY)"
	x.NoErr(eng.Configure(core.TestServerConfig(func(sc *core.ServerConfig) { sc.Datadir = filepath.Join(dir, "data") })), "storage configure")
	x.NoErr(eng.Start(), "storage start")
	x.Cleanup(func() { _ = eng.Shutdown() })

	fx := &c13Fix{x: x, c: c, ctx: audit.TestContext(), db: eng.GetSQLDatabase(), abandoned: map[string]string{}}
	switch c.Methods {
	case "web+nuts":
		fx.methods = []string{"web", "nuts"}
	case "nuts":
		fx.methods = []string{"nuts"}
	case "web":
		fx.methods = []string{"web"}
	default:
		x.Fatalf("unknown method configuration %q", c.Methods)
	}
	fx.keys = nutsCrypto.NewDatabaseCryptoInstance(fx.db)
	fx.store = didstore.New(eng.GetProvider("VDR"))
	x.NoErr(fx.store.(core.Configurable).Configure(core.ServerConfig{}), "didstore configure")
	fx.script = &c13Script{webOnly: c.Methods == "web"}
	fx.net = &c13Net{s: fx.script, signer: fx.keys, txs: map[hash.SHA256Hash]dag.Transaction{}}
	// tx2 failure: every delete fails while armed
	x.NoErr(fx.db.Callback().Delete().Before("gorm:delete").Register("verif:c13", func(tx *gorm.DB) {
		fx.script.mu.Lock()
		armed := fx.script.failTx2
		fx.script.mu.Unlock()
		if armed {
			_ = tx.AddError(errC13Tx2)
		}
	}), "register delete callback")
	fx.restart()
	return fx
}

// restart abandons all manager objects and builds new ones on the same database, didstore and DAG.
func (fx *c13Fix) restart() {
	fx.net.amb = didnuts.NewAmbassador(fx.net, fx.store, nil)
	mm := map[string]didsubject.MethodManager{}
	for _, m := range fx.methods {
		switch m {
		case "web":
			mm["web"] = c13Method{inner: didweb.NewManager(did.MustParseDID("did:web:example.com"), "iam", fx.keys, fx.db), s: fx.script, decider: len(fx.methods) == 1}
		case "nuts":
			mm["nuts"] = c13Method{inner: didnuts.NewManager(fx.keys, fx.net, fx.store, &didnuts.Resolver{Store: fx.store}, fx.db), s: fx.script, decider: true}
		}
	}
	fx.mgr = didsubject.New(fx.db, mm, fx.keys, fx.methods)
}

func (fx *c13Fix) violate(sig, format string, args ...any) {
	fx.bad = true
	fx.x.Violate("C13:"+sig, format, args...)
}

func (fx *c13Fix) changeLogCount() int {
	var n int64
	fx.x.NoErr(fx.db.Model(&orm.DIDChangeLog{}).Count(&n).Error, "count did_change_log")
	return int(n)
}

func (fx *c13Fix) list() map[string][]string {
	l, err := fx.mgr.List(fx.ctx)
	fx.x.NoErr(err, "List")
	out := map[string][]string{}
	for k, v := range l {
		for _, d := range v {
			out[k] = append(out[k], d.String())
		}
		sort.Strings(out[k])
	}
	return out
}

func c13Hash(s string) string {
	sum := sha256.Sum256([]byte(s))
	return hex.EncodeToString(sum[:])
}

func c13DocIDs(doc did.Document) (vms, svcs []string) {
	for _, vm := range doc.VerificationMethod {
		vms = append(vms, vm.ID.String())
	}
	for _, s := range doc.Service {
		svcs = append(svcs, s.ID.Fragment)
	}
	// the order of keys/services inside a document is not part of the property (it follows SQL row order)
	sort.Strings(vms)
	sort.Strings(svcs)
	return
}

func (fx *c13Fix) observeDID(id string) c13DocObs {
	x := fx.x
	parsed, err := did.ParseDID(id)
	x.NoErr(err, "parse DID")
	o := c13DocObs{DID: id, Method: parsed.Method}
	var rows []orm.DidDocument
	x.NoErr(fx.db.Where("did = ?", id).Order("version asc").Find(&rows).Error, "read did_document_version")
	for _, r := range rows {
		o.Versions = append(o.Versions, r.Version)
		o.Raws = append(o.Raws, r.Raw)
	}
	doc, meta, err := didsubject.Resolver{DB: fx.db}.Resolve(*parsed, &resolver.ResolveMetadata{AllowDeactivated: true})
	switch {
	case err == nil:
		o.Found = true
		o.VMs, o.Svcs = c13DocIDs(*doc)
		o.Deact = meta.Deactivated
	case errors.Is(err, resolver.ErrNotFound):
	default:
		x.Fatalf("Resolver.Resolve(%s): %v", id, err)
	}
	if parsed.Method == "nuts" {
		hist, err := fx.store.HistorySinceVersion(*parsed, 0)
		if err != nil && !errors.Is(err, storage.ErrNotFound) {
			x.Fatalf("didstore history %s: %v", id, err)
		}
		seen := map[string]bool{}
		for _, hd := range hist {
			o.Net = append(o.Net, c13Hash(string(hd.Raw)))
			var d did.Document
			if json.Unmarshal(hd.Raw, &d) == nil {
				vms, _ := c13DocIDs(d)
				for _, v := range vms {
					if !seen[v] {
						seen[v] = true
						o.NetVMs = append(o.NetVMs, v)
					}
				}
			}
		}
		if _, m, err := fx.store.Resolve(*parsed, &resolver.ResolveMetadata{AllowDeactivated: true}); err == nil {
			o.NetDeact = m.Deactivated
		}
	}
	return o
}

func (fx *c13Fix) observe(name string) c13Obs {
	var o c13Obs
	dids, err := fx.mgr.ListDIDs(fx.ctx, name)
	if errors.Is(err, didsubject.ErrSubjectNotFound) {
		return o
	}
	fx.x.NoErr(err, "ListDIDs")
	o.Listed = true
	ids := make([]string, 0, len(dids))
	for _, d := range dids {
		ids = append(ids, d.String())
	}
	sort.Strings(ids)
	for _, id := range ids {
		o.Docs = append(o.Docs, fx.observeDID(id))
	}
	return o
}

// diff describes the first difference between two observations ("" = equal): aspect, method.
func c13Diff(a, b c13Obs) (aspect, method, detail string) {
	if a.Listed != b.Listed || len(a.Docs) != len(b.Docs) {
		return "didset", "", fmt.Sprintf("listed %v/%d DIDs -> listed %v/%d DIDs", a.Listed, len(a.Docs), b.Listed, len(b.Docs))
	}
	for i := range a.Docs {
		p, q := a.Docs[i], b.Docs[i]
		if p.DID != q.DID {
			return "didset", "", fmt.Sprintf("%s -> %s", p.DID, q.DID)
		}
		if fmt.Sprint(p.Versions) != fmt.Sprint(q.Versions) {
			return "sql-versions", p.Method, fmt.Sprintf("%s: versions %v -> %v", p.DID, p.Versions, q.Versions)
		}
		if strings.Join(p.Raws, "\x00") != strings.Join(q.Raws, "\x00") || p.Found != q.Found {
			return "sql-document", p.Method, fmt.Sprintf("%s: stored documents differ", p.DID)
		}
		if strings.Join(p.Net, ",") != strings.Join(q.Net, ",") {
			return "network", p.Method, fmt.Sprintf("%s: published versions %d -> %d", p.DID, len(p.Net), len(q.Net))
		}
	}
	return "", "", ""
}

// invariants that hold for every settled observation of a subject
func (fx *c13Fix) checkInvariants(name string, o c13Obs, when string) {
	for _, d := range o.Docs {
		for i, v := range d.Versions {
			if v != i {
				fx.violate("versions:not-consecutive:"+d.Method, "%s: %s has versions %v (%s)", name, d.DID, d.Versions, when)
				return
			}
		}
		if !d.Found || len(d.Versions) == 0 {
			fx.violate("listed-did-without-document:"+d.Method, "%s: ListDIDs returns %s which has no document (%s)", name, d.DID, when)
			return
		}
		if d.Method == "nuts" {
			// the SQL copy and the network agree version by version
			if len(d.Net) != len(d.Raws) {
				fx.violate("methods-disagree:nuts-sql-vs-network:count", "%s: %s has %d SQL versions but %d published versions (%s)", name, d.DID, len(d.Raws), len(d.Net), when)
				return
			}
			for i := range d.Raws {
				if c13Hash(d.Raws[i]) != d.Net[i] {
					fx.violate("methods-disagree:nuts-sql-vs-network:content", "%s: %s version %d differs between SQL and network (%s)", name, d.DID, i, when)
					return
				}
			}
			if d.Deact != d.NetDeact {
				fx.violate("methods-disagree:nuts-sql-vs-network:deactivated", "%s: %s deactivated sql=%v network=%v (%s)", name, d.DID, d.Deact, d.NetDeact, when)
				return
			}
		}
		for _, v := range append(append([]string{}, d.VMs...), d.NetVMs...) {
			if by, ok := fx.abandoned[v]; ok {
				fx.violate("abandoned-key-published:"+d.Method, "%s: key %s was created by the abandoned operation %s but appears in %s (%s)", name, v, by, d.DID, when)
				return
			}
		}
	}
	// all DIDs of the subject carry the same services and the same deactivation state, and there is one DID per method
	if o.Listed {
		if len(o.Docs) != len(fx.methods) {
			fx.violate("didset:not-one-per-method", "%s: %d DIDs for %d methods (%s)", name, len(o.Docs), len(fx.methods), when)
			return
		}
		seen := map[string]bool{}
		for _, d := range o.Docs {
			if seen[d.Method] {
				fx.violate("didset:not-one-per-method", "%s: two DIDs of method %s (%s)", name, d.Method, when)
				return
			}
			seen[d.Method] = true
		}
		first := o.Docs[0]
		for _, d := range o.Docs[1:] {
			a, b := append([]string{}, first.Svcs...), append([]string{}, d.Svcs...)
			sort.Strings(a)
			sort.Strings(b)
			if strings.Join(a, ",") != strings.Join(b, ",") || first.Deact != d.Deact || len(first.VMs) == 0 != (len(d.VMs) == 0) {
				fx.violate("methods-disagree:"+first.Method+"-vs-"+d.Method, "%s: %s has services %v deactivated=%v, %s has services %v deactivated=%v (%s)",
					name, first.DID, a, first.Deact, d.DID, b, d.Deact, when)
				return
			}
		}
	}
}

// checkWorld: every settled subject still looks exactly as the model remembers it, nobody else is listed, and (when
// nothing is pending) the change log is empty.
func (fx *c13Fix) checkWorld(when string) {
	if fx.bad {
		return
	}
	pendingNames := map[string]bool{}
	pendingCreate := false
	for _, p := range fx.pending {
		if p.subj != nil {
			pendingNames[p.subj.name] = true
		} else {
			pendingCreate = true
		}
	}
	for _, s := range fx.subjects {
		if pendingNames[s.name] {
			continue
		}
		now := fx.observe(s.name)
		if a, m, det := c13Diff(s.obs, now); a != "" {
			fx.violate("bystander-changed:"+a+":"+m, "subject %s changed although no operation on it ran: %s (%s)", s.name, det, when)
			return
		}
		fx.checkInvariants(s.name, now, when)
		if fx.bad {
			return
		}
	}
	if len(fx.pending) == 0 {
		if n := fx.changeLogCount(); n != 0 {
			fx.violate("changelog-remains:settled", "%d did_change_log rows although nothing is pending (%s)", n, when)
			return
		}
	}
	if !pendingCreate {
		want := map[string]bool{}
		for _, s := range fx.subjects {
			want[s.name] = true
		}
		for name, dids := range fx.list() {
			if !want[name] {
				fx.violate("phantom-subject", "List() returns subject %s (%v) that was never successfully created (%s)", name, dids, when)
				return
			}
		}
	}
}

// ---------------------------------------------------------------------------------------------------------------------
// operations

func c13Service(arg int) did.Service {
	t, e := arg%3, (arg/3)%2
	return did.Service{Type: fmt.Sprintf("T%d", t), ServiceEndpoint: fmt.Sprintf("https://example.com/%d/%d", t, e)}
}

// c13SvcTarget picks the service the update/delete refers to: an existing one (index (arg/6) mod (n+1)) or, for index n, none.
func c13SvcTarget(o c13Obs, arg int) string {
	if len(o.Docs) == 0 {
		return "nonexistent"
	}
	svcs := o.Docs[0].Svcs
	i := (arg / 6) % (len(svcs) + 1)
	if i == len(svcs) {
		return "nonexistent"
	}
	return svcs[i]
}

var c13KnownOnce sync.Once
var c13KnownSigs map[string]bool

// c13Known reads the signatures the driver lists as known findings ($VERIF_KNOWN_SIGS, a JSON list).
func c13Known() map[string]bool {
	c13KnownOnce.Do(func() {
		c13KnownSigs = map[string]bool{}
		if p := os.Getenv("VERIF_KNOWN_SIGS"); p != "" {
			if b, err := os.ReadFile(p); err == nil {
				var l []string
				if json.Unmarshal(b, &l) == nil {
					for _, s := range l {
						c13KnownSigs[s] = true
					}
				}
			}
		}
	})
	return c13KnownSigs
}

func (fx *c13Fix) liveSubjects() []*c13Subj {
	pend := map[*c13Subj]bool{}
	for _, p := range fx.pending {
		if p.subj != nil {
			pend[p.subj] = true
		}
	}
	var out []*c13Subj
	for _, s := range fx.subjects {
		if !s.dead && !pend[s] {
			out = append(out, s)
		}
	}
	return out
}

func (fx *c13Fix) knownName(name string) bool {
	for _, s := range fx.subjects {
		if s.name == name {
			return true
		}
	}
	for _, p := range fx.pending {
		if p.subj == nil && p.name == name {
			return true
		}
	}
	return false
}

func c13Contains(l []string, s string) bool {
	for _, e := range l {
		if e == s {
			return true
		}
	}
	return false
}

// invoke runs the manager call of op under the fault plan; stopped = the run was stopped inside the call.
func (fx *c13Fix) invoke(p *c13Pending, plan string) (ret any, err error, stopped, fired, published bool) {
	defer func() { p.reached = fx.lastReached }()
	fx.script.begin(plan)
	ctx, cancel := context.WithCancel(fx.ctx) // the request context of this call
	defer cancel()
	fx.script.mu.Lock()
	fx.script.sweepAt = fx.inflight
	fx.script.cancel = cancel
	if plan != "" {
		fx.script.errKind = p.op.Err
	}
	fx.script.mu.Unlock()
	func() {
		defer func() {
			if r := recover(); r != nil {
				if _, ok := r.(c13Stop); ok {
					stopped = true
					return
				}
				panic(r)
			}
		}()
		op := p.op
		switch op.K {
		case "create":
			opts := didsubject.DefaultCreationOptions()
			switch op.Subj % 4 {
			case 1, 2:
				opts = opts.With(didsubject.SubjectCreationOption{Subject: p.name})
			case 3:
				opts = opts.With(didsubject.NutsLegacyNamingOption{})
			}
			var docs []did.Document
			var name string
			docs, name, err = fx.mgr.Create(ctx, opts)
			ret = []any{docs, name}
		case "svc_add":
			ret, err = fx.mgr.CreateService(ctx, p.subj.name, *p.svc)
		case "svc_upd":
			ret, err = fx.mgr.UpdateService(ctx, p.subj.name, ssi.MustParseURI("#"+p.target), *p.svc)
		case "svc_del":
			err = fx.mgr.DeleteService(ctx, p.subj.name, ssi.MustParseURI("#"+p.target))
		case "vm_add":
			ret, err = fx.mgr.AddVerificationMethod(ctx, p.subj.name, orm.AssertionKeyUsage())
		case "deactivate":
			err = fx.mgr.Deactivate(ctx, p.subj.name)
		}
	}()
	fired, published, fx.lastReached = fx.script.end()
	return
}

// gained = subject names that List() returns now but did not return before the call.
func (fx *c13Fix) gained(before map[string][]string) []string {
	var out []string
	for name := range fx.list() {
		if _, ok := before[name]; !ok {
			out = append(out, name)
		}
	}
	sort.Strings(out)
	return out
}

func (fx *c13Fix) keySet() map[string]bool {
	out := map[string]bool{}
	for _, k := range fx.keys.List(fx.ctx) {
		out[k] = true
	}
	return out
}

// step executes one mutating operation of the history.
func (fx *c13Fix) step(i int, op c13Op) {
	x := fx.x
	p := &c13Pending{op: op}
	if op.K == "create" {
		switch op.Subj % 4 {
		case 1, 2:
			p.name = fmt.Sprintf("subj-%d", op.Subj%4)
		case 3:
			if !c13Contains(fx.methods, "nuts") {
				x.Class("skip:legacy-without-nuts")
				return
			}
		}
		if p.name != "" {
			for _, q := range fx.pending {
				if q.subj == nil && q.name == p.name {
					x.Class("skip:name-pending")
					return
				}
			}
		}
	} else {
		live := fx.liveSubjects()
		if len(live) == 0 {
			x.Class("skip:no-live-subject")
			return
		}
		p.subj = live[op.Subj%len(live)]
		p.pre = p.subj.obs
		switch op.K {
		case "svc_add":
			s := c13Service(op.Arg)
			p.svc = &s
		case "svc_upd":
			s := c13Service(op.Arg)
			p.svc = &s
			p.target = c13SvcTarget(p.pre, op.Arg)
		case "svc_del":
			p.target = c13SvcTarget(p.pre, op.Arg*6)
		}
	}
	// An update that leaves the document content unchanged (delete of a service that is not there, update of a service to
	// itself) produces a version that cannot be told from its predecessor by content; whether the sweep "keeps" or "undoes"
	// it is then unobservable except through the row count (IsCommitted compares content hashes). Such operations run, but
	// never with a fault.
	if (op.K == "svc_del" && p.target == "nonexistent") || (op.K == "svc_upd" && p.target == didsubject.NewIDForService(*p.svc)) {
		x.Class("content-noop-op")
		if op.Fault != "" {
			x.Class("fault-dropped:content-noop-op")
			op.Fault, op.Defer, op.Retry = "", false, false
			p.op = op
		}
	}
	// Known findings (known_findings.json, status "known") are excluded by construction so that the search continues
	// behind them: both concern creations that must be undone.
	if op.K == "create" && op.Fault != "" && c13Contains(fx.methods, "nuts") {
		known := c13Known()
		undone := op.Fault == "pub_fail" || op.Fault == "stop_pre" || op.Fault == "pub_fail_tx2_fail"
		viaSweep := op.Fault == "stop_pre" || op.Fault == "pub_fail_tx2_fail"
		if (known["C13:undo:create:subject-remains"] && undone) || (known["C13:sweep:changelog-remains"] && viaSweep) {
			x.Class("excluded-known:undone-create")
			op.Fault, op.Defer, op.Retry = "", false, false
			p.op = op
		}
	}
	if fx.faultSeen {
		fx.laterOp = true
	}
	p.preList = fx.list()
	keysBefore := fx.keySet()
	if op.Sweep != "" && op.Fault == "" && len(fx.pending) == 0 {
		// the sweep fires while this operation is between tx1 and tx2 (the deciding Commit holds no database transaction)
		x.Classf("inflight-sweep:%s:%ds", op.Sweep, op.Young)
		fx.inflight = op.Sweep
		fx.script.mu.Lock()
		fx.script.hook = func(pos string) {
			fx.inflightRan = true
			fx.youngSweep(op.Young, "inflight-"+pos+":"+op.K, fmt.Sprintf("during op %d", i))
		}
		fx.script.mu.Unlock()
	}
	logBefore := fx.changeLogCount()
	ret, err, stopped, fired, published := fx.invoke(p, op.Fault)
	fx.inflight = ""
	if fx.bad {
		return
	}
	for k := range fx.keySet() {
		if !keysBefore[k] {
			p.newKids = append(p.newKids, k)
		}
	}
	sort.Strings(p.newKids)
	p.fired, p.publ = fired, published
	p.gained = fx.gained(p.preList)
	if op.Fault != "" {
		if fired {
			fx.faultSeen = true
			x.Classf("fault:%s:%s", op.Fault, op.K)
			if op.Fault == "pub_fail" || op.Fault == "pub_fail_tx2_fail" {
				kind := op.Err
				if kind == "" {
					kind = "plain"
				}
				x.Classf("errkind:%s:%s:fails=nuts", kind, op.K)
			}
		} else {
			x.Classf("fault-not-reached:%s", op.Fault)
		}
	}
	x.Logf("op %d %+v: err=%v stopped=%v fired=%v published=%v", i, op, err, stopped, fired, published)

	if stopped {
		fx.restart()
	}
	async := stopped || (fired && (op.Fault == "tx2_fail" || op.Fault == "pub_fail_tx2_fail"))
	if async {
		fx.pending = append(fx.pending, p)
		if op.Defer {
			x.Class("pending-deferred")
			if len(fx.pending) > 1 {
				x.Class("pending>=2")
			}
			return
		}
		fx.sweepAged(fmt.Sprintf("after op %d", i), op.Young, op.Age)
		return
	}
	// Synchronous outcome. What the world must look like follows from whether the change reached the public (the network
	// for did:nuts, the committed database for did:web only), not from the returned error: published -> every DID shows the
	// new version, otherwise -> exactly the pre-operation state.
	if err != nil {
		x.Classf("sync-error:%s", op.K)
		if op.Fault == "" {
			x.Classf("natural-error:%s", op.K)
		}
		if fx.changeLogCount() > logBefore {
			// the operation reported the failure but left its change records: "at the latest after the rollback sweep"
			x.Class("sync-error-left-to-sweep")
			fx.pending = append(fx.pending, p)
			fx.sweepAged(fmt.Sprintf("after op %d (error %q)", i, c13Short(err)), op.Young, op.Age)
			return
		}
		fx.settle(p, published, nil, fmt.Sprintf("op %d returned error %q, published=%v", i, c13Short(err), published))
		if !fx.bad && !published && fired && p.reached && op.Retry {
			fx.retry(p, i)
		}
		return
	}
	if !published {
		x.Class("success-without-publication") // e.g. adding a service that is already there: nothing to do
		fx.settle(p, false, nil, fmt.Sprintf("op %d returned no error but published nothing", i))
		return
	}
	fx.settle(p, true, ret, fmt.Sprintf("op %d succeeded", i))
}

func c13Clip(s string) string {
	if len(s) > 300 {
		return s[:300] + "…"
	}
	return s
}

func c13Short(err error) string {
	s := err.Error()
	if len(s) > 160 {
		s = s[:160]
	}
	return s
}

func (fx *c13Fix) retry(p *c13Pending, i int) {
	x := fx.x
	x.Class("retry")
	q := &c13Pending{op: p.op, subj: p.subj, name: p.name, svc: p.svc, target: p.target}
	q.op.Fault = ""
	if q.subj != nil {
		q.pre = q.subj.obs
	}
	q.preList = fx.list()
	keysBefore := fx.keySet()
	ret, err, _, _, published := fx.invoke(q, "")
	for k := range fx.keySet() {
		if !keysBefore[k] {
			q.newKids = append(q.newKids, k)
		}
	}
	q.gained = fx.gained(q.preList)
	if err != nil {
		fx.violate("retry-fails:"+p.op.K, "op %d (%s) was undone after fault %s, but the repeated attempt fails: %v", i, p.op.K, p.op.Fault, err)
		return
	}
	if !published {
		fx.violate("retry-does-not-publish:"+p.op.K, "op %d (%s) failed to publish (fault %s/%s); the repeated attempt reports success but published nothing", i, p.op.K, p.op.Fault, p.op.Err)
		return
	}
	fx.settle(q, true, ret, fmt.Sprintf("retry of op %d", i))
}

// ageChangeLog moves every version that still has a change-log row past the one-minute threshold.
func (fx *c13Fix) ageChangeLog() {
	fx.x.NoErr(fx.db.Exec("UPDATE did_document_version SET updated_at = updated_at - 3600 WHERE id IN (SELECT did_document_version_id FROM did_change_log)").Error, "age rows")
}

// setPendingAge makes every version that still has a change-log row `seconds` old; returns the clock reading used.
func (fx *c13Fix) setPendingAge(seconds int) int64 {
	now := time.Now().Unix()
	fx.x.NoErr(fx.db.Exec("UPDATE did_document_version SET updated_at = ? WHERE id IN (SELECT did_document_version_id FROM did_change_log)", now-int64(seconds)).Error, "set age of pending rows")
	return now
}

// pendingRows lists what a sweep may touch: the change-log rows, the versions they point to, and the DIDs.
func (fx *c13Fix) pendingRows() string {
	var logIDs, verIDs, dids []string
	fx.x.NoErr(fx.db.Raw("SELECT did_document_version_id FROM did_change_log ORDER BY 1").Scan(&logIDs).Error, "read change log")
	fx.x.NoErr(fx.db.Raw("SELECT id FROM did_document_version ORDER BY 1").Scan(&verIDs).Error, "read versions")
	fx.x.NoErr(fx.db.Raw("SELECT id FROM did ORDER BY 1").Scan(&dids).Error, "read dids")
	return fmt.Sprintf("%d change-log rows %v | %d versions %v | %d DIDs", len(logIDs), logIDs, len(verIDs), verIDs, len(dids))
}

// youngSweep: the rows with a change-log entry are `young` (< 60) seconds old; Rollback must leave them alone
// ("changes that are older than 1 minute"). young = 0 leaves the rows as they are (written this very moment).
// The expectation is only asserted if the clock did not advance so far during the call that the rows could have
// crossed the minute (post-hoc guard, so that a stalled process cannot cause a false alarm).
func (fx *c13Fix) youngSweep(young int, what, when string) {
	before := fx.pendingRows()
	now := time.Now().Unix()
	if young > 0 {
		now = fx.setPendingAge(young)
	}
	fx.mgr.Rollback(fx.ctx)
	if time.Now().Unix()-now > int64(60-young) {
		fx.x.Class("young-sweep:inconclusive-clock-advanced")
		return
	}
	if after := fx.pendingRows(); after != before {
		// one root cause, one signature per situation (in-flight operation / pending rows); position and operation are in the text
		fx.violate("grace-period:young-rows-touched:"+strings.SplitN(what, "-", 2)[0], "Rollback touched rows that are %d s old (documented: only changes older than 1 minute) [%s]: before {%s} after {%s} (%s)",
			young, what, c13Clip(before), c13Clip(after), when)
	}
}

// sweepAged = what the node does once the pending rows are older than a minute: Rollback(ctx).
func (fx *c13Fix) sweepAged(when string, young, age int) {
	x := fx.x
	if len(fx.pending) == 0 {
		return
	}
	x.Class("sweep-with-pending")
	if young > 0 {
		// first a sweep that finds the rows younger than a minute: hands off
		x.Classf("young-sweep:%ds", young)
		fx.youngSweep(young, "pending", when)
		if fx.bad {
			return
		}
	}
	if age <= 60 {
		age = 3600
	}
	x.Classf("aged-sweep:%ds", age)
	fx.setPendingAge(age)
	_ = c13Log.take()
	fx.mgr.Rollback(fx.ctx)
	logged := c13Log.take()
	pend := fx.pending
	fx.pending = nil
	if n := fx.changeLogCount(); n != 0 {
		kinds := map[string]bool{}
		for _, p := range pend {
			kinds[p.op.K] = true
		}
		var ks []string
		for k := range kinds {
			ks = append(ks, k)
		}
		sort.Strings(ks)
		var rows []orm.DIDChangeLog
		_ = fx.db.Find(&rows).Error
		var types []string
		for _, r := range rows {
			types = append(types, r.Type)
		}
		sort.Strings(types)
		fx.violate("sweep:changelog-remains", "%d did_change_log rows (%v) remain after Rollback over aged rows; pending operations were %v; Rollback logged: %s (%s)",
			n, types, ks, logged, when)
		return
	}
	// creations that must be undone first (so that one root cause reports under one signature)
	sort.SliceStable(pend, func(i, j int) bool {
		a, b := pend[i].op.K == "create" && !pend[i].publ, pend[j].op.K == "create" && !pend[j].publ
		return a && !b
	})
	fx.pending = append([]*c13Pending{}, pend...) // still unsettled: checkWorld must skip them
	for idx, p := range pend {
		fx.pending = fx.pending[1:]
		fx.settle(p, p.publ, nil, fmt.Sprintf("%s: sweep settled op %s fault %s", when, p.op.K, p.op.Fault))
		if fx.bad {
			return
		}
		if !p.publ && p.fired && p.reached && p.op.Retry {
			fx.retry(p, -idx)
			if fx.bad {
				return
			}
		}
	}
}

// settle compares the world with the expected outcome of p: applied=false -> exactly the pre-operation state,
// applied=true -> every DID of the subject shows the new version.
func (fx *c13Fix) settle(p *c13Pending, applied bool, ret any, when string) {
	x := fx.x
	op := p.op
	if !applied {
		for _, k := range p.newKids {
			fx.abandoned[k] = op.K
		}
		if len(p.newKids) > 0 {
			x.Class("abandoned-keys")
		}
	}
	if op.K == "create" {
		fx.settleCreate(p, applied, ret, when)
	} else {
		now := fx.observe(p.subj.name)
		if !applied {
			x.Classf("outcome:undone:%s", op.K)
			if a, m, det := c13Diff(p.pre, now); a != "" {
				fx.violate("undo:"+op.K+":"+a+":"+m, "%s must show its pre-operation state, but %s (%s)", p.subj.name, det, when)
				return
			}
		} else {
			x.Classf("outcome:applied:%s", op.K)
			fx.checkApplied(p, now, ret, when)
			if fx.bad {
				return
			}
			p.subj.obs = now
			if op.K == "deactivate" {
				p.subj.dead = true
			}
		}
		fx.checkInvariants(p.subj.name, now, when)
	}
	if fx.bad {
		return
	}
	fx.checkWorld(when)
}

func (fx *c13Fix) settleCreate(p *c13Pending, applied bool, ret any, when string) {
	x := fx.x
	nowList := fx.list()
	if !applied {
		x.Class("outcome:undone:create")
		for _, g := range p.gained {
			if dids, ok := nowList[g]; ok {
				fx.violate("undo:create:subject-remains", "the creation was undone, but List() still returns subject %s with DIDs %v (%s)", g, dids, when)
				return
			}
		}
		if _, existed := p.preList[p.name]; p.name != "" && !existed {
			if ok, err := fx.mgr.Exists(fx.ctx, p.name); err != nil || ok {
				fx.violate("undo:create:subject-remains", "the creation was undone, but Exists(%s) = %v, %v (%s)", p.name, ok, err, when)
				return
			}
		}
		return
	}
	var mine []string
	for _, g := range p.gained {
		if _, ok := nowList[g]; ok {
			mine = append(mine, g)
		}
	}
	x.Class("outcome:applied:create")
	if len(mine) != 1 {
		fx.violate("create:subject-count", "a successful creation must add exactly one subject, List() gained %v (%s)", mine, when)
		return
	}
	name := mine[0]
	if p.name != "" && name != p.name {
		fx.violate("create:wrong-name", "requested subject %s, got %s (%s)", p.name, name, when)
		return
	}
	now := fx.observe(name)
	if r, ok := ret.([]any); ok {
		docs, rname := r[0].([]did.Document), r[1].(string)
		if rname != name {
			fx.violate("create:wrong-name", "Create returned subject %s but List() gained %s (%s)", rname, name, when)
			return
		}
		var ids []string
		for _, d := range docs {
			ids = append(ids, d.ID.String())
		}
		sort.Strings(ids)
		if strings.Join(ids, ",") != strings.Join(nowList[name], ",") {
			fx.violate("create:didset", "Create returned %v, subject lists %v (%s)", ids, nowList[name], when)
			return
		}
	}
	for _, d := range now.Docs {
		if d.version() != 0 || len(d.VMs) == 0 || d.Deact {
			fx.violate("create:first-version:"+d.Method, "%s: new DID %s has versions %v, %d keys, deactivated=%v (%s)", name, d.DID, d.Versions, len(d.VMs), d.Deact, when)
			return
		}
		if op := p.op; op.Subj%4 == 3 && d.Method == "nuts" && d.DID != name {
			fx.violate("create:legacy-name", "legacy naming: subject %s differs from did:nuts DID %s", name, d.DID)
			return
		}
	}
	fx.checkInvariants(name, now, when)
	if fx.bad {
		return
	}
	fx.subjects = append(fx.subjects, &c13Subj{name: name, obs: now})
}

func (fx *c13Fix) checkApplied(p *c13Pending, now c13Obs, ret any, when string) {
	op := p.op
	name := p.subj.name
	pre := p.pre
	if !now.Listed || len(now.Docs) != len(pre.Docs) {
		fx.violate("apply:"+op.K+":didset", "%s: DID set changed from %d to %d DIDs (%s)", name, len(pre.Docs), len(now.Docs), when)
		return
	}
	noChange := false
	var frag string
	if p.svc != nil {
		frag = didsubject.NewIDForService(*p.svc)
	}
	if op.K == "svc_add" {
		noChange = true
		for _, d := range pre.Docs {
			if !c13Contains(d.Svcs, frag) {
				noChange = false
			}
		}
		if noChange {
			fx.x.Class("svc_add:exact-duplicate")
		}
	}
	for i, d := range now.Docs {
		q := pre.Docs[i]
		if d.DID != q.DID {
			fx.violate("apply:"+op.K+":didset", "%s: DID %s became %s (%s)", name, q.DID, d.DID, when)
			return
		}
		wantV := q.version() + 1
		if noChange {
			wantV = q.version()
		}
		if d.version() != wantV {
			fx.violate("apply:"+op.K+":version:"+d.Method, "%s: after a successful %s %s shows version %d, expected %d (all methods must show the new version) (%s)",
				name, op.K, d.DID, d.version(), wantV, when)
			return
		}
		// earlier versions are untouched
		if len(d.Raws) < len(q.Raws) || strings.Join(d.Raws[:len(q.Raws)], "\x00") != strings.Join(q.Raws, "\x00") {
			fx.violate("apply:"+op.K+":history-rewritten:"+d.Method, "%s: earlier versions of %s changed (%s)", name, d.DID, when)
			return
		}
		bad := ""
		switch op.K {
		case "svc_add":
			if !c13Contains(d.Svcs, frag) {
				bad = "service missing"
			}
		case "svc_upd":
			if !c13Contains(d.Svcs, frag) {
				bad = "new service missing"
			} else if p.target != frag && c13Contains(d.Svcs, p.target) {
				bad = "old service still present"
			}
		case "svc_del":
			if c13Contains(d.Svcs, p.target) {
				bad = "service still present"
			}
		case "vm_add":
			if len(d.VMs) != len(q.VMs)+1 {
				bad = fmt.Sprintf("%d keys, expected %d", len(d.VMs), len(q.VMs)+1)
			}
		case "deactivate":
			if !d.Deact || len(d.VMs) != 0 {
				bad = "not deactivated"
			}
		}
		if bad != "" {
			fx.violate("apply:"+op.K+":effect:"+d.Method, "%s: after a successful %s, %s: %s (%s)", name, op.K, d.DID, bad, when)
			return
		}
		if op.K != "vm_add" && op.K != "deactivate" && strings.Join(d.VMs, ",") != strings.Join(q.VMs, ",") {
			fx.violate("apply:"+op.K+":keys-changed:"+d.Method, "%s: %s changed the keys of %s: %v -> %v (%s)", name, op.K, d.DID, q.VMs, d.VMs, when)
			return
		}
	}
	if vms, ok := ret.([]did.VerificationMethod); ok && op.K == "vm_add" {
		for _, vm := range vms {
			found := false
			for _, d := range now.Docs {
				if c13Contains(d.VMs, vm.ID.String()) {
					found = true
				}
			}
			if !found {
				fx.violate("apply:vm_add:returned-key-missing", "%s: returned key %s is in no document (%s)", name, vm.ID.String(), when)
				return
			}
		}
	}
	if (op.K == "svc_add" || op.K == "svc_upd") && p.svc != nil {
		typ := p.svc.Type
		found, err := fx.mgr.FindServices(fx.ctx, name, &typ)
		fx.x.NoErr(err, "FindServices")
		n := 0
		for _, s := range found {
			if s.ID.Fragment == frag {
				n++
			}
		}
		if n != len(now.Docs) {
			fx.violate("apply:"+op.K+":findservices", "%s: FindServices(%s) returns the new service %d times for %d DIDs (%s)", name, typ, n, len(now.Docs), when)
		}
	}
}

// ---------------------------------------------------------------------------------------------------------------------
// run

func c13Run(x *h.Ctx, c c13Case) {
	fx := c13Setup(x, c)
	x.Class("methods:" + c.Methods)
	for i, op := range c.Ops {
		if fx.bad {
			break
		}
		switch op.K {
		case "restart":
			x.Class("op:restart")
			fx.restart()
		case "sweep":
			if len(fx.pending) > 0 {
				fx.sweepAged(fmt.Sprintf("sweep op %d", i), op.Young, op.Age)
			} else {
				// nothing pending: the sweep must not change anything
				x.Class("op:sweep-idle")
				fx.mgr.Rollback(fx.ctx)
				fx.checkWorld(fmt.Sprintf("idle sweep op %d", i))
			}
		default:
			x.Class("op:" + op.K)
			fx.step(i, op)
		}
	}
	if !fx.bad && len(fx.pending) > 0 {
		fx.sweepAged("final sweep", 0, 0)
	}
	if !fx.bad {
		fx.checkWorld("end")
	}
	if len(fx.net.deliverE) > 0 {
		// a document the manager published was refused by the ambassador; nothing in the generated domain should cause
		// that — surface it as a harness problem rather than guessing
		x.Fatalf("ambassador refused a published document: %v", fx.net.deliverE)
	}
	if fx.inflightRan {
		x.Class("has-inflight-sweep")
	}
	if (fx.faultSeen && fx.laterOp) || fx.inflightRan {
		x.NonTrivial()
	}
	if fx.faultSeen {
		x.Class("has-fault")
	}
}

func TestVerif_C13_Enum(t *testing.T) { h.Each(t, "C13", c13Enum, c13Run) }
func TestVerifReplay_C13_Enum(t *testing.T) {
	h.Replay(t, "C13", "TestVerif_C13_Enum", c13Run)
}
func TestVerif_C13_Histories(t *testing.T) { h.Check(t, "C13", c13Gen, c13Run) }
func TestVerifReplay_C13_Histories(t *testing.T) {
	h.Replay(t, "C13", "TestVerif_C13_Histories", c13Run)
}
