//go:build verif

package didsubject_test

// C18 (locally managed DIDs): DIDs managed by this node resolve from local storage without any network access, with
// document id == DID, and a deactivated DID does not resolve unless the caller explicitly allows it.
//
// Fixture = what vdr.Module.Configure wires for did:web: didsubject.New(db, {web: didweb.NewManager(root, "iam", keys, db)})
// for the histories, and resolver.ChainedDIDResolver{didsubject.Resolver{DB}, didweb.NewResolver()} (local first, then the
// web) for resolution; the web resolver's transport is the recording fake network. External test package because
// didweb imports didsubject.

import (
	"errors"
	"fmt"
	"net/http"
	"strings"
	"sync"
	"testing"

	"github.com/nuts-foundation/go-did/did"
	"github.com/nuts-foundation/nuts-node/audit"
	nutsCrypto "github.com/nuts-foundation/nuts-node/crypto"
	"github.com/nuts-foundation/nuts-node/http/client"
	"github.com/nuts-foundation/nuts-node/storage"
	"github.com/nuts-foundation/nuts-node/storage/orm"
	"github.com/nuts-foundation/nuts-node/vdr/didsubject"
	"github.com/nuts-foundation/nuts-node/vdr/didweb"
	"github.com/nuts-foundation/nuts-node/vdr/resolver"
	"github.com/sirupsen/logrus"
	"gorm.io/gorm"
	"pgregory.net/rapid"
	"verif.local/h"
	"verif.local/h/c18net"
)

type c18LocalOp struct {
	K     string `json:"k"`               // create | service | addvm | deactivate | resolve | resolve-foreign
	S     int    `json:"s"`               // subject selector
	Allow bool   `json:"allow,omitempty"` // resolve: AllowDeactivated
	Meta  bool   `json:"meta,omitempty"`  // resolve: pass a (non-nil) ResolveMetadata even when Allow is false
}

type c18LocalCase struct {
	Root string       `json:"root"` // the node's root did:web (what URLToDID(publicURL) gives)
	Ops  []c18LocalOp `json:"ops"`
}

func c18GenLocal(t *rapid.T) c18LocalCase {
	c := c18LocalCase{Root: rapid.SampledFrom([]string{"did:web:example.com", "did:web:nuts.example.com%3A8443", "did:web:localhost%3A8080:tenant", "did:web:Example.COM:a%2Bb"}).Draw(t, "root")}
	n := rapid.IntRange(3, 16).Draw(t, "n")
	state := map[int]int{} // 0 absent, 1 active, 2 deactivated: the generator follows the model so that every op applies
	for i := 0; i < n; i++ {
		op := c18LocalOp{S: rapid.IntRange(0, 2).Draw(t, "s")}
		switch state[op.S] {
		case 0:
			op.K = rapid.SampledFrom([]string{"create", "create", "create", "resolve-foreign"}).Draw(t, "k")
			if op.K == "create" {
				state[op.S] = 1
			}
		case 1:
			op.K = rapid.SampledFrom([]string{"deactivate", "resolve", "service", "deactivate", "resolve", "addvm", "resolve-foreign"}).Draw(t, "k")
			if op.K == "deactivate" {
				state[op.S] = 2
			}
		default:
			op.K = rapid.SampledFrom([]string{"resolve", "resolve", "resolve", "resolve-foreign", "deactivate"}).Draw(t, "k")
		}
		if op.K == "resolve" {
			op.Allow = rapid.Bool().Draw(t, "allow")
			op.Meta = rapid.Bool().Draw(t, "meta")
		}
		c.Ops = append(c.Ops, op)
	}
	return c
}

var (
	c18DBOnce sync.Once
	c18DB     *gorm.DB
	c18Seq    int
)

func c18LocalDB(tb testing.TB) *gorm.DB {
	c18DBOnce.Do(func() {
		logrus.SetLevel(logrus.PanicLevel)
		e := storage.NewTestStorageEngine(tb)
		if err := e.Start(); err != nil {
			tb.Fatal(err)
		}
		c18DB = e.GetSQLDatabase()
	})
	return c18DB
}

type c18Subject struct {
	name        string
	dids        []did.DID
	deactivated bool
	services    int
}

func c18RunLocal(x *h.Ctx, c c18LocalCase) {
	if len(c.Ops) > 64 {
		return
	}
	root, err := did.ParseDID(c.Root)
	if err != nil {
		return
	}
	db := c18LocalDB(x.TB)
	if db == nil {
		x.Fatalf("no database")
	}
	keys := nutsCrypto.NewDatabaseCryptoInstance(db)
	web := didweb.NewManager(*root, "iam", keys, db)
	mgr := didsubject.New(db, map[string]didsubject.MethodManager{didweb.MethodName: web}, keys, []string{didweb.MethodName})

	nw := &c18net.Net{}
	foreignBody := ""
	nw.Respond = func(i int, r *http.Request) c18net.Answer {
		// the fake web serves a perfectly acceptable document for whatever is asked: if a managed DID leaks to the network
		// the resolution would even succeed — only the log tells
		hd := http.Header{}
		hd.Set("Content-Type", "application/did+json")
		return c18net.Answer{Status: 200, Header: hd, Body: []byte(foreignBody)}
	}
	oldT := client.DefaultCachingTransport
	client.DefaultCachingTransport = nw
	x.Cleanup(func() { client.DefaultCachingTransport = oldT })
	chain := resolver.ChainedDIDResolver{Resolvers: []resolver.DIDResolver{didsubject.Resolver{DB: db}, didweb.NewResolver()}}

	c18Seq++
	subs := map[int]*c18Subject{}
	ctx := audit.TestContext()
	sawDeactivatedResolve, sawActiveResolve, sawForeign := false, false, false

	for i, op := range c.Ops {
		s := subs[op.S]
		switch op.K {
		case "create":
			if s != nil {
				continue
			}
			name := fmt.Sprintf("c18-%d-%d", c18Seq, op.S)
			docs, _, err := mgr.Create(ctx, didsubject.DefaultCreationOptions().With(didsubject.SubjectCreationOption{Subject: name}))
			x.NoErr(err, "create subject")
			s = &c18Subject{name: name}
			for _, d := range docs {
				s.dids = append(s.dids, d.ID)
				if !strings.HasPrefix(d.ID.String(), c.Root+":iam:") {
					x.Fatalf("unexpected managed DID %s for root %s", d.ID, c.Root)
				}
			}
			if len(s.dids) == 0 {
				x.Fatalf("create returned no documents")
			}
			subs[op.S] = s
		case "service":
			if s == nil || s.deactivated {
				continue
			}
			_, err := mgr.CreateService(ctx, s.name, did.Service{Type: fmt.Sprintf("t%d", i), ServiceEndpoint: "https://example.com/x"})
			x.NoErr(err, "create service")
			s.services++
		case "addvm":
			if s == nil || s.deactivated {
				continue
			}
			_, err := mgr.AddVerificationMethod(ctx, s.name, orm.AssertionKeyUsage())
			x.NoErr(err, "add verification method")
		case "deactivate":
			if s == nil || s.deactivated {
				continue
			}
			x.NoErr(mgr.Deactivate(ctx, s.name), "deactivate")
			s.deactivated = true
		case "resolve":
			if s == nil {
				continue
			}
			for _, id := range s.dids {
				nw.Reset()
				foreignBody = fmt.Sprintf(`{"@context":"https://www.w3.org/ns/did/v1","id":%q,"service":[{"id":"%s#leak","type":"from-the-web","serviceEndpoint":"https://evil.example"}]}`, id.String(), id.String())
				var md *resolver.ResolveMetadata
				if op.Allow || op.Meta {
					md = &resolver.ResolveMetadata{AllowDeactivated: op.Allow}
				}
				doc, dmd, err := chain.Resolve(id, md)
				if l := nw.Log(); len(l) > 0 {
					x.Violate("local-net:request", "step %d: resolving the locally managed %s (deactivated=%v allow=%v) went to the network: %s", i, id, s.deactivated, op.Allow, l[0].URL)
				}
				switch {
				case s.deactivated && !op.Allow:
					sawDeactivatedResolve = true
					if err == nil {
						x.Violate("local-deactivated:resolved", "step %d: deactivated %s resolved without AllowDeactivated (metadata nil=%v)", i, id, md == nil)
					} else if !errors.Is(err, resolver.ErrDeactivated) {
						x.Violate("local-deactivated:wrong-error", "step %d: deactivated %s: error %v is not ErrDeactivated", i, id, err)
					}
					if err != nil && (doc != nil || dmd != nil) {
						x.Violate("local-result:doc-with-error", "step %d: %s: error %v together with a document", i, id, err)
					}
				case s.deactivated && op.Allow:
					sawDeactivatedResolve = true
					if err != nil {
						x.Violate("local-deactivated:allow-rejected", "step %d: deactivated %s with AllowDeactivated: %v", i, id, err)
						continue
					}
					if doc == nil || doc.ID.String() != id.String() {
						x.Violate("local-docid:differs", "step %d: %s resolved to a document with another id", i, id)
					} else if !resolver.IsDeactivated(*doc) || dmd == nil || !dmd.Deactivated {
						x.Violate("local-deactivated:not-marked", "step %d: deactivated %s resolved with AllowDeactivated but is not marked deactivated", i, id)
					}
				default:
					sawActiveResolve = true
					if err != nil {
						x.Violate("local-active:rejected", "step %d: managed active %s does not resolve: %v", i, id, err)
						continue
					}
					if doc == nil || doc.ID.String() != id.String() {
						x.Violate("local-docid:differs", "step %d: %s resolved to a document with another id", i, id)
						continue
					}
					if len(doc.Service) != s.services {
						x.Violate("local-stale:services", "step %d: %s resolved with %d services, local history has %d", i, id, len(doc.Service), s.services)
					}
					for _, sv := range doc.Service {
						if sv.Type == "from-the-web" {
							x.Violate("local-net:web-document-returned", "step %d: %s resolved to the document served by the web", i, id)
						}
					}
				}
			}
		case "resolve-foreign":
			// a DID under the same root that this node does not manage: the chain falls through to the web, bound to the origin
			id := did.MustParseDID(fmt.Sprintf("%s:iam:not-managed-%d", c.Root, op.S))
			nw.Reset()
			foreignBody = fmt.Sprintf(`{"@context":"https://www.w3.org/ns/did/v1","id":%q}`, id.String())
			doc, _, err := chain.Resolve(id, nil)
			sawForeign = true
			l := nw.Traffic()
			if len(l) != 1 {
				x.Violate("local-foreign:requests", "step %d: unmanaged %s: %d requests", i, id, len(l))
				continue
			}
			want, _ := didweb.DIDToURL(id)
			if want == nil || l[0].URL != want.String()+"/did.json" {
				x.Violate("local-foreign:origin", "step %d: unmanaged %s fetched from %s", i, id, l[0].URL)
			}
			if err != nil || doc == nil || doc.ID.String() != id.String() {
				x.Violate("local-foreign:rejected", "step %d: unmanaged %s served correctly by its origin: %v", i, id, err)
			}
		}
	}
	if sawActiveResolve {
		x.Class("resolved-active-managed")
	}
	if sawDeactivatedResolve {
		x.Class("resolved-deactivated-managed")
		x.NonTrivial()
	}
	if sawForeign {
		x.Class("resolved-unmanaged-through-web")
	}
}

func TestVerif_C18_Local(t *testing.T) {
	h.Check(t, "C18", c18GenLocal, c18RunLocal, h.PanicIsViolation())
}

func TestVerifReplay_C18_Local(t *testing.T) {
	h.Replay(t, "C18", "TestVerif_C18_Local", c18RunLocal, h.PanicIsViolation())
}
