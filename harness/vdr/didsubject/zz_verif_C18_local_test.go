//go:build verif

package didsubject_test

// C18 (locally managed DIDs): DIDs managed by this node resolve from local storage without any network access, with
// document id == DID, and a deactivated DID does not resolve unless the caller explicitly allows it.
//
// Fixture = what vdr.Module.Configure wires for did:web: didsubject.New(db, {web: didweb.NewManager(root, "iam", keys, db)})
// for the histories, and resolver.ChainedDIDResolver{didsubject.Resolver{DB}, didweb.NewResolver()} (local first, then the
// web) for resolution; the web resolver's transport is the recording fake network. External test package because
// didweb imports didsubject.

import (
	"errors"
	"fmt"
	"net/http"
	"strings"
	"sync"
	"testing"
	"time"

	"github.com/nuts-foundation/go-did/did"
	"github.com/nuts-foundation/nuts-node/audit"
	nutsCrypto "github.com/nuts-foundation/nuts-node/crypto"
	"github.com/nuts-foundation/nuts-node/crypto/hash"
	"github.com/nuts-foundation/nuts-node/http/client"
	"github.com/nuts-foundation/nuts-node/storage"
	"github.com/nuts-foundation/nuts-node/storage/orm"
	"github.com/nuts-foundation/nuts-node/vdr/didsubject"
	"github.com/nuts-foundation/nuts-node/vdr/didweb"
	"github.com/nuts-foundation/nuts-node/vdr/resolver"
	"github.com/sirupsen/logrus"
	"gorm.io/gorm"
	"pgregory.net/rapid"
	"verif.local/h"
	"verif.local/h/c18net"
)

type c18LocalOp struct {
	K     string `json:"k"`               // create | service | addvm | deactivate | resolve | resolve-foreign
	S     int    `json:"s"`               // subject selector
	Allow bool   `json:"allow,omitempty"` // resolve: AllowDeactivated
	Meta  bool   `json:"meta,omitempty"`  // resolve: pass a (non-nil, empty) ResolveMetadata even when nothing else is set
	// resolve: ResolveTime. "" absent | before (creation) | at (version V exactly) | between (version V and the next) |
	// at-last (exactly at the latest version, i.e. at the deactivation when there is one) | after-last (1 s later) | future
	Time string `json:"time,omitempty"`
	V    int    `json:"v,omitempty"`    // version selector for at/between (modulo the number of versions)
	Also string `json:"also,omitempty"` // resolve: additionally set "hash" or "tx" (fields this resolver does not implement)
}

type c18LocalCase struct {
	Root string       `json:"root"` // the node's root did:web (what URLToDID(publicURL) gives)
	Ops  []c18LocalOp `json:"ops"`
}

func c18GenLocal(t *rapid.T) c18LocalCase {
	c := c18LocalCase{Root: rapid.SampledFrom([]string{"did:web:example.com", "did:web:nuts.example.com%3A8443", "did:web:localhost%3A8080:tenant", "did:web:Example.COM:a%2Bb"}).Draw(t, "root")}
	n := rapid.IntRange(3, 16).Draw(t, "n")
	state := map[int]int{} // 0 absent, 1 active, 2 deactivated: the generator follows the model so that every op applies
	for i := 0; i < n; i++ {
		op := c18LocalOp{S: rapid.IntRange(0, 2).Draw(t, "s")}
		switch state[op.S] {
		case 0:
			op.K = rapid.SampledFrom([]string{"create", "create", "create", "resolve-foreign"}).Draw(t, "k")
			if op.K == "create" {
				state[op.S] = 1
			}
		case 1:
			op.K = rapid.SampledFrom([]string{"deactivate", "resolve", "service", "deactivate", "resolve", "addvm", "resolve-foreign"}).Draw(t, "k")
			if op.K == "deactivate" {
				state[op.S] = 2
			}
		default:
			op.K = rapid.SampledFrom([]string{"resolve", "resolve", "resolve", "resolve-foreign", "deactivate"}).Draw(t, "k")
		}
		if op.K == "resolve" {
			op.Allow = rapid.Bool().Draw(t, "allow")
			op.Meta = rapid.Bool().Draw(t, "meta")
			op.Time = rapid.SampledFrom([]string{"", "at-last", "after-last", "future", "between", "at", "before", ""}).Draw(t, "time")
			if op.Time == "at" || op.Time == "between" {
				op.V = rapid.IntRange(0, 7).Draw(t, "v")
			}
			if rapid.IntRange(0, 7).Draw(t, "also") == 0 {
				op.Also = rapid.SampledFrom([]string{"hash", "tx"}).Draw(t, "alsokind")
			}
		}
		c.Ops = append(c.Ops, op)
	}
	return c
}

var (
	c18DBOnce sync.Once
	c18DB     *gorm.DB
	c18Seq    int
)

func c18LocalDB(tb testing.TB) *gorm.DB {
	c18DBOnce.Do(func() {
		logrus.SetLevel(logrus.PanicLevel)
		e := storage.NewTestStorageEngine(tb)
		if err := e.Start(); err != nil {
			tb.Fatal(err)
		}
		c18DB = e.GetSQLDatabase()
	})
	return c18DB
}

// c18Version is what the harness knows about one stored version of a managed document.
type c18Version struct {
	services    int
	deactivated bool
}

type c18Subject struct {
	name        string
	dids        []did.DID
	deactivated bool
	services    int
	versions    []c18Version // version v was written at logical time c18Base + v*c18Step
}

// Stored versions get a harness-owned clock (rows are edited after every write; the code stamps them with the wall clock in
// whole seconds, which would make all versions of a case simultaneous): version v is written at c18Base + v*c18Step.
const (
	c18Base   = int64(1600000000) // 2020-09-13
	c18Step   = int64(100)
	c18Future = int64(4000000000) // 2096
)

// c18Restamp gives every stored version of the subject's documents its logical time and checks the version count.
func c18Restamp(x *h.Ctx, db *gorm.DB, s *c18Subject) {
	for _, id := range s.dids {
		x.NoErr(db.Exec("UPDATE did_document_version SET updated_at = ? + version * ? WHERE did = ?", c18Base, c18Step, id.String()).Error, "restamp versions")
		var n int64
		x.NoErr(db.Table("did_document_version").Where("did = ?", id.String()).Count(&n).Error, "count versions")
		if int(n) != len(s.versions) {
			x.Fatalf("model has %d versions of %s, the database %d", len(s.versions), id, n)
		}
	}
}

// c18ResolveTime turns the op's time kind into a concrete time and tells which stored version it selects (-1 = none yet,
// i.e. before the creation). No time = the latest version.
func c18ResolveTime(op c18LocalOp, nver int) (t *time.Time, version int) {
	at := func(sec int64) *time.Time { v := time.Unix(sec, 0).UTC(); return &v }
	v := 0
	if nver > 0 {
		v = ((op.V % nver) + nver) % nver
	}
	last := nver - 1
	switch op.Time {
	case "before":
		return at(c18Base - c18Step/2), -1
	case "at":
		return at(c18Base + int64(v)*c18Step), v
	case "between":
		return at(c18Base + int64(v)*c18Step + c18Step/2), v
	case "at-last":
		return at(c18Base + int64(last)*c18Step), last
	case "after-last":
		return at(c18Base + int64(last)*c18Step + 1), last
	case "future":
		return at(c18Future), last
	}
	return nil, last
}

func c18RunLocal(x *h.Ctx, c c18LocalCase) {
	if len(c.Ops) > 64 {
		return
	}
	root, err := did.ParseDID(c.Root)
	if err != nil {
		return
	}
	db := c18LocalDB(x.TB)
	if db == nil {
		x.Fatalf("no database")
	}
	keys := nutsCrypto.NewDatabaseCryptoInstance(db)
	web := didweb.NewManager(*root, "iam", keys, db)
	mgr := didsubject.New(db, map[string]didsubject.MethodManager{didweb.MethodName: web}, keys, []string{didweb.MethodName})

	nw := &c18net.Net{}
	foreignBody := ""
	nw.Respond = func(i int, r *http.Request) c18net.Answer {
		// the fake web serves a perfectly acceptable document for whatever is asked: if a managed DID leaks to the network
		// the resolution would even succeed — only the log tells
		hd := http.Header{}
		hd.Set("Content-Type", "application/did+json")
		return c18net.Answer{Status: 200, Header: hd, Body: []byte(foreignBody)}
	}
	oldT := client.DefaultCachingTransport
	client.DefaultCachingTransport = nw
	x.Cleanup(func() { client.DefaultCachingTransport = oldT })
	chain := resolver.ChainedDIDResolver{Resolvers: []resolver.DIDResolver{didsubject.Resolver{DB: db}, didweb.NewResolver()}}

	c18Seq++
	subs := map[int]*c18Subject{}
	ctx := audit.TestContext()
	sawDeactivatedResolve, sawActiveResolve, sawForeign := false, false, false

	for i, op := range c.Ops {
		s := subs[op.S]
		switch op.K {
		case "create":
			if s != nil {
				continue
			}
			name := fmt.Sprintf("c18-%d-%d", c18Seq, op.S)
			docs, _, err := mgr.Create(ctx, didsubject.DefaultCreationOptions().With(didsubject.SubjectCreationOption{Subject: name}))
			x.NoErr(err, "create subject")
			s = &c18Subject{name: name}
			for _, d := range docs {
				s.dids = append(s.dids, d.ID)
				if !strings.HasPrefix(d.ID.String(), c.Root+":iam:") {
					x.Fatalf("unexpected managed DID %s for root %s", d.ID, c.Root)
				}
			}
			if len(s.dids) == 0 {
				x.Fatalf("create returned no documents")
			}
			subs[op.S] = s
			s.versions = append(s.versions, c18Version{})
			c18Restamp(x, db, s)
		case "service":
			if s == nil || s.deactivated {
				continue
			}
			_, err := mgr.CreateService(ctx, s.name, did.Service{Type: fmt.Sprintf("t%d", i), ServiceEndpoint: "https://example.com/x"})
			x.NoErr(err, "create service")
			s.services++
			s.versions = append(s.versions, c18Version{services: s.services})
			c18Restamp(x, db, s)
		case "addvm":
			if s == nil || s.deactivated {
				continue
			}
			_, err := mgr.AddVerificationMethod(ctx, s.name, orm.AssertionKeyUsage())
			x.NoErr(err, "add verification method")
			s.versions = append(s.versions, c18Version{services: s.services})
			c18Restamp(x, db, s)
		case "deactivate":
			if s == nil || s.deactivated {
				continue
			}
			x.NoErr(mgr.Deactivate(ctx, s.name), "deactivate")
			s.deactivated = true
			s.versions = append(s.versions, c18Version{deactivated: true})
			c18Restamp(x, db, s)
		case "resolve":
			if s == nil {
				continue
			}
			rt, ver := c18ResolveTime(op, len(s.versions))
			var md *resolver.ResolveMetadata
			if op.Allow || op.Meta || rt != nil || op.Also != "" {
				md = &resolver.ResolveMetadata{AllowDeactivated: op.Allow, ResolveTime: rt}
				hsh := hash.SHA256Sum([]byte("c18"))
				switch op.Also {
				case "hash":
					md.Hash = &hsh
				case "tx":
					md.SourceTransaction = &hsh
				}
			}
			x.Classf("metadata:time=%s", map[bool]string{true: "absent", false: op.Time}[op.Time == ""])
			if md == nil {
				x.Class("metadata:nil")
			}
			what := fmt.Sprintf("allow=%v time=%s(v%d of %d) also=%s nil-metadata=%v", op.Allow, op.Time, ver, len(s.versions), op.Also, md == nil)
			for _, id := range s.dids {
				for _, via := range []string{"chain", "direct"} {
					var rs resolver.DIDResolver = chain
					if via == "direct" {
						rs = didsubject.Resolver{DB: db}
					}
					nw.Reset()
					foreignBody = fmt.Sprintf(`{"@context":"https://www.w3.org/ns/did/v1","id":%q,"controller":%q,"service":[{"id":"%s#leak","type":"from-the-web","serviceEndpoint":"https://evil.example"}]}`, id.String(), id.String(), id.String())
					doc, dmd, err := rs.Resolve(id, md)
					netLog := nw.Log()

					// the clause that holds whatever else the metadata asks for: a deactivated document is never handed out
					// unless the caller allows it
					if err == nil && doc != nil && resolver.IsDeactivated(*doc) && !op.Allow {
						sawDeactivatedResolve = true
						x.Violate("local-deactivated:resolved", "step %d (%s): deactivated version of %s resolved without AllowDeactivated (%s)", i, via, id, what)
						continue
					}
					if err != nil && (doc != nil || dmd != nil) {
						x.Violate("local-result:doc-with-error", "step %d (%s): %s: error %v together with a document", i, via, id, err)
					}
					if op.Also != "" {
						// Hash / SourceTransaction are not implemented by this resolver: nothing more is demanded
						x.Class("metadata:hash-or-tx(only-deactivation-clause-judged)")
						continue
					}
					if ver < 0 {
						// requested time lies before the creation: no local version. Direct: ErrNotFound (resolver_test.go). Through the
						// chain the DID is then treated like an unmanaged one; counted, not judged.
						if via == "direct" && !errors.Is(err, resolver.ErrNotFound) {
							x.Violate("local-time:before-creation-resolved", "step %d: %s at a time before its creation: %v, want ErrNotFound", i, id, err)
						}
						if via == "chain" && len(netLog) > 0 {
							x.Class("observed:managed-did-before-creation-falls-through-to-web")
						}
						continue
					}
					if len(netLog) > 0 {
						x.Violate("local-net:request", "step %d (%s): resolving the locally managed %s went to the network: %s (%s)", i, via, id, netLog[0].URL, what)
					}
					want := s.versions[ver]
					switch {
					case want.deactivated && !op.Allow:
						sawDeactivatedResolve = true
						if op.Time != "" {
							x.Class("resolved-deactivated-with-resolve-time")
						}
						if err == nil {
							x.Violate("local-deactivated:resolved", "step %d (%s): %s is deactivated at the requested time but resolved without AllowDeactivated (%s)", i, via, id, what)
						} else if !errors.Is(err, resolver.ErrDeactivated) {
							x.Violate("local-deactivated:wrong-error", "step %d (%s): deactivated %s: error %v is not ErrDeactivated (%s)", i, via, id, err, what)
						}
					case want.deactivated && op.Allow:
						sawDeactivatedResolve = true
						if err != nil {
							x.Violate("local-deactivated:allow-rejected", "step %d (%s): deactivated %s with AllowDeactivated: %v (%s)", i, via, id, err, what)
							continue
						}
						if doc == nil || doc.ID.String() != id.String() {
							x.Violate("local-docid:differs", "step %d (%s): %s resolved to a document with another id", i, via, id)
						} else if !resolver.IsDeactivated(*doc) || dmd == nil || !dmd.Deactivated {
							x.Violate("local-deactivated:not-marked", "step %d (%s): deactivated %s resolved with AllowDeactivated but is not marked deactivated (%s)", i, via, id, what)
						}
					default:
						sawActiveResolve = true
						if s.deactivated {
							// an earlier, active version of a DID that was deactivated later: resolving it by time is legitimate
							x.Class("resolved-earlier-active-version-of-deactivated-did")
						}
						if err != nil {
							x.Violate("local-active:rejected", "step %d (%s): managed %s, active at the requested time, does not resolve: %v (%s)", i, via, id, err, what)
							continue
						}
						if doc == nil || doc.ID.String() != id.String() {
							x.Violate("local-docid:differs", "step %d (%s): %s resolved to a document with another id", i, via, id)
							continue
						}
						if len(doc.Service) != want.services {
							x.Violate("local-stale:services", "step %d (%s): %s resolved with %d services, version %d of the local history has %d (%s)", i, via, id, len(doc.Service), ver, want.services, what)
						}
						for _, sv := range doc.Service {
							if sv.Type == "from-the-web" {
								x.Violate("local-net:web-document-returned", "step %d (%s): %s resolved to the document served by the web", i, via, id)
							}
						}
					}
				}
			}
		case "resolve-foreign":
			// a DID under the same root that this node does not manage: the chain falls through to the web, bound to the origin
			id := did.MustParseDID(fmt.Sprintf("%s:iam:not-managed-%d", c.Root, op.S))
			nw.Reset()
			foreignBody = fmt.Sprintf(`{"@context":"https://www.w3.org/ns/did/v1","id":%q}`, id.String())
			doc, _, err := chain.Resolve(id, nil)
			sawForeign = true
			l := nw.Traffic()
			if len(l) != 1 {
				x.Violate("local-foreign:requests", "step %d: unmanaged %s: %d requests", i, id, len(l))
				continue
			}
			want, _ := didweb.DIDToURL(id)
			if want == nil || l[0].URL != want.String()+"/did.json" {
				x.Violate("local-foreign:origin", "step %d: unmanaged %s fetched from %s", i, id, l[0].URL)
			}
			if err != nil || doc == nil || doc.ID.String() != id.String() {
				x.Violate("local-foreign:rejected", "step %d: unmanaged %s served correctly by its origin: %v", i, id, err)
			}
		}
	}
	if sawActiveResolve {
		x.Class("resolved-active-managed")
	}
	if sawDeactivatedResolve {
		x.Class("resolved-deactivated-managed")
		x.NonTrivial()
	}
	if sawForeign {
		x.Class("resolved-unmanaged-through-web")
	}
}

func TestVerif_C18_Local(t *testing.T) {
	h.Check(t, "C18", c18GenLocal, c18RunLocal, h.PanicIsViolation())
}

func TestVerifReplay_C18_Local(t *testing.T) {
	h.Replay(t, "C18", "TestVerif_C18_Local", c18RunLocal, h.PanicIsViolation())
}
