//go:build verif

package didsubject_test

// C18 (locally managed DIDs): DIDs managed by this node resolve from local storage without any network access, with
// document id == DID, and a deactivated DID does not resolve unless the caller explicitly allows it.
//
// Fixture = what vdr.Module.Configure wires for did:web: didsubject.New(db, {web: didweb.NewManager(root, "iam", keys, db)})
// for the histories, and resolver.ChainedDIDResolver{didsubject.Resolver{DB}, didweb.NewResolver()} (local first, then the
// web) for resolution; the web resolver's transport is the recording fake network. External test package because
// didweb imports didsubject.

import (
	"context"
	"database/sql"
	"database/sql/driver"
	"errors"
	"fmt"
	"net/http"
	"strings"
	"sync"
	"testing"
	"time"

	"github.com/nuts-foundation/go-did/did"
	"github.com/nuts-foundation/nuts-node/audit"
	nutsCrypto "github.com/nuts-foundation/nuts-node/crypto"
	"github.com/nuts-foundation/nuts-node/crypto/hash"
	"github.com/nuts-foundation/nuts-node/http/client"
	"github.com/nuts-foundation/nuts-node/storage"
	"github.com/nuts-foundation/nuts-node/storage/orm"
	"github.com/nuts-foundation/nuts-node/vdr/didsubject"
	"github.com/nuts-foundation/nuts-node/vdr/didweb"
	"github.com/nuts-foundation/nuts-node/vdr/resolver"
	"github.com/sirupsen/logrus"
	"gorm.io/gorm"
	"pgregory.net/rapid"
	"verif.local/h"
	"verif.local/h/c18net"
)

type c18LocalOp struct {
	K     string `json:"k"`               // create | service | addvm | deactivate | resolve | resolve-foreign
	S     int    `json:"s"`               // subject selector
	Allow bool   `json:"allow,omitempty"` // resolve: AllowDeactivated
	Meta  bool   `json:"meta,omitempty"`  // resolve: pass a (non-nil, empty) ResolveMetadata even when nothing else is set
	// resolve: ResolveTime. "" absent | before (creation) | at (version V exactly) | between (version V and the next) |
	// at-last (exactly at the latest version, i.e. at the deactivation when there is one) | after-last (1 s later) | future
	Time string `json:"time,omitempty"`
	V    int    `json:"v,omitempty"`    // version selector for at/between (modulo the number of versions)
	Also string `json:"also,omitempty"` // resolve: additionally set "hash" or "tx" (fields this resolver does not implement)
	// resolve: the storage fails at the resolver's read (nil = healthy storage)
	Fault *c18Fault `json:"fault,omitempty"`
}

// c18Fault is a storage fault at the read that decides "is this DID managed here, and what is its document". It is active
// only while the resolution under test runs; the history is written and the model is checked on healthy storage.
type c18Fault struct {
	// cancelled | deadline: the resolver's database handle carries a context that is cancelled / past its deadline
	// closed: the handle's connection pool is closed (shutdown race, connection loss)
	// hook: SQL statement number At of the resolution fails with error Err before it reaches the driver
	// no-table: table number At of the four the read touches is missing (renamed away for the duration of the resolution)
	Kind string `json:"kind"`
	At   int    `json:"at,omitempty"`
	Err  string `json:"err,omitempty"` // hook: generic | conn-done | bad-conn | canceled | deadline | tx-done | invalid-db
}

var c18HookErrs = map[string]error{
	"generic":    errors.New("c18: injected storage failure"),
	"conn-done":  sql.ErrConnDone,
	"bad-conn":   driver.ErrBadConn,
	"canceled":   context.Canceled,
	"deadline":   context.DeadlineExceeded,
	"tx-done":    sql.ErrTxDone,
	"invalid-db": gorm.ErrInvalidDB,
}

// the tables SqlDIDDocumentManager.Latest reads, in the order it reads them (version row, then the three preloads)
var c18ReadTables = []string{"did_document_version", "did", "did_service", "did_verification_method"}

func c18GenFault(t *rapid.T) *c18Fault {
	f := &c18Fault{Kind: rapid.SampledFrom([]string{"hook", "closed", "cancelled", "hook", "deadline", "hook", "closed", "cancelled", "hook", "no-table"}).Draw(t, "fault")}
	switch f.Kind {
	case "hook":
		f.At = rapid.SampledFrom([]int{0, 0, 1, 2, 3, 4}).Draw(t, "faultat") // 4 = after the last statement: never fires
		f.Err = rapid.SampledFrom([]string{"generic", "conn-done", "bad-conn", "canceled", "deadline", "tx-done", "invalid-db"}).Draw(t, "faulterr")
	case "no-table":
		f.At = rapid.IntRange(0, len(c18ReadTables)-1).Draw(t, "faultat")
	}
	return f
}

func (f *c18Fault) String() string {
	if f == nil {
		return "none"
	}
	switch f.Kind {
	case "hook":
		return fmt.Sprintf("hook(statement %d fails: %s)", f.At, f.Err)
	case "no-table":
		return fmt.Sprintf("no-table(%d)", f.At)
	}
	return f.Kind
}

type c18LocalCase struct {
	Root string       `json:"root"` // the node's root did:web (what URLToDID(publicURL) gives)
	Ops  []c18LocalOp `json:"ops"`
}

func c18GenLocal(t *rapid.T) c18LocalCase {
	c := c18LocalCase{Root: rapid.SampledFrom([]string{"did:web:example.com", "did:web:nuts.example.com%3A8443", "did:web:localhost%3A8080:tenant", "did:web:Example.COM:a%2Bb"}).Draw(t, "root")}
	n := rapid.IntRange(3, 16).Draw(t, "n")
	state := map[int]int{} // 0 absent, 1 active, 2 deactivated: the generator follows the model so that every op applies
	for i := 0; i < n; i++ {
		op := c18LocalOp{S: rapid.IntRange(0, 2).Draw(t, "s")}
		switch state[op.S] {
		case 0:
			op.K = rapid.SampledFrom([]string{"create", "create", "create", "resolve-foreign"}).Draw(t, "k")
			if op.K == "create" {
				state[op.S] = 1
			}
		case 1:
			op.K = rapid.SampledFrom([]string{"deactivate", "resolve", "service", "deactivate", "resolve", "addvm", "resolve-foreign"}).Draw(t, "k")
			if op.K == "deactivate" {
				state[op.S] = 2
			}
		default:
			op.K = rapid.SampledFrom([]string{"resolve", "resolve", "resolve", "resolve-foreign", "deactivate"}).Draw(t, "k")
		}
		if op.K == "resolve" {
			op.Allow = rapid.Bool().Draw(t, "allow")
			op.Meta = rapid.Bool().Draw(t, "meta")
			op.Time = rapid.SampledFrom([]string{"", "at-last", "after-last", "future", "between", "at", "before", ""}).Draw(t, "time")
			if op.Time == "at" || op.Time == "between" {
				op.V = rapid.IntRange(0, 7).Draw(t, "v")
			}
			if rapid.IntRange(0, 7).Draw(t, "also") == 0 {
				op.Also = rapid.SampledFrom([]string{"hash", "tx"}).Draw(t, "alsokind")
			}
			if rapid.IntRange(0, 2).Draw(t, "faulty") == 0 {
				op.Fault = c18GenFault(t)
			}
		}
		c.Ops = append(c.Ops, op)
	}
	return c
}

var (
	c18DBOnce sync.Once
	c18DB     *gorm.DB
	c18Seq    int
)

func c18LocalDB(tb testing.TB) *gorm.DB {
	c18DBOnce.Do(func() {
		logrus.SetLevel(logrus.PanicLevel)
		e := storage.NewTestStorageEngine(tb)
		if err := e.Start(); err != nil {
			tb.Fatal(err)
		}
		c18DB = e.GetSQLDatabase()
		if err := c18InstallFaultHook(c18DB); err != nil {
			tb.Fatal(err)
		}
	})
	return c18DB
}

// c18Hook is the armed statement-level fault: callbacks registered once on the shared handle (gorm keeps callbacks per
// configuration, so every session derived from it runs them), a no-op unless armed.
var c18Hook struct {
	armed, fired bool
	at, seen     int
	err          error
}

func c18InstallFaultHook(db *gorm.DB) error {
	fn := func(tx *gorm.DB) {
		if !c18Hook.armed {
			return
		}
		if c18Hook.seen == c18Hook.at {
			c18Hook.fired = true
			_ = tx.AddError(c18Hook.err)
		}
		c18Hook.seen++
	}
	if err := db.Callback().Query().Before("gorm:query").Register("c18:storage-fault", fn); err != nil {
		return err
	}
	if err := db.Callback().Row().Before("gorm:row").Register("c18:storage-fault", fn); err != nil {
		return err
	}
	return db.Callback().Raw().Before("gorm:raw").Register("c18:storage-fault", fn)
}

var c18ClosedPool *sql.DB

// c18FaultyHandle applies the fault: it returns the handle the resolver under test gets and a function that ends the fault
// and tells whether it took effect. Everything else (the manager that writes the history, the model checks) keeps db.
func c18FaultyHandle(x *h.Ctx, db *gorm.DB, f *c18Fault) (*gorm.DB, func() bool) {
	switch f.Kind {
	case "cancelled":
		ctx, cancel := context.WithCancel(context.Background())
		cancel()
		return db.WithContext(ctx), func() bool { return true }
	case "deadline":
		ctx, cancel := context.WithDeadline(context.Background(), time.Unix(c18Base, 0))
		return db.WithContext(ctx), func() bool { cancel(); return true }
	case "closed":
		if c18ClosedPool == nil {
			// a second pool on the same database file, closed: same dialector, callbacks and error translation as the real handle
			var file string
			x.NoErr(db.Raw("SELECT file FROM pragma_database_list WHERE name = 'main'").Scan(&file).Error, "database file")
			pool, err := sql.Open("sqlite", "file:"+file)
			x.NoErr(err, "open second pool")
			x.NoErr(pool.Ping(), "ping second pool")
			x.NoErr(pool.Close(), "close second pool")
			c18ClosedPool = pool
		}
		// a session with a context gets its own Statement (the plain session shares the handle's), so the real handle keeps its pool
		tx := db.Session(&gorm.Session{NewDB: true, Context: context.Background()})
		if tx.Statement == db.Statement {
			x.Fatalf("session shares the statement of the real handle")
		}
		tx.Statement.ConnPool = c18ClosedPool
		return tx, func() bool { return true }
	case "hook":
		e := c18HookErrs[f.Err]
		if e == nil {
			e = c18HookErrs["generic"]
		}
		c18Hook.armed, c18Hook.fired, c18Hook.at, c18Hook.seen, c18Hook.err = true, false, f.At, 0, e
		return db, func() bool { c18Hook.armed = false; return c18Hook.fired }
	case "no-table":
		tbl := c18ReadTables[((f.At%len(c18ReadTables))+len(c18ReadTables))%len(c18ReadTables)]
		x.NoErr(db.Exec("ALTER TABLE "+tbl+" RENAME TO "+tbl+"_c18gone").Error, "rename table away")
		restored := false
		restore := func() bool {
			if !restored {
				restored = true
				x.NoErr(db.Exec("ALTER TABLE "+tbl+"_c18gone RENAME TO "+tbl).Error, "rename table back")
			}
			return true
		}
		x.Cleanup(func() { restore() })
		return db, restore
	}
	return db, func() bool { return false }
}

// c18Version is what the harness knows about one stored version of a managed document.
type c18Version struct {
	services    int
	deactivated bool
}

type c18Subject struct {
	name        string
	dids        []did.DID
	deactivated bool
	services    int
	versions    []c18Version // version v was written at logical time c18Base + v*c18Step
}

// Stored versions get a harness-owned clock (rows are edited after every write; the code stamps them with the wall clock in
// whole seconds, which would make all versions of a case simultaneous): version v is written at c18Base + v*c18Step.
const (
	c18Base   = int64(1600000000) // 2020-09-13
	c18Step   = int64(100)
	c18Future = int64(4000000000) // 2096
)

// c18Restamp gives every stored version of the subject's documents its logical time and checks the version count.
func c18Restamp(x *h.Ctx, db *gorm.DB, s *c18Subject) {
	for _, id := range s.dids {
		x.NoErr(db.Exec("UPDATE did_document_version SET updated_at = ? + version * ? WHERE did = ?", c18Base, c18Step, id.String()).Error, "restamp versions")
		var n int64
		x.NoErr(db.Table("did_document_version").Where("did = ?", id.String()).Count(&n).Error, "count versions")
		if int(n) != len(s.versions) {
			x.Fatalf("model has %d versions of %s, the database %d", len(s.versions), id, n)
		}
	}
}

// c18ResolveTime turns the op's time kind into a concrete time and tells which stored version it selects (-1 = none yet,
// i.e. before the creation). No time = the latest version.
func c18ResolveTime(op c18LocalOp, nver int) (t *time.Time, version int) {
	at := func(sec int64) *time.Time { v := time.Unix(sec, 0).UTC(); return &v }
	v := 0
	if nver > 0 {
		v = ((op.V % nver) + nver) % nver
	}
	last := nver - 1
	switch op.Time {
	case "before":
		return at(c18Base - c18Step/2), -1
	case "at":
		return at(c18Base + int64(v)*c18Step), v
	case "between":
		return at(c18Base + int64(v)*c18Step + c18Step/2), v
	case "at-last":
		return at(c18Base + int64(last)*c18Step), last
	case "after-last":
		return at(c18Base + int64(last)*c18Step + 1), last
	case "future":
		return at(c18Future), last
	}
	return nil, last
}

func c18RunLocal(x *h.Ctx, c c18LocalCase) {
	if len(c.Ops) > 64 {
		return
	}
	root, err := did.ParseDID(c.Root)
	if err != nil {
		return
	}
	db := c18LocalDB(x.TB)
	if db == nil {
		x.Fatalf("no database")
	}
	keys := nutsCrypto.NewDatabaseCryptoInstance(db)
	web := didweb.NewManager(*root, "iam", keys, db)
	mgr := didsubject.New(db, map[string]didsubject.MethodManager{didweb.MethodName: web}, keys, []string{didweb.MethodName})

	nw := &c18net.Net{}
	foreignBody := ""
	nw.Respond = func(i int, r *http.Request) c18net.Answer {
		// the fake web serves a perfectly acceptable document for whatever is asked: if a managed DID leaks to the network
		// the resolution would even succeed — only the log tells
		hd := http.Header{}
		hd.Set("Content-Type", "application/did+json")
		return c18net.Answer{Status: 200, Header: hd, Body: []byte(foreignBody)}
	}
	oldT := client.DefaultCachingTransport
	client.DefaultCachingTransport = nw
	x.Cleanup(func() { client.DefaultCachingTransport = oldT })
	webResolver := didweb.NewResolver()
	// the chain of vdr.Module.Configure: own database first, then the web; rdb is the handle the SQL resolver reads through
	chainOn := func(rdb *gorm.DB) resolver.DIDResolver {
		return resolver.ChainedDIDResolver{Resolvers: []resolver.DIDResolver{didsubject.Resolver{DB: rdb}, webResolver}}
	}
	chain := chainOn(db)

	c18Seq++
	subs := map[int]*c18Subject{}
	ctx := audit.TestContext()
	sawDeactivatedResolve, sawActiveResolve, sawForeign, sawFault, sawFaultOnDeactivated := false, false, false, false, false

	for i, op := range c.Ops {
		s := subs[op.S]
		switch op.K {
		case "create":
			if s != nil {
				continue
			}
			name := fmt.Sprintf("c18-%d-%d", c18Seq, op.S)
			docs, _, err := mgr.Create(ctx, didsubject.DefaultCreationOptions().With(didsubject.SubjectCreationOption{Subject: name}))
			x.NoErr(err, "create subject")
			s = &c18Subject{name: name}
			for _, d := range docs {
				s.dids = append(s.dids, d.ID)
				if !strings.HasPrefix(d.ID.String(), c.Root+":iam:") {
					x.Fatalf("unexpected managed DID %s for root %s", d.ID, c.Root)
				}
			}
			if len(s.dids) == 0 {
				x.Fatalf("create returned no documents")
			}
			subs[op.S] = s
			s.versions = append(s.versions, c18Version{})
			c18Restamp(x, db, s)
		case "service":
			if s == nil || s.deactivated {
				continue
			}
			_, err := mgr.CreateService(ctx, s.name, did.Service{Type: fmt.Sprintf("t%d", i), ServiceEndpoint: "https://example.com/x"})
			x.NoErr(err, "create service")
			s.services++
			s.versions = append(s.versions, c18Version{services: s.services})
			c18Restamp(x, db, s)
		case "addvm":
			if s == nil || s.deactivated {
				continue
			}
			_, err := mgr.AddVerificationMethod(ctx, s.name, orm.AssertionKeyUsage())
			x.NoErr(err, "add verification method")
			s.versions = append(s.versions, c18Version{services: s.services})
			c18Restamp(x, db, s)
		case "deactivate":
			if s == nil || s.deactivated {
				continue
			}
			x.NoErr(mgr.Deactivate(ctx, s.name), "deactivate")
			s.deactivated = true
			s.versions = append(s.versions, c18Version{deactivated: true})
			c18Restamp(x, db, s)
		case "resolve":
			if s == nil {
				continue
			}
			rt, ver := c18ResolveTime(op, len(s.versions))
			var md *resolver.ResolveMetadata
			if op.Allow || op.Meta || rt != nil || op.Also != "" {
				md = &resolver.ResolveMetadata{AllowDeactivated: op.Allow, ResolveTime: rt}
				hsh := hash.SHA256Sum([]byte("c18"))
				switch op.Also {
				case "hash":
					md.Hash = &hsh
				case "tx":
					md.SourceTransaction = &hsh
				}
			}
			x.Classf("metadata:time=%s", map[bool]string{true: "absent", false: op.Time}[op.Time == ""])
			if md == nil {
				x.Class("metadata:nil")
			}
			what := fmt.Sprintf("allow=%v time=%s(v%d of %d) also=%s nil-metadata=%v storage-fault=%s", op.Allow, op.Time, ver, len(s.versions), op.Also, md == nil, op.Fault)
			for _, id := range s.dids {
				for _, via := range []string{"chain", "direct"} {
					rdb, endFault := db, func() bool { return false }
					if op.Fault != nil {
						rdb, endFault = c18FaultyHandle(x, db, op.Fault)
					}
					var rs resolver.DIDResolver = chainOn(rdb)
					if via == "direct" {
						rs = didsubject.Resolver{DB: rdb}
					}
					nw.Reset()
					foreignBody = fmt.Sprintf(`{"@context":"https://www.w3.org/ns/did/v1","id":%q,"controller":%q,"service":[{"id":"%s#leak","type":"from-the-web","serviceEndpoint":"https://evil.example"}]}`, id.String(), id.String(), id.String())
					doc, dmd, err := rs.Resolve(id, md)
					faulted := endFault()
					netLog := nw.Log()
					if op.Fault != nil {
						x.Classf("storage-fault:%s:%s", op.Fault.Kind, c18FaultEffect(op.Fault.Kind, faulted))
					}

					// the clause that holds whatever else the metadata asks for: a deactivated document is never handed out
					// unless the caller allows it
					if err == nil && doc != nil && resolver.IsDeactivated(*doc) && !op.Allow {
						sawDeactivatedResolve = true
						x.Violate("local-deactivated:resolved", "step %d (%s): deactivated version of %s resolved without AllowDeactivated (%s)", i, via, id, what)
						continue
					}
					if err != nil && (doc != nil || dmd != nil) {
						x.Violate("local-result:doc-with-error", "step %d (%s): %s: error %v together with a document", i, via, id, err)
					}
					if op.Also != "" {
						// Hash / SourceTransaction are not implemented by this resolver: nothing more is demanded
						x.Class("metadata:hash-or-tx(only-deactivation-clause-judged)")
						continue
					}
					if ver < 0 {
						// requested time lies before the creation: no local version. Direct: ErrNotFound (resolver_test.go). Through the
						// chain the DID is then treated like an unmanaged one; counted, not judged.
						if faulted {
							// no local version at that time AND a failed read: nothing is demanded
							x.Class("storage-fault:before-creation(not-judged)")
							continue
						}
						if via == "direct" && !errors.Is(err, resolver.ErrNotFound) {
							x.Violate("local-time:before-creation-resolved", "step %d: %s at a time before its creation: %v, want ErrNotFound", i, id, err)
						}
						if via == "chain" && len(netLog) > 0 {
							x.Class("observed:managed-did-before-creation-falls-through-to-web")
						}
						continue
					}
					want := s.versions[ver]
					if faulted {
						// The storage failed while this managed DID was read. Nothing can be demanded about WHICH error comes back;
						// what the statement still guarantees: no network access for a managed DID, never the web's document, and a
						// deactivated DID stays unresolvable. An error is the expected outcome and is accepted as it is.
						sawFault = true
						if want.deactivated {
							sawFaultOnDeactivated = true
						}
						if len(netLog) > 0 {
							x.Violate("local-net:request:storage-fault", "step %d (%s): the storage failed while the locally managed %s was read and the resolution went to the network: %s (%s)", i, via, id, netLog[0].URL, what)
						}
						webDoc := false
						if doc != nil {
							for _, sv := range doc.Service {
								webDoc = webDoc || sv.Type == "from-the-web"
							}
						}
						switch {
						case err != nil:
							x.Classf("storage-fault-outcome:%s:error(%s)", via, c18ErrClass(err))
							continue
						case webDoc:
							x.Violate("local-net:web-document-returned:storage-fault", "step %d (%s): the storage failed and the locally managed %s resolved to the document served by the web (%s)", i, via, id, what)
							if want.deactivated && !op.Allow {
								x.Violate("local-deactivated:resolved:storage-fault", "step %d (%s): %s is deactivated locally but resolved (from the web) without AllowDeactivated while the storage failed (%s)", i, via, id, what)
							}
							continue
						}
						// a document without an error although the read failed: judged like any other local answer
						x.Classf("storage-fault-outcome:%s:document", via)
					}
					if len(netLog) > 0 {
						x.Violate("local-net:request", "step %d (%s): resolving the locally managed %s went to the network: %s (%s)", i, via, id, netLog[0].URL, what)
					}
					switch {
					case want.deactivated && !op.Allow:
						sawDeactivatedResolve = true
						if op.Time != "" {
							x.Class("resolved-deactivated-with-resolve-time")
						}
						if err == nil {
							x.Violate("local-deactivated:resolved", "step %d (%s): %s is deactivated at the requested time but resolved without AllowDeactivated (%s)", i, via, id, what)
						} else if !errors.Is(err, resolver.ErrDeactivated) {
							x.Violate("local-deactivated:wrong-error", "step %d (%s): deactivated %s: error %v is not ErrDeactivated (%s)", i, via, id, err, what)
						}
					case want.deactivated && op.Allow:
						sawDeactivatedResolve = true
						if err != nil {
							x.Violate("local-deactivated:allow-rejected", "step %d (%s): deactivated %s with AllowDeactivated: %v (%s)", i, via, id, err, what)
							continue
						}
						if doc == nil || doc.ID.String() != id.String() {
							x.Violate("local-docid:differs", "step %d (%s): %s resolved to a document with another id", i, via, id)
						} else if !resolver.IsDeactivated(*doc) || dmd == nil || !dmd.Deactivated {
							x.Violate("local-deactivated:not-marked", "step %d (%s): deactivated %s resolved with AllowDeactivated but is not marked deactivated (%s)", i, via, id, what)
						}
					default:
						sawActiveResolve = true
						if s.deactivated {
							// an earlier, active version of a DID that was deactivated later: resolving it by time is legitimate
							x.Class("resolved-earlier-active-version-of-deactivated-did")
						}
						if err != nil {
							x.Violate("local-active:rejected", "step %d (%s): managed %s, active at the requested time, does not resolve: %v (%s)", i, via, id, err, what)
							continue
						}
						if doc == nil || doc.ID.String() != id.String() {
							x.Violate("local-docid:differs", "step %d (%s): %s resolved to a document with another id", i, via, id)
							continue
						}
						if len(doc.Service) != want.services {
							x.Violate("local-stale:services", "step %d (%s): %s resolved with %d services, version %d of the local history has %d (%s)", i, via, id, len(doc.Service), ver, want.services, what)
						}
						for _, sv := range doc.Service {
							if sv.Type == "from-the-web" {
								x.Violate("local-net:web-document-returned", "step %d (%s): %s resolved to the document served by the web", i, via, id)
							}
						}
					}
				}
			}
		case "resolve-foreign":
			// a DID under the same root that this node does not manage: the chain falls through to the web, bound to the origin
			id := did.MustParseDID(fmt.Sprintf("%s:iam:not-managed-%d", c.Root, op.S))
			nw.Reset()
			foreignBody = fmt.Sprintf(`{"@context":"https://www.w3.org/ns/did/v1","id":%q}`, id.String())
			doc, _, err := chain.Resolve(id, nil)
			sawForeign = true
			l := nw.Traffic()
			if len(l) != 1 {
				x.Violate("local-foreign:requests", "step %d: unmanaged %s: %d requests", i, id, len(l))
				continue
			}
			want, _ := didweb.DIDToURL(id)
			if want == nil || l[0].URL != want.String()+"/did.json" {
				x.Violate("local-foreign:origin", "step %d: unmanaged %s fetched from %s", i, id, l[0].URL)
			}
			if err != nil || doc == nil || doc.ID.String() != id.String() {
				x.Violate("local-foreign:rejected", "step %d: unmanaged %s served correctly by its origin: %v", i, id, err)
			}
		}
	}
	if sawActiveResolve {
		x.Class("resolved-active-managed")
	}
	if sawDeactivatedResolve {
		x.Class("resolved-deactivated-managed")
		x.NonTrivial()
	}
	if sawForeign {
		x.Class("resolved-unmanaged-through-web")
	}
	if sawFault {
		x.Class("resolved-managed-under-storage-fault")
		x.NonTrivial()
	}
	if sawFaultOnDeactivated {
		x.Class("resolved-deactivated-managed-under-storage-fault")
	}
}

func c18ErrClass(err error) string {
	switch {
	case errors.Is(err, resolver.ErrDeactivated):
		return "deactivated"
	case errors.Is(err, resolver.ErrNotFound):
		return "not-found"
	case errors.Is(err, context.Canceled), errors.Is(err, context.DeadlineExceeded):
		return "context"
	}
	return "storage"
}

func TestVerif_C18_Local(t *testing.T) {
	h.Check(t, "C18", c18GenLocal, c18RunLocal, h.PanicIsViolation())
}

func TestVerifReplay_C18_Local(t *testing.T) {
	h.Replay(t, "C18", "TestVerif_C18_Local", c18RunLocal, h.PanicIsViolation())
}

func c18FaultEffect(kind string, faulted bool) string {
	switch {
	case kind == "no-table":
		return "table-missing-during-the-call"
	case faulted:
		return "took-effect"
	}
	return "did-not-fire"
}
