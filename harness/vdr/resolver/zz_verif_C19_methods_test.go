//go:build verif

package resolver_test

// C19 targets: DID resolution of identifiers / documents that come from outside, through the production wiring
// (resolver.DIDResolverRouter with did:key, did:jwk and did:web registered, as vdr.go does), followed by what every
// signature verification does next: resolver.DIDKeyResolver.ResolveKeyByID / ResolveKey and, for did:web,
// resolver.DIDServiceResolver.
//   - did:key / did:jwk: the identifier itself is the untrusted input (it arrives in tokens, credentials, presentations):
//     structure-aware mutation of the encoded key (multicodec bytes / JWK JSON) re-encoded into a syntactically valid DID.
//   - did:web: the document body served by a remote web server (stub core.HTTPRequestDoer), jsonmut mutations of valid
//     did:web documents incl. @context/@base games and relative verification method ids.
// Oracle: no panic, no hang.

import (
	"bytes"
	"crypto/ed25519"
	"crypto/elliptic"
	"encoding/base64"
	"encoding/binary"
	"encoding/json"
	"fmt"
	"io"
	"net/http"
	"strings"
	"testing"
	"time"

	"github.com/mr-tron/base58"
	ssi "github.com/nuts-foundation/go-did"
	"github.com/nuts-foundation/go-did/did"
	"github.com/nuts-foundation/nuts-node/vdr/didjwk"
	"github.com/nuts-foundation/nuts-node/vdr/didkey"
	"github.com/nuts-foundation/nuts-node/vdr/didweb"
	"github.com/nuts-foundation/nuts-node/vdr/resolver"
	"github.com/sirupsen/logrus"
	"pgregory.net/rapid"
	"verif.local/h"
	"verif.local/h/c19x"
	"verif.local/h/jsonmut"
)

func init() { logrus.SetOutput(io.Discard) }

type c19HTTP struct {
	status int
	ctype  string
	body   []byte
	calls  int
}

func (s *c19HTTP) Do(req *http.Request) (*http.Response, error) {
	s.calls++
	if s.calls > 1000 {
		return nil, fmt.Errorf("too many requests")
	}
	hdr := http.Header{}
	if s.ctype != "" {
		hdr.Set("Content-Type", s.ctype)
	}
	return &http.Response{StatusCode: s.status, Status: fmt.Sprintf("%d x", s.status), Header: hdr, Body: io.NopCloser(bytes.NewReader(s.body)), Request: req}, nil
}

func c19Router(httpStub *c19HTTP) resolver.DIDResolver {
	r := &resolver.DIDResolverRouter{}
	r.Register(didjwk.MethodName, didjwk.NewResolver())
	r.Register(didkey.MethodName, didkey.NewResolver())
	r.Register(didweb.MethodName, &didweb.Resolver{HttpClient: httpStub})
	return &c19Memo{inner: r, cache: map[string]c19MemoEntry{}}
}

// c19Memo resolves every DID once per case (production caches did:web responses too); the consumers are called many
// times per case and a 100 KiB identifier costs ~25 ms to parse, which is not what is being measured.
type c19MemoEntry struct {
	doc *did.Document
	md  *resolver.DocumentMetadata
	err error
}

type c19Memo struct {
	inner resolver.DIDResolver
	cache map[string]c19MemoEntry
}

func (m *c19Memo) Resolve(id did.DID, md *resolver.ResolveMetadata) (*did.Document, *resolver.DocumentMetadata, error) {
	k := id.String()
	if e, ok := m.cache[k]; ok {
		return e.doc, e.md, e.err
	}
	d, dm, err := m.inner.Resolve(id, md)
	m.cache[k] = c19MemoEntry{d, dm, err}
	return d, dm, err
}

// c19UseDID does what signature verification does with a DID / key id taken from a token, credential or presentation.
func c19UseDID(x *h.Ctx, router resolver.DIDResolver, didStr string, keyIDs []string) (resolved bool) {
	kr := resolver.DIDKeyResolver{Resolver: router}
	// parsing a 100 KiB DID URL costs ~25 ms (regexp in go-did, linear): do not repeat it 50 times per case
	lastRel := resolver.CapabilityDelegation
	if len(didStr) > 8192 {
		lastRel = resolver.AssertionMethod
	}
	id, err := did.ParseDID(didStr)
	if err != nil {
		x.Class("stage1:not-a-DID")
	} else {
		x.Class("stage1:is-a-DID")
		if doc, _, err := router.Resolve(*id, nil); err == nil && doc != nil {
			resolved = true
			// harness's own inspection of the resolved document (library calls only)
			c19x.Own(x, func() {
				b, _ := json.Marshal(doc)
				var back did.Document
				_ = json.Unmarshal(b, &back)
			})
			c19x.Own(x, func() {
				for _, vm := range doc.VerificationMethod {
					keyIDs = append(keyIDs, vm.ID.String())
				}
			})
		}
		for rel := resolver.Authentication; rel <= lastRel; rel++ {
			_, _, _ = kr.ResolveKey(*id, nil, rel)
		}
	}
	for _, k := range keyIDs {
		for rel := resolver.Authentication; rel <= lastRel; rel++ {
			if _, err := kr.ResolveKeyByID(k, nil, rel); err == nil {
				x.Class("key-resolved-by-id")
			}
		}
	}
	return resolved
}

// ---------------------------------------------------------------------------------------------------------------------
// did:key

type c19KeyCase struct {
	Seed  int            `json:"seed"`
	Codec string         `json:"codec"` // keep | one of the multicodec names
	Muts  []c19x.ByteMut `json:"muts"`  // on the raw key bytes (after the multicodec prefix)
	Str   []c19x.ByteMut `json:"str"`   // on the final identifier string (rare)
}

var c19KeySeeds = []string{
	"z6MkiTBz1ymuepAQ4HEHYSF1H8quG5GLVVQR3djdX3mDooWp", // ed25519
	"z6LSeu9HkTHSfLLeUs2nnzUSNedgDUevfNQgQjQC23ZCit6F", // x25519
	"zDnaeucDGfhXHoJVqot3p21RuupNJ2fZrs8Lb1GV83VnSo2jR", // P-256
	"z82Lm1MpAkeJcix9K8TMiLd5NMAhnwkjjCBeWHXyu3U4oT2MVJJKXkcVBgjGhnLBn2Kaau9",                                     // P-384
	"z2J9gaYxrKVpdoG9A4gRnmpnRCcxU6agDtFVVBVdn1JedouoZN7SzcyREXXzWgt3gGiwpoHq7K68X4m32D8HgzG8wv3sY5j7", // P-521
	"z4MXj1wBzi9jUstyPMS4jQqB6KdJaiatPkAtVtGc6bQEQEEsKTic4G7Rou3iBf9vPmT5dbkm9qsZsuVNjq8HCuW1w24nhBFGkRE4cd2Uf2tfrB3N7h4mnyPp1BF3ZttHTYv3DLUPi1zMdkULiow3M1GfXkoC6DoxDUm1jmN6GBj22SjVsr6dxezRVQc7aj9TxE7JLbMH1wh5X3kA58H3DFW8rnYMakFGbca5CB2Jf6CnGQZmL7o5uJAdTwXfy2iiiyPxXEGerMhHwhjTA1mKYobyk2CpeEcmvynADfNZ5MBvcCS7m3XkFCMNUYBS9NQ3fze6vMSUPsNa6GVYmKx2x6JrdEjCk3qRMMmyjnjCMfR4pXbRMZa3i", // RSA 2048
	"zQ3shbgnTGcgBpXPdBjDur3ATMDWhS7aPs6FRFkWR19Lb9Zwz", // secp256k1 (unsupported)
}

var c19Codecs = map[string]uint64{"ed25519": 0xed, "x25519": 0xec, "p256": 0x1200, "p384": 0x1201, "p521": 0x1202, "rsa": 0x1205, "secp256k1": 0xe7, "bls": 0xeb, "unknown": 0x55, "zero": 0}
var c19CodecNames = []string{"keep", "keep", "keep", "keep", "ed25519", "x25519", "p256", "p384", "p521", "rsa", "secp256k1", "bls", "unknown", "zero"}

func c19KeyGen(t *rapid.T) c19KeyCase {
	c := c19KeyCase{
		Seed:  rapid.IntRange(0, len(c19KeySeeds)-1).Draw(t, "seed"),
		Codec: rapid.SampledFrom(c19CodecNames).Draw(t, "codec"),
		Muts:  c19x.GenByteMuts(t, "m"),
	}
	if rapid.IntRange(0, 7).Draw(t, "hasstr") == 0 {
		c.Str = c19x.GenByteMuts(t, "s")
	}
	return c
}

func c19KeyRun(x *h.Ctx, c c19KeyCase) {
	seed := c19KeySeeds[((c.Seed%len(c19KeySeeds))+len(c19KeySeeds))%len(c19KeySeeds)]
	mc, err := base58.DecodeAlphabet(seed[1:], base58.BTCAlphabet)
	x.NoErr(err, "seed base58")
	rd := bytes.NewReader(mc)
	codec, err := binary.ReadUvarint(rd)
	x.NoErr(err, "seed multicodec")
	keyBytes, _ := io.ReadAll(rd)
	if v, ok := c19Codecs[c.Codec]; ok {
		codec = v
	}
	keyBytes = c19x.ApplyBytes(keyBytes, c.Muts, 1)
	out := binary.AppendUvarint(nil, codec)
	out = append(out, keyBytes...)
	idStr := "did:key:z" + base58.EncodeAlphabet(out, base58.BTCAlphabet)
	if len(c.Str) > 0 {
		idStr = string(c19x.ApplyBytes([]byte(idStr), c.Str, 1))
		x.Class("identifier-string-edited")
	}
	x.Classf("codec=%s", c.Codec)
	if len(c.Muts) == 0 && len(c.Str) == 0 && c.Codec == "keep" {
		x.Class("unmutated")
	}
	if id, err := did.ParseDID(idStr); err == nil && id.Method == "key" && strings.HasPrefix(id.ID, "z") {
		if _, err := base58.DecodeAlphabet(id.ID[1:], base58.BTCAlphabet); err == nil {
			x.NonTrivial() // a did:key whose method-specific id is multibase base58btc
		}
	}
	c19x.Guard(x, func() {
		frag := idStr
		if k := strings.Index(idStr, "did:key:"); k >= 0 {
			frag = idStr[k+8:]
		}
		if c19UseDID(x, c19Router(&c19HTTP{status: 404}), idStr, []string{idStr + "#" + frag, idStr + "#0"}) {
			x.Class("resolved")
		} else {
			x.Class("not-resolved")
		}
	})
}

func TestVerif_C19_DIDKey(t *testing.T) {
	h.Check(t, "C19", c19KeyGen, c19KeyRun, h.PanicIsViolation(), h.Deadline(10*time.Second))
}

func TestVerifReplay_C19_DIDKey(t *testing.T) {
	h.Replay(t, "C19", "TestVerif_C19_DIDKey", c19KeyRun, h.PanicIsViolation(), h.Deadline(10*time.Second))
}

// ---------------------------------------------------------------------------------------------------------------------
// did:jwk

type c19JWKCase struct {
	Seed int            `json:"seed"`
	Plan c19x.Plan      `json:"plan"`
	Enc  string         `json:"enc"` // rawstd | std | rawurl | url
	Str  []c19x.ByteMut `json:"str,omitempty"`
}

func c19JWKSeeds() []map[string]any {
	ec := c19x.ECPublicJWK()
	edPub := ed25519.NewKeyFromSeed(bytes.Repeat([]byte{7}, 32)).Public().(ed25519.PublicKey)
	x384, y384 := elliptic.P384().ScalarBaseMult([]byte{1, 2, 3, 4, 5})
	return []map[string]any{
		ec,
		{"kty": "EC", "crv": "P-256", "x": ec["x"], "y": ec["y"], "kid": "key-1", "use": "sig", "alg": "ES256", "key_ops": []any{"verify"}},
		{"kty": "OKP", "crv": "Ed25519", "x": c19x.B64(edPub)},
		{"kty": "EC", "crv": "P-384", "x": c19x.B64(x384.FillBytes(make([]byte, 48))), "y": c19x.B64(y384.FillBytes(make([]byte, 48)))},
		{"kty": "RSA", "e": "AQAB", "n": c19x.B64(bytes.Repeat([]byte{0xc3}, 256))},
		// private key material: must be refused
		{"kty": "EC", "crv": "P-256", "x": ec["x"], "y": ec["y"], "d": c19x.B64(c19x.ECKey().D.FillBytes(make([]byte, 32)))},
		{"kty": "oct", "k": "AAECAwQFBgcICQoLDA0ODw"},
	}
}

var c19JWKKeys = []string{"kty", "crv", "x", "y", "d", "n", "e", "k", "p", "q", "dp", "dq", "qi", "kid", "use", "alg", "key_ops", "x5c", "x5t", "x5u", "x5t#S256"}

func c19JWKGen(t *rapid.T) c19JWKCase {
	c := c19JWKCase{
		Seed: rapid.IntRange(0, 6).Draw(t, "seed"),
		Plan: c19x.GenPlan(t, c19JWKKeys),
		Enc:  rapid.SampledFrom([]string{"rawstd", "rawstd", "rawstd", "rawstd", "std", "rawurl", "url"}).Draw(t, "enc"),
	}
	if rapid.IntRange(0, 9).Draw(t, "hasstr") == 0 {
		c.Str = c19x.GenByteMuts(t, "s")
	}
	return c
}

func c19JWKRun(x *h.Ctx, c c19JWKCase) {
	seeds := c19JWKSeeds()
	seed := seeds[((c.Seed%len(seeds))+len(seeds))%len(seeds)]
	body, applied := c.Plan.Apply(jsonmut.Encode(seed))
	if applied.Oversize {
		x.Class("skipped:oversize")
		return
	}
	for _, cl := range applied.Classes() {
		x.Class(cl)
	}
	var enc string
	switch c.Enc {
	case "std":
		enc = base64.StdEncoding.EncodeToString(body)
	case "rawurl":
		enc = base64.RawURLEncoding.EncodeToString(body)
	case "url":
		enc = base64.URLEncoding.EncodeToString(body)
	default:
		enc = base64.RawStdEncoding.EncodeToString(body)
	}
	idStr := "did:jwk:" + enc
	if len(c.Str) > 0 {
		idStr = string(c19x.ApplyBytes([]byte(idStr), c.Str, 1))
		x.Class("identifier-string-edited")
	}
	x.Class("enc=" + c.Enc)
	if id, err := did.ParseDID(idStr); err == nil && id.Method == "jwk" {
		if raw, err := base64.RawStdEncoding.DecodeString(id.ID); err == nil && c19x.IsJSON(raw) {
			x.NonTrivial() // did:jwk whose id decodes to JSON
			x.Class("stage1:decodes-to-JSON")
		}
	}
	c19x.Guard(x, func() {
		if c19UseDID(x, c19Router(&c19HTTP{status: 404}), idStr, []string{idStr + "#0", idStr + "#1"}) {
			x.Class("resolved")
		} else {
			x.Class("not-resolved")
		}
	})
}

func TestVerif_C19_DIDJWK(t *testing.T) {
	h.Check(t, "C19", c19JWKGen, c19JWKRun, h.PanicIsViolation(), h.Deadline(10*time.Second))
}

func TestVerifReplay_C19_DIDJWK(t *testing.T) {
	h.Replay(t, "C19", "TestVerif_C19_DIDJWK", c19JWKRun, h.PanicIsViolation(), h.Deadline(10*time.Second))
}

// ---------------------------------------------------------------------------------------------------------------------
// did:web

type c19WebCase struct {
	Seed   int       `json:"seed"`
	DID    string    `json:"did"` // which DID is resolved: root | path | port
	Plan   c19x.Plan `json:"plan"`
	CType  string    `json:"ctype"`
	Status int       `json:"status"`
}

var c19WebDIDs = map[string]string{"root": "did:web:example.com", "path": "did:web:example.com:iam:123", "port": "did:web:example.com%3A8443:x"}

func c19WebSeed(seed int, id string) []byte {
	ec, ec2 := c19x.ECPublicJWK(), map[string]any{}
	k2 := c19x.ECKey2()
	ec2["kty"], ec2["crv"] = "EC", "P-256"
	ec2["x"], ec2["y"] = c19x.B64(k2.X.FillBytes(make([]byte, 32))), c19x.B64(k2.Y.FillBytes(make([]byte, 32)))
	edPub := ed25519.NewKeyFromSeed(bytes.Repeat([]byte{9}, 32)).Public().(ed25519.PublicKey)
	ctx := []any{"https://www.w3.org/ns/did/v1", "https://w3c-ccg.github.io/lds-jws2020/contexts/lds-jws2020-v1.json"}
	var doc map[string]any
	switch seed {
	case 0: // what the node itself publishes
		doc = map[string]any{"@context": ctx, "id": id,
			"verificationMethod":   []any{map[string]any{"id": id + "#0", "type": "JsonWebKey2020", "controller": id, "publicKeyJwk": ec}},
			"assertionMethod":      []any{id + "#0"},
			"authentication":       []any{id + "#0"},
			"capabilityInvocation": []any{id + "#0"},
			"capabilityDelegation": []any{id + "#0"},
			"keyAgreement":         []any{id + "#0"},
		}
	case 1: // relative ids with an @base context (what baseUrl() exists for), several key types, embedded methods, services
		doc = map[string]any{"@context": append(append([]any{}, ctx...), map[string]any{"@base": id}), "id": id,
			"controller": []any{id},
			"verificationMethod": []any{
				map[string]any{"id": "#key-1", "type": "JsonWebKey2020", "controller": id, "publicKeyJwk": ec},
				map[string]any{"id": id + "#key-2", "type": "Ed25519VerificationKey2018", "controller": id, "publicKeyBase58": base58.Encode(edPub)},
				map[string]any{"id": id + "#key-3", "type": "Ed25519VerificationKey2020", "controller": id, "publicKeyMultibase": "z" + base58.Encode(edPub)},
			},
			"assertionMethod": []any{"#key-1", id + "#key-2"},
			"authentication":  []any{"#key-1", map[string]any{"id": id + "#key-4", "type": "JsonWebKey2020", "controller": id, "publicKeyJwk": ec2}},
			"keyAgreement":    []any{id + "#key-3"},
			"service": []any{
				map[string]any{"id": id + "#s1", "type": "oauth", "serviceEndpoint": "https://example.com/oauth"},
				map[string]any{"id": id + "#s2", "type": "ref", "serviceEndpoint": id + "/serviceEndpoint?type=oauth"},
				map[string]any{"id": id + "#s3", "type": "loop", "serviceEndpoint": id + "/serviceEndpoint?type=loop"},
				map[string]any{"id": id + "#s4", "type": "compound", "serviceEndpoint": map[string]any{"a": "https://example.com/a", "b": id + "/serviceEndpoint?type=oauth"}},
			},
			"alsoKnownAs": []any{"https://example.com/me"},
		}
	default: // singular forms (go-did normalises them to plural)
		doc = map[string]any{"@context": "https://www.w3.org/ns/did/v1", "id": id, "controller": id,
			"verificationMethod": map[string]any{"id": id + "#0", "type": "JsonWebKey2020", "controller": id, "publicKeyJwk": ec},
			"assertionMethod":    id + "#0",
			"service":            map[string]any{"id": id + "#s1", "type": "x", "serviceEndpoint": []any{"https://example.com/1", "https://example.com/2"}},
		}
	}
	return jsonmut.Encode(doc)
}

var c19WebKeys = []string{"@context", "@base", "id", "controller", "verificationMethod", "publicKeyJwk", "publicKeyBase58", "publicKeyMultibase", "assertionMethod",
	"authentication", "capabilityInvocation", "capabilityDelegation", "keyAgreement", "service", "serviceEndpoint", "type", "kty", "crv", "x", "y", "alsoKnownAs"}

func c19WebGen(t *rapid.T) c19WebCase {
	return c19WebCase{
		Seed:   rapid.IntRange(0, 2).Draw(t, "seed"),
		DID:    rapid.SampledFrom([]string{"root", "root", "path", "port"}).Draw(t, "did"),
		Plan:   c19x.GenPlan(t, c19WebKeys),
		CType:  rapid.SampledFrom([]string{"application/did+json", "application/did+json", "application/json", "application/did+ld+json; charset=utf-8", "application/json;", "text/html", ""}).Draw(t, "ctype"),
		Status: rapid.SampledFrom([]int{200, 200, 200, 200, 200, 204, 299, 404, 500}).Draw(t, "status"),
	}
}

func c19WebRun(x *h.Ctx, c c19WebCase) {
	idStr, ok := c19WebDIDs[c.DID]
	if !ok {
		idStr = c19WebDIDs["root"]
	}
	body, applied := c.Plan.Apply(c19WebSeed(((c.Seed%3)+3)%3, idStr))
	// 16 KiB bound for this target: go-did base58-decodes publicKeyBase58 / publicKeyMultibase of any length with a
	// quadratic decoder (120 KB take 4 s per PublicKey() call, 1 MiB minutes). That terminates, so it is not this oracle's
	// business (reported as an observation); without the bound it only produces load-dependent deadline hits.
	if applied.Oversize || len(body) > 16*1024 {
		x.Class("skipped:oversize(>16KiB)")
		return
	}
	for _, cl := range applied.Classes() {
		x.Class(cl)
	}
	if c19x.IsJSON(body) && c.Status >= 200 && c.Status < 300 {
		x.NonTrivial()
		x.Class("stage1:2xx-and-JSON")
	}
	stub := &c19HTTP{status: c.Status, ctype: c.CType, body: body}
	router := c19Router(stub)
	c19x.Guard(x, func() {
		keyIDs := []string{idStr + "#0", idStr + "#key-1", idStr + "#key-2", idStr + "#key-3", idStr + "#key-4", "#key-1", idStr + "#nope"}
		if c19UseDID(x, router, idStr, keyIDs) {
			x.Class("resolved")
		} else {
			x.Class("not-resolved")
		}
		sr := resolver.DIDServiceResolver{Resolver: router}
		id := did.MustParseDID(idStr)
		for _, st := range []string{"oauth", "ref", "loop", "compound", "x", "", "type"} {
			if _, err := sr.Resolve(resolver.MakeServiceReference(id, st), resolver.DefaultMaxServiceReferenceDepth); err == nil {
				x.Class("service-resolved")
			}
		}
		// service types present in the (mutated) document
		if doc, _, err := router.Resolve(id, nil); err == nil {
			for _, s := range doc.Service {
				_, _ = sr.Resolve(resolver.MakeServiceReference(id, s.Type), resolver.DefaultMaxServiceReferenceDepth)
				c19x.Own(x, func() {
					var asString string
					_ = s.UnmarshalServiceEndpoint(&asString)
					var asMap map[string]string
					_ = s.UnmarshalServiceEndpoint(&asMap)
				})
			}
		}
	})
	_ = ssi.URI{}
}

func TestVerif_C19_DIDWeb(t *testing.T) {
	h.Check(t, "C19", c19WebGen, c19WebRun, h.PanicIsViolation(), h.Deadline(10*time.Second))
}

func TestVerifReplay_C19_DIDWeb(t *testing.T) {
	h.Replay(t, "C19", "TestVerif_C19_DIDWeb", c19WebRun, h.PanicIsViolation(), h.Deadline(10*time.Second))
}
