//go:build verif

package didweb

// C18 native fuzz target (thorough tier): the identifier text. Input = a whole DID string. did:web goes through the same
// conversion + resolution oracles as TestVerif_C18_Web (reference parser, fake network; once with a plain "200 + right
// document" origin and once with an origin that redirects to another host), did:jwk / did:key through "no panic, no network,
// same outcome twice, document id == identifier".

import (
	"bytes"
	"encoding/json"
	"strings"
	"testing"

	"github.com/nuts-foundation/go-did/did"
	"github.com/nuts-foundation/nuts-node/http/client"
	"github.com/nuts-foundation/nuts-node/vdr/didjwk"
	"github.com/nuts-foundation/nuts-node/vdr/didkey"
	"github.com/nuts-foundation/nuts-node/vdr/resolver"
	"verif.local/h"
	"verif.local/h/c18net"
)

var c18FuzzScripts = [][]c18Resp{
	{{Status: 200, CT: "application/did+json", Body: "exact"}},
	{{Status: 302, Loc: "host"}, {Status: 200, CT: "application/json", Body: "exact"}},
}

func c18FuzzBody(x *h.Ctx, data []byte) {
	s := string(data)
	if len(s) > 2048 {
		return
	}
	switch {
	case strings.HasPrefix(s, "did:web:"):
		id := s[len("did:web:"):]
		for i, sc := range c18FuzzScripts {
			c18RunWeb(x, c18WebCase{ID: id, Strict: true, Cache: i == 1, Script: sc, Order: []string{"after", "before"}[i]})
		}
		// and the struct-literal route (no-panic only outside the grammar)
		c18RunWeb(x, c18WebCase{ID: id, Raw: true, Strict: true, Script: c18FuzzScripts[0]})
	case strings.HasPrefix(s, "did:jwk:"), strings.HasPrefix(s, "did:key:"):
		p, err := did.ParseDID(s)
		if err != nil {
			x.Class("outcome:did-parse-rejected")
			return
		}
		nw := c18net.Forbid()
		old := client.DefaultCachingTransport
		client.DefaultCachingTransport = nw
		defer func() { client.DefaultCachingTransport = old }()
		var r1, r2 resolver.DIDResolver
		if p.Method == "jwk" {
			r1, r2 = didjwk.NewResolver(), &didjwk.Resolver{}
		} else {
			r1, r2 = didkey.NewResolver(), &didkey.Resolver{}
		}
		x.Class("method:" + p.Method)
		d1, _, e1 := r1.Resolve(*p, nil)
		d2, _, e2 := r2.Resolve(*p, nil)
		if len(nw.Log()) > 0 {
			x.Violate(p.Method+"-net:request", "resolving %s touched the network", s)
		}
		if (e1 == nil) != (e2 == nil) {
			x.Violate(p.Method+"-pure:outcome-differs", "two resolutions of %s: %v vs %v", s, e1, e2)
			return
		}
		if e1 != nil {
			x.Class("resolve:error")
			return
		}
		x.Class("resolve:ok")
		x.NonTrivial()
		if d1 == nil || d2 == nil {
			x.Violate(p.Method+"-result:nil-doc", "Resolve(%s) returned neither error nor document", s)
			return
		}
		if d1.ID.String() != p.String() {
			x.Violate(p.Method+"-docid:differs", "Resolve(%s) returned document id %s", s, d1.ID)
		}
		b1, _ := json.Marshal(d1)
		b2, _ := json.Marshal(d2)
		if !bytes.Equal(b1, b2) {
			x.Violate(p.Method+"-pure:bytes-differ", "two resolutions of %s gave different documents", s)
		}
	default:
		x.Class("other-method-or-garbage")
		if p, err := did.ParseDID(s); err == nil {
			// wrong method for every resolver: must be refused cleanly
			if _, _, err := NewResolver().Resolve(*p, nil); err == nil && p.Method != MethodName {
				x.Violate("web-method:foreign-method-resolved", "didweb resolved %s", s)
			}
			_, _ = DIDToURL(*p)
		}
	}
}

func FuzzVerif_C18_Ident(f *testing.F) {
	for _, hst := range c18HostileHosts {
		f.Add([]byte("did:web:" + hst))
		f.Add([]byte("did:web:" + hst + ":iam:x"))
	}
	for _, sg := range c18OddSegs {
		f.Add([]byte("did:web:example.com:" + sg))
		f.Add([]byte("did:web:example.com%3A8443:a:" + sg + ":b"))
	}
	for _, e := range c18NonSafeEsc {
		f.Add([]byte("did:web:example.com:a" + e + "b"))
	}
	for _, sd := range []string{
		"did:web:example.com", "did:web:localhost%3A3000:alice%2Band%2Bbob:path", "did:web:localhost:x:y%2Fz", "did:web:localhost:x:y:%2E%2E:z",
		"did:jwk:eyJjcnYiOiJQLTI1NiIsImt0eSI6IkVDIiwieCI6ImFjYklRaXVNczNpOF91c3pFakoydHBUdFJNNEVVM3l6OTFQSDZDZEgyVjAiLCJ5IjoiX0tjeUxqOXZXTXB0bm1LdG00NkdxRHo4d2Y3NEk1TEtncmwyR3pIM25TRSJ9",
		"did:jwk:e30", "did:jwk:eyJrdHkiOiJvY3QiLCJrIjoiQUFBQSJ9",
		"did:key:z6MkiTBz1ymuepAQ4HEHYSF1H8quG5GLVVQR3djdX3mDooWp", "did:key:z6LSeu9HkTHSfLLeUs2nnzUSNedgDUevfNQgQjQC23ZCit6F",
		"did:key:zDnaeucDGfhXHoJVqot3p21RuupNJ2fZrs8Lb1GV83VnSo2jR", "did:key:z82Lm1MpAkeJcix9K8TMiLd5NMAhnwkjjCBeWHXyu3U4oT2MVJJKXkcVBgjGhnLBn2Kaau9",
		"did:key:z2J9gaYxrKVpdoG9A4gRnmpnRCcxU6agDtFVVBVdn1JedouoZN7SzcyREXXzWgt3gGiwpoHq7K68X4m32D8HgzG8wv3sY5j7",
		"did:key:zQ3shbgnTGcgBpXPdBjDur3ATMDWhS7aPs6FRFkWR19Lb9Zwz", "did:key:z", "did:key:foo", "did:example:123", "",
	} {
		f.Add([]byte(sd))
	}
	f.Fuzz(func(t *testing.T, data []byte) {
		h.Fuzz(t, "C18", "FuzzVerif_C18_Ident", data, func(x *h.Ctx) { c18FuzzBody(x, data) }, h.PanicIsViolation())
	})
}

type c18FuzzCase struct {
	In []byte `json:"fuzz_input"`
}

func TestVerifReplay_C18_Ident(t *testing.T) {
	h.Replay(t, "C18", "FuzzVerif_C18_Ident", func(x *h.Ctx, c c18FuzzCase) { c18FuzzBody(x, c.In) }, h.PanicIsViolation())
}
