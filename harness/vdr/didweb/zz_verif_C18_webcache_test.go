//go:build verif

package didweb

// C18 (did:web, several resolutions over ONE caching transport): the response cache that sits under client.NewWithCache()
// (http/engine.go installs client.NewCachingTransport as client.DefaultCachingTransport) must not weaken the origin binding.
// A case is a family of RELATED identifiers (same host with other / no / empty / default port, other case, trailing dot,
// sub-domain, parent / child / %2F / query-ish paths, .well-known and did.json collisions, user-info near-misses) and 2-4
// resolutions of members of the family. Every scripted answer is tagged with the number of the request it answered (a service
// entry in the document) and may carry ANY member's id (an origin is free to serve a document that claims another origin's
// identifier) with cacheable headers.
// Oracle (provenance): every request of a step is bound to that step's identifier (as in TestVerif_C18_Web), and every
// resolution that SUCCEEDS returns a document whose tag names a request — of this or an earlier step — that went to exactly
// the origin and path its identifier encodes. A document obtained from another origin or path, directly or through the
// cache, is a violation.

import (
	"encoding/json"
	"fmt"
	"net/http"
	"strings"
	"testing"

	"github.com/nuts-foundation/go-did/did"
	"github.com/nuts-foundation/nuts-node/http/client"
	"pgregory.net/rapid"
	"verif.local/h"
	"verif.local/h/c18net"
)

type c18CacheStep struct {
	V      int    `json:"v"`                // which member of the family is resolved (modulo family size)
	BodyOf int    `json:"body_of"`          // -1: the served document carries the requested id; j: the id resolved by step j (modulo steps)
	CC     string `json:"cc,omitempty"`     // Cache-Control of the answer
	Status int    `json:"status,omitempty"` // 0 = 200
}

type c18CacheCase struct {
	Host   string         `json:"host"` // base host (lower case LDH domain name)
	Path   []string       `json:"path"` // base path pieces (clean)
	Steps  []c18CacheStep `json:"steps"`
	Strict bool           `json:"strict"`
}

// c18Family lists the related method-specific ids of a base host and path.
func c18Family(host string, path []string) []string {
	join := func(hst string, segs ...string) string {
		if len(segs) == 0 {
			return hst
		}
		return hst + ":" + strings.Join(segs, ":")
	}
	with := func(extra ...string) []string { return append(append([]string{}, path...), extra...) }
	parent := []string{"did.json"}
	if len(path) > 0 {
		parent = path[:len(path)-1]
	}
	slash := []string{"x%2Fy"}
	if len(path) >= 2 {
		slash = append(append([]string{}, path[:len(path)-2]...), path[len(path)-2]+"%2F"+path[len(path)-1])
	}
	query := with("q%3Fx")
	if len(path) > 0 {
		query = append(append([]string{}, path[:len(path)-1]...), path[len(path)-1]+"%3Fq")
	}
	return []string{
		join(host, path...),                          // 0 base
		join(host+"%3A8443", path...),                // 1 other port
		join(host+"%3A443", path...),                 // 2 default port, explicit
		join(host+"%3A", path...),                    // 3 empty port
		join(host+"%3A8080", path...),                // 4 another port
		join(strings.ToUpper(host), path...),         // 5 case variant
		join(host+".", path...),                      // 6 trailing dot
		join("sub."+host, path...),                   // 7 sub-domain
		join(host, with("x")...),                     // 8 child path
		join(host, parent...),                        // 9 parent path (or :did.json)
		join(host, with(".well-known")...),           // 10 .well-known collision
		join(host, slash...),                         // 11 encoded slash
		join(host, query...),                         // 12 query-ish
		join(host+"%3A8443", with("x")...),           // 13 other port + child
		join("user%40"+host, path...),                // 14 user-info (must be refused)
		join(host+"%40evil.example", path...),        // 15 user-info the other way round
		join(host+"%3A8443%40evil.example", path...), // 16
		join(host+"%2Fevil", path...),                // 17 path smuggled into the host piece
	}
}

func c18GenWebCache(t *rapid.T) c18CacheCase {
	c := c18CacheCase{
		Host:   rapid.SampledFrom([]string{"example.com", "localhost", "nuts.example.nl", "a.b"}).Draw(t, "host"),
		Strict: rapid.IntRange(0, 3).Draw(t, "strict") != 0,
	}
	np := rapid.SampledFrom([]int{0, 0, 1, 2, 2}).Draw(t, "npath")
	for i := 0; i < np; i++ {
		c.Path = append(c.Path, rapid.SampledFrom([]string{"iam", "alice", "a", "v1"}).Draw(t, "seg"))
	}
	if c.Path == nil {
		c.Path = []string{}
	}
	n := rapid.IntRange(2, 4).Draw(t, "steps")
	fam := len(c18Family(c.Host, c.Path))
	for i := 0; i < n; i++ {
		s := c18CacheStep{BodyOf: -1}
		if rapid.IntRange(0, 9).Draw(t, "anyvariant") < 6 {
			s.V = rapid.IntRange(0, 6).Draw(t, "v") // authority variants: where a cache key is most likely to be too coarse
		} else {
			s.V = rapid.IntRange(0, fam-1).Draw(t, "v")
		}
		if rapid.IntRange(0, 9).Draw(t, "foreignid") < 6 {
			s.BodyOf = rapid.IntRange(0, n-1).Draw(t, "bodyof")
		}
		s.CC = rapid.SampledFrom([]string{"max-age=60", "max-age=60", "public, max-age=3600", "max-age=60", "", "no-store", "private, max-age=60"}).Draw(t, "cc")
		if rapid.IntRange(0, 11).Draw(t, "status") == 0 {
			s.Status = rapid.SampledFrom([]int{404, 301, 500, 203}).Draw(t, "statuscode")
		}
		c.Steps = append(c.Steps, s)
	}
	return c
}

// c18SameOrigin: did the request go to exactly the origin and path the identifier encodes? Host case and an explicit default
// port are not differences (same origin); everything else is.
func c18SameOrigin(r c18Ref, e c18net.Entry) bool {
	wantHost, wantPort := r.Hostname, r.Port
	if strings.HasSuffix(r.HostDec, ":") {
		wantHost, wantPort, _ = c18net.SplitHostPort(strings.TrimSuffix(r.HostDec, ":"))
	}
	defaultPort := func(p string) string {
		if p == "443" {
			return ""
		}
		return p
	}
	if !strings.EqualFold(e.Hostname, wantHost) || defaultPort(e.Port) != defaultPort(wantPort) {
		return false
	}
	// authority is the same origin; let the single-request oracle judge the rest (scheme, user-info, IP, query, path)
	e.Hostname, e.Port = wantHost, wantPort
	return c18Deviation(r, e) == ""
}

func c18RunWebCache(x *h.Ctx, c c18CacheCase) {
	if len(c.Steps) > 8 || len(c.Path) > 4 || !c18CleanHost.MatchString(c.Host) {
		return
	}
	fam := c18Family(c.Host, c.Path)
	ids := make([]string, len(c.Steps))
	for i, s := range c.Steps {
		ids[i] = "did:web:" + fam[((s.V%len(fam))+len(fam))%len(fam)]
	}

	// one network, one caching transport for the whole case
	var served []c18net.Entry // request number -> where that request went
	var cur c18CacheStep
	var curSelf string
	nw := &c18net.Net{}
	nw.Respond = func(_ int, r *http.Request) c18net.Answer {
		n := len(served)
		served = append(served, c18net.Entry{}) // filled from the log after the step
		id := curSelf
		if cur.BodyOf >= 0 {
			id = ids[cur.BodyOf%len(ids)]
		}
		body, _ := json.Marshal(map[string]any{
			"@context": "https://www.w3.org/ns/did/v1",
			"id":       id,
			"service":  []any{map[string]any{"id": id + "#origin", "type": fmt.Sprintf("c18-request-%d", n), "serviceEndpoint": "https://example.com/tag"}},
		})
		hd := http.Header{}
		hd.Set("Content-Type", "application/did+json")
		if cur.CC != "" {
			hd.Set("Cache-Control", cur.CC)
		}
		st := cur.Status
		if st == 0 {
			st = 200
		}
		if st == 301 {
			hd.Set("Location", "https://evil.example/did.json")
		}
		return c18net.Answer{Status: st, Header: hd, Body: body}
	}
	oldT, oldStrict := client.DefaultCachingTransport, client.StrictMode
	defer func() { client.DefaultCachingTransport, client.StrictMode = oldT, oldStrict }()
	client.DefaultCachingTransport = client.NewCachingTransport(nw, 10*1024*1024)
	client.StrictMode = c.Strict

	fetched := map[string]bool{} // request URLs seen so far in the case
	anyHit, anyForeign := false, false
	for i, s := range c.Steps {
		self := ids[i]
		ref := c18Reference(self[len("did:web:"):])
		p, err := did.ParseDID(self)
		if err != nil {
			x.Class("step:did-parse-rejected")
			continue
		}
		cur, curSelf = s, self
		if s.BodyOf >= 0 && ids[s.BodyOf%len(ids)] != self {
			anyForeign = true
		}
		before := len(nw.Traffic())
		doc, _, rerr := NewResolver().Resolve(*p, nil)
		traffic := nw.Traffic()
		step := traffic[before:]
		for k, e := range step {
			if before+k < len(served) {
				served[before+k] = e
			}
		}
		h.Count("C18", x.Unit, "outbound_requests", len(step))

		// every request of this step is bound to this step's identifier
		firstTime := true
		for _, e := range step {
			if dev := c18Deviation(ref, e); dev != "" {
				x.Violate("cache-origin:request:"+dev, "step %d: Resolve(%s) sent a request to %s; the identifier encodes https://%s%s", i, self, e.URL, ref.HostDec, c18ExpectedPath(ref))
			}
			if fetched[e.URL] {
				firstTime = false
			}
		}
		if rerr != nil {
			x.Class("step:error")
			if doc != nil {
				x.Violate("cache-result:doc-with-error", "step %d: Resolve(%s) returned an error together with a document", i, self)
			}
			// positive direction: first fetch of this URL in the case, right document served: must resolve
			if ref.Clean && len(step) == 1 && firstTime && s.BodyOf < 0 && s.Status == 0 {
				x.Violate("cache-resolve:clean-rejected", "step %d: Resolve(%s) = %v although its origin served the right document on the first fetch of %s", i, self, rerr, step[0].URL)
			}
		} else {
			x.Class("step:ok")
			if doc == nil {
				x.Violate("cache-result:nil-doc", "step %d: Resolve(%s) returned neither error nor document", i, self)
				continue
			}
			if doc.ID.String() != self {
				x.Violate("cache-docid:mismatch-accepted", "step %d: Resolve(%s) returned a document with id %s", i, self, doc.ID)
			}
			// provenance: which request produced the returned document?
			src := -1
			for _, sv := range doc.Service {
				if _, err := fmt.Sscanf(sv.Type, "c18-request-%d", &src); err == nil {
					break
				}
			}
			if src < 0 || src >= len(served) {
				x.Fatalf("step %d: returned document of %s carries no request tag: %+v", i, self, doc.Service)
			}
			from := served[src]
			if src < before {
				anyHit = true
				x.Class("step:served-from-cache")
			}
			if !c18SameOrigin(ref, from) {
				how := "directly"
				if src < before {
					how = fmt.Sprintf("from the cache (fetched in an earlier step; this step made %d requests)", len(step))
				}
				x.Violate("cache-origin:document-from-other-origin", "step %d: Resolve(%s) returned a document that was obtained %s from %s; the identifier encodes https://%s%s. Steps: %s", i, self, how, from.URL, ref.HostDec, c18ExpectedPath(ref), strings.Join(ids, " , "))
			}
		}
		for _, e := range step {
			fetched[e.URL] = true
		}
	}
	if anyHit {
		x.Class("case:has-cache-hit")
		x.NonTrivial()
	}
	if anyForeign {
		x.Class("case:origin-serves-foreign-id")
	}
	distinct := map[string]bool{}
	for _, id := range ids {
		distinct[id] = true
	}
	if len(distinct) > 1 {
		x.Class("case:related-identifiers>1")
		if anyForeign {
			x.NonTrivial()
		}
	}
}

func TestVerif_C18_WebCache(t *testing.T) {
	h.Check(t, "C18", c18GenWebCache, c18RunWebCache, h.PanicIsViolation())
}

func TestVerifReplay_C18_WebCache(t *testing.T) {
	h.Replay(t, "C18", "TestVerif_C18_WebCache", c18RunWebCache, h.PanicIsViolation())
}
