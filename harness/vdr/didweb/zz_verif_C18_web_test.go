//go:build verif

package didweb

// C18 (did:web): resolution binds the document to the identifier and to the right origin.
//
// A case is a did:web method-specific id (valid or near-valid) plus a script of server answers. The harness
//   - reads the identifier with its own reference parser (c18Reference; stdlib only, independent of util.go),
//   - runs DIDToURL / URLToDID and the production-built Resolver (NewResolver() -> client.NewWithCache ->
//     client.DefaultCachingTransport) against a recording fake network (verif.local/h/c18net, no sockets; every redirect hop
//     is a separate RoundTrip and therefore a separate log entry),
//   - and applies the oracles of DESIGN §3 C18: (1) round-trip law on the statement's sub-domain, (2) origin binding of every
//     logged request, (3) returned document id == identifier, else error.

import (
	"encoding/json"
	"fmt"
	"mime"
	"net/http"
	"net/url"
	"regexp"
	"strconv"
	"strings"
	"testing"

	"github.com/nuts-foundation/go-did/did"
	"github.com/nuts-foundation/nuts-node/http/client"
	"golang.org/x/net/idna"
	"pgregory.net/rapid"
	"verif.local/h"
	"verif.local/h/c18net"
)

// ---------------------------------------------------------------------------------------------------------------------
// case

type c18Resp struct {
	Status int    `json:"status"`
	CT     string `json:"ct,omitempty"`   // Content-Type header ("" = header absent)
	Body   string `json:"body,omitempty"` // body kind, see c18Body
	Loc    string `json:"loc,omitempty"`  // Location kind for 3xx, see c18Location
	CC     string `json:"cc,omitempty"`   // Cache-Control header
}

type c18WebCase struct {
	ID     string    `json:"id"`     // method-specific id: the text after "did:web:"
	Raw    bool      `json:"raw"`    // build did.DID{Method:"web", ID: ID} directly instead of did.ParseDID (as util_test.go does for IPv6)
	Strict bool      `json:"strict"` // client.StrictMode
	Cache  bool      `json:"cache"`  // put the production CachingRoundTripper in front of the network (http/engine.go does when enabled)
	Script []c18Resp `json:"script"` // i-th outbound request gets Script[i]; beyond the script: 404
	// Order is the life cycle of the resolver relative to the node's HTTP client configuration (http/engine.go configureClient
	// sets client.DefaultCachingTransport = client.NewCachingTransport(...) when the cache is enabled; cmd/root.go registers the
	// HTTP engine last, so vdr.Module.Configure creates the resolver BEFORE that happens):
	// "" / "after": transport installed, then NewResolver() · "before": NewResolver() first, transport (re)configured afterwards ·
	// "replaced": installed, NewResolver(), then configured once more.
	Order string `json:"order,omitempty"`
}

// ---------------------------------------------------------------------------------------------------------------------
// reference reading of the identifier (independent of util.go)

type c18Ref struct {
	Segs     []string // raw pieces between ':'
	HostDec  string   // first piece, percent-decoded once
	HostOK   bool     // the first piece had only well-formed escapes
	Hostname string   // HostDec without port (IPv6 brackets stripped)
	Port     string
	Grammar  bool     // whole id is inside the DID idchar grammar (what did.ParseDID can return)
	Clean    bool     // inside the statement's round-trip sub-domain
	NonSafe  bool     // clean, and some escape decodes to a byte outside unreserved / sub-delims / ":" / "@" / "/"
	Feat     []string // class labels
}

var (
	c18LabelRe   = `[A-Za-z0-9](?:[A-Za-z0-9-]{0,61}[A-Za-z0-9])?`
	c18CleanHost = regexp.MustCompile(`^(?:` + c18LabelRe + `\.)*(` + c18LabelRe + `)(?:%3A([0-9]{1,5}))?$`)
	c18CleanSeg  = regexp.MustCompile(`^(?:[A-Za-z0-9._-]|%[0-9A-F]{2})+$`)
	c18Grammar   = regexp.MustCompile(`^(?:[A-Za-z0-9._:-]|%[0-9a-fA-F]{2})+$`)
	c18Escape    = regexp.MustCompile(`%[0-9a-fA-F]{2}`)
)

const c18PathSafe = "ABCDEFGHIJKLMNOPQRSTUVWXYZabcdefghijklmnopqrstuvwxyz0123456789-._~!$&'()*+,;=:@/"

func c18Reference(id string) c18Ref {
	r := c18Ref{Segs: strings.Split(id, ":")}
	r.HostDec, r.HostOK = c18net.PctDecode(r.Segs[0])
	r.Hostname, r.Port, _ = c18net.SplitHostPort(r.HostDec)
	r.Grammar = c18Grammar.MatchString(id)
	feat := func(f string) { r.Feat = append(r.Feat, f) }

	// --- the statement's sub-domain: domain name, optional port, path segments free of query, fragment and
	// doubly-encoded characters (canonical upper-case escapes; a final "did.json" is excluded because URLToDID documents
	// that it strips it)
	clean := false
	if m := c18CleanHost.FindStringSubmatch(r.Segs[0]); m != nil {
		clean = true
		tld := m[1]
		if strings.Trim(tld, "0123456789") == "" { // all-numeric last label: dotted quad or inet_aton style number, not a domain name
			clean = false
		}
		if m[2] != "" {
			if p, _ := strconv.Atoi(m[2]); p > 65535 {
				clean = false
			}
		}
		if len(r.Hostname) > 253 {
			clean = false
		}
	}
	for _, s := range r.Segs[1:] {
		if !c18CleanSeg.MatchString(s) {
			clean = false
			continue
		}
		for _, e := range c18Escape.FindAllString(s, -1) {
			switch e {
			case "%25", "%3F", "%23":
				clean = false
			}
			dec, _ := c18net.PctDecode(e)
			if !strings.Contains(c18PathSafe, dec) {
				r.NonSafe = true
			}
		}
	}
	if n := len(r.Segs); n > 1 && r.Segs[n-1] == "did.json" {
		clean = false
		feat("last-segment-did.json(documented-strip)")
	}
	r.Clean = clean
	if !clean {
		r.NonSafe = false
	}

	// --- class labels
	switch {
	case clean && r.NonSafe:
		feat("domain:clean+pct-nonsafe")
	case clean:
		feat("domain:clean")
	case r.Grammar:
		feat("domain:near-miss")
	default:
		feat("domain:outside-did-grammar")
	}
	if strings.Contains(r.Segs[0], "%3A") || strings.Contains(r.Segs[0], "%3a") {
		feat("port")
	}
	if strings.Contains(id, "%") {
		feat("pct-escape")
	}
	if strings.Contains(strings.ToLower(id), "%25") {
		feat("double-encoding")
	}
	if strings.Contains(strings.ToLower(strings.Join(r.Segs[1:], ":")), "%2f") {
		feat("pct-slash-in-path")
	}
	if n := len(r.Segs) - 1; n >= 2 {
		feat("path-segments>=2")
	} else if n == 1 {
		feat("path-segments=1")
	} else {
		feat("path-segments=0")
	}
	for _, s := range r.Segs[1:] {
		if s == "" {
			feat("empty-segment")
		}
		if d, _ := c18net.PctDecode(s); d == "." || d == ".." {
			feat("dot-segment")
		}
	}
	if c18net.IsIPLiteral(r.Hostname) || c18net.IsIPLiteral(r.HostDec) {
		feat("host:ip-literal")
	} else if !c18net.IsASCII(r.Hostname) {
		if a, err := idna.Lookup.ToASCII(r.Hostname); err == nil && c18net.IsIPLiteral(a) {
			feat("host:ip-after-idna-mapping")
		} else {
			feat("host:non-ascii")
		}
	} else if c18InetAton(r.Hostname) {
		feat("host:inet_aton-number")
	}
	if strings.Contains(r.HostDec, "@") {
		feat("host:userinfo")
	}
	if strings.ContainsAny(r.HostDec, "/?#\\") {
		feat("host:path-query-fragment-chars")
	}
	if strings.ContainsAny(r.HostDec, " \t\r\n\x00") {
		feat("host:space-or-control")
	}
	if r.Segs[0] != strings.ToLower(r.Segs[0]) {
		feat("host:mixed-case")
	}
	return r
}

// c18InetAton: 1-4 dot separated numbers (decimal, 0x hex, 0 octal) that are not a dotted quad: what inet_aton, but not Go, reads as IPv4.
func c18InetAton(h string) bool {
	parts := strings.Split(strings.TrimSuffix(h, "."), ".")
	if len(parts) == 0 || len(parts) > 4 || h == "" {
		return false
	}
	for _, p := range parts {
		if p == "" {
			return false
		}
		if _, err := strconv.ParseUint(p, 0, 32); err != nil {
			return false
		}
	}
	return !c18net.IsIPLiteral(h)
}

// c18ExpectedPath is the escaped path the identifier encodes, in the spec's reading (pieces verbatim).
func c18ExpectedPath(r c18Ref) string {
	if len(r.Segs) == 1 {
		return "/.well-known/did.json"
	}
	return "/" + strings.Join(r.Segs[1:], "/") + "/did.json"
}

// c18PathMatches compares an escaped request path with the identifier piece by piece: same number of pieces, each equal
// after one percent-decoding (so "%2B" vs "+" is not a difference, but "%2F" turned into a separator is).
func c18PathMatches(r c18Ref, escPath string, suffix bool) bool {
	want := append([]string{}, r.Segs[1:]...)
	if suffix {
		if len(want) == 0 {
			want = append(want, ".well-known")
		}
		want = append(want, "did.json")
	}
	if len(want) == 0 {
		return escPath == "" || escPath == "/"
	}
	got := strings.Split(escPath, "/")
	if len(got) != len(want)+1 || got[0] != "" {
		return false
	}
	for i, w := range want {
		wd, _ := c18net.PctDecode(w)
		gd, _ := c18net.PctDecode(got[i+1])
		if wd != gd {
			return false
		}
	}
	return true
}

// c18Deviation tells in which respect a logged request is not "https, no user-info, the identifier's host (never an IP), the
// identifier's path". "" = bound correctly.
func c18Deviation(r c18Ref, e c18net.Entry) string {
	if e.Scheme != "https" {
		return "scheme"
	}
	if e.UserInfo {
		return "userinfo"
	}
	wantHost, wantPort := r.Hostname, r.Port
	if strings.HasSuffix(r.HostDec, ":") {
		// http.NewRequest drops an empty port ("example.com:" -> "example.com") before the request reaches the transport
		wantHost, wantPort, _ = c18net.SplitHostPort(strings.TrimSuffix(r.HostDec, ":"))
	}
	if e.Hostname != wantHost || e.Port != wantPort {
		return "host"
	}
	if c18net.IsIPLiteral(e.Hostname) {
		return "ip-literal"
	}
	if !c18net.IsASCII(e.Hostname) {
		// net/http (canonicalAddr) maps a non-ASCII host with idna.Lookup before dialling: that is where the connection goes
		if a, err := idna.Lookup.ToASCII(e.Hostname); err == nil && c18net.IsIPLiteral(a) {
			return "ip-idna"
		}
	}
	if e.RawQuery != "" || e.Fragment != "" {
		return "query"
	}
	if !c18PathMatches(r, e.EscPath, true) {
		if strings.Contains(strings.ToLower(strings.Join(r.Segs[1:], ":")), "%2f") {
			return "path:pct-slash"
		}
		return "path"
	}
	return ""
}

// ---------------------------------------------------------------------------------------------------------------------
// script rendering

var c18AllowedCT = map[string]bool{"application/did+ld+json": true, "application/did+json": true, "application/json": true}

func c18FlipCase(s string) string {
	b := []byte(s)
	for i := len("did:web:"); i < len(b); i++ {
		switch {
		case 'a' <= b[i] && b[i] <= 'z':
			b[i] -= 32
			return string(b)
		case 'A' <= b[i] && b[i] <= 'Z':
			b[i] += 32
			return string(b)
		}
	}
	return s
}

// c18BodyID is the id the served document carries for a body kind ("" = the body has no usable id).
func c18BodyID(kind, self string) string {
	alt := ""
	switch kind {
	case "exact":
		return self
	case "other":
		alt = "did:web:evil.example"
	case "example":
		alt = "did:example:123"
	case "child":
		alt = self + ":x"
	case "parent":
		if i := strings.LastIndex(self[len("did:web:"):], ":"); i >= 0 {
			alt = self[:len("did:web:")+i]
		}
	case "case":
		alt = c18FlipCase(self)
	case "urlequiv":
		// another identifier that maps to the same URL
		rest := self[len("did:web:"):]
		switch {
		case strings.Contains(rest, "%2F"):
			alt = "did:web:" + strings.Replace(rest, "%2F", ":", 1)
		case strings.Contains(rest, "."):
			alt = "did:web:" + strings.Replace(rest, ".", "%2E", 1)
		case strings.Contains(rest, "-"):
			alt = "did:web:" + strings.Replace(rest, "-", "%2D", 1)
		}
	default:
		return ""
	}
	if alt == "" || alt == self {
		alt = "did:web:evil.example"
	}
	return alt
}

func c18Body(kind, self string) []byte {
	doc := func(id string) []byte {
		b, _ := json.Marshal(map[string]any{"@context": "https://www.w3.org/ns/did/v1", "id": id})
		return b
	}
	switch kind {
	case "noid":
		return []byte(`{"@context":"https://www.w3.org/ns/did/v1"}`)
	case "arrayid":
		b, _ := json.Marshal(map[string]any{"id": []string{self}})
		return b
	case "notjson":
		return []byte("<html>not a did document</html>")
	case "empty", "":
		return nil
	case "big":
		// a correct document pushed beyond the 1 MiB response limit of the strict client
		return append(doc(self), []byte(strings.Repeat(" ", client.DefaultMaxHttpResponseSize+1))...)
	}
	return doc(c18BodyID(kind, self))
}

func c18Location(kind string, first *url.URL) (string, bool) {
	p := first.EscapedPath()
	switch kind {
	case "same":
		return first.String(), true
	case "path":
		return "https://" + first.Host + "/moved" + p, true
	case "rel":
		return "/moved/did.json", true
	case "relup":
		return "../did.json", true
	case "host":
		return "https://evil.example" + p, true
	case "sub":
		return "https://evil." + first.Host + p, true
	case "http":
		return "http://" + first.Host + p, true
	case "httphost":
		return "http://evil.example/did.json", true
	case "ip":
		return "https://127.0.0.1" + p, true
	case "meta":
		return "http://169.254.169.254/latest/meta-data/", true
	case "ip6":
		return "https://[::1]/did.json", true
	case "user":
		return "https://user:pw@" + first.Host + p, true
	case "port":
		return "https://" + first.Hostname() + ":8443" + p, true
	case "schemerel":
		return "//evil.example/did.json", true
	case "file":
		return "file:///etc/passwd", true
	case "bad":
		return "https://%zz/", true
	}
	return "", false // "none"
}

// ---------------------------------------------------------------------------------------------------------------------
// generator

var c18GenLabels = []string{"example", "com", "localhost", "nodeA", "nuts", "nl", "sub", "xn--exmple-cua", "a", "EXAMPLE", "Example", "a-b", "0", "1e100", "test", "x1", "WWW"}

var c18HostileHosts = []string{
	// IP literals and their encodings
	"127.0.0.1", "10.0.0.1", "169.254.169.254", "0.0.0.0", "127%2E0%2E0%2E1", "127.0.0.1.", "%31%32%37.0.0.1", "1.2.3.4",
	"%5B%3A%3A1%5D", "%5B%3A%3Affff%3A127.0.0.1%5D", "%5Bfe80%3A%3A1%2525eth0%5D", "%5Bfe80%3A%3A1%25eth0%5D", "%3A%3A1", "%5B%3A%3A1", "%5B2001%3Adb8%3A%3A1%5D",
	"%5b%3a%3a1%5d",
	// numbers that inet_aton (not Go) reads as IPv4
	"2130706433", "0x7f.0.0.1", "127.1", "0177.0.0.1", "0x7f000001",
	// characters that IDNA compatibility mapping turns into digits and dots
	"%EF%BC%91%EF%BC%92%EF%BC%97.%EF%BC%90.%EF%BC%90.%EF%BC%91", "%EF%BC%91%EF%BC%92%EF%BC%97%E3%80%82%EF%BC%90%E3%80%82%EF%BC%90%E3%80%82%EF%BC%91",
	"127.0.0.%EF%BC%91", "%E2%91%A0%E2%91%A1%E2%91%A6.0.0.1", "127%E3%80%820.0.1", "169.254.169.%EF%BC%92%EF%BC%95%EF%BC%94",
	// user-info
	"user%40example.com", "user%3Apw%40example.com", "example.com%40evil.example", "%40example.com", "example.com%3A443%40evil.example",
	// path / query / fragment smuggled into the host piece
	"example.com%2Fpath", "example.com%2F..%2F", "%2F%2Fevil.example", "example.com%3A443%2Fpath", "example.com%3Fq", "example.com%23f",
	"example.com%5Cevil.example", "example.com%5C%40evil.example", "evil.example%23.example.com", "evil.example%3F.example.com", "example.com%3B.evil.example",
	// whitespace, control, NUL
	"example.com%20", "%20example.com", "example.com%09", "example.com%0A", "example.com%0D%0AHost%3A%20evil", "example.com%00", "example.com%00.evil.example",
	// double encoding
	"example.com%252Fx", "example.com%2540evil.example", "example.com%253A443", "%2531%2532%2537.0.0.1",
	// odd but harmless
	"ex%61mple.com", "ex%C3%A4mple.com", "%FF.example.com", "example_underscore.com", ".", "..", "a..b", "-a.com", "%2E", "%2e%2e", "example.com%2E",
	"example.com.", "xn--", "%25", "%E2%80%AE.example.com",
}

var c18RawOnlyHosts = []string{
	"user@example.com", "example.com/path", "example.com?x", "example.com#f", "[::1]", "[%3A%3A1]", "example.com\\evil.example", "example.com evil",
	"exämple.com", "%", "%zz", "%4", "", "１２７.0.0.1",
}

var c18Ports = []string{"%3A443", "%3A3000", "%3A8080", "%3A1", "%3A65535", "%3A0443"}
var c18OddPorts = []string{"%3a443", "%3A", "%3A0", "%3A65536", "%3A99999999", "%3A-1", "%3A443%3A1", "%3A0x50", "%3A%34%34%33", "%3A443%2F", "%3A443%40evil.example", "%3A%EF%BC%94%EF%BC%94%EF%BC%93"}

var c18CleanAtoms = []string{"iam", "alice", "5", "x", "y", "z", "path", "a-b", "A.B", "_u", "user_1", "3fa85f64-5717-4562-b3fc-2c963f66afa6", "v1", "did", "json", "well-known"}
var c18SubDelimEsc = []string{"%2B", "%3A", "%40", "%7E", "%21", "%24", "%26", "%27", "%28", "%29", "%2A", "%2C", "%3B", "%3D"}
var c18KeptEsc = []string{"%2F", "%2E", "%2E%2E", "%41", "%5F", "%2D", "%30"}
var c18NonSafeEsc = []string{"%20", "%22", "%3C", "%3E", "%C3%A9", "%00", "%0A", "%7B", "%7D", "%5B", "%5D", "%5C", "%7C", "%5E", "%60", "%FF", "%7F", "%E2%80%AE"}
var c18OddSegs = []string{"", ".", "..", "did.json", ".well-known", "%2e%2e", "%2f", "a%2fb", "%2b", "a%3Fb", "a%23b", "%3F", "%23", "a%2541", "%252F", "%2525", "%252E%252E", "..%2F..", "%2F", "%2F%2Fevil.example", "%40evil.example"}
var c18RawOnlySegs = []string{"a/b", "a?b", "a#b", "a b", "a@b", "%zz", "a%", "%2", "a\\b", "é"}

func c18GenLabel(t *rapid.T) string {
	switch rapid.IntRange(0, 9).Draw(t, "labelkind") {
	case 7:
		return rapid.StringMatching(`[a-z0-9]([a-z0-9-]{0,6}[a-z0-9])?`).Draw(t, "label")
	case 8:
		return rapid.StringMatching(`[A-Za-z][A-Za-z0-9]{0,5}`).Draw(t, "label")
	case 9:
		n := rapid.SampledFrom([]int{62, 63, 64, 100}).Draw(t, "longlabel")
		return strings.Repeat("a", n)
	}
	return rapid.SampledFrom(c18GenLabels).Draw(t, "label")
}

func c18GenSeg(t *rapid.T, raw bool) string {
	k := rapid.IntRange(0, 99).Draw(t, "segkind")
	atom := func() string { return rapid.SampledFrom(c18CleanAtoms).Draw(t, "atom") }
	switch {
	case k < 40:
		return atom()
	case k < 48:
		return rapid.StringMatching(`[A-Za-z0-9._-]{1,10}`).Draw(t, "seg")
	case k < 60:
		return atom() + rapid.SampledFrom(c18SubDelimEsc).Draw(t, "esc") + atom()
	case k < 70:
		e := rapid.SampledFrom(c18KeptEsc).Draw(t, "esc")
		return rapid.SampledFrom([]string{e, atom() + e + atom(), e + atom()}).Draw(t, "shape")
	case k < 80:
		e := rapid.SampledFrom(c18NonSafeEsc).Draw(t, "esc")
		return rapid.SampledFrom([]string{e, atom() + e + atom(), atom() + e, e + rapid.SampledFrom(c18KeptEsc).Draw(t, "esc2")}).Draw(t, "shape")
	case k < 84:
		// any single escape
		return atom() + fmt.Sprintf("%%%02X", rapid.IntRange(0, 255).Draw(t, "byte"))
	case k < 96 || !raw:
		return rapid.SampledFrom(c18OddSegs).Draw(t, "odd")
	}
	return rapid.SampledFrom(c18RawOnlySegs).Draw(t, "rawseg")
}

const c18MutAlphabet = ":%.-_/@?#[]0123456789abcdefABCDEFxz "

func c18GenID(t *rapid.T, raw bool) string {
	var host string
	hk := rapid.IntRange(0, 99).Draw(t, "hostkind")
	switch {
	case hk < 55:
		n := rapid.IntRange(1, 4).Draw(t, "labels")
		ls := make([]string, n)
		for i := range ls {
			ls[i] = c18GenLabel(t)
		}
		host = strings.Join(ls, ".")
	case hk < 94 || !raw:
		host = rapid.SampledFrom(c18HostileHosts).Draw(t, "hostile")
	default:
		host = rapid.SampledFrom(c18RawOnlyHosts).Draw(t, "rawhost")
	}
	pk := rapid.IntRange(0, 99).Draw(t, "portkind")
	switch {
	case pk < 55:
	case pk < 85:
		if rapid.Bool().Draw(t, "fixedport") {
			host += rapid.SampledFrom(c18Ports).Draw(t, "port")
		} else {
			host += "%3A" + strconv.Itoa(rapid.IntRange(1, 65535).Draw(t, "portnum"))
		}
	default:
		host += rapid.SampledFrom(c18OddPorts).Draw(t, "oddport")
	}
	id := host
	nseg := rapid.SampledFrom([]int{0, 0, 1, 1, 2, 2, 3, 4}).Draw(t, "nseg")
	for i := 0; i < nseg; i++ {
		id += ":" + c18GenSeg(t, raw)
	}
	if rapid.IntRange(0, 19).Draw(t, "trailingcolon") == 0 {
		id += ":"
	}
	// a few blind byte-level mutations on top, for the unknown unknowns
	if rapid.IntRange(0, 9).Draw(t, "mutate") == 0 {
		nm := rapid.IntRange(1, 3).Draw(t, "nmut")
		for i := 0; i < nm; i++ {
			b := []byte(id)
			pos := rapid.IntRange(0, len(b)).Draw(t, "pos")
			ch := c18MutAlphabet[rapid.IntRange(0, len(c18MutAlphabet)-1).Draw(t, "ch")]
			switch rapid.IntRange(0, 2).Draw(t, "mutop") {
			case 0:
				b = append(b[:pos:pos], append([]byte{ch}, b[pos:]...)...)
			case 1:
				if pos < len(b) {
					b = append(b[:pos:pos], b[pos+1:]...)
				}
			default:
				if pos < len(b) {
					b[pos] = ch
				}
			}
			id = string(b)
		}
	}
	return id
}

var c18BodyKinds = []string{"exact", "exact", "exact", "exact", "other", "example", "child", "parent", "case", "urlequiv", "noid", "arrayid", "notjson", "empty"}
var c18CTs = []string{"application/did+json", "application/did+ld+json", "application/json", "application/json; charset=utf-8", "Application/JSON", "application/did+json;profile=\"x\"",
	"", "text/plain", "text/html", "application/ld+json", "application/jsonx", "application/json, text/html", ";", "application/octet-stream"}
var c18LocKinds = []string{"host", "httphost", "http", "ip", "meta", "ip6", "user", "port", "sub", "schemerel", "host", "path", "rel", "relup", "same", "file", "bad", "none"}

func c18GenResp(t *rapid.T, last bool) c18Resp {
	r := c18Resp{}
	sk := rapid.IntRange(0, 99).Draw(t, "statuskind")
	switch {
	case sk < 55 || (last && sk < 70):
		r.Status = 200
	case sk < 60:
		r.Status = rapid.SampledFrom([]int{201, 203, 204, 206, 299}).Draw(t, "status2xx")
	case sk < 88:
		r.Status = rapid.SampledFrom([]int{301, 302, 302, 303, 307, 308, 300, 304, 305}).Draw(t, "status3xx")
		r.Loc = rapid.SampledFrom(c18LocKinds).Draw(t, "loc")
	default:
		r.Status = rapid.SampledFrom([]int{400, 401, 403, 404, 410, 429, 500, 502, 503, 199, 600}).Draw(t, "statuserr")
	}
	if rapid.IntRange(0, 9).Draw(t, "ctkind") < 6 {
		r.CT = rapid.SampledFrom(c18CTs[:3]).Draw(t, "ct")
	} else {
		r.CT = rapid.SampledFrom(c18CTs).Draw(t, "ct")
	}
	r.Body = rapid.SampledFrom(c18BodyKinds).Draw(t, "body")
	if rapid.IntRange(0, 199).Draw(t, "bigbody") == 0 {
		r.Body = "big"
	}
	r.CC = rapid.SampledFrom([]string{"", "", "max-age=60", "no-store", "public, max-age=3600"}).Draw(t, "cc")
	return r
}

func c18GenWeb(t *rapid.T) c18WebCase {
	c := c18WebCase{
		Raw:    rapid.IntRange(0, 11).Draw(t, "raw") == 0,
		Strict: rapid.IntRange(0, 3).Draw(t, "strict") != 0,
		Cache:  rapid.Bool().Draw(t, "cache"),
		Order:  rapid.SampledFrom([]string{"before", "after", "replaced", "before"}).Draw(t, "order"),
	}
	c.ID = c18GenID(t, c.Raw)
	n := rapid.SampledFrom([]int{1, 1, 1, 2, 2, 3, 4}).Draw(t, "nresp")
	for i := 0; i < n; i++ {
		c.Script = append(c.Script, c18GenResp(t, i == n-1))
	}
	return c
}

// ---------------------------------------------------------------------------------------------------------------------
// run

func c18RunWeb(x *h.Ctx, c c18WebCase) {
	if len(c.ID) > 8192 || len(c.Script) > 12 {
		return
	}
	ref := c18Reference(c.ID)
	for _, f := range ref.Feat {
		x.Class("id:" + f)
	}

	var d did.DID
	if c.Raw {
		d = did.DID{Method: MethodName, ID: c.ID}
		x.Class("build:struct-literal")
	} else {
		p, err := did.ParseDID("did:web:" + c.ID)
		if err != nil || p.Method != MethodName || p.ID != c.ID {
			x.Class("outcome:did-parse-rejected")
			if ref.Clean {
				x.Violate("parse:clean-did-rejected", "did.ParseDID(did:web:%s) failed (%v) although the identifier is a domain name with clean path segments", c.ID, err)
			}
			return
		}
		d = *p
		x.Class("build:parsed")
	}
	// an identifier no parser can produce: only "handled or rejected cleanly" is demanded, deviations are counted, not judged
	judged := ref.Grammar
	if !judged {
		x.Class("build:outside-grammar(no-panic-oracle-only)")
	}

	c18Convert(x, ref, d)
	c18Resolve(x, ref, d, c, judged)

	if strings.Contains(c.ID, "%") || strings.Contains(strings.ToLower(ref.Segs[0]), "%3a") || len(ref.Segs) >= 3 {
		x.NonTrivial()
	}
	for _, r := range c.Script {
		if r.Status != 200 {
			x.NonTrivial()
		}
	}
}

// c18Convert: oracle (1), the round-trip law on the statement's sub-domain; outside it only "no panic".
func c18Convert(x *h.Ctx, ref c18Ref, d did.DID) {
	u, err := DIDToURL(d)
	if err != nil {
		x.Class("didtourl:rejected")
		if ref.Clean {
			x.Violate("roundtrip:clean-did-rejected", "DIDToURL(%s) = error %v; the identifier is a domain name (+port) with clean path segments", d, err)
		}
		return
	}
	x.Class("didtourl:accepted")
	if !ref.Clean {
		// near miss: no law. Exercise the inverse anyway (must not panic).
		_, _ = URLToDID(*u)
		return
	}
	if u.Scheme != "https" || u.Host != ref.HostDec || u.User != nil || u.RawQuery != "" || u.Fragment != "" || u.Opaque != "" {
		x.Violate("convert:did-to-url:authority", "DIDToURL(%s) = %q (scheme %q host %q); the identifier encodes https://%s", d, u.String(), u.Scheme, u.Host, ref.HostDec)
		return
	}
	if !c18PathMatches(ref, u.EscapedPath(), false) {
		x.Violate("convert:did-to-url:path", "DIDToURL(%s) = %q; path pieces differ from the identifier's %q", d, u.String(), ref.Segs[1:])
		return
	}
	sig := "roundtrip:did-url-did"
	if ref.NonSafe {
		sig += ":pct-nonsafe"
	}
	base := u.String()
	suffix := "/did.json"
	if len(ref.Segs) == 1 {
		suffix = "/.well-known/did.json"
	}
	variants := []string{base, base + "/", base + suffix}
	if n := len(ref.Segs); n > 1 && ref.Segs[n-1] == ".well-known" {
		// <url>/.well-known + /did.json is the documented spelling of the parent's root document: ambiguous by design
		variants = variants[:2]
		x.Class("id:last-segment-.well-known(suffix-variant-skipped)")
	}
	for i, v := range variants {
		pu, perr := url.Parse(v)
		if perr != nil {
			x.Fatalf("url.Parse(%q): %v", v, perr)
		}
		back, berr := URLToDID(*pu)
		if berr != nil || back == nil || back.String() != d.String() {
			s := sig
			if i > 0 {
				s = "roundtrip:url-suffix-variant"
				if ref.NonSafe {
					s += ":pct-nonsafe"
				}
			}
			x.Violate(s, "URLToDID(%q) = %v, %v; want %s (DIDToURL(%s) = %q)", v, back, berr, d, d, base)
			return
		}
		// and forth again: DIDToURL(URLToDID(u)) = u
		again, aerr := DIDToURL(*back)
		if aerr != nil || again.String() != base {
			x.Violate("roundtrip:url-did-url", "DIDToURL(URLToDID(%q)) = %v, %v; want %q", v, again, aerr, base)
			return
		}
	}
	x.Class("roundtrip:law-checked")
}

// c18Resolve: oracles (2) origin binding and (3) document id, through the production-built resolver.
func c18Resolve(x *h.Ctx, ref c18Ref, d did.DID, c c18WebCase, judged bool) {
	self := d.String()
	var first *url.URL
	nw := &c18net.Net{}
	nw.Respond = func(i int, r *http.Request) c18net.Answer {
		if i == 0 {
			cp := *r.URL
			first = &cp
		}
		if i >= len(c.Script) {
			return c18net.Answer{Status: 404}
		}
		s := c.Script[i]
		a := c18net.Answer{Status: s.Status, Header: http.Header{}}
		if s.CT != "" {
			a.Header.Set("Content-Type", s.CT)
		}
		if s.CC != "" {
			a.Header.Set("Cache-Control", s.CC)
		}
		if s.Status >= 300 && s.Status < 400 {
			if loc, ok := c18Location(s.Loc, first); ok {
				a.Header.Set("Location", loc)
			}
		}
		a.Body = c18Body(s.Body, self)
		return a
	}

	oldT, oldStrict := client.DefaultCachingTransport, client.StrictMode
	defer func() { client.DefaultCachingTransport, client.StrictMode = oldT, oldStrict }()
	// what http.Engine.configureClient does with cache.maxbytes > 0 (the default, 10 MB) resp. = 0
	configureClient := func() {
		client.StrictMode = c.Strict
		if c.Cache {
			client.DefaultCachingTransport = client.NewCachingTransport(nw, 10*1024*1024)
		}
	}
	client.DefaultCachingTransport = nw // state after package init: a plain (non caching) transport
	client.StrictMode = c.Strict
	var rs *Resolver
	order := c.Order
	switch order {
	case "before":
		rs = NewResolver()
		configureClient()
	case "replaced":
		configureClient()
		rs = NewResolver()
		configureClient()
	default:
		order = "after"
		configureClient()
		rs = NewResolver()
	}
	cacheClass := "cache-off"
	if c.Cache {
		cacheClass = "cache-on"
		x.Class("net:caching-transport")
	}
	x.Class("lifecycle:resolver-" + order + "-client-config:" + cacheClass)
	for i, s := range c.Script {
		if s.Status >= 300 && s.Status < 400 && i == 0 {
			x.Class("lifecycle:" + order + ":" + cacheClass + ":redirect:" + s.Loc)
		}
	}

	doc, md, err := rs.Resolve(d, nil)
	traffic := nw.Traffic()
	h.Count("C18", x.Unit, "outbound_requests", len(traffic))

	// --- (2) origin binding of every request that left the node
	violated := false
	for i, e := range traffic {
		dev := c18Deviation(ref, e)
		if dev == "" {
			continue
		}
		if !judged {
			x.Class("unjudged-deviation:" + dev)
			continue
		}
		if i == 0 {
			violated = true
			x.Violate("web-origin:first:"+dev, "Resolve(%s): first request went to %s; the identifier encodes https://%s%s (decoded host %q, never an IP, no user-info)", self, e.URL, ref.HostDec, c18ExpectedPath(ref), ref.HostDec)
		} else if e.URL != traffic[0].URL {
			violated = true
			// one root cause (redirects are followed), two grades: leaving the origin the identifier names (scheme, user-info,
			// host, port, IP) is what the statement forbids by name; staying on it but fetching another path is the literal reading
			grade := "other-origin"
			if dev == "path" || dev == "path:pct-slash" || dev == "query" {
				grade = "same-origin-other-path"
			}
			x.Violate("web-origin:redirect-followed:"+grade, "Resolve(%s): request #%d went to %s (%s differs) after the origin answered %d; the identifier only encodes %s; log=%s", self, i+1, e.URL, dev, traffic[i-1].Status, traffic[0].URL, c18LogString(traffic))
		}
	}
	if len(traffic) > 1 {
		x.Class("net:hops>1")
	}
	if len(traffic) > 0 && traffic[0].Hostname == "" {
		// not judged: the identifier encodes an empty host and that is where the request goes (Go dials the local system for it;
		// TLS cannot succeed without a server name)
		x.Class("observed:empty-hostname-accepted(dials-local-system)")
	}
	for _, e := range nw.Log() {
		if e.Refused {
			x.Class("net:redirect-to-unsupported-scheme")
		}
	}

	// --- (3) the returned document is the identifier's document
	if err != nil {
		x.Class("resolve:error")
		if doc != nil || md != nil {
			x.Violate("web-result:doc-with-error", "Resolve(%s) returned an error (%v) together with a document/metadata", self, err)
		}
	} else {
		x.Class("resolve:ok")
		if doc == nil {
			x.Violate("web-result:nil-doc", "Resolve(%s) returned neither error nor document", self)
			return
		}
		if doc.ID.String() != self {
			x.Violate("web-docid:mismatch-accepted", "Resolve(%s) returned a document with id %s", self, doc.ID)
		}
		if len(traffic) == 0 {
			x.Violate("web-result:doc-without-request", "Resolve(%s) succeeded without any request", self)
			return
		}
		// which scripted answer produced it?
		li := len(traffic) - 1
		var s c18Resp
		if li < len(c.Script) {
			s = c.Script[li]
		} else {
			s = c18Resp{Status: 404}
		}
		if s.Status < 200 || s.Status > 299 {
			x.Violate("web-status:non2xx-accepted", "Resolve(%s) succeeded on HTTP status %d", self, s.Status)
		}
		if served := c18BodyID(s.Body, self); served != self && !violated {
			x.Violate("web-docid:mismatch-accepted", "Resolve(%s) succeeded although the server's document carries id %q (body kind %s)", self, served, s.Body)
		}
		if mt, _, perr := mime.ParseMediaType(s.CT); (perr != nil || !c18AllowedCT[mt]) && judged {
			x.Violate("web-ct:unlisted-accepted", "Resolve(%s) accepted content-type %q", self, s.CT)
		}
	}

	// --- positive direction: a clean identifier whose origin serves the right document resolves
	if ref.Clean && !c.Raw && len(c.Script) > 0 {
		s := c.Script[0]
		if s.Status == 200 && s.Body == "exact" && c18AllowedCT[s.CT] {
			x.Class("script:plain-success")
			if err != nil {
				x.Violate("web-resolve:clean-rejected", "Resolve(%s) = %v although https://%s%s served the right document as %s", self, err, ref.HostDec, c18ExpectedPath(ref), s.CT)
			}
		}
	}

	// class bookkeeping for the script
	for i, s := range c.Script {
		if i >= len(traffic) {
			break
		}
		switch {
		case s.Status >= 300 && s.Status < 400:
			x.Class("script:redirect:" + s.Loc)
		case s.Status >= 200 && s.Status < 300:
			x.Class("script:2xx:body=" + s.Body)
			if mt, _, perr := mime.ParseMediaType(s.CT); perr != nil || !c18AllowedCT[mt] {
				x.Class("script:2xx:ct-not-allowed")
			}
		default:
			x.Class("script:error-status")
		}
	}
}

func c18LogString(l []c18net.Entry) string {
	var sb strings.Builder
	for i, e := range l {
		if i > 0 {
			sb.WriteString(" -> ")
		}
		fmt.Fprintf(&sb, "%s [%d]", e.URL, e.Status)
	}
	return sb.String()
}

func TestVerif_C18_Web(t *testing.T) {
	h.Check(t, "C18", c18GenWeb, c18RunWeb, h.PanicIsViolation())
}

func TestVerifReplay_C18_Web(t *testing.T) {
	h.Replay(t, "C18", "TestVerif_C18_Web", c18RunWeb, h.PanicIsViolation())
}
