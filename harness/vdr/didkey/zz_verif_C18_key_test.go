//go:build verif

package didkey

// C18 (did:key): the document is a pure function of the identifier. Two independent resolver instances give the same bytes,
// no network request is made, the document id is the identifier and the verification method carries exactly the public key
// the identifier encodes — judged by the harness's own decoding (own base58btc, uvarint, stdlib point decompression).

import (
	"bytes"
	"context"
	"crypto/ecdh"
	"crypto/ed25519"
	"crypto/elliptic"
	"crypto/rsa"
	"crypto/x509"
	"encoding/base64"
	"encoding/binary"
	"encoding/json"
	"fmt"
	"math/big"
	"net"
	"net/http"
	"strings"
	"testing"

	"github.com/nuts-foundation/go-did/did"
	"github.com/nuts-foundation/nuts-node/http/client"
	"pgregory.net/rapid"
	"verif.local/h"
	"verif.local/h/c18net"
)

type c18KeyCase struct {
	ID   string `json:"id"`   // method-specific id (text after "did:key:")
	Note string `json:"note"` // how the generator built it (informative)
}

const c18B58 = "123456789ABCDEFGHJKLMNPQRSTUVWXYZabcdefghijkmnopqrstuvwxyz"

func c18B58Encode(b []byte) string {
	zeros := 0
	for zeros < len(b) && b[zeros] == 0 {
		zeros++
	}
	n := new(big.Int).SetBytes(b)
	var out []byte
	radix, mod := big.NewInt(58), new(big.Int)
	for n.Sign() > 0 {
		n.DivMod(n, radix, mod)
		out = append(out, c18B58[mod.Int64()])
	}
	for i := 0; i < zeros; i++ {
		out = append(out, '1')
	}
	for i, j := 0, len(out)-1; i < j; i, j = i+1, j-1 {
		out[i], out[j] = out[j], out[i]
	}
	return string(out)
}

func c18B58Decode(s string) ([]byte, bool) {
	if s == "" {
		return nil, false
	}
	n := new(big.Int)
	radix := big.NewInt(58)
	zeros := 0
	lead := true
	for i := 0; i < len(s); i++ {
		k := strings.IndexByte(c18B58, s[i])
		if k < 0 {
			return nil, false
		}
		if lead && k == 0 {
			zeros++
		} else {
			lead = false
		}
		n.Mul(n, radix)
		n.Add(n, big.NewInt(int64(k)))
	}
	return append(make([]byte, zeros), n.Bytes()...), true
}

// multicodec codes (https://github.com/multiformats/multicodec/blob/master/table.csv)
const (
	c18Ed25519   = 0xed
	c18X25519    = 0xec
	c18Secp256k1 = 0xe7
	c18Bls       = 0xeb
	c18P256      = 0x1200
	c18P384      = 0x1201
	c18P521      = 0x1202
	c18Rsa       = 0x1205
)

const c18RsaN = "2XzxiVpDKxSHnf27OGUQd62y-Er0sA9jLxEtOabhmBEiovfC5a5IzTI1nxUw1KbSKiXH5xgYVo2epGKNi90frFKwuJtf0CoIK8AQPhPxo0FGecBj7B9SpNKTOCmjeVSoC-IDgKY1Lc-jBWK7GmBFTAs87j0_AFFKMZXUsmDQ0lQ5vcrbOtpad2fFgd-iBk-cENkMcmzsKsQxk-c7Dm-9gibeFZxKN887QDY-9-BNc0fnGH7CqLhUqF9xtKq8LzniZmgjqnOTt05MS1G-RMQhHLef79dXIVRI93PG-c9-xP-odABpJ-D9neNomqrif7H9QF3tGvN31YholeoGsvuD2w"
const c18Rsa1024N = "162ON4cuSsKtyj35iAktgcA4qlE-NXaj8kv9pKQ79-pVjSVIAncA0zgmgB1nqqi3Nj7vxt-6mM32n1_0OVMHw2DFctjHacmkZ2VSKUQBFuxwbLWVhM5qQVYHQ3Ow9uqRYxNhaer6KP9Jd6w_cIK5Jmmzbaoci4O3WtAhUdjnW2E"

func c18RsaDER(n string) []byte {
	nb, _ := base64.RawURLEncoding.DecodeString(n)
	return x509.MarshalPKCS1PublicKey(&rsa.PublicKey{N: new(big.Int).SetBytes(nb), E: 65537})
}

func c18Compressed(t *rapid.T, c ecdh.Curve, ec elliptic.Curve, size int) []byte {
	s := rapid.SliceOfN(rapid.Byte(), size, size).Draw(t, "seed")
	s[size-1] |= 1
	if size == 66 {
		s[0] &= 0x01
	} else {
		s[0] &= 0x7f
	}
	k, err := c.NewPrivateKey(s)
	if err != nil {
		one := make([]byte, size)
		one[size-1] = 1
		k, _ = c.NewPrivateKey(one)
	}
	p := k.PublicKey().Bytes()
	x, y := new(big.Int).SetBytes(p[1:1+size]), new(big.Int).SetBytes(p[1+size:])
	return elliptic.MarshalCompressed(ec, x, y)
}

func c18GenKeyID(t *rapid.T) c18KeyCase {
	kind := rapid.SampledFrom([]string{"ed25519", "p256", "x25519", "p384", "p521", "rsa", "rsa1024", "secp256k1", "bls", "unknown-codec", "rsa-garbage"}).Draw(t, "kind")
	var code uint64
	var key []byte
	rnd := func(n int) []byte { return rapid.SliceOfN(rapid.Byte(), n, n).Draw(t, "bytes") }
	switch kind {
	case "ed25519":
		code = c18Ed25519
		key = ed25519.NewKeyFromSeed(rnd(32)).Public().(ed25519.PublicKey)
	case "x25519":
		code = c18X25519
		k, _ := ecdh.X25519().NewPrivateKey(rnd(32))
		key = k.PublicKey().Bytes()
	case "p256":
		code, key = c18P256, c18Compressed(t, ecdh.P256(), elliptic.P256(), 32)
	case "p384":
		code, key = c18P384, c18Compressed(t, ecdh.P384(), elliptic.P384(), 48)
	case "p521":
		code, key = c18P521, c18Compressed(t, ecdh.P521(), elliptic.P521(), 66)
	case "rsa":
		code, key = c18Rsa, c18RsaDER(c18RsaN)
	case "rsa1024":
		code, key = c18Rsa, c18RsaDER(c18Rsa1024N)
	case "rsa-garbage":
		code, key = c18Rsa, rnd(rapid.IntRange(0, 40).Draw(t, "n"))
	case "secp256k1":
		code, key = c18Secp256k1, rnd(33)
	case "bls":
		code, key = c18Bls, rnd(96)
	default:
		code, key = rapid.Uint64Range(0, 0x3000).Draw(t, "code"), rnd(rapid.IntRange(0, 70).Draw(t, "n"))
	}
	note := kind
	switch rapid.IntRange(0, 15).Draw(t, "damage") {
	case 8:
		key = key[:len(key)-min(len(key), 1)]
		note += "/short"
	case 9:
		key = append(key, rnd(rapid.IntRange(1, 3).Draw(t, "extra"))...)
		note += "/trailing-bytes"
	case 10:
		// a point that is not on the curve / a flipped key byte
		if len(key) > 1 {
			pos := rapid.IntRange(1, len(key)-1).Draw(t, "pos")
			key[pos] ^= byte(rapid.IntRange(1, 255).Draw(t, "xor"))
			note += "/flipped-byte"
		}
	case 11:
		if len(key) > 0 {
			key[0] = byte(rapid.IntRange(0, 255).Draw(t, "prefix"))
			note += "/prefix-byte"
		}
	case 12:
		key = nil
		note += "/empty-key"
	}
	mc := binary.AppendUvarint(nil, code)
	if rapid.IntRange(0, 15).Draw(t, "varint") == 0 {
		// non-minimal varint: same value, one more byte
		mc[len(mc)-1] |= 0x80
		mc = append(mc, 0x00)
		note += "/non-minimal-varint"
	}
	id := "z" + c18B58Encode(append(mc, key...))
	switch rapid.IntRange(0, 19).Draw(t, "text") {
	case 17:
		id = id[1:]
		note += "/no-z"
	case 18:
		b := []byte(id)
		pos := rapid.IntRange(0, len(b)-1).Draw(t, "mutpos")
		b[pos] = (c18B58 + "0OIl-_.:")[rapid.IntRange(0, 65).Draw(t, "mutch")]
		id = string(b)
		note += "/mutated-char"
	case 19:
		id = "z" + strings.Repeat("1", rapid.IntRange(1, 4).Draw(t, "zeros")) + id[1:]
		note += "/leading-zero-bytes"
	}
	return c18KeyCase{ID: id, Note: note}
}

// c18KeyReference decodes the identifier independently. kind "" = not decodable / not a supported key.
type c18KeyRef struct {
	Kind    string // ed25519 x25519 p256 p384 p521 rsa | unsupported | undecodable
	X, Y    []byte // EC affine coordinates / OKP x
	N       *big.Int
	E       int
	Minimal bool // canonical form: minimal varint, no bytes after the key
	ValidPt bool
}

func c18KeyReference(id string) c18KeyRef {
	r := c18KeyRef{Kind: "undecodable"}
	if len(id) < 2 || id[0] != 'z' {
		return r
	}
	raw, ok := c18B58Decode(id[1:])
	if !ok {
		return r
	}
	code, n := binary.Uvarint(raw)
	if n <= 0 {
		return r
	}
	r.Minimal = bytes.Equal(binary.AppendUvarint(nil, code), raw[:n])
	key := raw[n:]
	ecPoint := func(c elliptic.Curve, size int) {
		if len(key) != size+1 {
			return
		}
		x, y := elliptic.UnmarshalCompressed(c, key)
		if x == nil {
			return
		}
		r.ValidPt = true
		r.X, r.Y = x.FillBytes(make([]byte, size)), y.FillBytes(make([]byte, size))
	}
	r.Kind = "unsupported"
	switch code {
	case c18Ed25519:
		r.Kind = "ed25519"
		if len(key) == 32 {
			r.X, r.ValidPt = key, true
		}
	case c18X25519:
		r.Kind = "x25519"
		if len(key) == 32 {
			r.X, r.ValidPt = key, true
		}
	case c18P256:
		r.Kind = "p256"
		ecPoint(elliptic.P256(), 32)
	case c18P384:
		r.Kind = "p384"
		ecPoint(elliptic.P384(), 48)
	case c18P521:
		r.Kind = "p521"
		ecPoint(elliptic.P521(), 66)
	case c18Rsa:
		r.Kind = "rsa"
		if k, err := x509.ParsePKCS1PublicKey(key); err == nil {
			r.N, r.E, r.ValidPt = k.N, k.E, true
		}
	}
	return r
}

func c18Guard(x *h.Ctx) *c18net.Net {
	nw := c18net.Forbid()
	oldDef, oldCache, oldDial := http.DefaultTransport, client.DefaultCachingTransport, client.SafeHttpTransport.DialContext
	http.DefaultTransport = nw
	client.DefaultCachingTransport = nw
	client.SafeHttpTransport.DialContext = func(_ context.Context, network, addr string) (net.Conn, error) {
		_, _ = nw.RoundTrip(&http.Request{Method: "DIAL", URL: nil})
		return nil, fmt.Errorf("c18: dial %s %s refused", network, addr)
	}
	x.Cleanup(func() {
		http.DefaultTransport, client.DefaultCachingTransport, client.SafeHttpTransport.DialContext = oldDef, oldCache, oldDial
	})
	return nw
}

func c18B64Is(v any, want []byte) bool {
	s, ok := v.(string)
	if !ok {
		return false
	}
	b, err := base64.RawURLEncoding.DecodeString(strings.TrimRight(s, "="))
	return err == nil && bytes.Equal(bytes.TrimLeft(b, "\x00"), bytes.TrimLeft(want, "\x00"))
}

func c18RunKey(x *h.Ctx, c c18KeyCase) {
	if len(c.ID) > 1<<14 {
		return
	}
	for _, part := range strings.FieldsFunc(c.Note, func(r rune) bool { return r == '+' || r == '/' }) {
		x.Class("gen:" + part)
	}
	p, err := did.ParseDID("did:key:" + c.ID)
	if err != nil || p.ID != c.ID {
		x.Class("outcome:did-parse-rejected")
		return
	}
	d := *p
	nw := c18Guard(x)
	ref := c18KeyReference(c.ID)
	x.Class("ref:" + ref.Kind)

	doc1, md1, err1 := NewResolver().Resolve(d, nil)
	doc2, _, err2 := Resolver{}.Resolve(d, nil)

	if l := nw.Log(); len(l) > 0 {
		x.Violate("key-net:request", "resolving %s touched the network: %+v", d, l)
	}
	if (err1 == nil) != (err2 == nil) || (err1 != nil && err1.Error() != err2.Error()) {
		x.Violate("key-pure:outcome-differs", "two resolutions of %s: %v vs %v", d, err1, err2)
		return
	}
	if err1 != nil {
		x.Class("resolve:error")
		if doc1 != nil || md1 != nil {
			x.Violate("key-result:doc-with-error", "Resolve(%s) returned an error together with a document", d)
		}
		// positive direction: a canonical identifier of a supported key type with a valid key resolves
		if ref.ValidPt && ref.Minimal && ref.Kind != "rsa" {
			x.Violate("key-resolve:valid-key-rejected:"+ref.Kind, "Resolve(%s) = %v although the identifier is a canonical %s key", d, err1, ref.Kind)
		}
		return
	}
	x.Class("resolve:ok")
	x.NonTrivial()
	if doc1 == nil || doc2 == nil {
		x.Violate("key-result:nil-doc", "Resolve(%s) returned neither error nor document", d)
		return
	}
	b1, _ := json.Marshal(doc1)
	b2, _ := json.Marshal(doc2)
	if !bytes.Equal(b1, b2) {
		x.Violate("key-pure:bytes-differ", "two resolutions of %s gave different documents:\n%s\n%s", d, b1, b2)
	}
	if doc1.ID.String() != d.String() {
		x.Violate("key-docid:differs", "Resolve(%s) returned document id %s", d, doc1.ID)
	}
	if len(doc1.VerificationMethod) != 1 {
		x.Violate("key-bind:vm-count", "Resolve(%s) returned %d verification methods", d, len(doc1.VerificationMethod))
		return
	}
	vm := doc1.VerificationMethod[0]
	if vm.ID.DID.String() != d.String() || vm.Controller.String() != d.String() {
		x.Violate("key-bind:vm-id", "verification method %s (controller %s) does not belong to %s", vm.ID, vm.Controller, d)
	}
	// the published key is the identifier's key
	if !ref.ValidPt {
		x.Violate("key-bind:invalid-key-resolved:"+ref.Kind, "Resolve(%s) succeeded although the identifier (%s) does not encode a valid %s public key; published JWK: %v", d, c.Note, ref.Kind, vm.PublicKeyJwk)
		return
	}
	j := vm.PublicKeyJwk
	same := false
	switch ref.Kind {
	case "ed25519":
		same = j["kty"] == "OKP" && j["crv"] == "Ed25519" && c18B64Is(j["x"], ref.X)
	case "x25519":
		same = j["kty"] == "OKP" && j["crv"] == "X25519" && c18B64Is(j["x"], ref.X)
	case "p256", "p384", "p521":
		crv := map[string]string{"p256": "P-256", "p384": "P-384", "p521": "P-521"}[ref.Kind]
		same = j["kty"] == "EC" && j["crv"] == crv && c18B64Is(j["x"], ref.X) && c18B64Is(j["y"], ref.Y)
	case "rsa":
		same = j["kty"] == "RSA" && c18B64Is(j["n"], ref.N.Bytes()) && c18B64Is(j["e"], big.NewInt(int64(ref.E)).Bytes())
	}
	if !same {
		x.Violate("key-bind:key-differs:"+ref.Kind, "Resolve(%s): published JWK %v is not the %s key the identifier encodes", d, j, ref.Kind)
	}
	if !ref.Minimal {
		x.Class("resolved:non-canonical-varint")
	}
}

func TestVerif_C18_Key(t *testing.T) {
	h.Check(t, "C18", c18GenKeyID, c18RunKey, h.PanicIsViolation())
}

func TestVerifReplay_C18_Key(t *testing.T) {
	h.Replay(t, "C18", "TestVerif_C18_Key", c18RunKey, h.PanicIsViolation())
}
