//go:build verif

package didnuts

// C09: did:nuts documents change only by the DID's own key or a controller's key.
//
// System under test: the real DAG signature verifier (wired as network.go does: SourceTXKeyResolver over the raw DID store)
// followed by a real `ambassador.callback` over a real didstore (bbolt) and didnuts.Resolver. The harness feeds really signed
// (transaction, payload) pairs. It keeps its own record of which key pairs exist, which document every accepted transaction
// carried and who controls what (c09World), and derives from that record - not from the code under test - whether an offered
// pair is authorised (reference authorisation model, see c09World.controllers / expectations in c09World.step).
//
// Histories are conflict-free: every offered update names the latest version of its DID (and the latest version of the
// document that holds the signing key) in prevs, signing times increase monotonically. Forks are C10's business, with one
// bounded exception (c09World.fork): a controller document whose deactivation is concurrent with a key-adding update; the
// store merges both, the document stays deactivated although it lists keys, and the record says it authorises nothing.
//
// Routes and signing times: every pair goes through handleNetworkEvent; a transaction that is on the DAG is re-delivered
// 0..2 times at once, and possibly later in the history, through handleReprocessEvent (message bound to an in-memory
// JetStream subscription, see zz_verif_shared_reprocess_test.go) - the verdict is route independent. The signing time of an
// update is independent of causal order (c09Skews); the record orders by prevs / clock. Refusals that rest on a controller
// look-up as of the signing time are demanded only when that time is not before a version already stored.
//
// Oracles
//   reprocess-made-effective:<verdict>  a refused pair had an effect when it came by again through the REPROCESS route
//   redelivery-changed-state            a second delivery of an accepted pair changed an answer
//   accepted-unauthorised:<class>   an update/creation the reference model does not authorise was accepted
//   accepted-invalid-doc:<rule>     a document built to violate exactly one DID-core / Nuts method rule was accepted
//   resolvable-malformed:<rule>     a document that became resolvable violates a method rule (independent checker on the
//                                   resolved JSON; used for structure-aware random mutations whose verdict is not known)
//   rejected-state-changed:<query>  after a rejection some Resolve / key resolver answer differs from before
//   rejected-side-effect            DiscoverServices was called for a rejected document
//   other-did-changed:<query>       an event aimed at one DID changed raw store answers of another DID
//   legit-rejected:<op>             a legitimate creation/update (canonical form, see mustAccept) was rejected
//   accepted-not-effective:<what>   an accepted document is not what Resolve returns afterwards
//                                   (:deactivated also: an accepted deactivation merged with a concurrent branch lost its flag)
//
// "Unchanged" is decided in two steps: a handful of direct questions about the offered pair is asked before and after every
// offer (latest, by hash, by source transaction, by time, key by id, key by source transaction); in addition the complete
// content of the bbolt file is compared with the copy taken after the previous offer. Every resolver answer is a function
// of that content, so equal content means equal answers; when the content differs although the pair was rejected (or
// entries of another DID differ after an acceptance) every question the record can think of - all DIDs, all versions, all
// refs, all times, all keys - is put to the old copy and to the live store and the answers are compared.
//
// Not judged (deliberately): stale references (prevs naming an older version of the target or of the controller), back-dated
// signing times, a second "creation" of an existing DID by its own creation key, legitimate updates signed by a controller
// whose own activity depends on foreign controllers only (the code under test cannot establish that from one source
// transaction and refuses; counted as class legit-by-record-but-holder-has-foreign-controllers-only).

import (
	"crypto"
	"crypto/ecdh"
	"crypto/ecdsa"
	"crypto/ed25519"
	"crypto/elliptic"
	"crypto/sha256"
	"encoding/base64"
	"encoding/json"
	"fmt"
	"io"
	"math/big"
	"os"
	"path/filepath"
	"sort"
	"strings"
	"sync"
	"testing"
	"time"

	"github.com/lestrrat-go/jwx/v2/jwk"
	"github.com/mr-tron/base58"
	"github.com/nuts-foundation/go-did/did"
	"github.com/nuts-foundation/go-stoabs"
	"github.com/nuts-foundation/go-stoabs/bbolt"
	"github.com/nuts-foundation/nuts-node/audit"
	"github.com/nuts-foundation/nuts-node/core"
	nutsCrypto "github.com/nuts-foundation/nuts-node/crypto"
	"github.com/nuts-foundation/nuts-node/crypto/hash"
	"github.com/nuts-foundation/nuts-node/network"
	"github.com/nuts-foundation/nuts-node/network/dag"
	"github.com/nuts-foundation/nuts-node/storage"
	"github.com/nuts-foundation/nuts-node/vdr/didnuts/didstore"
	"github.com/nuts-foundation/nuts-node/vdr/resolver"
	"github.com/sirupsen/logrus"
	bolt "go.etcd.io/bbolt"
	"pgregory.net/rapid"
	"verif.local/h"
	"verif.local/h/jsonmut"
)

// ---------------------------------------------------------------------------------------------------------------------
// key pool (deterministic P-256 key pairs; thumbprints computed independently of jwx / nuts crypto)

type c09PK struct {
	priv *ecdsa.PrivateKey
	x, y string // base64url, 32 bytes each
	frag string // base64url(sha256(RFC 7638 JSON)) = key id fragment required by the Nuts method
	did  string // did:nuts:base58(sha256(RFC 7638 JSON))
}

const c09PoolSize = 64

var (
	c09Pool     []c09PK
	c09PoolOnce sync.Once
	c09ByX      = map[string]int{}
)

func c09Thumb(crv, x, y string) [32]byte {
	return sha256.Sum256([]byte(`{"crv":"` + crv + `","kty":"EC","x":"` + x + `","y":"` + y + `"}`))
}

func c09Keys() []c09PK {
	c09PoolOnce.Do(func() {
		for i := 0; i < c09PoolSize; i++ {
			seed := sha256.Sum256([]byte(fmt.Sprintf("verif-C09-key-%d", i)))
			seed[0] &= 0x7f // keep the scalar below the group order
			sk, err := ecdh.P256().NewPrivateKey(seed[:])
			if err != nil {
				panic(err)
			}
			pub := sk.PublicKey().Bytes() // 0x04 || X || Y
			X := new(big.Int).SetBytes(pub[1:33])
			Y := new(big.Int).SetBytes(pub[33:65])
			p := c09PK{priv: &ecdsa.PrivateKey{PublicKey: ecdsa.PublicKey{Curve: elliptic.P256(), X: X, Y: Y}, D: new(big.Int).SetBytes(seed[:])}}
			p.x = base64.RawURLEncoding.EncodeToString(pub[1:33])
			p.y = base64.RawURLEncoding.EncodeToString(pub[33:65])
			t := c09Thumb("P-256", p.x, p.y)
			p.frag = base64.RawURLEncoding.EncodeToString(t[:])
			p.did = "did:nuts:" + base58.Encode(t[:])
			c09Pool = append(c09Pool, p)
			c09ByX[p.x] = i
		}
	})
	return c09Pool
}

func c09JWKMap(k int) map[string]any {
	p := c09Keys()[k]
	return map[string]any{"kty": "EC", "crv": "P-256", "x": p.x, "y": p.y}
}

// ---------------------------------------------------------------------------------------------------------------------
// case

type c09Event struct {
	Op   string            `json:"op"`            // create | addkey | rmkey | rotate | demote | promote | ctrl | svc | deact
	D    uint32            `json:"d,omitempty"`   // target DID selector
	A    uint32            `json:"a,omitempty"`   // op specific selector
	B    uint32            `json:"b,omitempty"`   // op specific selector
	Rel  uint8             `json:"rel,omitempty"` // relationship bits for a new key
	Adv  string            `json:"adv,omitempty"` // adversarial class ("" = legitimate)
	S    uint32            `json:"s,omitempty"`   // selector inside the adversarial class / among legitimate signers
	Head bool              `json:"head,omitempty"`
	Rep  uint8             `json:"rep,omitempty"`  // re-deliveries through the REPROCESS route right after the offer (0..2)
	Skew uint8             `json:"skew,omitempty"` // 0: next time slot; else signing time relative to the predecessor's (c09Skews)
	NoTP bool              `json:"notp,omitempty"` // no prev names a version of the target DID (forces the "latest version" fallback)
	Rot  uint8             `json:"rot,omitempty"`  // rotation of the prevs list
	Mut  *jsonmut.Mutation `json:"mut,omitempty"`
}

type c09Case struct {
	Events []c09Event `json:"events"`
}

const (
	c09Cap = 1 << iota
	c09Asr
	c09Aut
	c09Kag
	c09Del
)

var c09Rels = []struct {
	bit  uint8
	name string
}{{c09Cap, "capabilityInvocation"}, {c09Asr, "assertionMethod"}, {c09Aut, "authentication"}, {c09Kag, "keyAgreement"}, {c09Del, "capabilityDelegation"}}

var c09SignerClasses = []string{"never-listed", "kid-lie", "proposed-only", "removed-key", "other-rel-only", "own-key-not-controller",
	"deactivated-controller", "inactive-controller", "ex-controller", "controller-of-controller", "non-controller-doc", "deactivated-self",
	"removed-key+proxy", "other-rel-only+proxy", "deactivated-controller+proxy", "ex-controller+proxy", "never-listed+proxy",
	"own-key-not-controller+proxy", "inactive-controller+proxy", "deactivated-self+proxy", "update-unknown-did",
	"forked-deactivated-self", "forked-deactivated-self+proxy", "forked-deactivated-controller", "forked-deactivated-controller+proxy",
	"proposed-controller", "proposed-controller", "embedded-controller-key"}

var c09CreateClasses = []string{"create-foreign-key", "create-takeover", "create-kid-no-embed", "create-sig-mismatch",
	"create-did-pct-one", "create-did-pct-many", "create-did-pct-lowerhex", "create-did-pct-double", "create-did-case", "create-did-suffix", "create-did-space",
	"create-did-trailing-delimiter"}

// c09Spell returns another spelling of the did:nuts DID id: still derived from the right thumbprint, but (except for kind
// trailing-delimiter, which the DID parser drops) a different DID for DID-core, for DID.String() and for the store.
func c09Spell(id, kind string, s, b uint32) string {
	const prefix = "did:nuts:"
	msid := id[len(prefix):]
	enc := func(c byte, lower bool) string {
		if lower {
			return fmt.Sprintf("%%%02x", c)
		}
		return fmt.Sprintf("%%%02X", c)
	}
	pos := int(s) % len(msid)
	switch kind {
	case "create-did-pct-one":
		return prefix + msid[:pos] + enc(msid[pos], false) + msid[pos+1:]
	case "create-did-pct-lowerhex":
		return prefix + msid[:pos] + enc(msid[pos], true) + msid[pos+1:]
	case "create-did-pct-double":
		e := enc(msid[pos], b%2 == 0)
		return prefix + msid[:pos] + "%25" + e[1:] + msid[pos+1:]
	case "create-did-pct-many":
		out := ""
		for i := 0; i < len(msid); i++ {
			if (i+int(s))%(2+int(b)%5) == 0 || b%16 == 15 {
				out += enc(msid[i], (i+int(b))%2 == 0)
			} else {
				out += string(msid[i])
			}
		}
		return prefix + out
	case "create-did-case":
		for i := 0; i < len(msid); i++ {
			j := (pos + i) % len(msid)
			c := msid[j]
			switch {
			case c >= 'a' && c <= 'z':
				return prefix + msid[:j] + string(c-32) + msid[j+1:]
			case c >= 'A' && c <= 'Z':
				return prefix + msid[:j] + string(c+32) + msid[j+1:]
			}
		}
	case "create-did-suffix":
		return id + []string{":", ".", "-", "_", ":x", "%00", "%20"}[int(s)%7]
	case "create-did-space":
		return []string{" " + id, id + " ", "\t" + id, id + "\n"}[int(s)%4]
	}
	return id
}

var c09DocClasses = []string{"vm-no-fragment", "vm-foreign-prefix", "vm-dup-id", "vm-thumb-mismatch", "vm-thumb-mismatch-jwkkid",
	"svc-no-fragment", "svc-foreign-prefix", "svc-dup-id", "svc-dup-type",
	"rel-embedded-foreign-prefix", "rel-embedded-thumb-mismatch", "rel-embedded-no-fragment", "rel-embedded-valid",
	"rel-embedded-listed-same", "rel-embedded-listed-other-key", "rel-embedded-listed-other-controller", "rel-embedded-listed-other-type",
	"rel-embedded-dup-same", "rel-embedded-dup-other-key", "rel-embedded-dup-other-controller", "rel-embedded-dup-other-type",
	"vm-near-miss-id", "vm-near-miss-id", "vm-near-miss-id", "svc-near-miss-id", "svc-near-miss-id", "svc-near-miss-id",
	"vm-frag-alias", "vm-frag-alias", "vm-frag-alias", "vm-frag-alias", "vm-frag-alias", "vm-frag-alias",
	"vm-non-jwk", "vm-non-jwk", "vm-non-jwk", "rel-embedded-non-jwk", "rel-embedded-non-jwk", "rel-embedded-non-jwk",
	"core-no-context", "core-vm-no-type", "core-vm-no-controller", "core-svc-no-type", "core-svc-no-endpoint"}

var c09Ops = []string{"create", "create", "create", "addkey", "addkey", "addkey", "rmkey", "rotate", "rotate", "rotate", "rotate",
	"demote", "demote", "demote", "promote", "ctrl", "ctrl", "ctrl", "ctrl", "ctrl", "svc", "svc", "deact", "deact", "fork", "fork", "reprocess", "reprocess"}

// c09Skews: signing time of an update relative to the signing time of the version it succeeds (seconds). Causal order is
// given by prevs / Lamport clock, not by signing time: a publisher's clock may lag or run ahead.
var c09Skews = []int{-3600, -30, -1, 0, 1, 30}
var c09SkewNames = []string{"earlier-1h", "earlier-30s", "earlier-1s", "equal", "later-1s", "later-30s"}

func c09GenEvent(t *rapid.T) c09Event {
	ev := c09Event{
		Op:   rapid.SampledFrom(c09Ops).Draw(t, "op"),
		D:    rapid.Uint32Range(0, 63).Draw(t, "d"),
		A:    rapid.Uint32Range(0, 63).Draw(t, "a"),
		B:    rapid.Uint32Range(0, 63).Draw(t, "b"),
		Rel:  uint8(rapid.IntRange(1, 31).Draw(t, "rel")),
		S:    rapid.Uint32Range(0, 63).Draw(t, "s"),
		Head: rapid.Bool().Draw(t, "head"),
		NoTP: rapid.IntRange(0, 5).Draw(t, "notp") == 0,
		Rep:  []uint8{0, 0, 0, 1, 1, 2}[rapid.IntRange(0, 5).Draw(t, "rep")],
		Skew: []uint8{0, 0, 0, 0, 0, 0, 1, 2, 3, 4, 5, 6}[rapid.IntRange(0, 11).Draw(t, "skew")],
		Rot:  uint8(rapid.IntRange(0, 3).Draw(t, "rot")),
	}
	switch g := rapid.IntRange(0, 19).Draw(t, "advgroup"); {
	case g < 7: // legitimate
	case g < 13:
		ev.Adv = rapid.SampledFrom(c09SignerClasses).Draw(t, "adv")
	case g < 15:
		ev.Adv = rapid.SampledFrom(c09CreateClasses).Draw(t, "adv")
	case g < 19:
		ev.Adv = rapid.SampledFrom(c09DocClasses).Draw(t, "adv")
	default:
		ev.Adv = "jsonmut"
		m := jsonmut.Gen(t, "mut", nil, []string{"kid", "controller", "publicKeyJwk", "verificationMethod", "capabilityInvocation", "service", "serviceEndpoint", "@base"})
		ev.Mut = &m
	}
	return ev
}

func c09Gen(t *rapid.T) c09Case {
	// the minimum length is drawn so that long histories are common while shrinking can still drop any event
	min := rapid.IntRange(1, 12).Draw(t, "minlen")
	return c09Case{Events: rapid.SliceOfN(rapid.Custom(c09GenEvent), min, 16).Draw(t, "events")}
}

// ---------------------------------------------------------------------------------------------------------------------
// the harness' own record of the world

type c09Use struct {
	K   int
	Rel uint8
}

type c09Svc struct{ Frag, Type, EP string }

// c09Spec is the abstract content of a document version.
type c09Spec struct {
	Ctrl []int // indices into c09World.dids (may include the document's own index)
	Keys []c09Use
	Svcs []c09Svc
}

func (s c09Spec) clone() c09Spec {
	return c09Spec{Ctrl: append([]int(nil), s.Ctrl...), Keys: append([]c09Use(nil), s.Keys...), Svcs: append([]c09Svc(nil), s.Svcs...)}
}

func (s c09Spec) capKeys() []int {
	var r []int
	for _, u := range s.Keys {
		if u.Rel&c09Cap != 0 {
			r = append(r, u.K)
		}
	}
	return r
}

func (s c09Spec) find(k int) (c09Use, bool) {
	for _, u := range s.Keys {
		if u.K == k {
			return u, true
		}
	}
	return c09Use{}, false
}

func (s c09Spec) deactivated() bool { return len(s.Ctrl) == 0 && len(s.capKeys()) == 0 }

func (s c09Spec) String() string {
	return fmt.Sprintf("ctrl=%v keys=%v svcs=%v", s.Ctrl, s.Keys, s.Svcs)
}

type c09Ver struct {
	spec  c09Spec
	ref   hash.SHA256Hash
	ph    hash.SHA256Hash
	at    time.Time
	clock uint32
}

type c09DID struct {
	idx  int
	key  int // creation key
	id   string
	vers []c09Ver
	// offered but rejected transactions aimed at this DID
	rejRefs   []hash.SHA256Hash
	rejHashes []hash.SHA256Hash
	everKeys  []int // keys that were listed in any accepted version, first appearance order
	// dead: the DID was deactivated by one branch of a fork; it stays deactivated whatever its merged document lists.
	// forkRefs: the other source transactions of the merged latest version.
	dead     bool
	forkRefs []hash.SHA256Hash
}

func (d *c09DID) latest() *c09Ver { return &d.vers[len(d.vers)-1] }

func (d *c09DID) noteKeys(s c09Spec) {
	for _, u := range s.Keys {
		seen := false
		for _, k := range d.everKeys {
			if k == u.K {
				seen = true
			}
		}
		if !seen {
			d.everKeys = append(d.everKeys, u.K)
		}
	}
}

type c09Net struct {
	network.Transactions
	discovered int
}

func (n *c09Net) DiscoverServices(_ did.DID) { n.discovered++ }

// c09View is one way of looking at a DID store: the live one, or a snapshot taken before an offer.
type c09View struct {
	store  didstore.Store
	res    Resolver
	keyRes resolver.DIDKeyResolver
	srcRes dag.SourceTXKeyResolver
}

func c09NewView(store didstore.Store) c09View {
	return c09View{store: store, res: Resolver{Store: store}, keyRes: resolver.DIDKeyResolver{Resolver: Resolver{Store: store}}, srcRes: dag.SourceTXKeyResolver{Resolver: store}}
}

type c09World struct {
	x *h.Ctx
	c09View
	dbPath  string
	amb     *ambassador
	net     *c09Net
	verify  dag.Verifier
	dids    []*c09DID
	nextKey int
	tick    int
	head    hash.SHA256Hash
	clocks  map[hash.SHA256Hash]uint32
	stop    bool
	// raw content of the database file after the previous offer (bucket/key -> value) and the copy it was read from
	twistKind string
	maxAt     time.Time       // latest signing time of any accepted version
	rep       int             // re-deliveries after each offer of the current event
	log       []*c09Delivered // what was delivered so far (for later re-delivery)
	snap      map[string]string
	snapPath  string
	nsnap     int
}

func (w *c09World) freshKey() int {
	if w.nextKey >= c09PoolSize {
		w.stop = true
		return c09PoolSize - 1
	}
	k := w.nextKey
	w.nextKey++
	return k
}

// controllers returns the indices of the DIDs whose latest version is an active controller of d's latest version, per
// the reference model: a document without controllers controls itself (when it lists a capabilityInvocation key); a listed
// controller counts when its latest version is not deactivated and - when it lists controllers itself - at least one of
// those is active (least fixed point, so cycles without a self-controlling member are inactive).
func (w *c09World) controllers(d *c09DID) []int {
	v := d.latest().spec
	var out []int
	if d.dead {
		return nil
	}
	if len(v.Ctrl) == 0 {
		if len(v.capKeys()) > 0 {
			out = append(out, d.idx)
		}
		return out
	}
	for _, c := range v.Ctrl {
		if c == d.idx {
			if len(v.capKeys()) > 0 {
				out = append(out, c)
			}
			continue
		}
		if w.active(c, map[int]bool{d.idx: true}) {
			out = append(out, c)
		}
	}
	return out
}

// deact: deactivated per the record - by content of the latest version, or for good by one branch of a fork.
func (w *c09World) deact(d *c09DID) bool { return d.dead || d.latest().spec.deactivated() }

func (w *c09World) active(c int, visiting map[int]bool) bool {
	if visiting[c] {
		return false
	}
	l := w.dids[c].latest().spec
	if w.deact(w.dids[c]) {
		return false
	}
	if len(l.Ctrl) == 0 {
		return true
	}
	visiting[c] = true
	defer delete(visiting, c)
	for _, cc := range l.Ctrl {
		if cc == c {
			if len(l.capKeys()) > 0 {
				return true
			}
			continue
		}
		if w.active(cc, visiting) {
			return true
		}
	}
	return false
}

// authorised: does the record authorise key k to update d right now (k is a capabilityInvocation key of the latest version
// of an active controller of d's latest version - whichever document that is)?
func (w *c09World) authorised(d *c09DID, k int) bool {
	for _, c := range w.controllers(d) {
		if c09In(w.dids[c].latest().spec.capKeys(), k) {
			return true
		}
	}
	return false
}

// simple: the document resolves as active from its own content alone (no controllers, or it lists itself), which is the
// only situation in which the code under test can establish activity from a single source transaction.
func (w *c09World) simple(c int) bool {
	l := w.dids[c].latest().spec
	if len(l.capKeys()) == 0 || w.dids[c].dead {
		return false
	}
	if len(l.Ctrl) == 0 {
		return true
	}
	for _, cc := range l.Ctrl {
		if cc == c {
			return true
		}
	}
	return false
}

type c09Signer struct {
	class  string
	holder int // index of the DID named in kid; -1 = the target DID string (may not exist)
	key    int // the key that really signs
	kidKey int // the key whose thumbprint is the kid fragment
	proxy  bool
}

func c09In(l []int, v int) bool {
	for _, e := range l {
		if e == v {
			return true
		}
	}
	return false
}

// signers enumerates, from the record, who may and who may not sign an update of d right now.
func (w *c09World) signers(d *c09DID) (legit []c09Signer, odd []c09Signer, unauth map[string][]c09Signer) {
	unauth = map[string][]c09Signer{}
	ctrl := w.controllers(d)
	auth := map[int]bool{}
	for _, c := range ctrl {
		for _, k := range w.dids[c].latest().spec.capKeys() {
			auth[k] = true
			legit = append(legit, c09Signer{class: "legit", holder: c, key: k, kidKey: k})
		}
	}
	declared := d.latest().spec.Ctrl
	var exCtrl, ctrlOfCtrl []int
	for _, v := range d.vers[:len(d.vers)-1] {
		exCtrl = append(exCtrl, v.spec.Ctrl...)
	}
	for _, c := range declared {
		if c != d.idx {
			ctrlOfCtrl = append(ctrlOfCtrl, w.dids[c].latest().spec.Ctrl...)
		}
	}
	add := func(class string, s c09Signer, listed bool) {
		s.class = class
		if listed {
			unauth[class] = append(unauth[class], s)
		} else {
			// an honest kid cannot resolve; still offered (the DAG must refuse it)
			unauth[class] = append(unauth[class], s)
		}
		p := s
		p.class = class + "+proxy"
		p.proxy = true
		unauth[p.class] = append(unauth[p.class], p)
	}
	for _, hd := range w.dids {
		l := hd.latest().spec
		for _, k := range hd.everKeys {
			u, listed := l.find(k)
			isCap := listed && u.Rel&c09Cap != 0
			s := c09Signer{holder: hd.idx, key: k, kidKey: k}
			if auth[k] {
				if !(c09In(ctrl, hd.idx) && isCap) && listed {
					s.class = "authorised-other-holder"
					odd = append(odd, s)
				}
				continue
			}
			switch {
			case hd.idx == d.idx:
				switch {
				case hd.dead:
					add("forked-deactivated-self", s, listed)
				case w.deact(hd):
					add("deactivated-self", s, listed)
				case isCap:
					add("own-key-not-controller", s, listed)
				case listed:
					add("other-rel-only", s, listed)
				default:
					add("removed-key", s, listed)
				}
			case c09In(declared, hd.idx):
				switch {
				case hd.dead:
					add("forked-deactivated-controller", s, listed)
				case w.deact(hd):
					add("deactivated-controller", s, listed)
				case !c09In(ctrl, hd.idx):
					add("inactive-controller", s, listed)
				case listed:
					add("other-rel-only", s, listed)
				default:
					add("removed-key", s, listed)
				}
			case c09In(exCtrl, hd.idx):
				add("ex-controller", s, listed)
			case c09In(ctrlOfCtrl, hd.idx):
				add("controller-of-controller", s, listed)
			default:
				add("non-controller-doc", s, listed)
			}
		}
	}
	return
}

// ---------------------------------------------------------------------------------------------------------------------
// documents

func (w *c09World) rawDoc(id string, s c09Spec) map[string]any {
	keys := c09Keys()
	doc := map[string]any{
		"@context": []any{"https://www.w3.org/ns/did/v1", "https://w3c-ccg.github.io/lds-jws2020/contexts/lds-jws2020-v1.json"},
		"id":       id,
	}
	if len(s.Ctrl) > 0 {
		var l []any
		for _, c := range s.Ctrl {
			if c < len(w.dids) {
				l = append(l, w.dids[c].id)
			} else {
				l = append(l, id) // the document's own index while it is being created
			}
		}
		doc["controller"] = l
	}
	if len(s.Keys) > 0 {
		var vms []any
		rel := map[string][]any{}
		for _, u := range s.Keys {
			kid := id + "#" + keys[u.K].frag
			vms = append(vms, map[string]any{"id": kid, "type": "JsonWebKey2020", "controller": id, "publicKeyJwk": c09JWKMap(u.K)})
			for _, r := range c09Rels {
				if u.Rel&r.bit != 0 {
					rel[r.name] = append(rel[r.name], kid)
				}
			}
		}
		doc["verificationMethod"] = vms
		for _, r := range c09Rels {
			if len(rel[r.name]) > 0 {
				doc[r.name] = rel[r.name]
			}
		}
	}
	if len(s.Svcs) > 0 {
		var l []any
		for _, sv := range s.Svcs {
			l = append(l, map[string]any{"id": id + "#" + sv.Frag, "type": sv.Type, "serviceEndpoint": sv.EP})
		}
		doc["service"] = l
	}
	return doc
}

func c09List(doc map[string]any, key string) []any {
	l, _ := doc[key].([]any)
	return l
}

// twistDoc makes the document violate exactly one rule. It only ever adds entries (a fresh key / service), so that the
// rest of the document stays a legitimate edit. other = a DID string different from id.
// c09NearMiss: ids whose DID part is almost, but not, the document's DID (must be refused), and ids whose DID part is the
// document's DID but that carry a path / query / second '#' (the statement only says "prefixed by the DID": no verdict).
var c09NearMissKinds = []string{"x", "colon-x", "pct", "short", "case", "x", "pct", "path", "query", "frag2"}

func c09NearMiss(id, kind string) (didPart string, fragSuffix string) {
	switch kind {
	case "x":
		return id + "x", ""
	case "colon-x":
		return id + ":x", ""
	case "pct":
		return id + "%41", ""
	case "short":
		return id[:len(id)-1], ""
	case "case":
		return c09Spell(id, "create-did-case", 7, 0), ""
	case "path":
		return id + "/path", ""
	case "query":
		return id + "?q=1", ""
	case "frag2":
		return id, "#b"
	}
	return id, ""
}

// c09FragAlias: other spellings of the key id fragment t = base64url-no-padding(SHA-256 JWK thumbprint). The method demands
// the fragment to be exactly t; everything here is a different string (some of them decode to the same bytes under a lenient
// base64 codec), so a verification method carrying it must be refused.
var c09FragAliasKinds = []string{"lastbits-1", "lastbits-2", "lastbits-3", "padding", "stdalphabet", "pct", "case", "space-after", "newline-after",
	"space-before", "truncated", "extended", "hex", "base64std", "lastbits-1", "lastbits-2", "lastbits-3", "padding"}

func c09FragAlias(t, kind string, sel uint32) string {
	const alphabet = "ABCDEFGHIJKLMNOPQRSTUVWXYZabcdefghijklmnopqrstuvwxyz0123456789-_"
	raw, _ := base64.RawURLEncoding.DecodeString(t)
	pos := int(sel/4) % len(t)
	switch kind {
	case "lastbits-1", "lastbits-2", "lastbits-3":
		// the last character of 43 carries 4 data bits: the two low bits are free
		i := strings.IndexByte(alphabet, t[len(t)-1])
		return t[:len(t)-1] + string(alphabet[(i&^3)|int(kind[len(kind)-1]-'0')])
	case "padding":
		return t + "="
	case "stdalphabet":
		if strings.ContainsAny(t, "-_") {
			return strings.NewReplacer("-", "+", "_", "/").Replace(t)
		}
		return t + "="
	case "pct":
		return t[:pos] + fmt.Sprintf("%%%02X", t[pos]) + t[pos+1:]
	case "case":
		for i := 0; i < len(t); i++ {
			j := (pos + i) % len(t)
			c := t[j]
			if c >= 'a' && c <= 'z' {
				return t[:j] + string(c-32) + t[j+1:]
			}
			if c >= 'A' && c <= 'Z' {
				return t[:j] + string(c+32) + t[j+1:]
			}
		}
	case "space-after":
		return t + " "
	case "newline-after":
		return t + "\n"
	case "space-before":
		return " " + t
	case "truncated":
		return t[:len(t)-1]
	case "extended":
		return t + "A"
	case "hex":
		return fmt.Sprintf("%x", raw)
	case "base64std":
		return base64.StdEncoding.EncodeToString(raw)
	}
	return t + "="
}

// c09NonJWK: verification methods whose key is not expressed as publicKeyJwk (the other representations DID-core and go-did
// know: publicKeyMultibase, publicKeyBase58, or no key material at all), of the usual non-JWK types, of an unknown type and
// of type JsonWebKey2020. The method rule "key id = key thumbprint" holds for every verification method of a did:nuts
// document, whatever its type: an id chosen by the publisher, or the thumbprint of some other key, must be refused. Only
// when the fragment is the RFC 7638 thumbprint of the very key the method carries (Ed25519 as OKP JWK) nothing is demanded.
var c09NonJWKFormats = []string{"ed2018-multibase", "ed2018-base58", "ed2020-multibase", "secp256k1-2019-base58", "unknown-type-multibase",
	"ed2020-no-key", "jwk2020-base58", "jwk2020-no-key"}
var c09NonJWKIDs = []string{"chosen", "other-thumb", "own-okp-thumb", "chosen", "chosen-short", "other-thumb", "own-okp-thumb", "listed-frag-suffixed"}

// c09EdKey: deterministic Ed25519 public key n and its RFC 7638 thumbprint (base64url, no padding).
func c09EdKey(n int) (pub []byte, thumb string) {
	seed := sha256.Sum256([]byte(fmt.Sprintf("verif-C09-ed25519-%d", n)))
	pub = []byte(ed25519.NewKeyFromSeed(seed[:]).Public().(ed25519.PublicKey))
	t := sha256.Sum256([]byte(`{"crv":"Ed25519","kty":"OKP","x":"` + base64.RawURLEncoding.EncodeToString(pub) + `"}`))
	return pub, base64.RawURLEncoding.EncodeToString(t[:])
}

// c09NonJWKMethod builds the method; kind = format + "/" + id kind as really used (own-okp-thumb needs an Ed25519 key).
func c09NonJWKMethod(id string, sel uint32, otherFrag, listedFrag string) (m map[string]any, kind string) {
	format := c09NonJWKFormats[int(sel)%len(c09NonJWKFormats)]
	idKind := c09NonJWKIDs[int(sel/8)%len(c09NonJWKIDs)]
	pub, okp := c09EdKey(int(sel))
	m = map[string]any{"controller": id}
	hasEd := false
	switch format {
	case "ed2018-multibase":
		m["type"], m["publicKeyMultibase"], hasEd = "Ed25519VerificationKey2018", "z"+base58.Encode(pub), true
	case "ed2018-base58":
		m["type"], m["publicKeyBase58"], hasEd = "Ed25519VerificationKey2018", base58.Encode(pub), true
	case "ed2020-multibase":
		m["type"], m["publicKeyMultibase"], hasEd = "Ed25519VerificationKey2020", "z"+base58.Encode(append([]byte{0xed, 0x01}, pub...)), true
	case "secp256k1-2019-base58":
		m["type"], m["publicKeyBase58"] = "EcdsaSecp256k1VerificationKey2019", base58.Encode(append([]byte{0x02}, pub...))
	case "unknown-type-multibase":
		m["type"], m["publicKeyMultibase"] = "X25519KeyAgreementKey2019", "z"+base58.Encode(pub)
	case "ed2020-no-key":
		m["type"] = "Ed25519VerificationKey2020"
	case "jwk2020-base58":
		m["type"], m["publicKeyBase58"] = "JsonWebKey2020", base58.Encode(pub)
	case "jwk2020-no-key":
		m["type"] = "JsonWebKey2020"
	}
	if idKind == "own-okp-thumb" && !hasEd {
		idKind = "other-thumb"
	}
	if idKind == "listed-frag-suffixed" && listedFrag == "" {
		idKind = "chosen"
	}
	switch idKind {
	case "chosen":
		m["id"] = id + "#key-" + fmt.Sprint(1+sel%3)
	case "chosen-short":
		m["id"] = id + "#" + string(rune('a'+sel%26))
	case "other-thumb":
		m["id"] = id + "#" + otherFrag // a well-formed thumbprint, of another key
	case "own-okp-thumb":
		m["id"] = id + "#" + okp
	case "listed-frag-suffixed":
		m["id"] = id + "#" + listedFrag + "-2"
	}
	return m, format + "/" + idKind
}

// twistKind is set by twistDoc for classes that have several kinds (refines the class name and decides the verdict).
func (w *c09World) twistDoc(doc map[string]any, id, other, class string, sel uint32) bool {
	w.twistKind = ""
	keys := c09Keys()
	k1, k2 := w.freshKey(), w.freshKey()
	vm := func(vid string, k int) map[string]any {
		return map[string]any{"id": vid, "type": "JsonWebKey2020", "controller": id, "publicKeyJwk": c09JWKMap(k)}
	}
	addVM := func(m map[string]any) { doc["verificationMethod"] = append(c09List(doc, "verificationMethod"), m) }
	addSvc := func(m map[string]any) { doc["service"] = append(c09List(doc, "service"), m) }
	relName := c09Rels[int(sel)%len(c09Rels)].name
	addRel := func(m map[string]any) { doc[relName] = append(c09List(doc, relName), m) }
	switch class {
	case "vm-no-fragment":
		addVM(vm(id, k1))
	case "vm-foreign-prefix":
		addVM(vm(other+"#"+keys[k1].frag, k1))
	case "vm-near-miss-id":
		w.twistKind = c09NearMissKinds[int(sel)%len(c09NearMissKinds)]
		dp, suffix := c09NearMiss(id, w.twistKind)
		addVM(vm(dp+"#"+keys[k1].frag+suffix, k1))
	case "vm-frag-alias":
		w.twistKind = c09FragAliasKinds[int(sel)%len(c09FragAliasKinds)]
		l := c09List(doc, "verificationMethod")
		switch mode := (sel / 8) % 3; {
		case mode == 1 && len(l) > 0:
			// re-spell the id of a listed method (as a rotation / creation would introduce it), references follow
			m := l[int(sel/2)%len(l)].(map[string]any)
			old, _ := m["id"].(string)
			frag := old[strings.Index(old, "#")+1:]
			nid := id + "#" + c09FragAlias(frag, w.twistKind, sel)
			m["id"] = nid
			for _, r := range c09Rels {
				for j, e := range c09List(doc, r.name) {
					if e == old {
						doc[r.name].([]any)[j] = nid
					}
				}
			}
			w.twistKind += "/respelled"
		case mode == 2 && len(l) > 0:
			// the same key listed twice: under its thumbprint and under another spelling of it
			m := jsonmut.Clone(l[int(sel/2)%len(l)]).(map[string]any)
			old, _ := m["id"].(string)
			m["id"] = id + "#" + c09FragAlias(old[strings.Index(old, "#")+1:], w.twistKind, sel)
			addVM(m)
			if sel%2 == 0 {
				doc[relName] = append(c09List(doc, relName), m["id"])
			}
			w.twistKind += "/listed-twice"
		default:
			// an added key (add-key) whose id is another spelling of its thumbprint
			nid := id + "#" + c09FragAlias(keys[k1].frag, w.twistKind, sel)
			addVM(vm(nid, k1))
			if sel%2 == 0 {
				doc[relName] = append(c09List(doc, relName), nid)
			}
		}
	case "svc-near-miss-id":
		w.twistKind = c09NearMissKinds[int(sel)%len(c09NearMissKinds)]
		dp, suffix := c09NearMiss(id, w.twistKind)
		addSvc(map[string]any{"id": dp + "#svc-near" + suffix, "type": "x-near", "serviceEndpoint": "https://example.com/a"})
	case "vm-dup-id":
		if l := c09List(doc, "verificationMethod"); len(l) > 0 && sel%2 == 0 {
			addVM(jsonmut.Clone(l[int(sel/2)%len(l)]).(map[string]any))
		} else {
			addVM(vm(id+"#"+keys[k1].frag, k1))
			addVM(vm(id+"#"+keys[k1].frag, k1))
		}
	case "vm-thumb-mismatch":
		addVM(vm(id+"#"+keys[k2].frag, k1))
	case "vm-thumb-mismatch-jwkkid":
		m := vm(id+"#"+keys[k2].frag, k1)
		m["publicKeyJwk"].(map[string]any)["kid"] = keys[k2].frag
		addVM(m)
	case "svc-no-fragment":
		addSvc(map[string]any{"id": id, "type": "x-nofrag", "serviceEndpoint": "https://example.com/a"})
	case "svc-foreign-prefix":
		addSvc(map[string]any{"id": other + "#svc-foreign", "type": "x-foreign", "serviceEndpoint": "https://example.com/a"})
	case "svc-dup-id":
		addSvc(map[string]any{"id": id + "#svc-dup", "type": "x-dup-1", "serviceEndpoint": "https://example.com/a"})
		addSvc(map[string]any{"id": id + "#svc-dup", "type": "x-dup-2", "serviceEndpoint": "https://example.com/b"})
	case "svc-dup-type":
		if l := c09List(doc, "service"); len(l) > 0 && sel%2 == 0 {
			t, _ := l[int(sel/2)%len(l)].(map[string]any)["type"].(string)
			addSvc(map[string]any{"id": id + "#svc-dup-t", "type": t, "serviceEndpoint": "https://example.com/b"})
		} else {
			addSvc(map[string]any{"id": id + "#svc-dup-t1", "type": "x-dup", "serviceEndpoint": "https://example.com/a"})
			addSvc(map[string]any{"id": id + "#svc-dup-t2", "type": "x-dup", "serviceEndpoint": "https://example.com/b"})
		}
	case "rel-embedded-foreign-prefix":
		addRel(vm(other+"#"+keys[k1].frag, k1))
	case "rel-embedded-thumb-mismatch":
		addRel(vm(id+"#"+keys[k2].frag, k1))
	case "rel-embedded-no-fragment":
		addRel(vm(id, k1))
	case "rel-embedded-listed-same", "rel-embedded-listed-other-key", "rel-embedded-listed-other-controller", "rel-embedded-listed-other-type":
		// a relationship embeds a complete method object that carries the id of a verificationMethod entry: with identical
		// content that is equivalent to a reference (legitimate), with any difference there are two methods under one id
		l := c09List(doc, "verificationMethod")
		if len(l) == 0 || sel%8 == 7 {
			addVM(vm(id+"#"+keys[k1].frag, k1))
			l = c09List(doc, "verificationMethod")
		}
		m := jsonmut.Clone(l[int(sel/2)%len(l)]).(map[string]any)
		switch class {
		case "rel-embedded-listed-other-key":
			m["publicKeyJwk"] = c09JWKMap(k2)
		case "rel-embedded-listed-other-controller":
			m["controller"] = other
		case "rel-embedded-listed-other-type":
			m["type"] = "EcdsaSecp256k1VerificationKey2019"
		}
		addRel(m)
	case "rel-embedded-dup-same", "rel-embedded-dup-other-key", "rel-embedded-dup-other-controller", "rel-embedded-dup-other-type":
		// the same (well-formed, new) id embedded twice, in one relationship or in two: identical content is one method
		// mentioned twice (no verdict demanded), different content is two methods under one id
		first := vm(id+"#"+keys[k1].frag, k1)
		second := vm(id+"#"+keys[k1].frag, k1)
		switch class {
		case "rel-embedded-dup-other-key":
			second["publicKeyJwk"] = c09JWKMap(k2)
		case "rel-embedded-dup-other-controller":
			second["controller"] = other
		case "rel-embedded-dup-other-type":
			second["type"] = "EcdsaSecp256k1VerificationKey2019"
		}
		if sel%4 >= 2 {
			first, second = second, first
		}
		addRel(first)
		if sel%2 == 0 {
			addRel(second)
		} else {
			other2 := c09Rels[(int(sel)+1+int(sel/8)%(len(c09Rels)-1))%len(c09Rels)].name
			doc[other2] = append(c09List(doc, other2), second)
		}
	case "vm-non-jwk", "rel-embedded-non-jwk":
		listedFrag := ""
		if l := c09List(doc, "verificationMethod"); len(l) > 0 {
			lid, _ := l[int(sel/2)%len(l)].(map[string]any)["id"].(string)
			listedFrag = lid[strings.Index(lid, "#")+1:]
		}
		var m map[string]any
		m, w.twistKind = c09NonJWKMethod(id, sel, keys[k1].frag, listedFrag)
		if class == "vm-non-jwk" {
			addVM(m)
			if k1%2 == 0 { // (all bits of sel are taken by format and id kind)
				doc[relName] = append(c09List(doc, relName), m["id"])
				w.twistKind += "/referenced"
			}
		} else {
			addRel(m)
		}
	case "rel-embedded-valid":
		// not a violation: a well-formed verification method that is embedded instead of referenced (no verdict demanded;
		// when accepted, the independent checker looks at what became resolvable)
		addRel(vm(id+"#"+keys[k1].frag, k1))
	case "core-no-context":
		doc["@context"] = []any{"https://w3c-ccg.github.io/lds-jws2020/contexts/lds-jws2020-v1.json"}
	case "core-vm-no-type":
		m := vm(id+"#"+keys[k1].frag, k1)
		if sel%2 == 0 {
			delete(m, "type")
		} else {
			m["type"] = " "
		}
		addVM(m)
	case "core-vm-no-controller":
		m := vm(id+"#"+keys[k1].frag, k1)
		delete(m, "controller")
		addVM(m)
	case "core-svc-no-type":
		m := map[string]any{"id": id + "#svc-notype", "type": " ", "serviceEndpoint": "https://example.com/a"}
		if sel%2 == 0 {
			delete(m, "type")
		}
		addSvc(m)
	case "core-svc-no-endpoint":
		m := map[string]any{"id": id + "#svc-noep", "type": "x-noep"}
		if sel%2 == 1 {
			m["serviceEndpoint"] = nil
		}
		addSvc(m)
	default:
		return false
	}
	return true
}

// derive reads a resolved/offered document (generic JSON) back into a spec. ok=false when it holds something the record cannot express.
func (w *c09World) derive(doc map[string]any, self int) (c09Spec, bool) {
	var s c09Spec
	didIdx := func(v any) (int, bool) {
		str, _ := v.(string)
		for _, d := range w.dids {
			if d.id == str {
				return d.idx, true
			}
		}
		if self >= len(w.dids) {
			if id, _ := doc["id"].(string); id == str {
				return self, true
			}
		}
		return 0, false
	}
	switch c := doc["controller"].(type) {
	case nil:
	case string:
		i, ok := didIdx(c)
		if !ok {
			return s, false
		}
		s.Ctrl = []int{i}
	case []any:
		for _, e := range c {
			i, ok := didIdx(e)
			if !ok {
				return s, false
			}
			s.Ctrl = append(s.Ctrl, i)
		}
	default:
		return s, false
	}
	id, _ := doc["id"].(string)
	byID := map[string]int{}
	for _, e := range c09List(doc, "verificationMethod") {
		m, _ := e.(map[string]any)
		j, _ := m["publicKeyJwk"].(map[string]any)
		xs, _ := j["x"].(string)
		k, ok := c09ByX[xs]
		vid, _ := m["id"].(string)
		if !ok || vid != id+"#"+c09Keys()[k].frag {
			return s, false
		}
		if _, dup := byID[vid]; dup {
			return s, false
		}
		byID[vid] = len(s.Keys)
		s.Keys = append(s.Keys, c09Use{K: k})
	}
	for _, r := range c09Rels {
		if v, present := doc[r.name]; present {
			l, isList := v.([]any)
			if !isList {
				return s, false
			}
			for _, e := range l {
				str, isStr := e.(string)
				i, known := byID[str]
				if !isStr || !known {
					return s, false
				}
				s.Keys[i].Rel |= r.bit
			}
		}
	}
	for _, e := range c09List(doc, "service") {
		m, _ := e.(map[string]any)
		sid, _ := m["id"].(string)
		ty, _ := m["type"].(string)
		ep, isStr := m["serviceEndpoint"].(string)
		if !strings.HasPrefix(sid, id+"#") || !isStr {
			return s, false
		}
		s.Svcs = append(s.Svcs, c09Svc{Frag: strings.TrimPrefix(sid, id+"#"), Type: ty, EP: ep})
	}
	return s, true
}

func c09SpecEqual(a, b c09Spec) bool {
	norm := func(s c09Spec) string {
		c := append([]int(nil), s.Ctrl...)
		sort.Ints(c)
		k := append([]c09Use(nil), s.Keys...)
		sort.Slice(k, func(i, j int) bool { return k[i].K < k[j].K })
		v := append([]c09Svc(nil), s.Svcs...)
		sort.Slice(v, func(i, j int) bool { return v[i].Frag < v[j].Frag })
		return fmt.Sprint(c, k, v)
	}
	return norm(a) == norm(b)
}

// wellFormed is the independent checker of the Nuts method rules on a resolvable document (generic JSON of what Resolve returned).
func c09WellFormed(doc map[string]any, id string) (rule string, detail string) {
	if got, _ := doc["id"].(string); got != id {
		return "id", fmt.Sprintf("document id %q resolved under %q", got, id)
	}
	hasCtx := false
	switch c := doc["@context"].(type) {
	case string:
		hasCtx = c == "https://www.w3.org/ns/did/v1"
	case []any:
		for _, e := range c {
			if e == "https://www.w3.org/ns/did/v1" {
				hasCtx = true
			}
		}
	}
	if !hasCtx {
		return "context", "DID v1 context missing"
	}
	// didPart: the id up to the first '/', '?' or '#'; frag: what follows the first '#'
	split := func(eid string) (didPart, frag string, plain bool) {
		i := strings.IndexAny(eid, "/?#")
		if i < 0 {
			return eid, "", true
		}
		if j := strings.Index(eid, "#"); j >= 0 {
			frag = eid[j+1:]
		}
		return eid[:i], frag, eid[i] == '#'
	}
	checkVM := func(m map[string]any, where string) (string, string) {
		vid, _ := m["id"].(string)
		dp, frag, plain := split(vid)
		if dp != id {
			return where + "-prefix", vid
		}
		if frag == "" {
			return where + "-no-fragment", vid
		}
		if !plain {
			return "", "" // a path or query between DID and fragment: the statement is silent, nothing demanded
		}
		if ty, _ := m["type"].(string); strings.TrimSpace(ty) == "" {
			return where + "-no-type", vid
		}
		if c, _ := m["controller"].(string); c == "" {
			return where + "-no-controller", vid
		}
		if j, ok := m["publicKeyJwk"].(map[string]any); ok {
			kty, _ := j["kty"].(string)
			crv, _ := j["crv"].(string)
			xs, _ := j["x"].(string)
			ys, _ := j["y"].(string)
			xb, e1 := base64.RawURLEncoding.DecodeString(strings.TrimRight(xs, "="))
			yb, e2 := base64.RawURLEncoding.DecodeString(strings.TrimRight(ys, "="))
			if kty == "EC" && crv == "P-256" && e1 == nil && e2 == nil && len(xb) == 32 && len(yb) == 32 {
				t := c09Thumb(crv, base64.RawURLEncoding.EncodeToString(xb), base64.RawURLEncoding.EncodeToString(yb))
				if frag != base64.RawURLEncoding.EncodeToString(t[:]) {
					return where + "-thumbprint", vid
				}
			}
		}
		if _, isJWK := m["publicKeyJwk"]; !isJWK {
			// the key in another representation: when it can be read as an Ed25519 key, the fragment must be its thumbprint
			ty, _ := m["type"].(string)
			var raw []byte
			if mb, _ := m["publicKeyMultibase"].(string); strings.HasPrefix(mb, "z") {
				raw, _ = base58.Decode(mb[1:])
				if len(raw) == 34 && raw[0] == 0xed && raw[1] == 0x01 {
					raw = raw[2:]
				}
			} else if b58, _ := m["publicKeyBase58"].(string); b58 != "" {
				raw, _ = base58.Decode(b58)
			}
			if strings.HasPrefix(ty, "Ed25519VerificationKey") && len(raw) == 32 {
				t := sha256.Sum256([]byte(`{"crv":"Ed25519","kty":"OKP","x":"` + base64.RawURLEncoding.EncodeToString(raw) + `"}`))
				if frag != base64.RawURLEncoding.EncodeToString(t[:]) {
					return where + "-thumbprint", vid
				}
			}
		}
		return "", ""
	}
	// one id, one method: every method object (listed or embedded) under an id must have the same content
	byID := map[string]string{}
	oneMethod := func(m map[string]any) (string, bool) {
		vid, _ := m["id"].(string)
		enc := string(jsonmut.Encode(m))
		if prev, ok := byID[vid]; ok && prev != enc {
			return vid, false
		}
		byID[vid] = enc
		return vid, true
	}
	seen := map[string]bool{}
	for _, e := range c09List(doc, "verificationMethod") {
		m, ok := e.(map[string]any)
		if !ok {
			return "vm-shape", "verificationMethod entry is not an object"
		}
		if r, d := checkVM(m, "vm"); r != "" {
			return r, d
		}
		vid, _ := m["id"].(string)
		if seen[vid] {
			return "vm-dup-id", vid
		}
		seen[vid] = true
		oneMethod(m)
	}
	for _, r := range c09Rels {
		for _, e := range c09List(doc, r.name) {
			if m, ok := e.(map[string]any); ok {
				if rule, d := checkVM(m, "rel-embedded"); rule != "" {
					return rule, r.name + ": " + d
				}
				if vid, ok := oneMethod(m); !ok {
					return "vm-id-not-unique", r.name + ": " + vid
				}
			}
		}
	}
	sids, stypes := map[string]bool{}, map[string]bool{}
	for _, e := range c09List(doc, "service") {
		m, ok := e.(map[string]any)
		if !ok {
			return "svc-shape", "service entry is not an object"
		}
		sid, _ := m["id"].(string)
		ty, _ := m["type"].(string)
		if dp, frag, _ := split(sid); dp != id {
			return "svc-prefix", sid
		} else if frag == "" {
			return "svc-no-fragment", sid
		}
		if sids[sid] {
			return "svc-dup-id", sid
		}
		if stypes[ty] {
			return "svc-dup-type", ty
		}
		if strings.TrimSpace(ty) == "" {
			return "svc-no-type", sid
		}
		if m["serviceEndpoint"] == nil {
			return "svc-no-endpoint", sid
		}
		sids[sid], stypes[ty] = true, true
	}
	return "", ""
}

// ---------------------------------------------------------------------------------------------------------------------
// transactions

func (w *c09World) sign(payload []byte, prevs []hash.SHA256Hash, at time.Time, signKey int, kid string, embed int) (dag.Transaction, uint32) {
	clock := uint32(0)
	for _, p := range prevs {
		if c, ok := w.clocks[p]; ok && c+1 > clock {
			clock = c + 1
		}
	}
	unsigned, err := dag.NewTransaction(hash.SHA256Sum(payload), DIDDocumentType, prevs, nil, clock)
	w.x.NoErr(err, "NewTransaction")
	key, err := jwk.FromRaw(c09Keys()[signKey].priv)
	w.x.NoErr(err, "jwk.FromRaw")
	w.x.NoErr(key.Set(jwk.KeyIDKey, kid), "set kid")
	var pub crypto.PublicKey
	if embed >= 0 {
		pub = &c09Keys()[embed].priv.PublicKey
	}
	tx, err := dag.NewTransactionSigner(nutsCrypto.MemoryJWTSigner{Key: key}, kid, pub).Sign(audit.TestContext(), unsigned, at)
	w.x.NoErr(err, "sign transaction")
	return tx, clock
}

// ---------------------------------------------------------------------------------------------------------------------
// observation

type c09Query struct {
	label string // stable class of the query
	what  string // human readable
	did   string
	raw   bool // answer comes from the raw store for that DID only
	fn    func() string
}

func c09Safe(fn func() string) (out string) {
	defer func() {
		if r := recover(); r != nil {
			out = fmt.Sprintf("PANIC: %v", r)
		}
	}()
	return fn()
}

func c09DocAnswer(doc *did.Document, meta *resolver.DocumentMetadata, err error) string {
	if err != nil {
		return "ERR: " + err.Error()
	}
	a, _ := json.Marshal(doc)
	b, _ := json.Marshal(meta)
	return string(a) + " | " + string(b)
}

func c09KeyAnswer(id string, k crypto.PublicKey, err error) string {
	if err != nil {
		return "ERR: " + err.Error()
	}
	j, e := jwk.FromRaw(k)
	if e != nil {
		return "KEY? " + e.Error()
	}
	b, _ := json.Marshal(j)
	return id + " " + string(b)
}

type c09Pending struct {
	target string
	ref    hash.SHA256Hash
	ph     hash.SHA256Hash
	at     time.Time
	keys   []int
}

// queries lists the questions asked before and after an offer. full=false: the few that concern the offered pair directly
// (asked around every offer); full=true: everything the record knows about, for every DID (asked when the raw database
// content changed although the pair was rejected, or when entries of another DID changed).
func (w *c09World) queries(v c09View, p c09Pending, full bool) []c09Query {
	var qs []c09Query
	type tgt struct {
		id     string
		refs   []hash.SHA256Hash
		hashes []hash.SHA256Hash
		times  []time.Time
		keys   []int
	}
	var tgts []tgt
	seen := false
	for _, d := range w.dids {
		if !full && d.id != p.target {
			continue
		}
		t := tgt{id: d.id}
		if full {
			t.keys = append([]int(nil), d.everKeys...)
			for _, dv := range d.vers {
				t.refs = append(t.refs, dv.ref)
				t.hashes = append(t.hashes, dv.ph)
				t.times = append(t.times, dv.at)
			}
			t.refs = append(t.refs, d.rejRefs...)
			t.hashes = append(t.hashes, d.rejHashes...)
		} else {
			l := d.latest()
			t.refs, t.hashes, t.times = []hash.SHA256Hash{l.ref}, []hash.SHA256Hash{l.ph}, []time.Time{l.at}
		}
		if d.id == p.target {
			seen = true
			t.refs = append(t.refs, p.ref)
			t.hashes = append(t.hashes, p.ph)
			t.keys = append(t.keys, p.keys...)
		}
		t.times = append(t.times, p.at, p.at.Add(time.Hour))
		tgts = append(tgts, t)
	}
	if !seen {
		tgts = append(tgts, tgt{id: p.target, refs: []hash.SHA256Hash{p.ref}, hashes: []hash.SHA256Hash{p.ph}, times: []time.Time{p.at, p.at.Add(time.Hour)}, keys: p.keys})
	}
	for _, t := range tgts {
		t := t
		id, err := did.ParseDID(t.id)
		if err != nil {
			continue
		}
		add := func(label, what string, raw bool, fn func() string) {
			qs = append(qs, c09Query{label: label, what: what + " " + t.id, did: t.id, raw: raw, fn: fn})
		}
		add("resolve-latest", "Resolve(nil)", true, func() string { return c09DocAnswer(v.store.Resolve(*id, nil)) })
		add("resolve-latest-allowdeactivated", "Resolve(AllowDeactivated)", true, func() string {
			return c09DocAnswer(v.store.Resolve(*id, &resolver.ResolveMetadata{AllowDeactivated: true}))
		})
		add("resolver-latest", "Resolver.Resolve(nil)", false, func() string { return c09DocAnswer(v.res.Resolve(*id, nil)) })
		for _, hs := range t.hashes {
			hs := hs
			add("resolve-by-hash", "Resolve(Hash="+hs.String()[:8]+")", true, func() string {
				return c09DocAnswer(v.store.Resolve(*id, &resolver.ResolveMetadata{AllowDeactivated: true, Hash: &hs}))
			})
		}
		for _, r := range t.refs {
			r := r
			add("resolve-by-tx", "Resolve(SourceTransaction="+r.String()[:8]+")", true, func() string {
				return c09DocAnswer(v.store.Resolve(*id, &resolver.ResolveMetadata{AllowDeactivated: true, SourceTransaction: &r}))
			})
		}
		for _, tm := range t.times {
			tm := tm
			add("resolve-by-time", "Resolve(ResolveTime="+tm.UTC().Format(time.RFC3339)+")", true, func() string {
				return c09DocAnswer(v.store.Resolve(*id, &resolver.ResolveMetadata{ResolveTime: &tm}))
			})
			if !full {
				continue
			}
			add("resolve-by-time-allowdeactivated", "Resolve(AllowDeactivated,ResolveTime="+tm.UTC().Format(time.RFC3339)+")", true, func() string {
				return c09DocAnswer(v.store.Resolve(*id, &resolver.ResolveMetadata{ResolveTime: &tm, AllowDeactivated: true}))
			})
		}
		for _, rt := range []resolver.RelationType{resolver.Authentication, resolver.AssertionMethod, resolver.KeyAgreement, resolver.CapabilityInvocation, resolver.CapabilityDelegation} {
			rt := rt
			if !full && rt != resolver.CapabilityInvocation && rt != resolver.AssertionMethod {
				continue
			}
			add("key-first", fmt.Sprintf("ResolveKey(rel=%d)", rt), false, func() string {
				kid, k, err := v.keyRes.ResolveKey(*id, nil, rt)
				return c09KeyAnswer(kid, k, err)
			})
		}
		for _, k := range t.keys {
			kid := t.id + "#" + c09Keys()[k].frag
			for _, rt := range []resolver.RelationType{resolver.AssertionMethod, resolver.CapabilityInvocation} {
				rt := rt
				add("key-by-id", fmt.Sprintf("ResolveKeyByID(%s, rel=%d)", kid, rt), false, func() string {
					k, err := v.keyRes.ResolveKeyByID(kid, nil, rt)
					return c09KeyAnswer(kid, k, err)
				})
			}
			for _, r := range t.refs {
				r := r
				add("key-by-source-tx", "ResolvePublicKey("+kid+", "+r.String()[:8]+")", true, func() string {
					k, err := v.srcRes.ResolvePublicKey(kid, []hash.SHA256Hash{r})
					return c09KeyAnswer(kid, k, err)
				})
			}
		}
	}
	qs = append(qs, c09Query{label: "counts", what: "DocumentCount/ConflictedCount", fn: func() string {
		a, e1 := v.store.DocumentCount()
		b, e2 := v.store.ConflictedCount()
		return fmt.Sprint(a, e1, b, e2)
	}})
	return qs
}

func c09Eval(qs []c09Query) []string {
	out := make([]string, len(qs))
	for i, q := range qs {
		out[i] = c09Safe(q.fn)
	}
	return out
}

// takeSnapshot copies the database file (bbolt writes pages at commit, so outside a transaction the file is the
// committed state) and reads every bucket of the copy with the raw bbolt API.
func (w *c09World) takeSnapshot() {
	w.nsnap++
	dst := filepath.Join(filepath.Dir(w.dbPath), fmt.Sprintf("snap-%d.db", w.nsnap))
	b, err := os.ReadFile(w.dbPath)
	w.x.NoErr(err, "read database file")
	w.x.NoErr(os.WriteFile(dst, b, 0o600), "write snapshot")
	db, err := bolt.Open(dst, 0o600, &bolt.Options{ReadOnly: true})
	w.x.NoErr(err, "open snapshot read-only")
	m := map[string]string{}
	err = db.View(func(tx *bolt.Tx) error {
		return tx.ForEach(func(name []byte, bk *bolt.Bucket) error {
			return bk.ForEach(func(k, v []byte) error {
				m[string(name)+"/"+string(k)] = string(v)
				return nil
			})
		})
	})
	w.x.NoErr(err, "iterate snapshot")
	w.x.NoErr(db.Close(), "close snapshot")
	w.snap, w.snapPath = m, dst
}

// ---------------------------------------------------------------------------------------------------------------------
// offering one (transaction, payload) pair

type c09Offer struct {
	label      string
	op         string
	di         int // model index of the target DID, or len(w.dids) for a DID that does not exist yet
	target     string
	newKey     int // creation key when the DID is new
	spec       c09Spec
	specExact  bool // payload == rawDoc(spec)
	payload    []byte
	signKey    int
	kid        string
	embed      int
	prevs      []hash.SHA256Hash
	mustReject string // violation signature when accepted
	mustAccept bool
	class      string
	keys       []int
	atSet      bool // o.at is the signing time to use (skewed relative to the predecessor)
	byTime     bool // the refusal rests on a controller look-up by signing time: only demanded when that time is not in the past
	tx         dag.Transaction
	admitted   bool // passed the DAG signature verifier (the transaction is on the DAG)
	accepted   bool
	noTP       bool // no prev names a version of the target: when accepted the store forks, the record cannot follow
	tick       int  // when > 0: the (already reserved) signing time slot, instead of the next one
	noRecord   bool // the caller keeps the record itself (fork branches)
	// set by offer
	ref   hash.SHA256Hash
	clock uint32
	ph    hash.SHA256Hash
	at    time.Time
}

func c09SafeErr(fn func() error) (err error, panicked bool) {
	defer func() {
		if r := recover(); r != nil {
			err, panicked = fmt.Errorf("PANIC: %v", r), true
		}
	}()
	return fn(), false
}

func c09Short(s string) string {
	if len(s) > 400 {
		return s[:400] + "…"
	}
	return s
}

// c09Delivered is one (transaction, payload) pair that was handed to the VDR.
type c09Delivered struct {
	tx         dag.Transaction
	payload    []byte
	label      string
	class      string
	mustReject string
	accepted   bool
	later      bool // may be re-delivered later in the history (its verdict does not depend on the state of the store)
	pend       c09Pending
}

// offer delivers the pair through the network subscriber route and then, when the transaction is on the DAG, re-delivers it
// w.rep times through the REPROCESS route (what an operator's reprocess does with every transaction of the type).
func (w *c09World) offer(o *c09Offer) bool {
	accepted := w.offerOnce(o)
	if !o.admitted || w.stop || (o.accepted && o.mustReject != "") {
		return accepted
	}
	if !o.accepted && o.mustReject == "" {
		return accepted // no verdict demanded: nothing to hold a re-delivery against
	}
	e := &c09Delivered{tx: o.tx, payload: o.payload, label: o.label, class: o.class, mustReject: o.mustReject, accepted: o.accepted,
		pend: c09Pending{target: o.target, ref: o.ref, ph: o.ph, at: o.at, keys: o.keys}}
	e.later = o.accepted || strings.HasPrefix(o.mustReject, "accepted-invalid-doc:") || strings.Contains(o.mustReject, ":create-")
	w.log = append(w.log, e)
	for r := 1; r <= w.rep && !w.stop; r++ {
		w.redeliver(e, r, "at-once")
	}
	return accepted
}

// redeliver hands a pair that was delivered before to handleReprocessEvent, with a message bound to a JetStream
// subscription. The verdict of the reference model does not depend on the route: what was refused stays refused (nothing
// changes), and a second delivery of what was accepted changes nothing either.
func (w *c09World) redeliver(e *c09Delivered, n int, when string) {
	x := w.x
	verdict := "accepted"
	if !e.accepted {
		verdict = "refused-" + strings.SplitN(strings.TrimPrefix(e.mustReject, "accepted-"), ":", 2)[0]
	}
	x.Classf("route:reprocess:%s:%s:delivery-%d", when, verdict, n)
	msg := verifReprocessMsg(x, e.tx, e.payload)
	w.net.discovered = 0
	_, panicked := c09SafeErr(func() error { w.amb.handleReprocessEvent(msg); return nil })
	if panicked {
		x.Class("panic-while-processing")
	}
	prevSnap, prevPath := w.snap, w.snapPath
	w.takeSnapshot()
	var changed []string
	for k, v := range w.snap {
		if pv, ok := prevSnap[k]; !ok || pv != v {
			changed = append(changed, k)
		}
	}
	for k := range prevSnap {
		if _, ok := w.snap[k]; !ok {
			changed = append(changed, k)
		}
	}
	sort.Strings(changed)
	x.Logf("%s re-delivered through REPROCESS (%s, delivery %d): %d database entries changed", e.label, when, n, len(changed))
	if len(changed) > 0 {
		sig := "redelivery-changed-state|"
		if !e.accepted {
			sig = "reprocess-made-effective:" + verdict + "|"
		}
		o := &c09Offer{label: e.label + " [REPROCESS " + when + "]", class: e.class}
		if !w.compareFull(prevPath, e.pend, o, sig, func(c09Query) bool { return true }, fmt.Sprintf("delivery %d through the REPROCESS route, database entries %v changed", n, changed)) {
			w.stop = true // the record cannot follow
		}
	}
	if !e.accepted && w.net.discovered > 0 {
		x.Violate("rejected-side-effect", "%s (%s) was refused but its re-delivery through REPROCESS called DiscoverServices", e.label, e.class)
	}
	if prevPath != "" {
		_ = os.Remove(prevPath)
	}
}

// compareFull asks everything the record knows of the snapshot taken before and of the live store; true = same answers.
func (w *c09World) compareFull(prevPath string, pend c09Pending, o *c09Offer, sigPrefix string, only func(q c09Query) bool, why string) bool {
	x := w.x
	kv, err := bbolt.CreateBBoltStore(prevPath, stoabs.WithNoSync(), stoabs.WithLockAcquireTimeout(time.Hour))
	x.NoErr(err, "open snapshot")
	defer kv.Close(audit.TestContext())
	old := didstore.New(&storage.StaticKVStoreProvider{Store: kv})
	x.NoErr(old.(core.Configurable).Configure(core.ServerConfig{}), "configure snapshot store")
	qb, qa := w.queries(c09NewView(old), pend, true), w.queries(w.c09View, pend, true)
	rb, ra := c09Eval(qb), c09Eval(qa)
	for i := range qb {
		if only(qb[i]) && rb[i] != ra[i] {
			sig := sigPrefix + qb[i].label
			if strings.HasSuffix(sigPrefix, "|") {
				sig = strings.TrimSuffix(sigPrefix, "|") // one signature whatever question shows it first
			}
			x.Violate(sig, "%s (%s): %s: %s changed\n before: %s\n after:  %s", o.label, o.class, why, qb[i].what, c09Short(rb[i]), c09Short(ra[i]))
			return false
		}
	}
	x.Class("store-bytes-changed-answers-same")
	return true
}

func (w *c09World) offerOnce(o *c09Offer) bool {
	x := w.x
	base := time.Unix(1609459200, 0).UTC()
	var at time.Time
	if o.atSet {
		at = o.at
		if at.Before(base) {
			at = base
		}
	} else {
		tick := o.tick
		if tick == 0 {
			w.tick++
			tick = w.tick
		}
		at = base.Add(time.Duration(tick) * 10 * time.Second)
	}
	if need := int(at.Sub(base)/(10*time.Second)) + 1; need > w.tick && o.tick == 0 {
		w.tick = need // ordinary time slots stay ahead of every signing time used so far
	}
	if o.byTime && o.mustReject != "" && at.Before(w.maxAt) {
		// The refusal would rest on looking up a controller as of the signing time, and that time lies before a version
		// already stored: the transaction may honestly predate that version (concurrent view). Nothing is demanded.
		o.mustReject = ""
		o.class += "/backdated-no-verdict"
		x.Class("offer:" + o.class)
	}
	tx, clock := w.sign(o.payload, o.prevs, at, o.signKey, o.kid, o.embed)
	o.tx = tx
	ph := hash.SHA256Sum(o.payload)
	o.ref, o.clock, o.ph, o.at = tx.Ref(), clock, ph, at
	pend := c09Pending{target: o.target, ref: tx.Ref(), ph: ph, at: at, keys: o.keys}
	qs := w.queries(w.c09View, pend, false)
	before := c09Eval(qs)
	w.net.discovered = 0

	verr, vpanic := c09SafeErr(func() error { return w.verify(nil, tx) })
	var cerr error
	var cpanic bool
	if verr == nil {
		cerr, cpanic = c09SafeErr(func() error {
			_, err := w.amb.handleNetworkEvent(dag.Event{Type: dag.PayloadEventType, Hash: tx.Ref(), Transaction: tx, Payload: o.payload})
			return err
		})
	}
	accepted := verr == nil && cerr == nil
	o.admitted, o.accepted = verr == nil, accepted
	if vpanic || cpanic {
		// a crash while processing is C19's business; here it counts as a refusal (and the state must be unchanged)
		x.Class("panic-while-processing")
		msg := fmt.Sprint(verr, cerr)
		if len(msg) > 90 {
			msg = msg[:90]
		}
		x.Class("panic-while-processing: " + msg)
	}
	w.clocks[tx.Ref()] = clock
	if verr == nil {
		w.head = tx.Ref() // the transaction is on the DAG whatever the VDR thinks of it
	}
	switch {
	case accepted:
		x.Class("outcome:accepted")
	case verr != nil:
		x.Class("outcome:refused-by-dag-verifier")
	default:
		x.Class("outcome:refused-by-vdr")
	}
	x.Logf("%s class=%q target=%s kid=%s embed=%d prevs=%d -> verify=%v callback=%v", o.label, o.class, o.target, o.kid, o.embed, len(o.prevs), verr, cerr)

	// Raw content of the database before (= after the previous offer) and after. All resolver answers are a function of
	// it, so identical content means identical answers; when it differs the answers themselves are compared.
	prevSnap, prevPath := w.snap, w.snapPath
	w.takeSnapshot()
	var changed []string
	for k, v := range w.snap {
		if pv, ok := prevSnap[k]; !ok || pv != v {
			changed = append(changed, k)
		}
	}
	for k := range prevSnap {
		if _, ok := w.snap[k]; !ok {
			changed = append(changed, k)
		}
	}
	sort.Strings(changed)
	if !accepted {
		after := c09Eval(qs)
		direct := false
		for i := range qs {
			if before[i] != after[i] {
				direct = true
				x.Violate("rejected-state-changed:"+qs[i].label, "%s (%s) was rejected (verify=%v, callback=%v) but %s changed\n before: %s\n after:  %s",
					o.label, o.class, verr, cerr, qs[i].what, c09Short(before[i]), c09Short(after[i]))
				break
			}
		}
		if len(changed) > 0 && !direct {
			x.Class("rejected-but-store-bytes-changed")
			w.compareFull(prevPath, pend, o, "rejected-state-changed:", func(c09Query) bool { return true }, fmt.Sprintf("rejected (verify=%v, callback=%v), database entries %v changed", verr, cerr, changed))
		}
		if w.net.discovered > 0 {
			x.Violate("rejected-side-effect", "%s (%s) was rejected but DiscoverServices was called", o.label, o.class)
		}
		if o.di < len(w.dids) {
			d := w.dids[o.di]
			d.rejRefs = append(d.rejRefs, tx.Ref())
			d.rejHashes = append(d.rejHashes, ph)
		}
	} else {
		if len(changed) == 0 {
			x.Fatalf("snapshot mechanism broken: %s was accepted but the database copy shows no change", o.label)
		}
		// entries that carry another DID of the record in their key belong to that DID: they may not change
		foreign := false
		for _, k := range changed {
			for _, d := range w.dids {
				if d.id != o.target && strings.Contains(k, d.id) {
					foreign = true
				}
			}
		}
		if foreign {
			w.compareFull(prevPath, pend, o, "other-did-changed:", func(q c09Query) bool { return q.raw && q.did != o.target }, fmt.Sprintf("accepted for %s, database entries %v changed", o.target, changed))
		}
	}
	if prevPath != "" {
		_ = os.Remove(prevPath)
	}

	if o.mustReject != "" && accepted {
		x.Violate(o.mustReject, "%s: offered pair of class %q was accepted (target %s, kid %s, embedded key %d, signed by key %d)", o.label, o.class, o.target, o.kid, o.embed, o.signKey)
	}
	if o.mustAccept && !accepted {
		x.Violate("legit-rejected:"+o.op, "%s: legitimate pair rejected: verify=%v callback=%v (target %s, kid %s)", o.label, verr, cerr, o.target, o.kid)
	}
	if !accepted {
		return false
	}
	if at.After(w.maxAt) {
		w.maxAt = at
	}
	if o.noRecord {
		return true
	}
	if o.noTP && o.mustReject == "" {
		x.Class("stopped:accepted-without-naming-the-target(fork)")
		w.stop = true
		return true
	}

	// what became resolvable
	pid, perr := did.ParseDID(o.target)
	if perr != nil {
		x.Violate("accepted-not-effective:resolve", "%s accepted although %q is not a DID: %v", o.label, o.target, perr)
		w.stop = true
		return true
	}
	id := *pid
	doc, meta, err := w.store.Resolve(id, &resolver.ResolveMetadata{AllowDeactivated: true})
	if err != nil {
		x.Violate("accepted-not-effective:resolve", "%s accepted but Resolve fails: %v", o.label, err)
		w.stop = true
		return true
	}
	rb, _ := json.Marshal(doc)
	gen, derr := jsonmut.Decode(rb)
	x.NoErr(derr, "decode resolved document")
	rdoc, _ := gen.(map[string]any)
	if rule, detail := c09WellFormed(rdoc, o.target); rule != "" && o.mustReject == "" {
		x.Violate("resolvable-malformed:"+rule, "%s (%s): the document that became resolvable violates rule %s: %s\n%s", o.label, o.class, rule, detail, c09Short(string(rb)))
	}
	// does spec describe the resolvable document completely? (round trip of the spec's JSON through go-did == resolved bytes)
	exact := func(s c09Spec) bool {
		var d did.Document
		if json.Unmarshal(w.encode(w.rawDoc(o.target, s)), &d) != nil {
			return false
		}
		nb, _ := json.Marshal(d)
		return string(nb) == string(rb)
	}
	spec, ok := o.spec, true
	if !o.specExact {
		spec, ok = w.derive(rdoc, o.di)
		ok = ok && exact(spec)
	}
	if o.specExact && o.mustReject == "" { // (an acceptance that is a violation already is not examined any further)
		got, dok := w.derive(rdoc, o.di)
		if !dok || !c09SpecEqual(got, o.spec) || !exact(o.spec) {
			x.Violate("accepted-not-effective:content", "%s accepted but the latest version differs from the offered document: offered %v, resolved %s", o.label, o.spec, c09Short(string(rb)))
		}
		if len(meta.SourceTransactions) != 1 || !meta.SourceTransactions[0].Equals(tx.Ref()) {
			x.Violate("accepted-not-effective:source-tx", "%s accepted but latest SourceTransactions=%v, want [%s]", o.label, meta.SourceTransactions, tx.Ref())
		}
		if meta.Deactivated != o.spec.deactivated() && !(o.di < len(w.dids) && w.dids[o.di].latest().spec.deactivated()) {
			x.Violate("accepted-not-effective:deactivated", "%s accepted: metadata.Deactivated=%v, record says %v", o.label, meta.Deactivated, o.spec.deactivated())
		}
	}
	if !ok {
		x.Class("stopped:accepted-document-not-expressible")
		w.stop = true
		return true
	}
	ver := c09Ver{spec: spec, ref: tx.Ref(), ph: ph, at: at, clock: clock}
	if o.di >= len(w.dids) {
		w.dids = append(w.dids, &c09DID{idx: len(w.dids), key: o.newKey, id: o.target})
	}
	d := w.dids[o.di]
	d.vers = append(d.vers, ver)
	d.noteKeys(spec)
	return true
}

// ---------------------------------------------------------------------------------------------------------------------
// interpreting one event

func (w *c09World) prevs(ev c09Event, refs ...hash.SHA256Hash) []hash.SHA256Hash {
	var l []hash.SHA256Hash
	if ev.Head {
		l = append(l, w.head)
	}
	l = append(l, refs...)
	if len(l) > 1 {
		r := int(ev.Rot) % len(l)
		l = append(l[r:], l[:r]...)
	}
	return l
}

func (w *c09World) otherDID(self string) string {
	for _, d := range w.dids {
		if d.id != self {
			return d.id
		}
	}
	return c09Keys()[c09PoolSize-1].did
}

func (w *c09World) encode(doc map[string]any) []byte { return jsonmut.Encode(doc) }

// c09Generic are the signer classes that are always available; the others need a suitable history.
var c09Generic = map[string]bool{"never-listed": true, "kid-lie": true, "proposed-only": true, "never-listed+proxy": true, "update-unknown-did": true, "proposed-controller": true,
	"non-controller-doc": true, "non-controller-doc+proxy": true}

// pick returns the requested class when it has candidates, else the next history dependent class (cyclically from s)
// that has, else the next generic one.
func c09Pick(want string, classes []string, avail func(string) bool, s uint32) string {
	if avail(want) {
		return want
	}
	for _, generic := range []bool{false, true} {
		for i := range classes {
			c := classes[(int(s)+i)%len(classes)]
			if c09Generic[c] == generic && avail(c) {
				return c
			}
		}
	}
	return ""
}

func (w *c09World) create(i int, ev c09Event) {
	x := w.x
	keys := c09Keys()
	k := w.freshKey()
	di := len(w.dids)
	id := keys[k].did
	spec := c09Spec{}
	rel := ev.Rel
	style := []uint32{0, 0, 0, 0, 1, 1, 2, 3}[ev.A%8]
	if len(w.dids) == 0 && style != 0 {
		style = 0
	}
	switch style {
	case 0: // self controlled
		if ev.B%16 != 15 { // rarely: deactivated at birth
			rel |= c09Cap
		}
	case 1: // controlled by an existing DID only (organisation style)
		spec.Ctrl = []int{int(ev.B) % len(w.dids)}
	case 2:
		rel |= c09Cap
		spec.Ctrl = []int{di, int(ev.B) % len(w.dids)}
	case 3:
		spec.Ctrl = []int{int(ev.B) % len(w.dids), int(ev.B/8) % len(w.dids)}
		if spec.Ctrl[0] == spec.Ctrl[1] {
			spec.Ctrl = spec.Ctrl[:1]
		}
	}
	spec.Keys = []c09Use{{K: k, Rel: rel}}
	if ev.B%3 == 0 {
		spec.Svcs = []c09Svc{{Frag: "svc-0", Type: "type-0", EP: "https://example.com/0"}}
	}
	o := &c09Offer{label: fmt.Sprintf("event %d create", i), op: "create", di: di, target: id, newKey: k, spec: spec, specExact: true,
		signKey: k, kid: id + "#" + keys[k].frag, embed: k, keys: []int{k}}
	doc := w.rawDoc(id, spec)
	evp := ev
	evp.Head = true
	o.prevs = w.prevs(evp)
	o.mustAccept = true

	adv := ev.Adv
	isDoc := c09In2(c09DocClasses, adv)
	isCreate := c09In2(c09CreateClasses, adv)
	if adv != "" && adv != "jsonmut" && !isDoc && !isCreate {
		// a signer class drawn for an update: mostly a legitimate creation, sometimes mapped onto the creation classes
		if ev.S%4 == 0 {
			adv = c09CreateClasses[int(ev.S/4)%len(c09CreateClasses)]
			isCreate = true
		} else {
			adv = ""
		}
	}
	if adv == "create-takeover" && len(w.dids) == 0 {
		adv = "create-foreign-key"
	}
	switch {
	case adv == "":
		o.class = "legit-create"
	case adv == "jsonmut":
		w.mutate(o, doc, ev)
	case isDoc:
		if w.twistDoc(doc, id, w.otherDID(id), adv, ev.S) {
			if w.twistKind != "" {
				adv += ":" + w.twistKind
			}
			// an embedded copy of a listed method is equivalent to a reference: such a document must stay acceptable
			o.class, o.mustAccept, o.specExact = adv, o.mustAccept && adv == "rel-embedded-listed-same", false
			o.mustReject = c09DocSig(adv)
		}
	case adv == "create-foreign-key":
		// the document (and DID) belong to key k, the transaction embeds and is signed by another key
		k2 := w.freshKey()
		o.signKey, o.embed, o.class, o.mustAccept = k2, k2, adv, false
		o.mustReject = "accepted-unauthorised:" + adv
		if ev.S%2 == 0 { // the attacker lists its own key in the document instead
			spec.Keys = []c09Use{{K: k2, Rel: rel | c09Cap}}
			o.spec = spec
			doc = w.rawDoc(id, spec)
			o.kid = id + "#" + keys[k2].frag
		}
	case adv == "create-takeover":
		// "creation" of an existing DID with the attacker's embedded key, naming the victim's latest version
		v := w.dids[int(ev.D)%len(w.dids)]
		k2 := k
		o.di, o.target, o.newKey = v.idx, v.id, -1
		spec = c09Spec{Keys: []c09Use{{K: k2, Rel: rel | c09Cap}}}
		o.spec = spec
		doc = w.rawDoc(v.id, spec)
		o.kid = v.id + "#" + keys[k2].frag
		o.prevs = w.prevs(evp, v.latest().ref)
		o.class, o.mustAccept = adv, false
		o.mustReject = "accepted-unauthorised:" + adv
	case adv == "create-kid-no-embed":
		o.embed, o.class, o.mustAccept = -1, adv, false
		o.mustReject = "accepted-unauthorised:" + adv
	case adv == "create-sig-mismatch":
		o.signKey, o.class, o.mustAccept = w.freshKey(), adv, false
		o.mustReject = "accepted-unauthorised:" + adv
	case adv == "create-did-trailing-delimiter":
		// "did:nuts:X?" / "X#" / "X/": the parser drops the empty part, the DID is the thumbprint DID; no verdict demanded
		doc["id"] = id + []string{"?", "#", "/", "/?#"}[int(ev.S)%4]
		o.class, o.mustAccept, o.specExact = adv, false, false
	case strings.HasPrefix(adv, "create-did-"):
		// the right key, a well-formed document, but the DID (used consistently for all entry ids) is only another spelling
		// of the thumbprint DID: DID.String() differs, so it is not "the DID that equals the thumbprint of the embedded key"
		sid := c09Spell(id, adv, ev.S, ev.B)
		doc = w.rawDoc(sid, spec)
		o.target, o.kid = sid, sid+"#"+keys[k].frag
		o.class, o.mustAccept = adv, false
		o.mustReject = "accepted-unauthorised:create-did-spelling:" + strings.SplitN(strings.TrimPrefix(adv, "create-did-"), "-", 2)[0]
	}
	if o.payload == nil {
		o.payload = w.encode(doc)
	}
	x.Class("offer:" + o.class)
	if o.mustReject != "" && strings.HasPrefix(o.mustReject, "accepted-unauthorised") {
		x.NonTrivial()
	}
	w.offer(o)
}

// c09DocSig: one signature per rule; the three embedded-method variants share a root cause, hence a signature.
func c09DocSig(class string) string {
	switch class {
	case "vm-near-miss-id:path", "vm-near-miss-id:query", "svc-near-miss-id:path", "svc-near-miss-id:query", "svc-near-miss-id:frag2":
		return "" // the DID part of the id equals the document's DID: nothing demanded
	case "vm-near-miss-id:frag2":
		return "accepted-invalid-doc:vm-thumb-mismatch" // the fragment is not the thumbprint
	}
	if strings.HasPrefix(class, "vm-non-jwk:") || strings.HasPrefix(class, "rel-embedded-non-jwk:") {
		if strings.Contains(class, "/own-okp-thumb") {
			return "" // the fragment is the thumbprint of the key the method carries: nothing demanded
		}
		return "accepted-invalid-doc:vm-thumb-mismatch:non-jwk" // listed or embedded: one rule, one root cause
	}
	if strings.HasPrefix(class, "vm-frag-alias:") {
		return "accepted-invalid-doc:vm-thumb-mismatch:b64-alias" // the fragment is not exactly the thumbprint
	}
	switch class {
	case "rel-embedded-valid", "rel-embedded-dup-same", "rel-embedded-listed-same":
		return "" // well-formed: no refusal demanded
	case "rel-embedded-listed-other-key", "rel-embedded-listed-other-controller", "rel-embedded-listed-other-type":
		return "accepted-invalid-doc:rel-embedded-conflicts-listed-vm"
	case "rel-embedded-dup-other-key", "rel-embedded-dup-other-controller", "rel-embedded-dup-other-type":
		return "accepted-invalid-doc:rel-embedded-dup-id"
	}
	if strings.HasPrefix(class, "rel-embedded-") {
		return "accepted-invalid-doc:rel-embedded-vm"
	}
	if i := strings.Index(class, ":"); i > 0 {
		return "accepted-invalid-doc:" + class[:i] // one signature for all near-miss kinds of a family
	}
	return "accepted-invalid-doc:" + class
}

func c09In2(l []string, v string) bool {
	for _, e := range l {
		if e == v {
			return true
		}
	}
	return false
}

func (w *c09World) mutate(o *c09Offer, doc map[string]any, ev c09Event) {
	o.class = "jsonmut-noop"
	if ev.Mut == nil {
		return
	}
	out, desc, ok := jsonmut.Apply(doc, *ev.Mut)
	if !ok {
		return
	}
	o.payload = jsonmut.Encode(out)
	o.class = "jsonmut"
	o.mustAccept, o.specExact = false, false
	w.x.Class("jsonmut-op:" + desc.Op)
	w.x.Logf("jsonmut %s at %s (%s)", desc.Op, desc.Pointer, desc.Detail)
	// a changed top-level id aims the document at another DID: no record keeping possible afterwards
	if m, isMap := out.(map[string]any); !isMap || m["id"] != doc["id"] {
		o.class = "jsonmut-id-changed"
	}
}

func (w *c09World) update(i int, ev c09Event) {
	x := w.x
	keys := c09Keys()
	d := w.dids[int(ev.D)%len(w.dids)]
	if ev.D%8 != 7 { // mostly aim at a DID that is not deactivated itself
		var alive []*c09DID
		for _, c := range w.dids {
			if !w.deact(c) {
				alive = append(alive, c)
			}
		}
		if len(alive) > 0 {
			d = alive[int(ev.D)%len(alive)]
		}
	}
	if (ev.Op == "deact" && ev.A%4 != 3) || ((ev.Op == "rotate" || ev.Op == "demote" || ev.Op == "ctrl") && ev.A%2 == 0) {
		// prefer a DID that other documents name as their controller: its fate decides theirs
		var named []*c09DID
		for _, c := range w.dids {
			for _, o := range w.dids {
				if o.idx != c.idx && c09In(o.latest().spec.Ctrl, c.idx) && len(w.controllers(c)) > 0 {
					named = append(named, c)
					break
				}
			}
		}
		if len(named) > 0 {
			d = named[int(ev.D)%len(named)]
		}
	}
	if ev.Op == "ctrl" && ev.A%2 == 1 {
		// prefer a DID that has foreign controllers and can still be updated: taking control away creates ex-controllers
		var held []*c09DID
		for _, c := range w.dids {
			for _, cc := range c.latest().spec.Ctrl {
				if cc != c.idx && len(w.controllers(c)) > 0 {
					held = append(held, c)
					break
				}
			}
		}
		if len(held) > 0 {
			d = held[int(ev.D)%len(held)]
		}
	}
	cur := d.latest().spec
	spec := cur.clone()
	op := ev.Op
	// would the edit leave a document that controls itself without any capabilityInvocation key (= deactivate it)?
	soleCap := func(j int) bool {
		for _, c := range cur.Ctrl {
			if c != d.idx {
				return false
			}
		}
		return len(cur.capKeys()) == 1 && cur.Keys[j].Rel&c09Cap != 0 && ev.B%4 != 0
	}
	pickKey := func(pred func(c09Use) bool) int {
		var c []int
		for j, u := range spec.Keys {
			if pred(u) {
				c = append(c, j)
			}
		}
		if len(c) == 0 {
			return -1
		}
		return c[int(ev.A)%len(c)]
	}
	var newKeys []int
	switch op {
	case "addkey":
		k := w.freshKey()
		if ev.A%4 == 0 { // reuse a key that is or was listed in some other document
			var pool []int
			for _, od := range w.dids {
				for _, ek := range od.everKeys {
					if _, has := spec.find(ek); !has {
						pool = append(pool, ek)
					}
				}
			}
			if len(pool) > 0 {
				k = pool[int(ev.B)%len(pool)]
			}
		}
		spec.Keys = append(spec.Keys, c09Use{K: k, Rel: ev.Rel})
		newKeys = append(newKeys, k)
	case "rmkey":
		if j := pickKey(func(c09Use) bool { return true }); j >= 0 && !soleCap(j) {
			spec.Keys = append(spec.Keys[:j], spec.Keys[j+1:]...)
		} else {
			op = "svc"
		}
	case "rotate":
		if j := pickKey(func(u c09Use) bool { return u.Rel&c09Cap != 0 }); j >= 0 {
			k := w.freshKey()
			spec.Keys[j] = c09Use{K: k, Rel: spec.Keys[j].Rel}
			newKeys = append(newKeys, k)
		} else {
			op = "svc"
		}
	case "demote":
		if j := pickKey(func(u c09Use) bool { return u.Rel&c09Cap != 0 }); j >= 0 && !soleCap(j) {
			spec.Keys[j].Rel = (spec.Keys[j].Rel &^ c09Cap) | c09Asr
			if ev.B%2 == 0 {
				spec.Keys[j].Rel |= c09Aut
			}
		} else {
			op = "svc"
		}
	case "promote":
		if j := pickKey(func(u c09Use) bool { return u.Rel&c09Cap == 0 }); j >= 0 {
			spec.Keys[j].Rel |= c09Cap
		} else {
			op = "svc"
		}
	case "ctrl":
		var others []int
		for _, od := range w.dids {
			if od.idx != d.idx {
				others = append(others, od.idx)
			}
		}
		switch v := ev.A % 5; {
		case v == 0 || len(others) == 0:
			if len(spec.Ctrl) == 0 {
				spec.Ctrl = []int{d.idx}
			} else {
				spec.Ctrl = nil
			}
		case v == 1 || v == 4:
			spec.Ctrl = []int{others[int(ev.B)%len(others)]}
		case v == 2:
			spec.Ctrl = []int{d.idx, others[int(ev.B)%len(others)]}
		default:
			spec.Ctrl = []int{others[int(ev.B)%len(others)], others[int(ev.B/8)%len(others)]}
			if spec.Ctrl[0] == spec.Ctrl[1] {
				spec.Ctrl = spec.Ctrl[:1]
			}
		}
	case "deact":
		spec = c09Spec{}
	default:
		op = "svc"
	}
	if op == "svc" {
		switch {
		case len(spec.Svcs) == 0 || ev.A%3 == 0:
			n := 0
			for _, v := range d.vers {
				n += len(v.spec.Svcs)
			}
			spec.Svcs = append(spec.Svcs, c09Svc{Frag: fmt.Sprintf("svc-%d", n+1), Type: fmt.Sprintf("type-%d", n+1), EP: "https://example.com/" + fmt.Sprint(ev.B)})
		case ev.A%3 == 1:
			spec.Svcs[int(ev.B)%len(spec.Svcs)].EP = fmt.Sprintf("https://example.com/changed/%d", w.tick)
		default:
			j := int(ev.B) % len(spec.Svcs)
			spec.Svcs = append(spec.Svcs[:j], spec.Svcs[j+1:]...)
		}
	}

	legit, odd, unauth := w.signers(d)
	freshKey := false
	x.Classf("controllers:%d", len(w.controllers(d)))
	o := &c09Offer{label: fmt.Sprintf("event %d %s", i, op), op: op, di: d.idx, target: d.id, newKey: -1, spec: spec, specExact: true, embed: -1}
	for _, u := range spec.Keys {
		o.keys = append(o.keys, u.K)
	}
	doc := w.rawDoc(d.id, spec)

	useSigner := func(s c09Signer) {
		o.signKey = s.key
		holderID := d.id
		refs := []hash.SHA256Hash{d.latest().ref}
		if ev.B%2 == 0 {
			refs = append(refs, d.forkRefs...) // a merged latest version has several source transactions
		}
		if s.holder >= 0 && s.holder != d.idx {
			holderID = w.dids[s.holder].id
			refs = append(refs, w.dids[s.holder].latest().ref)
			if ev.B%4 < 2 {
				refs = append(refs, w.dids[s.holder].forkRefs...)
			}
		} else if s.holder >= 0 {
			holderID = w.dids[s.holder].id
		}
		o.kid = holderID + "#" + keys[s.kidKey].frag
		o.prevs = w.prevs(ev, refs...)
		o.keys = append(o.keys, s.key)
	}
	legitPick := func() (c09Signer, bool) {
		if len(legit) == 0 {
			return c09Signer{}, false
		}
		// prefer holders whose activity follows from their own document (the only ones real publishers can use)
		var simple []c09Signer
		for _, s := range legit {
			if w.simple(s.holder) {
				simple = append(simple, s)
			}
		}
		if len(simple) > 0 && ev.S%8 != 7 {
			return simple[int(ev.S)%len(simple)], true
		}
		return legit[int(ev.S)%len(legit)], true
	}

	adv := ev.Adv
	if c09In2(c09CreateClasses, adv) {
		adv = c09SignerClasses[int(ev.S)%len(c09SignerClasses)]
	}
	ls, haveLegit := legitPick()
	if !haveLegit && (adv == "" || adv == "jsonmut" || c09In2(c09DocClasses, adv)) {
		// nobody can legitimately update this DID any more: every signer is an unauthorised one
		adv = c09SignerClasses[int(ev.S)%len(c09SignerClasses)]
		x.Class("target-without-authority")
	}

	switch {
	case adv == "" || adv == "jsonmut" || c09In2(c09DocClasses, adv):
		useSigner(ls)
		o.class = "legit-update"
		o.mustAccept = w.simple(ls.holder)
		if !o.mustAccept {
			x.Class("legit-by-record-but-holder-has-foreign-controllers-only")
		}
		if adv == "jsonmut" {
			w.mutate(o, doc, ev)
		} else if adv != "" {
			if w.twistDoc(doc, d.id, w.otherDID(d.id), adv, ev.S) {
				if w.twistKind != "" {
					adv += ":" + w.twistKind
				}
				o.class, o.mustAccept, o.specExact = adv, o.mustAccept && adv == "rel-embedded-listed-same", false
				o.mustReject = c09DocSig(adv)
			}
		}
	default:
		avail := func(c string) bool {
			switch c {
			case "never-listed", "proposed-only", "never-listed+proxy", "update-unknown-did", "proposed-controller":
				return true
			case "kid-lie":
				return haveLegit
			case "embedded-controller-key":
				for _, l := range legit {
					if l.key != d.key {
						return true
					}
				}
				return false
			}
			return len(unauth[c]) > 0
		}
		class := c09Pick(adv, c09SignerClasses, avail, ev.S)
		var s c09Signer
		switch class {
		case "never-listed":
			k := w.freshKey()
			s = c09Signer{class: class, holder: d.idx, key: k, kidKey: k}
		case "never-listed+proxy":
			k := w.freshKey()
			s = c09Signer{class: class, holder: d.idx, key: k, kidKey: k, proxy: true}
		case "embedded-controller-key":
			// a legitimate controller key, but embedded in the transaction instead of referred to by kid: that makes the
			// transaction a creation, and the key is not the one the DID was derived from
			var cands []c09Signer
			for _, l := range legit {
				if l.key != d.key {
					cands = append(cands, l)
				}
			}
			s = cands[int(ev.S)%len(cands)]
			s.class = class
			o.embed = s.key
		case "proposed-controller":
			// the offered version names the signer's own (unrelated, honest) document as controller / lists the signer's key
			var cands []c09Signer
			for _, c := range unauth["non-controller-doc"] {
				if u, listed := w.dids[c.holder].latest().spec.find(c.key); listed && u.Rel&c09Cap != 0 && !c.proxy {
					cands = append(cands, c)
				}
			}
			if len(cands) > 0 {
				s = cands[int(ev.S)%len(cands)]
				s.class = class
			} else {
				k := w.freshKey()
				s = c09Signer{class: class, holder: d.idx, key: k, kidKey: k, proxy: true}
			}
		case "kid-lie":
			s = c09Signer{class: class, holder: ls.holder, key: w.freshKey(), kidKey: ls.key}
		case "proposed-only":
			k := w.freshKey()
			spec.Keys = append(spec.Keys, c09Use{K: k, Rel: c09Cap | c09Asr})
			o.spec = spec
			doc = w.rawDoc(d.id, spec)
			s = c09Signer{class: class, holder: d.idx, key: k, kidKey: k}
		case "update-unknown-did":
			// an update (kid, no embedded key) for a DID that was never created, signed by an honest key of an existing document
			k := w.freshKey()
			o.di, o.target = len(w.dids), keys[k].did
			o.newKey = k
			spec = c09Spec{Keys: []c09Use{{K: k, Rel: c09Cap | c09Asr}}}
			o.spec = spec
			doc = w.rawDoc(o.target, spec)
			if haveLegit {
				s = c09Signer{class: class, holder: ls.holder, key: ls.key, kidKey: ls.key}
			} else {
				s = c09Signer{class: class, holder: d.idx, key: d.key, kidKey: d.key}
			}
		default:
			l := unauth[class]
			s = l[int(ev.S)%len(l)]
		}
		if s.proxy {
			// the attacker first publishes its own (perfectly legitimate) DID that lists the key it holds,
			// so that the kid of the attack resolves and the signature verifies
			ak := w.freshKey()
			aid := keys[ak].did
			aspec := c09Spec{Keys: []c09Use{{K: ak, Rel: c09Cap | c09Asr}, {K: s.key, Rel: ev.Rel | c09Asr}}}
			evp := ev
			evp.Head = true
			po := &c09Offer{label: fmt.Sprintf("event %d proxy-create", i), op: "create", class: "legit-create(proxy)", di: len(w.dids), target: aid, newKey: ak,
				spec: aspec, specExact: true, signKey: ak, kid: aid + "#" + keys[ak].frag, embed: ak, keys: []int{ak, s.key},
				prevs: w.prevs(evp), mustAccept: true, payload: w.encode(w.rawDoc(aid, aspec))}
			if !w.offer(po) || w.stop {
				return
			}
			s.holder = len(w.dids) - 1
		}
		if class == "proposed-controller" {
			switch ev.A % 3 {
			case 0:
				spec.Ctrl = []int{s.holder}
			case 1:
				spec.Ctrl = append(spec.Ctrl, s.holder)
				if len(cur.Ctrl) == 0 {
					spec.Ctrl = append(spec.Ctrl, d.idx)
				}
			default:
				if _, has := spec.find(s.key); !has {
					spec.Keys = append(spec.Keys, c09Use{K: s.key, Rel: c09Cap | c09Asr})
				}
			}
			o.spec = spec
			o.keys = append(o.keys, s.key)
			doc = w.rawDoc(d.id, spec)
		}
		if class == "update-unknown-did" {
			// prevs cannot name a version of the target: there is none
			o.signKey = s.key
			o.kid = w.dids[s.holder].id + "#" + keys[s.kidKey].frag
			o.prevs = w.prevs(ev, w.dids[s.holder].latest().ref)
			o.keys = append(o.keys, s.key)
		} else {
			useSigner(s)
		}
		o.class = class
		o.mustReject = "accepted-unauthorised:" + class
		switch class {
		case "never-listed", "never-listed+proxy", "kid-lie", "proposed-only", "update-unknown-did":
			freshKey = true // the key never appeared in any document: no look-up, as of whatever time, can authorise it
		}
		// does the refusal rest on the node looking up controllers as of the signing time? Not when the kid names an active
		// controller of the target whose latest version is among the prevs (then that version decides).
		o.byTime = !freshKey && !(s.holder >= 0 && c09In(w.controllers(d), s.holder) && !s.proxy)
		x.NonTrivial()
	}
	_ = odd
	if ev.NoTP && o.di == d.idx && (o.mustReject != "" || ev.S%3 == 0) {
		// No prev names a version of the target: the node falls back to the latest version, which is what the record judges
		// by anyway. Unauthorised stays unauthorised; for an authorised signer nothing is demanded (it forks the history).
		own := map[hash.SHA256Hash]bool{}
		for _, v := range d.vers {
			own[v.ref] = true
		}
		for _, r := range d.forkRefs {
			own[r] = true
		}
		var kept []hash.SHA256Hash
		for _, r := range o.prevs {
			if !own[r] {
				kept = append(kept, r)
			}
		}
		if len(kept) == 0 {
			// nothing left (the key lives in the target itself): name an unrelated transaction
			if !own[w.head] {
				kept = append(kept, w.head)
			} else {
				for _, od := range w.dids {
					if od.idx != d.idx {
						kept = append(kept, od.latest().ref)
						break
					}
				}
			}
		}
		if len(kept) > 0 {
			o.prevs, o.noTP, o.mustAccept = kept, true, false
			o.byTime = o.byTime || !freshKey
			o.class += "/no-target-prev"
			if strings.HasPrefix(o.mustReject, "accepted-unauthorised:") {
				o.mustReject += "/no-target-prev" // the fallback route is a mechanism of its own
			}
		}
	}
	if o.payload == nil {
		o.payload = w.encode(doc)
	}
	if ev.Skew > 0 && o.di == d.idx {
		// the signing time is the publisher's business: relative to the version this update succeeds it may be anything
		k := int(ev.Skew-1) % len(c09Skews)
		o.at, o.atSet = d.latest().at.Add(time.Duration(c09Skews[k])*time.Second), true
		x.Class("signing-time:" + c09SkewNames[k] + "-than-predecessor")
		if o.mustAccept {
			x.Class("signing-time:" + c09SkewNames[k] + "-than-predecessor:legitimate")
		}
	}
	x.Class("offer:" + o.class)
	if len(cur.Ctrl) > 0 {
		x.Class("target-has-controllers")
	}
	w.offer(o)
}

// fork is the one bounded exception to "histories are conflict-free": a self-controlled document A gets two concurrent
// successors of its latest version a1 - a deactivation a2 and, signed later, an update a3 that adds a key Kx (or rotates the signing key to Kx, or only adds a service) - which arrive
// in either order and are merged by the store. A stays deactivated ("once deactivated is always deactivated") although the
// merged document lists Kx and the old key. Both branches succeed a1 and are signed by a controller of a1, so the record
// authorises both (their acceptance is only demanded for the one that arrives first, which is an ordinary update).
// Afterwards the record says: A is deactivated and authorises nothing, whatever its merged document lists. Documents that
// name A as controller (one is created if there is none), and A itself, are then offered updates signed with Kx and with
// the old key, kid A#key, referring to a2, a3 or both.
func (w *c09World) fork(i int, ev c09Event) {
	x := w.x
	keys := c09Keys()
	var cands, named []*c09DID
	for _, c := range w.dids {
		s := c.latest().spec
		if w.deact(c) || len(s.capKeys()) == 0 || !(len(s.Ctrl) == 0 || (len(s.Ctrl) == 1 && s.Ctrl[0] == c.idx)) {
			continue
		}
		cands = append(cands, c)
		for _, o := range w.dids {
			if o.idx != c.idx && c09In(o.latest().spec.Ctrl, c.idx) {
				named = append(named, c)
				break
			}
		}
	}
	if len(cands) == 0 {
		ev.Op = "rotate"
		w.update(i, ev)
		return
	}
	a := cands[int(ev.D)%len(cands)]
	if len(named) > 0 && ev.A%4 != 3 {
		a = named[int(ev.D)%len(named)]
	}
	a1 := *a.latest()
	capKeys := a1.spec.capKeys()
	ka := capKeys[int(ev.S)%len(capKeys)]
	kx := w.freshKey()
	specAdd := a1.spec.clone()
	// what the concurrent branch does to a1: it adds a key, replaces the signing key by a new one, or only touches a service
	// (then the merged document lists the old key alone and Kx was never listed anywhere)
	branchKind := []string{"add-key", "add-key", "rotate", "svc"}[int(ev.A/4)%4]
	switch branchKind {
	case "add-key":
		specAdd.Keys = append(specAdd.Keys, c09Use{K: kx, Rel: c09Cap | c09Asr})
	case "rotate":
		for j := range specAdd.Keys {
			if specAdd.Keys[j].K == ka {
				specAdd.Keys[j].K = kx
			}
		}
	case "svc":
		specAdd.Svcs = append(specAdd.Svcs, c09Svc{Frag: fmt.Sprintf("svc-fork-%d", i), Type: fmt.Sprintf("type-fork-%d", i), EP: "https://example.com/fork"})
	}
	x.Class("fork:concurrent-branch:" + branchKind)
	prevs := []hash.SHA256Hash{a1.ref}
	if ev.Head && !w.head.Equals(a1.ref) {
		prevs = append(prevs, w.head)
	}
	if ev.Rot%2 == 1 && len(prevs) == 2 {
		prevs[0], prevs[1] = prevs[1], prevs[0]
	}
	tDeact, tAdd := w.tick+1, w.tick+2 // the deactivation is signed before the update that adds the key
	w.tick += 2
	kidA := func(k int) string { return a.id + "#" + keys[k].frag }
	oDeact := &c09Offer{label: fmt.Sprintf("event %d fork:deactivate", i), op: "deact", class: "fork-deactivate", di: a.idx, target: a.id, newKey: -1,
		spec: c09Spec{}, specExact: true, payload: w.encode(w.rawDoc(a.id, c09Spec{})), signKey: ka, kid: kidA(ka), embed: -1, prevs: prevs, tick: tDeact, keys: []int{ka, kx}}
	oAdd := &c09Offer{label: fmt.Sprintf("event %d fork:add-key", i), op: "addkey", class: "fork-add-key", di: a.idx, target: a.id, newKey: -1,
		spec: specAdd, specExact: true, payload: w.encode(w.rawDoc(a.id, specAdd)), signKey: ka, kid: kidA(ka), embed: -1, prevs: prevs, tick: tAdd, keys: []int{ka, kx}}
	first, second := oDeact, oAdd
	if ev.B%2 == 1 {
		first, second = oAdd, oDeact
		x.Class("fork:key-adding-branch-arrives-first")
	} else {
		x.Class("fork:deactivation-arrives-first")
	}
	first.mustAccept = true // an ordinary legitimate update of a self-controlled document
	second.noRecord = true  // the second branch names a1, not the latest version: a fork, no verdict demanded
	x.Class("offer:" + first.class)
	if !w.offer(first) || w.stop {
		return
	}
	x.Class("offer:" + second.class)
	if !w.offer(second) {
		x.Class("fork:second-branch-refused")
		return
	}
	// precondition of everything below: the store merged the branches and keeps A deactivated
	_, meta, err := w.store.Resolve(did.MustParseDID(a.id), &resolver.ResolveMetadata{AllowDeactivated: true})
	both := 0
	if err == nil {
		for _, st := range meta.SourceTransactions {
			if st.Equals(oDeact.ref) || st.Equals(oAdd.ref) {
				both++
			}
		}
	}
	if err != nil || both != 2 {
		x.Class("fork:not-merged-as-expected")
		w.stop = true
		return
	}
	if !meta.Deactivated {
		// Both branches are source transactions of the latest version, one of them is an accepted deactivation: the merged
		// version succeeds a deactivated version. The record goes on (A authorises nothing), the offers below show what the
		// lost flag is worth to a holder of A's keys.
		x.Class("fork:merged-version-not-flagged-deactivated")
		x.Violate("accepted-not-effective:deactivated", "event %d fork (%s, first to arrive: %s): the deactivation %s of %s was accepted and merged with the concurrent %s branch %s, but metadata.Deactivated=false for the merged version",
			i, branchKind, first.class, oDeact.ref, a.id, branchKind, oAdd.ref)
	}
	a.dead = true
	a.forkRefs = []hash.SHA256Hash{oDeact.ref}
	if first == oDeact {
		a.vers = append(a.vers, c09Ver{spec: specAdd, ref: oAdd.ref, ph: oAdd.ph, at: oAdd.at, clock: oAdd.clock})
	} else {
		// the key adding branch was recorded as an ordinary version; it stays the "latest" the record refers to
		a.vers[len(a.vers)-1].spec = specAdd
	}
	a.noteKeys(specAdd)
	x.Class("fork:established")
	x.NonTrivial()

	// who names A as controller?
	var targets []*c09DID
	for _, o := range w.dids {
		if o.idx != a.idx && c09In(o.latest().spec.Ctrl, a.idx) && !w.deact(o) {
			targets = append(targets, o)
		}
	}
	if len(targets) == 0 {
		kb := w.freshKey()
		bspec := c09Spec{Ctrl: []int{a.idx}, Keys: []c09Use{{K: kb, Rel: c09Asr}}}
		if ev.A%2 == 1 {
			bspec.Keys[0].Rel |= c09Cap // B lists a capabilityInvocation key itself but does not control itself
		}
		evh := ev
		evh.Head = true
		ob := &c09Offer{label: fmt.Sprintf("event %d fork:create-controlled", i), op: "create", class: "legit-create", di: len(w.dids), target: keys[kb].did, newKey: kb,
			spec: bspec, specExact: true, payload: w.encode(w.rawDoc(keys[kb].did, bspec)), signKey: kb, kid: keys[kb].did + "#" + keys[kb].frag, embed: kb,
			prevs: w.prevs(evh), mustAccept: true, keys: []int{kb}}
		x.Class("offer:" + ob.class)
		if !w.offer(ob) || w.stop {
			return
		}
		targets = append(targets, w.dids[len(w.dids)-1])
	}
	if len(targets) > 2 {
		r := int(ev.D) % len(targets)
		targets = append(targets[r:], targets[:r]...)[:2]
	}
	targets = append(targets, a)
	attacker := w.freshKey()
	a2, a3 := oDeact.ref, oAdd.ref
	type combo struct {
		key  int
		refs []hash.SHA256Hash
		name string
	}
	combos := []combo{{kx, []hash.SHA256Hash{a3}, "new-key/a3"}, {kx, []hash.SHA256Hash{a2, a3}, "new-key/a2+a3"}, {kx, []hash.SHA256Hash{a2}, "new-key/a2"},
		{ka, []hash.SHA256Hash{a2}, "old-key/a2"}, {ka, []hash.SHA256Hash{a3}, "old-key/a3"}, {ka, []hash.SHA256Hash{a3, a2}, "old-key/a3+a2"}}
	for _, t := range targets {
		for ci, c := range combos {
			if w.stop {
				return
			}
			if t == a && ci%3 != int(ev.S)%3 {
				continue // two offers aimed at A itself are enough
			}
			spec := t.latest().spec.clone()
			if t == a {
				spec = specAdd.clone()
			}
			if _, has := spec.find(attacker); !has {
				spec.Keys = append(spec.Keys, c09Use{K: attacker, Rel: c09Cap | c09Asr})
			}
			if ev.A%3 == 0 && t != a {
				spec.Ctrl = nil // and take the document out of A's hands
			}
			refs := append([]hash.SHA256Hash{}, c.refs...)
			if t != a {
				refs = append([]hash.SHA256Hash{t.latest().ref}, refs...)
			}
			if ev.Rot >= 2 {
				for l, r := 0, len(refs)-1; l < r; l, r = l+1, r-1 {
					refs[l], refs[r] = refs[r], refs[l]
				}
			}
			o := &c09Offer{label: fmt.Sprintf("event %d fork:%s", i, c.name), op: "addkey", class: "forked-deactivated-controller", di: t.idx, target: t.id, newKey: -1,
				spec: spec, specExact: true, payload: w.encode(w.rawDoc(t.id, spec)), signKey: c.key, kid: kidA(c.key), embed: -1, prevs: refs,
				mustReject: "accepted-unauthorised:forked-deactivated-controller", keys: []int{attacker, c.key}}
			if w.authorised(t, c.key) {
				// the target lists this very key for capability invocation in a document that still controls it (key re-use
				// across documents): A's deactivation does not take that away, nothing is demanded
				o.mustReject, o.class = "", "fork-key-authorised-by-another-controller"
				x.Class("fork:key-authorised-by-another-controller")
			}
			x.Class("offer:" + o.class)
			x.Class("fork-offer:" + c.name)
			w.offer(o)
		}
	}
	if w.stop {
		return
	}
	// The same keys, but the kid names a document of the signer's own that lists them (so the kid resolves whatever the
	// state of A): A's keys are worth nothing any more, neither for the documents A controlled nor for A itself.
	pk := w.freshKey()
	pid := keys[pk].did
	pspec := c09Spec{Keys: []c09Use{{K: pk, Rel: c09Cap | c09Asr}, {K: kx, Rel: c09Cap | c09Asr}, {K: ka, Rel: ev.Rel | c09Asr}}}
	evh := ev
	evh.Head = true
	po := &c09Offer{label: fmt.Sprintf("event %d fork:proxy-create", i), op: "create", class: "legit-create(proxy)", di: len(w.dids), target: pid, newKey: pk,
		spec: pspec, specExact: true, signKey: pk, kid: pid + "#" + keys[pk].frag, embed: pk, keys: []int{pk, kx, ka},
		prevs: w.prevs(evh), mustAccept: true, payload: w.encode(w.rawDoc(pid, pspec))}
	x.Class("offer:" + po.class)
	if !w.offer(po) || w.stop {
		return
	}
	proxy := w.dids[len(w.dids)-1]
	for ti, t := range targets {
		for ki, k := range []int{kx, ka} {
			if w.stop {
				return
			}
			spec := t.latest().spec.clone()
			if t == a {
				spec = specAdd.clone()
			}
			if _, has := spec.find(attacker); !has {
				spec.Keys = append(spec.Keys, c09Use{K: attacker, Rel: c09Cap | c09Asr})
			}
			refs := []hash.SHA256Hash{t.latest().ref}
			if t == a && (int(ev.B/2)+ki)%2 == 0 {
				refs = append(refs, a2)
			}
			if t != a && (int(ev.B/2)+ki+ti)%3 == 0 {
				refs = append(refs, a3) // also name the deactivated controller
			}
			refs = append(refs, proxy.latest().ref)
			if ev.Rot >= 2 {
				refs[0], refs[len(refs)-1] = refs[len(refs)-1], refs[0]
			}
			class := "forked-deactivated-controller+proxy"
			if t == a {
				class = "forked-deactivated-self+proxy"
			}
			if (int(ev.S)+ki+ti)%2 == 0 {
				// only the proxy's transaction: no prev names a version of the target, the node falls back to its latest version
				refs = []hash.SHA256Hash{proxy.latest().ref}
				class += "/no-target-prev"
			}
			o := &c09Offer{label: fmt.Sprintf("event %d fork:proxy", i), op: "addkey", class: class, di: t.idx, target: t.id, newKey: -1,
				spec: spec, specExact: true, payload: w.encode(w.rawDoc(t.id, spec)), signKey: k, kid: proxy.id + "#" + keys[k].frag, embed: -1, prevs: refs,
				mustReject: "accepted-unauthorised:" + class, keys: []int{attacker, k}}
			if w.authorised(t, k) {
				o.mustReject, o.class = "", "fork-key-authorised-by-another-controller"
				o.noTP = strings.HasSuffix(class, "/no-target-prev") // an acceptance that does not name the target forks it
				x.Class("fork:key-authorised-by-another-controller")
			}
			x.Class("offer:" + o.class)
			w.offer(o)
		}
	}
}

// ---------------------------------------------------------------------------------------------------------------------

func c09Run(x *h.Ctx, c c09Case) {
	if len(c.Events) > 64 {
		return
	}
	logrus.SetOutput(io.Discard)
	logrus.SetLevel(logrus.PanicLevel)
	dbPath := filepath.Join(x.TempDir(), "didstore.db")
	// Lock timeout of an hour: the default is 3 s, which a starved machine can exceed; go-stoabs' lockWithCancel can then
	// deadlock (the locking goroutine blocks on its channel send while holding the mutex the expiry branch waits for).
	kv, err := bbolt.CreateBBoltStore(dbPath, stoabs.WithNoSync(), stoabs.WithLockAcquireTimeout(time.Hour))
	x.NoErr(err, "bbolt")
	x.Cleanup(func() { _ = kv.Close(audit.TestContext()) })
	store := didstore.New(&storage.StaticKVStoreProvider{Store: kv})
	x.NoErr(store.(core.Configurable).Configure(core.ServerConfig{}), "didstore.Configure")
	net := &c09Net{}
	w := &c09World{
		x:       x,
		c09View: c09NewView(store),
		dbPath:  dbPath,
		net:     net,
		amb:     NewAmbassador(net, store, nil).(*ambassador),
		verify:  dag.NewTransactionSignatureVerifier(dag.SourceTXKeyResolver{Resolver: store}),
		head:    hash.SHA256Sum([]byte("verif-C09-root")),
		clocks:  map[hash.SHA256Hash]uint32{},
	}
	w.takeSnapshot()
	w.clocks[w.head] = 0
	for i, ev := range c.Events {
		if w.stop {
			break
		}
		w.rep = int(ev.Rep)
		switch {
		case ev.Op == "reprocess" && len(w.log) > 0:
			// an operator's reprocess, later in the history: earlier pairs come by again
			var later []*c09Delivered
			for _, e := range w.log {
				if e.later {
					later = append(later, e)
				}
			}
			if len(later) == 0 {
				break
			}
			for n := 1; n <= 1+int(ev.A)%2 && !w.stop; n++ {
				e := later[(int(ev.D)+n*int(ev.B|1))%len(later)]
				w.redeliver(e, n, "later")
			}
		case len(w.dids) == 0:
			if ev.S%4 != 0 {
				ev.Adv = "" // get a history going first
			}
			w.create(i, ev)
		case ev.Op == "create" && (len(w.dids) < 4 || ev.B%4 == 0):
			w.create(i, ev)
		case ev.Op == "create":
			ev.Op = c09Ops[3+int(ev.A)%(len(c09Ops)-3)]
			if ev.Op == "fork" {
				w.fork(i, ev)
			} else {
				w.update(i, ev)
			}
		case ev.Op == "fork":
			w.fork(i, ev)
		case ev.Op == "reprocess":
			ev.Op = "svc"
			w.update(i, ev)
		default:
			w.update(i, ev)
		}
	}
	x.Classf("dids:%d", len(w.dids))
	maxv := 0
	for _, d := range w.dids {
		if len(d.vers) > maxv {
			maxv = len(d.vers)
		}
	}
	x.Classf("max-versions:%d", maxv)
}

func TestVerif_C09_Authz(t *testing.T) { h.Check(t, "C09", c09Gen, c09Run) }

func TestVerifReplay_C09_Authz(t *testing.T) { h.Replay(t, "C09", "TestVerif_C09_Authz", c09Run) }
