//go:build verif

package didnuts

// Shared by the C09 and C19 harnesses of this package: a message that is really bound to a JetStream subscription, as
// ambassador.handleReprocessEvent needs it (it acks the message first and gives up when that fails).
// (C19 still carries its own copy of this helper under c19* names; behaviour is identical.)

import (
	"context"
	"encoding/json"
	"fmt"
	"sync"
	"testing"
	"time"

	"github.com/nats-io/nats.go"
	"github.com/nuts-foundation/nuts-node/events"
	"github.com/nuts-foundation/nuts-node/network/dag"
	"verif.local/h"
)

// verifNATS is an embedded NATS server (the events engine's own test manager), one per process.
type verifNATS struct {
	js  nats.JetStreamContext
	sub *nats.Subscription
	err error
}

var (
	verifNATSOnce sync.Once
	verifTheNATS  *verifNATS
)

func verifGetNATS(x *h.Ctx) *verifNATS {
	verifNATSOnce.Do(func() {
		n := &verifNATS{}
		verifTheNATS = n
		defer func() {
			if r := recover(); r != nil {
				n.err = fmt.Errorf("embedded NATS: %v", r)
			}
		}()
		t, ok := x.TB.(*testing.T)
		if !ok {
			panic("embedded NATS needs a *testing.T")
		}
		em := events.NewTestManager(t)
		_, js, err := em.Pool().Acquire(context.Background())
		if err != nil {
			panic(err)
		}
		if _, err = js.AddStream(&nats.StreamConfig{Name: "VERIFSHARED", Subjects: []string{"VERIFSHARED.*"}, Storage: nats.MemoryStorage, MaxMsgs: 100, Discard: nats.DiscardOld}); err != nil {
			panic(err)
		}
		sub, err := js.SubscribeSync("VERIFSHARED.doc", nats.BindStream("VERIFSHARED"), nats.ManualAck(), nats.AckExplicit(), nats.DeliverNew())
		if err != nil {
			panic(err)
		}
		n.js, n.sub = js, sub
	})
	if verifTheNATS.err != nil {
		x.Fatalf("%v", verifTheNATS.err)
	}
	return verifTheNATS
}

// verifReprocessMsg publishes the transaction+payload the way network.Reprocess does and fetches the bound message.
func verifReprocessMsg(x *h.Ctx, tx dag.Transaction, payload []byte) *nats.Msg {
	n := verifGetNATS(x)
	data, err := json.Marshal(events.TransactionWithPayload{Transaction: tx, Payload: payload})
	x.NoErr(err, "marshal TransactionWithPayload")
	_, err = n.js.Publish("VERIFSHARED.doc", data)
	x.NoErr(err, "publish reprocess message")
	msg, err := n.sub.NextMsg(30 * time.Second)
	x.NoErr(err, "fetch reprocess message")
	return msg
}
