//go:build verif

package didnuts

// C13 hook (adds an export, rewrites nothing): lets the didsubject harness hand a freshly created network
// transaction to the REAL ambassador, exactly as the DAG notifier does (handleNetworkEvent -> callback), so that
// the scripted network publishes into the didstore through the production code path.

import "github.com/nuts-foundation/nuts-node/network/dag"

// VerifC13Deliver calls the ambassador's network callback with (tx, payload).
func VerifC13Deliver(a Ambassador, tx dag.Transaction, payload []byte) error {
	return a.(*ambassador).callback(tx, payload)
}
