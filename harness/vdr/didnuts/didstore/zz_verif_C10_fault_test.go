//go:build verif

package didstore

// C10, fault component: a store that suffers storage faults inside Add, and then gets the failed transactions again,
// ends up exactly like a fault-free store that received the same SET of transactions.
//
// store.Add is two separate write operations (1: document + transaction index, 2: event list, applyFrom, metadata,
// latest, conflicted, stats). A real caller (ambassador -> DAG notifier) that gets an error from Add delivers the
// transaction again later, any number of times, while other transactions keep arriving. The case holds the history
// (same generator as the order unit), one arrival order, and a fault plan as data: which delivery is hit, which of the
// two writes fails, whether it fails before its body runs or after it (real rollback), whether the process dies right
// after (close + re-open), after how many further deliveries the transaction comes back, and whether that redelivery
// fails once more. Oracles: Add returns an error iff a write was made to fail; after every delivery the order-free model
// of the order unit holds for the set of transactions whose Add succeeded; at the end the full observation vector
// equals that of a fault-free store fed in canonical order, before and after a close/re-open.

import (
	"context"
	"errors"
	"fmt"
	"os"
	"path/filepath"
	"testing"

	"github.com/nuts-foundation/go-stoabs"
	"pgregory.net/rapid"
	"verif.local/h"
)

type c10Fault struct {
	At        int    `json:"at"`               // arrival position whose Add is hit
	Write     int    `json:"write"`            // 0: first write of Add (document, tx index), 1: second (event list, apply)
	Mode      string `json:"mode"`             // "before": the write fails without running; "after-body": body ran, then rollback
	Crash     bool   `json:"crash,omitempty"`  // the process dies after the failed Add: close + re-open (Configure)
	Redeliver []int  `json:"redeliver"`        // the transaction is delivered again after this many further arrivals (one entry each)
	Repeat    int    `json:"repeat,omitempty"` // the first Repeat redeliveries are hit by the same fault again
}

type c10FaultCase struct {
	Events    []c10Event `json:"events"`
	Dups      []int      `json:"dups,omitempty"`
	OrderSeed uint64     `json:"order_seed"`
	Faults    []c10Fault `json:"faults"`
}

// c10FaultKV makes chosen Write calls of the wrapped store fail. Counting restarts with every arm().
type c10FaultKV struct {
	stoabs.KVStore
	plan   map[int]string
	nWrite int
	fired  int
}

var errC10Injected = errors.New("injected storage fault")

func (f *c10FaultKV) arm(plan map[int]string) { f.plan, f.nWrite, f.fired = plan, 0, 0 }

func (f *c10FaultKV) Write(ctx context.Context, fn func(stoabs.WriteTx) error, opts ...stoabs.TxOption) error {
	i := f.nWrite
	f.nWrite++
	switch f.plan[i] {
	case "before":
		f.fired++
		return stoabs.DatabaseError(errC10Injected)
	case "after-body":
		f.fired++
		return f.KVStore.Write(ctx, func(tx stoabs.WriteTx) error {
			if err := fn(tx); err != nil {
				return err
			}
			return stoabs.DatabaseError(errC10Injected) // the storage layer rolls the transaction back
		}, opts...)
	}
	return f.KVStore.Write(ctx, fn, opts...)
}

func c10FaultGen(t *rapid.T) c10FaultCase {
	base := c10Gen(t)
	c := c10FaultCase{Events: base.Events, Dups: base.Dups, OrderSeed: uint64(rapid.Uint32().Draw(t, "order_seed"))}
	m := len(c.Events) + len(c.Dups)
	nf := rapid.SampledFrom([]int{1, 1, 1, 2, 2, 3}).Draw(t, "nfaults")
	for i := 0; i < nf; i++ {
		f := c10Fault{
			At:     rapid.IntRange(0, m-1).Draw(t, "at"),
			Write:  rapid.SampledFrom([]int{1, 1, 1, 0}).Draw(t, "write"),
			Mode:   rapid.SampledFrom([]string{"before", "after-body"}).Draw(t, "mode"),
			Crash:  rapid.IntRange(0, 2).Draw(t, "crash") == 0,
			Repeat: rapid.SampledFrom([]int{0, 0, 0, 1}).Draw(t, "repeat"),
		}
		nr := rapid.SampledFrom([]int{1, 1, 2, 3}).Draw(t, "nredeliver")
		for k := 0; k < nr; k++ {
			f.Redeliver = append(f.Redeliver, rapid.IntRange(0, m).Draw(t, "after"))
		}
		c.Faults = append(c.Faults, f)
	}
	return c
}

func c10FaultRun(x *h.Ctx, c c10FaultCase) {
	if len(c.Faults) > 8 {
		return
	}
	e := c10Prepare(x, c10Case{Events: c.Events, Dups: c.Dups, K: 1, MinRuns: 1, PermSeeds: []uint64{c.OrderSeed}})
	if e == nil {
		return
	}
	e.quiet = true
	e.tag = "after-faults"
	orders := e.orders()
	seq := orders[int(c.OrderSeed%uint64(len(orders)))]
	if len(e.arr) > 5 {
		seq = orders[len(orders)-1] // canonical, reverse, seeded: take the seeded one
	}
	// the fault-free reference: canonical order
	ref := e.exec(orders[0], c10ExecOpts{ref: true, reopenAt: -1}, nil)
	if !ref.ok || len(x.Violations()) > 0 {
		return // the order unit's business
	}

	fkv := &c10FaultKV{}
	e.wrap = func(kv stoabs.KVStore) stoabs.KVStore { fkv.KVStore = kv; return fkv }
	path := filepath.Join(e.dir, "faulty.db")
	s, kv := e.open(path)
	defer func() {
		_ = kv.Close(context.Background())
		_ = os.Remove(path)
	}()

	faultAt := map[int]*c10Fault{}
	for i := range c.Faults {
		f := &c.Faults[i]
		if f.Mode != "before" && f.Mode != "after-body" {
			continue
		}
		p := c10Mod(f.At, len(seq))
		if faultAt[p] == nil {
			faultAt[p] = f
		}
	}
	type delivery struct {
		ev    int
		fault *c10Fault
		again bool // a redelivery: its failure schedules nothing (the tail below delivers what is still missing)
	}
	pending := map[int][]delivery{}
	applied := map[int]bool{} // transactions whose Add returned nil
	failed := map[int]bool{}
	nInjected, nLater, nCrash, steps := 0, 0, 0, 0
	write1Lost := false

	deliver := func(d delivery, p int) bool {
		steps++
		ev := &e.ev[d.ev]
		if d.fault != nil {
			fkv.arm(map[int]string{c10Mod(d.fault.Write, 2): d.fault.Mode})
		} else {
			fkv.arm(nil)
		}
		err := s.Add(ev.doc, ev.tx)
		injected := fkv.fired > 0
		fkv.arm(nil)
		where := fmt.Sprintf("delivery %d (event %d, arrival order %v, fault %+v)", steps, d.ev, seq, d.fault)
		switch {
		case err != nil && !injected:
			e.violate("c10:fault:add-fails-without-a-fault", "%s: Add returned %v although no write was made to fail", where, err)
			return false
		case err == nil && injected:
			e.violate("c10:fault:add-succeeds-although-a-write-failed", "%s: a write of this Add failed, Add returned nil (the caller will never deliver the transaction again)", where)
			return false
		case err == nil:
			applied[d.ev] = true
		default:
			nInjected++
			failed[d.ev] = true
			if c10Mod(d.fault.Write, 2) == 1 {
				write1Lost = true
			}
			if d.fault.Crash {
				nCrash++
				e.x.NoErr(kv.Close(context.Background()), "close store")
				s, kv = e.open(path)
			}
			if !d.again {
				for i, off := range d.fault.Redeliver {
					q := p + c10Mod(off, len(seq)+1)
					if q > len(seq)-1 {
						q = len(seq) - 1
					}
					if q > p {
						nLater++
					}
					nd := delivery{ev: d.ev, again: true}
					if i < d.fault.Repeat {
						nd.fault = d.fault
					}
					pending[q] = append(pending[q], nd)
				}
			}
		}
		// the model holds for the transactions that were accepted so far
		e.stepCounts(s, applied, false, seq, steps)
		e.stepModel(s, applied, false, seq, steps)
		return true
	}
	for p, ei := range seq {
		if !deliver(delivery{ev: ei, fault: faultAt[p]}, p) {
			return
		}
		for len(pending[p]) > 0 {
			d := pending[p][0]
			pending[p] = pending[p][1:]
			if !deliver(d, p) {
				return
			}
		}
	}
	// the caller keeps retrying: whatever has not been accepted yet is delivered until it is
	for ei := range e.ev {
		if !applied[ei] {
			if !deliver(delivery{ev: ei, again: true}, len(seq)) {
				return
			}
		}
	}
	for ei := range e.ev {
		if !applied[ei] {
			x.Fatalf("event %d was never accepted", ei)
		}
	}
	if len(x.Violations()) == 0 {
		got := e.observe(s)
		if key, detail, msg := c10FirstDiff(ref.api, got, nil); detail != "" {
			e.violate("c10:fault:observation-differs:"+detail, "%s differs between a fault-free store (order %v) and the store that had faults %+v and redeliveries (order %v)\n%s", key, orders[0], c.Faults, seq, msg)
		} else {
			e.x.NoErr(kv.Close(context.Background()), "close store")
			s, kv = e.open(path)
			if key, detail, msg := c10FirstDiff(ref.api, e.observe(s), nil); detail != "" {
				e.violate("c10:fault:observation-differs-after-reopen:"+detail, "%s differs after close/re-open of the store that had faults %+v (order %v)\n%s", key, c.Faults, seq, msg)
			}
		}
	}

	h.Count("C10", x.Unit, "deliveries", steps)
	h.Count("C10", x.Unit, "injected-failures", nInjected)
	x.Classf("events=%d", len(e.ev))
	if nInjected > 0 {
		x.Class("fault-fired")
	} else {
		x.Class("no-fault-fired")
	}
	if write1Lost {
		x.Class("second-write-failed-after-first-succeeded")
	}
	if nCrash > 0 {
		x.Class("crash-and-reopen-after-failed-add")
	}
	if nLater > 0 {
		x.Class("redelivery-after-other-arrivals")
	}
	for ei := range failed {
		if e.ev[ei].deact {
			x.Class("failed-transaction-is-a-deactivation")
		}
		if len(e.ev[ei].samePrev) == 0 {
			x.Class("failed-transaction-is-a-root")
		}
	}
	for _, f := range c.Faults {
		if f.Repeat > 0 {
			x.Class("redelivery-planned-to-fail-again")
		}
		x.Class("mode=" + f.Mode)
	}
	e.classify(orders[:1])
	if write1Lost && len(e.ev) >= 2 {
		x.NonTrivial()
	}
}

func TestVerif_C10_Fault(t *testing.T) {
	h.Check(t, "C10", c10FaultGen, c10FaultRun, h.PanicIsViolation())
}

func TestVerifReplay_C10_Fault(t *testing.T) {
	h.Replay(t, "C10", "TestVerif_C10_Fault", c10FaultRun, h.PanicIsViolation())
}
