//go:build verif

package didstore

// C18, did:nuts part: "a deactivated DID does not resolve unless the caller explicitly allows it ... for all local
// document histories including deactivation", and a resolved document is the document of the identifier asked for.
//
// A case is a did:nuts history (the generator shared with C10: create / update / deactivate, linear and concurrent
// branches, duplicates; half of the cases come from a template that puts a deactivation next to a concurrent update,
// sorted before or after it on the DID's timeline), one arrival order (any order, or one the DAG can deliver) and is
// added transaction by transaction to a real bbolt-backed store. After every Add, at the end and after a close/re-open
// the answers of Resolve are judged by an order-free reference: the DID is deactivated as soon as ANY accepted
// transaction of it carries a deactivating document (sticky: later or concurrent updates do not revive it).
//
//	deactivated: Resolve(id, nil) and Resolve(id, &ResolveMetadata{}) fail with ErrDeactivated; so does resolving at a time
//	             after everything that was signed;
//	             with AllowDeactivated all of these succeed: document id == DID, metadata.Deactivated == true
//	active:      all of them succeed with document id == DID and metadata.Deactivated == false

import (
	"context"
	"errors"
	"fmt"
	"os"
	"path/filepath"
	"testing"
	"time"

	"github.com/nuts-foundation/go-did/did"
	"github.com/nuts-foundation/nuts-node/vdr/resolver"
	"pgregory.net/rapid"
	"verif.local/h"
)

type c18NutsCase struct {
	Events    []c10Event `json:"events"`
	Dups      []int      `json:"dups,omitempty"`
	OrderSeed uint64     `json:"order_seed"`
}

// c18GenTemplate: create, 0-2 linear updates, then an update and a deactivation that both refer to the same previous
// transaction (neither refers to the other), ordered on the timeline by clock, by signing time or by the ref alone;
// optionally followed by an update that closes the conflict, continues one branch, or refers to nothing.
func c18GenTemplate(t *rapid.T) []c10Event {
	d := 0
	evs := []c10Event{{DID: d, Doc: c10GenFresh(t, d), Salt: rapid.IntRange(0, 3).Draw(t, "salt")}}
	nlin := rapid.IntRange(0, 2).Draw(t, "nlinear")
	for i := 0; i < nlin; i++ {
		evs = append(evs, c10Event{DID: d, Doc: c10Mutate(t, d, evs[len(evs)-1].Doc), Prev: []int{len(evs) - 1}, Salt: rapid.IntRange(0, 3).Draw(t, "salt")})
	}
	p := len(evs) - 1
	upd := c10Event{DID: d, Doc: c10Mutate(t, d, evs[p].Doc), Prev: []int{p}, Salt: rapid.IntRange(0, 3).Draw(t, "salt")}
	dea := c10Event{DID: d, Doc: c10Doc{Ctx: evs[p].Doc.Ctx, Deact: true}, Prev: []int{p}, Salt: rapid.IntRange(0, 3).Draw(t, "salt")}
	deactLast := rapid.Bool().Draw(t, "deactivation_sorted_last")
	later, earlier := &dea, &upd
	if !deactLast {
		later, earlier = &upd, &dea
	}
	switch rapid.SampledFrom([]string{"clock", "signing-time", "ref"}).Draw(t, "decided_by") {
	case "clock":
		later.Gap = 1 + rapid.IntRange(0, 1).Draw(t, "gap")
	case "signing-time":
		later.Jit, earlier.Jit = 1, rapid.SampledFrom([]int{-1, 0}).Draw(t, "jit")
	default: // equal clock, equal signing time: the (salted) ref decides, either way
	}
	if rapid.Bool().Draw(t, "update_listed_first") {
		evs = append(evs, upd, dea)
	} else {
		evs = append(evs, dea, upd)
	}
	a, b := len(evs)-2, len(evs)-1
	ntail := rapid.SampledFrom([]int{0, 0, 1, 1, 2}).Draw(t, "ntail")
	for i := 0; i < ntail; i++ {
		ev := c10Event{DID: d, Salt: rapid.IntRange(0, 3).Draw(t, "salt"), Gap: rapid.SampledFrom([]int{0, 0, 1}).Draw(t, "gap"), Own: rapid.IntRange(0, 4).Draw(t, "own") == 0}
		base := upd.Doc
		switch rapid.SampledFrom([]string{"close", "close", "on-update", "on-deactivation", "none"}).Draw(t, "tail") {
		case "close":
			ev.Prev = []int{a, b}
			if len(evs) > b+1 {
				ev.Prev = []int{len(evs) - 1}
			}
		case "on-update":
			ev.Prev = []int{a}
			if evs[a].Doc.Deact {
				ev.Prev = []int{b}
			}
		case "on-deactivation":
			ev.Prev = []int{b}
			if evs[a].Doc.Deact {
				ev.Prev = []int{a}
			}
		}
		ev.Doc = c10Mutate(t, d, base)
		evs = append(evs, ev)
	}
	return evs
}

func c18NutsGen(t *rapid.T) c18NutsCase {
	c := c18NutsCase{}
	if rapid.Bool().Draw(t, "template") {
		c.Events = c18GenTemplate(t)
	} else {
		c.Events = c10GenEvents(t)
	}
	nd := rapid.SampledFrom([]int{0, 0, 0, 1}).Draw(t, "ndups")
	for i := 0; i < nd; i++ {
		c.Dups = append(c.Dups, rapid.IntRange(0, len(c.Events)-1).Draw(t, "dup"))
	}
	c.OrderSeed = uint64(rapid.Uint32().Draw(t, "order_seed"))
	return c
}

type c18Verdict struct {
	e     *c10Env
	s     *store
	where string
}

// expect judges one Resolve call. wantDoc: a document must come back (id == DID, Deactivated == deact);
// otherwise the call must fail, with ErrDeactivated if strict, else with ErrDeactivated or ErrNotFound.
func (v c18Verdict) expect(what string, id did.DID, md *resolver.ResolveMetadata, wantDoc, deact, strict bool) *resolver.DocumentMetadata {
	doc, meta, err := v.s.Resolve(id, md)
	state := map[bool]string{true: "deactivated", false: "active"}[deact]
	if !wantDoc {
		switch {
		case err == nil:
			v.e.violate("c18:nuts:deactivated-resolves:"+what, "%s: a deactivation of %s was accepted, Resolve(%s) returns a document (metadata.deactivated=%v)", v.where, id, what, meta != nil && meta.Deactivated)
		case errors.Is(err, resolver.ErrDeactivated):
		case !strict && errors.Is(err, resolver.ErrNotFound):
		default:
			v.e.violate("c18:nuts:deactivated-wrong-error:"+what, "%s: %s is deactivated, Resolve(%s) fails with %q instead of ErrDeactivated", v.where, id, what, err)
		}
		return nil
	}
	if err != nil || doc == nil || meta == nil {
		v.e.violate("c18:nuts:"+state+"-does-not-resolve:"+what, "%s: %s is %s, Resolve(%s) returns error %v", v.where, id, state, what, err)
		return nil
	}
	if doc.ID.String() != id.String() {
		v.e.violate("c18:nuts:document-id-mismatch:"+what, "%s: Resolve(%s, %s) returns the document of %s", v.where, id, what, doc.ID)
	}
	if meta.Deactivated != deact {
		v.e.violate(fmt.Sprintf("c18:nuts:deactivated-flag-%v-for-%s-did:%s", meta.Deactivated, state, what), "%s: %s is %s, Resolve(%s) reports metadata.deactivated=%v", v.where, id, state, what, meta.Deactivated)
	}
	return meta
}

func (e *c10Env) c18Judge(s *store, arrived map[int]bool, where string) {
	v := c18Verdict{e: e, s: s, where: where}
	for _, d := range e.dids {
		_, any, deact := e.headsOfArrived(arrived, d)
		if !any {
			continue
		}
		id := e.p.dids[d]
		far := e.far
		latest := v.expect("allow-deactivated", id, &resolver.ResolveMetadata{AllowDeactivated: true}, true, deact, true)
		v.expect("nil-metadata", id, nil, !deact, deact, true)
		v.expect("empty-metadata", id, &resolver.ResolveMetadata{}, !deact, deact, true)
		v.expect("later-time", id, &resolver.ResolveMetadata{ResolveTime: &far}, !deact, deact, true)
		v.expect("later-time+allow-deactivated", id, &resolver.ResolveMetadata{ResolveTime: &far, AllowDeactivated: true}, true, deact, true)
		e.c18JudgeByTime(v, arrived, d, id)
		if latest != nil {
			hh := latest.Hash
			if !deact { // (for a deactivated DID an older, active version may legitimately carry the same hash)
				v.expect("latest-hash", id, &resolver.ResolveMetadata{Hash: &hh}, true, false, true)
			}
			if m := v.expect("latest-hash+allow-deactivated", id, &resolver.ResolveMetadata{Hash: &hh, AllowDeactivated: true}, true, deact, true); m != nil && !m.Hash.Equals(hh) {
				e.violate("c18:nuts:resolve-by-hash-returns-other-hash", "%s: Resolve(%s, hash %s) returns version %s", where, id, hh, m.Hash)
			}
		}
	}
}

// c18JudgeByTime probes Resolve with a ResolveTime on both sides of (and exactly at) the signing time of every transaction
// of the DID that has arrived, and half a second after it. Order-free reference: as soon as the requested time is at or
// after the signing time of ANY accepted deactivation of the DID (and not before the DID's first transaction), the DID is
// deactivated at that time — whatever was signed or arrived later, deactivated or not: without AllowDeactivated the call
// fails (ErrDeactivated; ErrNotFound tolerated), with it the deactivated document comes back. Times before every
// deactivation are not judged here (an earlier, active version may legitimately be resolved by time).
func (e *c10Env) c18JudgeByTime(v c18Verdict, arrived map[int]bool, d int, id did.DID) {
	var times []time.Time
	var firstDeact, created time.Time
	haveDeact, haveAny := false, false
	var lowClock uint32
	for i := range e.ev {
		if !arrived[i] || e.ev[i].didIdx != d {
			continue
		}
		t := e.ev[i].tx.SigningTime
		times = append(times, t)
		if e.ev[i].deact && (!haveDeact || t.Before(firstDeact)) {
			firstDeact, haveDeact = t, true
		}
		// the DID exists from its first transaction on the timeline (lowest clock; the latest signing time among equals)
		if !haveAny || e.ev[i].tx.Clock < lowClock || (e.ev[i].tx.Clock == lowClock && t.After(created)) {
			lowClock, created, haveAny = e.ev[i].tx.Clock, t, true
		}
	}
	if !haveDeact {
		return
	}
	seen := map[int64]bool{}
	for _, t := range times {
		for _, probe := range []time.Time{t.Add(-time.Second), t, t.Add(500 * time.Millisecond), t.Add(time.Second)} {
			if seen[probe.UnixMilli()] {
				continue
			}
			seen[probe.UnixMilli()] = true
			if probe.Before(firstDeact) || probe.Before(created) {
				e.x.Class("time-probe:before-the-deactivation(not-judged)")
				continue
			}
			if probe.Before(e.far.Add(-time.Hour)) {
				e.x.Class("time-probe:at-or-after-a-deactivation-and-before-the-last-signing-time")
			}
			pt := probe
			v.expect("time-at-or-after-deactivation", id, &resolver.ResolveMetadata{ResolveTime: &pt}, false, true, false)
			v.expect("time-at-or-after-deactivation+allow-deactivated", id, &resolver.ResolveMetadata{ResolveTime: &pt, AllowDeactivated: true}, true, true, true)
		}
	}
}

func c18NutsRun(x *h.Ctx, c c18NutsCase) {
	e := c10Prepare(x, c10Case{Events: c.Events, Dups: c.Dups, K: 1, MinRuns: 1, PermSeeds: []uint64{c.OrderSeed}})
	if e == nil {
		return
	}
	orders := e.orders()
	seq := orders[int(c.OrderSeed%uint64(len(orders)))]
	if len(e.arr) > 5 {
		seq = orders[len(orders)-1] // canonical, reverse, seeded: the seeded one
	}
	path := filepath.Join(e.dir, "store.db")
	s, kv := e.open(path)
	defer func() {
		_ = kv.Close(context.Background())
		_ = os.Remove(path)
	}()
	arrived := map[int]bool{}
	for pos, ei := range seq {
		ev := &e.ev[ei]
		if err := s.Add(ev.doc, ev.tx); err != nil {
			x.Fatalf("arrival %d (event %d) of order %v: Add: %v", pos, ei, seq, err) // C10's business
		}
		arrived[ei] = true
		e.c18Judge(s, arrived, fmt.Sprintf("after arrival %d of order %v", pos, seq))
		if len(x.Violations()) > 0 {
			break
		}
	}
	if len(x.Violations()) == 0 {
		x.NoErr(kv.Close(context.Background()), "close store")
		s, kv = e.open(path)
		e.c18Judge(s, arrived, fmt.Sprintf("after order %v and close/re-open", seq))
	}

	// classes: where the deactivations sit relative to the other transactions of their DID
	canon := orders[0]
	sortPos, arrPos := map[int]int{}, map[int]int{}
	for i, ei := range canon {
		if _, ok := sortPos[ei]; !ok {
			sortPos[ei] = i
		}
	}
	for i, ei := range seq {
		if _, ok := arrPos[ei]; !ok {
			arrPos[ei] = i
		}
	}
	ancestor := func(a, b int) bool { // a is reachable from b through same-DID references
		seen := map[int]bool{}
		var rec func(k int) bool
		rec = func(k int) bool {
			for _, p := range e.ev[k].samePrev {
				if p == a || (!seen[p] && rec(p)) {
					return true
				}
				seen[p] = true
			}
			return false
		}
		return rec(b)
	}
	nontrivial, anyDeact := false, false
	for i := range e.ev {
		if !e.ev[i].deact {
			continue
		}
		anyDeact = true
		for j := range e.ev {
			if i == j || e.ev[j].didIdx != e.ev[i].didIdx {
				continue
			}
			if sortPos[j] > sortPos[i] || arrPos[j] > arrPos[i] {
				nontrivial = true
			}
			if arrPos[j] > arrPos[i] {
				x.Class("transaction-arrives-after-the-deactivation")
			}
			if e.ev[j].deact || ancestor(i, j) || ancestor(j, i) {
				if ancestor(i, j) && !e.ev[j].deact {
					x.Class("update-on-top-of-the-deactivation")
				}
				continue
			}
			if sortPos[j] < sortPos[i] {
				x.Class("deactivation-concurrent-with-update:sorted-after-it")
			} else {
				x.Class("deactivation-concurrent-with-update:sorted-before-it")
			}
		}
	}
	if anyDeact {
		x.Class("history-with-deactivation")
	} else {
		x.Class("history-without-deactivation")
	}
	if e.isCausal(seq) {
		x.Class("arrival:dag-order")
	} else {
		x.Class("arrival:any-order")
	}
	x.Classf("events=%d", len(e.ev))
	if nontrivial {
		x.NonTrivial()
	}
}

func TestVerif_C18_NutsDeactivation(t *testing.T) {
	h.Check(t, "C18", c18NutsGen, c18NutsRun, h.PanicIsViolation())
}

func TestVerifReplay_C18_NutsDeactivation(t *testing.T) {
	h.Replay(t, "C18", "TestVerif_C18_NutsDeactivation", c18NutsRun, h.PanicIsViolation())
}
