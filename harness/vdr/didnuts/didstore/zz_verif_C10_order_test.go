//go:build verif

package didstore

// C10: did:nuts resolution is independent of the order in which updates arrive.
//
// A case is a set E of did:nuts document transactions (events) over one or two DIDs, forming a history as the DAG
// would deliver it (every event references earlier events; Lamport clock strictly above the clocks of everything it
// references; whole-second signing times; unique refs; payload hash = hash of the document bytes), plus duplicate
// arrivals, plus the arrival orders to try. Every arrival order is applied, event by event, to an independent fresh
// bbolt-backed store (several times: Go map iteration inside the code under test is a per-run coin), with a
// close/re-open (Configure) halfway and/or before the observation. Oracles:
//
//   - metamorphic: the observation vector (Resolve by nothing / time / hash / source transaction with and without
//     AllowDeactivated, the version chain, ConflictedCount, DocumentCount, Conflicted(), Iterate()) is identical across
//     all runs; the reference is the run that feeds the events in the store's own total order.
//   - model (order-free fold over the set that arrived so far, checked after every Add): ConflictedCount = number of
//     DIDs with more than one head, DocumentCount = number of DIDs, SourceTransactions = heads, a single head resolves
//     to exactly that head's document and payload hash, a merged document holds exactly the union of the heads'
//     controllers / keys per relationship / services / contexts, a DID for which a deactivation arrived never resolves
//     as active (latest, and at a time after everything that was signed).

import (
	"bytes"
	"context"
	"crypto"
	"crypto/ecdsa"
	"crypto/elliptic"
	"crypto/sha256"
	"encoding/hex"
	"encoding/json"
	"errors"
	"fmt"
	"io"
	"math/big"
	"os"
	"path/filepath"
	"sort"
	"strings"
	"sync"
	"testing"
	"time"

	"github.com/lestrrat-go/jwx/v2/jwk"
	"github.com/mr-tron/base58"
	ssi "github.com/nuts-foundation/go-did"
	"github.com/nuts-foundation/go-did/did"
	"github.com/nuts-foundation/go-stoabs"
	"github.com/nuts-foundation/go-stoabs/bbolt"
	"github.com/nuts-foundation/nuts-node/core"
	"github.com/nuts-foundation/nuts-node/crypto/hash"
	"github.com/nuts-foundation/nuts-node/storage"
	"github.com/nuts-foundation/nuts-node/vdr/resolver"
	"github.com/sirupsen/logrus"
	"pgregory.net/rapid"
	"verif.local/h"
)

// ---------------------------------------------------------------------------------------------------------------------
// case

const (
	c10NDID  = 4 // DID pool (subjects are 0 and 1, all four may appear as controllers)
	c10NKey  = 6 // key pool
	c10NSvc  = 4 // service id pool
	c10NType = 4 // service type pool
	c10NEP   = 3 // endpoint variants per type
)

const (
	c10RelAuth = 1 << iota
	c10RelAssert
	c10RelCapInv
	c10RelCapDel
	c10RelKeyAgr
)

type c10Key struct {
	K   int `json:"k"`   // index into the key pool
	Rel int `json:"rel"` // bitmask of verification relationships
}

type c10Svc struct {
	ID   int `json:"id"`
	Type int `json:"type"`
	EP   int `json:"ep"`
}

// c10Doc is an abstract did:nuts document; c10Render turns it into a did.Document.
type c10Doc struct {
	Ctrl  []int    `json:"ctrl,omitempty"`
	Keys  []c10Key `json:"keys,omitempty"`
	Svcs  []c10Svc `json:"svcs,omitempty"`
	Ctx   int      `json:"ctx,omitempty"`   // 0: did/v1 + jws2020, 1: did/v1 only
	Deact bool     `json:"deact,omitempty"` // deactivation: no controllers, no keys, no services
}

type c10Event struct {
	DID     int    `json:"did"`
	Doc     c10Doc `json:"doc"`
	Prev    []int  `json:"prev,omitempty"`    // indices of earlier events this transaction references (any DID)
	Foreign int    `json:"foreign,omitempty"` // additional prevs that are not DID document transactions
	Gap     int    `json:"gap,omitempty"`     // clock = max(clock of prevs)+1+gap
	Jit     int    `json:"jit,omitempty"`     // signing time = epoch + clock + jit seconds
	Salt    int    `json:"salt,omitempty"`    // varies the transaction ref (tie break of the store's order)
	// Own: the store receives the document as this node built it in memory (didnuts.Manager calls Add with the document
	// it just published) instead of the document unmarshalled from the network payload (ambassador).
	Own bool `json:"own,omitempty"`
}

type c10Case struct {
	Events    []c10Event `json:"events"`
	Dups      []int      `json:"dups,omitempty"`       // events that arrive twice
	PermSeeds []uint64   `json:"perm_seeds,omitempty"` // arrival orders when there are more than 5 arrivals (else: all)
	K         int        `json:"k"`                    // repetitions of every arrival order
	MinRuns   int        `json:"min_runs"`             // lower bound on stores per case (repetitions are raised to reach it)
}

// ---------------------------------------------------------------------------------------------------------------------
// generator

func c10Clone(d c10Doc) c10Doc {
	return c10Doc{Ctrl: append([]int(nil), d.Ctrl...), Keys: append([]c10Key(nil), d.Keys...), Svcs: append([]c10Svc(nil), d.Svcs...), Ctx: d.Ctx, Deact: d.Deact}
}

func c10GenRel(t *rapid.T) int {
	return rapid.SampledFrom([]int{
		c10RelAuth | c10RelAssert | c10RelCapInv, c10RelAssert | c10RelKeyAgr, c10RelAuth, c10RelCapInv, c10RelCapInv | c10RelCapDel,
		c10RelAssert, c10RelKeyAgr, 0, 31,
	}).Draw(t, "rel")
}

func c10GenFresh(t *rapid.T, d int) c10Doc {
	doc := c10Doc{Ctx: rapid.SampledFrom([]int{0, 0, 0, 1}).Draw(t, "ctx")}
	other := (d + 1 + rapid.IntRange(0, c10NDID-2).Draw(t, "other")) % c10NDID
	switch rapid.IntRange(0, 4).Draw(t, "ctrlmode") {
	case 0: // no controller member: self-controlled through capabilityInvocation
	case 1:
		doc.Ctrl = []int{d}
	case 2:
		doc.Ctrl = []int{d, other}
	case 3:
		doc.Ctrl = []int{other}
	case 4:
		doc.Ctrl = []int{other, d, (other + 1) % c10NDID}
	}
	doc.Keys = []c10Key{{K: rapid.IntRange(0, c10NKey-1).Draw(t, "k0"), Rel: c10RelAuth | c10RelAssert | c10RelCapInv}}
	ns := rapid.IntRange(0, 2).Draw(t, "nsvc")
	for i := 0; i < ns; i++ {
		doc = c10SetSvc(doc, c10Svc{ID: rapid.IntRange(0, c10NSvc-1).Draw(t, "sid"), Type: rapid.IntRange(0, c10NType-1).Draw(t, "stype"), EP: rapid.IntRange(0, c10NEP-1).Draw(t, "sep")})
	}
	return doc
}

func c10SetSvc(doc c10Doc, s c10Svc) c10Doc {
	for i := range doc.Svcs {
		if doc.Svcs[i].ID == s.ID {
			doc.Svcs[i] = s
			return doc
		}
	}
	doc.Svcs = append(doc.Svcs, s)
	return doc
}

func c10Mutate(t *rapid.T, d int, doc c10Doc) c10Doc {
	doc = c10Clone(doc)
	op := rapid.SampledFrom([]string{"ctrl+", "ctrl+", "ctrl+", "ctrl-", "key+", "key+", "key-", "rel", "svc+", "svc+", "svc-", "svc~", "svc~", "ctx"}).Draw(t, "mut")
	switch op {
	case "ctrl+":
		c := rapid.IntRange(0, c10NDID-1).Draw(t, "ctrl")
		for _, e := range doc.Ctrl {
			if e == c {
				return doc
			}
		}
		if rapid.Bool().Draw(t, "front") {
			doc.Ctrl = append([]int{c}, doc.Ctrl...)
		} else {
			doc.Ctrl = append(doc.Ctrl, c)
		}
	case "ctrl-":
		if len(doc.Ctrl) > 0 {
			i := rapid.IntRange(0, len(doc.Ctrl)-1).Draw(t, "i")
			doc.Ctrl = append(doc.Ctrl[:i:i], doc.Ctrl[i+1:]...)
		}
	case "key+":
		k := rapid.IntRange(0, c10NKey-1).Draw(t, "k")
		rel := c10GenRel(t)
		for i := range doc.Keys {
			if doc.Keys[i].K == k {
				doc.Keys[i].Rel = rel
				return doc
			}
		}
		doc.Keys = append(doc.Keys, c10Key{K: k, Rel: rel})
	case "key-":
		if len(doc.Keys) > 1 {
			i := rapid.IntRange(0, len(doc.Keys)-1).Draw(t, "i")
			doc.Keys = append(doc.Keys[:i:i], doc.Keys[i+1:]...)
		}
	case "rel":
		if len(doc.Keys) > 0 {
			i := rapid.IntRange(0, len(doc.Keys)-1).Draw(t, "i")
			doc.Keys[i].Rel = c10GenRel(t)
		}
	case "svc+":
		doc = c10SetSvc(doc, c10Svc{ID: rapid.IntRange(0, c10NSvc-1).Draw(t, "sid"), Type: rapid.IntRange(0, c10NType-1).Draw(t, "stype"), EP: rapid.IntRange(0, c10NEP-1).Draw(t, "sep")})
	case "svc-":
		if len(doc.Svcs) > 0 {
			i := rapid.IntRange(0, len(doc.Svcs)-1).Draw(t, "i")
			doc.Svcs = append(doc.Svcs[:i:i], doc.Svcs[i+1:]...)
		}
	case "svc~":
		if len(doc.Svcs) > 0 {
			i := rapid.IntRange(0, len(doc.Svcs)-1).Draw(t, "i")
			if rapid.IntRange(0, 3).Draw(t, "what") == 0 {
				doc.Svcs[i].Type = rapid.IntRange(0, c10NType-1).Draw(t, "stype")
			} else {
				doc.Svcs[i].EP = (doc.Svcs[i].EP + 1 + rapid.IntRange(0, c10NEP-2).Draw(t, "sep")) % c10NEP
			}
		} else {
			doc = c10SetSvc(doc, c10Svc{ID: rapid.IntRange(0, c10NSvc-1).Draw(t, "sid"), Type: rapid.IntRange(0, c10NType-1).Draw(t, "stype"), EP: rapid.IntRange(0, c10NEP-1).Draw(t, "sep")})
		}
	case "ctx":
		doc.Ctx = 1 - doc.Ctx
	}
	return doc
}

// c10SameDIDPrev returns the referenced events that belong to the same DID.
func c10SameDIDPrev(evs []c10Event, i int) []int {
	var out []int
	for _, p := range evs[i].Prev {
		if p >= 0 && p < i && evs[p].DID == evs[i].DID {
			out = append(out, p)
		}
	}
	return out
}

// c10HeadsOf returns, of the given events (indices, one DID), those that no other given event references.
func c10HeadsOf(evs []c10Event, set []int) []int {
	in := map[int]bool{}
	for _, i := range set {
		in[i] = true
	}
	ref := map[int]bool{}
	for _, i := range set {
		for _, p := range c10SameDIDPrev(evs, i) {
			if in[p] {
				ref[p] = true
			}
		}
	}
	var out []int
	for _, i := range set {
		if !ref[i] {
			out = append(out, i)
		}
	}
	return out
}

func c10Gen(t *rapid.T) c10Case {
	c := c10Case{K: rapid.IntRange(1, 3).Draw(t, "k"), MinRuns: 64}
	n := rapid.SampledFrom([]int{1, 2, 3, 3, 4, 4, 4, 5, 5, 5, 6, 6, 7, 8}).Draw(t, "n")
	nd := rapid.SampledFrom([]int{1, 1, 1, 2}).Draw(t, "ndids")
	for i := 0; i < n; i++ {
		d := 0
		if nd == 2 {
			d = rapid.IntRange(0, 1).Draw(t, "did")
		}
		ev := c10Event{DID: d}
		var mine, others []int
		for j := 0; j < i; j++ {
			if c.Events[j].DID == d {
				mine = append(mine, j)
			} else {
				others = append(others, j)
			}
		}
		var base *c10Doc
		if len(mine) > 0 {
			heads := c10HeadsOf(c.Events, mine)
			mode := rapid.SampledFrom([]string{"heads", "heads", "heads", "heads", "fork", "fork", "fork", "subset", "one-head", "none"}).Draw(t, "mode")
			switch mode {
			case "heads": // linear update, or the update that resolves a conflict
				ev.Prev = append([]int(nil), heads...)
				b := c.Events[heads[rapid.IntRange(0, len(heads)-1).Draw(t, "base")]].Doc
				base = &b
			case "fork": // sibling of an existing event: same same-DID prevs
				j := mine[rapid.IntRange(0, len(mine)-1).Draw(t, "sibling")]
				ev.Prev = c10SameDIDPrev(c.Events, j)
				b := c.Events[j].Doc
				if len(ev.Prev) > 0 {
					b = c.Events[ev.Prev[0]].Doc
				}
				base = &b
			case "subset":
				for _, j := range mine {
					if rapid.Bool().Draw(t, "in") {
						ev.Prev = append(ev.Prev, j)
					}
				}
				b := c.Events[mine[rapid.IntRange(0, len(mine)-1).Draw(t, "base")]].Doc
				base = &b
			case "one-head":
				j := heads[rapid.IntRange(0, len(heads)-1).Draw(t, "head")]
				ev.Prev = []int{j}
				b := c.Events[j].Doc
				base = &b
			case "none":
				b := c.Events[mine[rapid.IntRange(0, len(mine)-1).Draw(t, "base")]].Doc
				base = &b
			}
		}
		switch {
		case base == nil || base.Deact:
			ev.Doc = c10GenFresh(t, d)
			if base != nil && rapid.IntRange(0, 3).Draw(t, "deact-again") == 0 {
				ev.Doc = c10Doc{Ctx: base.Ctx, Deact: true}
			}
		case rapid.IntRange(0, 6).Draw(t, "deact") == 0:
			ev.Doc = c10Doc{Ctx: base.Ctx, Deact: true}
		default:
			ev.Doc = c10Clone(*base)
			nm := rapid.SampledFrom([]int{0, 1, 1, 1, 2, 2, 3}).Draw(t, "nmut")
			for k := 0; k < nm; k++ {
				ev.Doc = c10Mutate(t, d, ev.Doc)
			}
		}
		if len(others) > 0 && rapid.IntRange(0, 3).Draw(t, "xprev") == 0 {
			ev.Prev = append(ev.Prev, others[len(others)-1]) // e.g. the controller's transaction, or simply a DAG head
		}
		sort.Ints(ev.Prev)
		ev.Foreign = rapid.SampledFrom([]int{0, 0, 1, 2}).Draw(t, "foreign")
		ev.Gap = rapid.SampledFrom([]int{0, 0, 0, 0, 1, 2}).Draw(t, "gap")
		ev.Jit = rapid.SampledFrom([]int{-1, 0, 0, 0, 1}).Draw(t, "jit")
		ev.Salt = rapid.IntRange(0, 3).Draw(t, "salt")
		ev.Own = rapid.IntRange(0, 4).Draw(t, "own") == 0
		c.Events = append(c.Events, ev)
	}
	nd2 := rapid.SampledFrom([]int{0, 0, 0, 1, 1, 2}).Draw(t, "ndups")
	for i := 0; i < nd2; i++ {
		c.Dups = append(c.Dups, rapid.IntRange(0, n-1).Draw(t, "dup"))
	}
	if n+len(c.Dups) > 5 {
		// two draws only (the shrinker would otherwise spend its time bisecting ~50 64-bit seeds); the case lists the seeds
		r := c10Rng(rapid.Uint32().Draw(t, "perm_master_seed"))
		np := rapid.IntRange(40, 56).Draw(t, "n_orders")
		for i := 0; i < np; i++ {
			c.PermSeeds = append(c.PermSeeds, r.next()>>16)
		}
	}
	return c
}

// ---------------------------------------------------------------------------------------------------------------------
// pools and rendering

type c10Pools struct {
	dids  []did.DID
	pubs  []*ecdsa.PublicKey
	kids  []string
	svcFr []string
	types []string
}

var (
	c10PoolOnce sync.Once
	c10PoolVal  *c10Pools
	c10PoolErr  error
)

func c10GetPools() (*c10Pools, error) {
	c10PoolOnce.Do(func() {
		p := &c10Pools{
			svcFr: []string{"F1Dsgwngfdg3SH6TpDv0Ta1aOEzJl1dxvsGdc9VyQKsx", "3aVi4FJbytMeJzQg4S1UWXF5VvTYYfBSVN1zG7kCkbY5", "9qeqMHN3fEbFUjMqAXrwUJR9NtHqj4KFXqgGnTG8cZK7", "BXbVGPkrRrpN2ErS6ynQ1uAHfYxjfTSbnRfvTeVqCVWP"},
			types: []string{"NutsComm", "node-contact-info", "eOverdracht-sender", "oauth"},
		}
		curve := elliptic.P256()
		for i := 0; i < c10NKey+c10NDID; i++ {
			sum := sha256.Sum256([]byte(fmt.Sprintf("verif-c10-key-%d", i)))
			k := new(big.Int).SetBytes(sum[:])
			k.Mod(k, new(big.Int).Sub(curve.Params().N, big.NewInt(1)))
			k.Add(k, big.NewInt(1))
			px, py := curve.ScalarBaseMult(k.Bytes())
			pub := &ecdsa.PublicKey{Curve: curve, X: px, Y: py}
			jk, err := jwk.FromRaw(pub)
			if err != nil {
				c10PoolErr = err
				return
			}
			if i < c10NKey {
				if err := jwk.AssignKeyID(jk); err != nil {
					c10PoolErr = err
					return
				}
				p.pubs = append(p.pubs, pub)
				p.kids = append(p.kids, jk.KeyID())
			} else {
				// did:nuts:<base58(sha256 thumbprint of the key the document was created with)>
				tp, err := jk.Thumbprint(crypto.SHA256)
				if err != nil {
					c10PoolErr = err
					return
				}
				id, err := did.ParseDID("did:nuts:" + base58.EncodeAlphabet(tp, base58.BTCAlphabet))
				if err != nil {
					c10PoolErr = err
					return
				}
				p.dids = append(p.dids, *id)
			}
		}
		c10PoolVal = p
	})
	return c10PoolVal, c10PoolErr
}

func c10Mod(i, n int) int {
	i %= n
	if i < 0 {
		i += n
	}
	return i
}

func c10Endpoint(p *c10Pools, d, typ, ep int) interface{} {
	self := p.dids[d].String()
	switch typ {
	case 0:
		return []string{"grpc://nuts.example.com:5555", "grpc://nuts-b.example.org:5555", "grpc://10.1.2.3:5555"}[ep]
	case 1:
		return []interface{}{
			map[string]interface{}{"email": "info@example.com", "name": "Example Care"},
			map[string]interface{}{"email": "support@example.org", "name": "Example Care", "telephone": "+31101234567"},
			map[string]interface{}{"email": "info@example.com"},
		}[ep]
	case 2:
		return []interface{}{
			map[string]interface{}{"auth": self + "/serviceEndpoint?type=oauth", "fhir": "https://fhir.example.com/v1"},
			map[string]interface{}{"auth": self + "/serviceEndpoint?type=oauth", "fhir": "https://fhir.example.org/r4", "notification": "https://example.org/notify"},
			self + "/serviceEndpoint?type=oauth",
		}[ep]
	default:
		return []string{"https://example.com/oauth", "https://example.org/n2n/auth/v1/accesstoken", "https://example.com:8443/oauth"}[ep]
	}
}

const c10JWS2020 = "https://w3c-ccg.github.io/lds-jws2020/contexts/lds-jws2020-v1.json"

// c10Render builds the document the way vdr/didnuts builds did:nuts documents (key ids = DID + JWK thumbprint,
// relationships by reference, unique service ids below the DID, unique service types).
func c10Render(p *c10Pools, d int, a c10Doc) (did.Document, error) {
	doc := did.Document{ID: p.dids[d], Context: []interface{}{did.DIDContextV1URI(), ssi.MustParseURI(c10JWS2020)}}
	if a.Ctx == 1 {
		doc.Context = []interface{}{did.DIDContextV1URI()}
	}
	if a.Deact {
		return doc, nil
	}
	seenC := map[int]bool{}
	for _, c := range a.Ctrl {
		c = c10Mod(c, c10NDID)
		if seenC[c] {
			continue
		}
		seenC[c] = true
		doc.Controller = append(doc.Controller, p.dids[c])
	}
	seenK := map[int]bool{}
	for _, k := range a.Keys {
		ki := c10Mod(k.K, c10NKey)
		if seenK[ki] {
			continue
		}
		seenK[ki] = true
		vm, err := did.NewVerificationMethod(did.MustParseDIDURL(p.dids[d].String()+"#"+p.kids[ki]), ssi.JsonWebKey2020, p.dids[d], p.pubs[ki])
		if err != nil {
			return doc, err
		}
		doc.VerificationMethod.Add(vm)
		if k.Rel&c10RelAuth != 0 {
			doc.AddAuthenticationMethod(vm)
		}
		if k.Rel&c10RelAssert != 0 {
			doc.AddAssertionMethod(vm)
		}
		if k.Rel&c10RelCapInv != 0 {
			doc.AddCapabilityInvocation(vm)
		}
		if k.Rel&c10RelCapDel != 0 {
			doc.AddCapabilityDelegation(vm)
		}
		if k.Rel&c10RelKeyAgr != 0 {
			doc.AddKeyAgreement(vm)
		}
	}
	seenS, seenT := map[int]bool{}, map[int]bool{}
	for _, s := range a.Svcs {
		si, ti, ei := c10Mod(s.ID, c10NSvc), c10Mod(s.Type, c10NType), c10Mod(s.EP, c10NEP)
		if seenS[si] || seenT[ti] { // RFC006: ids unique, at most one service per type
			continue
		}
		seenS[si], seenT[ti] = true, true
		doc.Service = append(doc.Service, did.Service{ID: ssi.MustParseURI(p.dids[d].String() + "#" + p.svcFr[si]), Type: p.types[ti], ServiceEndpoint: c10Endpoint(p, d, ti, ei)})
	}
	return doc, nil
}

// c10Acceptable re-states what didnuts.NetworkDocumentValidator demands (that package imports this one).
func c10Acceptable(doc did.Document) error {
	if err := (did.W3CSpecValidator{}).Validate(doc); err != nil {
		return err
	}
	ids := map[string]bool{}
	for _, vm := range doc.VerificationMethod {
		if ids[vm.ID.String()] || vm.ID.Fragment == "" || vm.ID.DID.String() != doc.ID.String() {
			return fmt.Errorf("verification method id %s", vm.ID.String())
		}
		ids[vm.ID.String()] = true
		k, err := vm.JWK()
		if err != nil {
			return err
		}
		_ = jwk.AssignKeyID(k)
		if k.KeyID() != vm.ID.Fragment {
			return errors.New("key thumbprint does not match ID")
		}
	}
	types := map[string]bool{}
	for _, s := range doc.Service {
		u := s.ID
		if ids[u.String()] || u.Fragment == "" || types[s.Type] {
			return fmt.Errorf("service %s", u.String())
		}
		ids[u.String()] = true
		types[s.Type] = true
		u.Fragment = ""
		if u.String() != doc.ID.String() {
			return fmt.Errorf("service id %s not below the DID", s.ID.String())
		}
	}
	return nil
}

// ---------------------------------------------------------------------------------------------------------------------
// realised events

type c10RealEv struct {
	didIdx   int
	id       did.DID
	doc      did.Document
	payload  []byte
	tx       Transaction
	deact    bool
	samePrev []int // referenced events of the same DID
	allPrev  []int // all referenced events
}

type c10Env struct {
	x        *h.Ctx
	c        c10Case
	p        *c10Pools
	ev       []c10RealEv
	arr      []int // arrival position -> event index
	dids     []int // DID pool indices in use
	dir      string
	nrun     int
	nadd     int
	extra    map[int][]hash.SHA256Hash // version hashes seen in the reference run (merged documents), per DID
	far      time.Time
	reported map[string]bool
	hasFork  bool
	hasDup   bool
	hasOwn   bool
	// used by the fault unit (zz_verif_C10_fault_test.go)
	wrap  func(stoabs.KVStore) stoabs.KVStore // wraps the bbolt store before the didstore gets it
	tag   string                              // replaces the dag-order / any-order tag of the model signatures
	quiet bool                                // no storage log lines (every injected rollback is logged otherwise)
}

var c10Epoch = time.Date(2023, 3, 1, 12, 0, 0, 0, time.UTC).Unix()

func (e *c10Env) violate(sig, format string, args ...any) {
	if e.reported[sig] {
		return
	}
	e.reported[sig] = true
	e.x.Violate(sig, format, args...)
}

func c10Prepare(x *h.Ctx, c c10Case) *c10Env {
	if len(c.Events) == 0 || len(c.Events) > 10 || len(c.Dups) > 3 {
		return nil
	}
	p, err := c10GetPools()
	x.NoErr(err, "key/DID pool")
	e := &c10Env{x: x, c: c, p: p, extra: map[int][]hash.SHA256Hash{}, reported: map[string]bool{}}
	clocks := make([]uint32, len(c.Events))
	usedRef := map[hash.SHA256Hash]bool{}
	usedDID := map[int]bool{}
	maxT := int64(0)
	for i, a := range c.Events {
		d := c10Mod(a.DID, 2)
		doc, err := c10Render(p, d, a.Doc)
		x.NoErr(err, "render document")
		if err := c10Acceptable(doc); err != nil {
			x.Fatalf("generated document %d would not be accepted by the network validator: %v", i, err)
		}
		payload, err := json.Marshal(doc)
		x.NoErr(err, "marshal document")
		// what the ambassador hands to the store is the unmarshalled network payload
		var parsed did.Document
		x.NoErr(json.Unmarshal(payload, &parsed), "unmarshal document")
		again, err := json.Marshal(parsed)
		x.NoErr(err, "re-marshal document")
		if !bytes.Equal(again, payload) {
			x.Fatalf("document %d does not survive a JSON round trip:\n%s\n%s", i, payload, again)
		}
		r := c10RealEv{didIdx: d, id: p.dids[d], doc: parsed, payload: payload, deact: resolver.IsDeactivated(parsed)}
		if a.Own {
			r.doc = doc
			e.hasOwn = true
		}
		clock := uint32(0)
		hasPrev := false
		seenP := map[int]bool{}
		var prevRefs []hash.SHA256Hash
		for j := 0; j < c10Mod(a.Foreign, 4); j++ {
			prevRefs = append(prevRefs, hash.SHA256Sum([]byte(fmt.Sprintf("c10-foreign|%d|%d", i, j))))
		}
		for _, pi := range a.Prev {
			if pi < 0 || pi >= i || seenP[pi] {
				continue
			}
			seenP[pi] = true
			hasPrev = true
			r.allPrev = append(r.allPrev, pi)
			if e.ev[pi].didIdx == d {
				r.samePrev = append(r.samePrev, pi)
			}
			prevRefs = append(prevRefs, e.ev[pi].tx.Ref)
			if clocks[pi] >= clock {
				clock = clocks[pi]
			}
		}
		gap := uint32(c10Mod(a.Gap, 4))
		if hasPrev {
			clock = clock + 1 + gap
		} else {
			clock = gap
		}
		clocks[i] = clock
		sec := c10Epoch + int64(clock) + int64(c10Mod(a.Jit+1, 3)-1)
		if sec > maxT {
			maxT = sec
		}
		ph := hash.SHA256Sum(payload)
		ref := hash.SHA256Sum([]byte(fmt.Sprintf("c10-tx|%d|%d|%s", i, c10Mod(a.Salt, 16), ph.String())))
		if usedRef[ref] {
			x.Fatalf("duplicate ref")
		}
		usedRef[ref] = true
		r.tx = Transaction{Clock: clock, PayloadHash: ph, Previous: prevRefs, Ref: ref, SigningTime: time.Unix(sec, 0)}
		e.ev = append(e.ev, r)
		usedDID[d] = true
	}
	for d := 0; d < 2; d++ {
		if usedDID[d] {
			e.dids = append(e.dids, d)
		}
	}
	e.far = time.Unix(maxT+3600, 0)
	for i := range e.ev {
		e.arr = append(e.arr, i)
	}
	for _, d := range c.Dups {
		e.arr = append(e.arr, c10Mod(d, len(e.ev)))
	}
	e.dir = x.TempDir()
	return e
}

// ---------------------------------------------------------------------------------------------------------------------
// arrival orders

type c10Rng uint64

func (r *c10Rng) next() uint64 {
	*r += 0x9e3779b97f4a7c15
	z := uint64(*r)
	z = (z ^ (z >> 30)) * 0xbf58476d1ce4e5b9
	z = (z ^ (z >> 27)) * 0x94d049bb133111eb
	return z ^ (z >> 31)
}

func (r *c10Rng) intn(n int) int { return int(r.next() % uint64(n)) }

// canonical: arrival positions sorted by the store's own total order of their events (clock, signing time, ref).
func (e *c10Env) canonical() []int {
	pos := make([]int, len(e.arr))
	for i := range pos {
		pos[i] = i
	}
	sort.SliceStable(pos, func(a, b int) bool {
		ea, eb := e.ev[e.arr[pos[a]]].tx, e.ev[e.arr[pos[b]]].tx
		if ea.Ref.Equals(eb.Ref) {
			return false
		}
		return event(ea).before(event(eb))
	})
	return pos
}

func (e *c10Env) isCausal(seq []int) bool {
	seen := map[int]bool{}
	for _, ei := range seq {
		if !seen[ei] {
			for _, p := range e.ev[ei].allPrev {
				if !seen[p] {
					return false
				}
			}
		}
		seen[ei] = true
	}
	return true
}

// orders returns the arrival orders as sequences of event indices; the first one is the canonical order.
func (e *c10Env) orders() [][]int {
	m := len(e.arr)
	var perms [][]int
	canon := e.canonical()
	perms = append(perms, canon)
	if m <= 5 {
		idx := make([]int, m)
		for i := range idx {
			idx[i] = i
		}
		var rec func(k int)
		rec = func(k int) {
			if k == m {
				perms = append(perms, append([]int(nil), idx...))
				return
			}
			for i := k; i < m; i++ {
				idx[k], idx[i] = idx[i], idx[k]
				rec(k + 1)
				idx[k], idx[i] = idx[i], idx[k]
			}
		}
		rec(0)
	} else {
		rev := make([]int, m)
		for i := range canon {
			rev[m-1-i] = canon[i]
		}
		perms = append(perms, rev)
		for _, s := range e.c.PermSeeds {
			r := c10Rng(s)
			pos := make([]int, 0, m)
			if s&1 == 0 { // any order
				for i := 0; i < m; i++ {
					pos = append(pos, i)
				}
				for i := m - 1; i > 0; i-- {
					j := r.intn(i + 1)
					pos[i], pos[j] = pos[j], pos[i]
				}
			} else { // an order the DAG could deliver: random linear extension of the reference relation
				done := make([]bool, m)
				seen := map[int]bool{}
				for len(pos) < m {
					var ready []int
					for i := 0; i < m; i++ {
						if done[i] {
							continue
						}
						ok := true
						if !seen[e.arr[i]] {
							for _, p := range e.ev[e.arr[i]].allPrev {
								if !seen[p] {
									ok = false
									break
								}
							}
						}
						if ok {
							ready = append(ready, i)
						}
					}
					i := ready[r.intn(len(ready))]
					done[i] = true
					seen[e.arr[i]] = true
					pos = append(pos, i)
				}
			}
			perms = append(perms, pos)
		}
	}
	// positions -> event indices, deduplicated
	var out [][]int
	seenSeq := map[string]bool{}
	for _, pm := range perms {
		seq := make([]int, len(pm))
		for i, ps := range pm {
			seq[i] = e.arr[ps]
		}
		k := fmt.Sprint(seq)
		if seenSeq[k] {
			continue
		}
		seenSeq[k] = true
		out = append(out, seq)
	}
	return out
}

// ---------------------------------------------------------------------------------------------------------------------
// store handling and observation

func (e *c10Env) open(path string) (*store, stoabs.KVStore) {
	// the lock timeout (default 1 s) only matters on an overloaded machine: never let it decide a case
	opts := []stoabs.Option{stoabs.WithNoSync(), stoabs.WithLockAcquireTimeout(5 * time.Minute)}
	if e.quiet {
		l := logrus.New()
		l.SetOutput(io.Discard)
		opts = append(opts, stoabs.WithLogger(l))
	}
	kv, err := bbolt.CreateBBoltStore(path, opts...)
	e.x.NoErr(err, "open bbolt store")
	if e.wrap != nil {
		kv = e.wrap(kv)
	}
	s := New(&storage.StaticKVStoreProvider{Store: kv}).(*store)
	if err := s.Configure(core.ServerConfig{}); err != nil {
		_ = kv.Close(context.Background())
		e.x.Fatalf("Configure: %v", err)
	}
	return s, kv
}

func (e *c10Env) tagOf(causal bool) string {
	if e.tag != "" {
		return e.tag
	}
	return c10Tag(causal)
}

// c10Ans is one answer of Resolve.
type c10Ans struct {
	Err     string
	Doc     string
	Hash    string
	Prev    string
	Created int64
	Updated string
	Deact   bool
	Src     string
}

type c10Obs struct {
	Key string
	Ans c10Ans // Resolve answers
	Raw string // everything else
}

func c10SortedRefs(l []hash.SHA256Hash) string {
	s := make([]string, len(l))
	for i, r := range l {
		s[i] = r.String()[:10]
	}
	sort.Strings(s)
	return strings.Join(s, ",")
}

func c10Answer(doc *did.Document, md *resolver.DocumentMetadata, err error) c10Ans {
	if err != nil {
		switch {
		case errors.Is(err, resolver.ErrDeactivated):
			return c10Ans{Err: "deactivated"}
		case errors.Is(err, resolver.ErrNotFound):
			return c10Ans{Err: "not-found"}
		default:
			return c10Ans{Err: "other: " + err.Error()}
		}
	}
	if doc == nil || md == nil {
		return c10Ans{Err: "nil-without-error"}
	}
	b, merr := json.Marshal(doc)
	if merr != nil {
		return c10Ans{Err: "unmarshalable document: " + merr.Error()}
	}
	a := c10Ans{Doc: string(b), Hash: md.Hash.String(), Created: md.Created.UnixNano(), Deact: md.Deactivated, Src: c10SortedRefs(md.SourceTransactions)}
	if md.PreviousHash != nil {
		a.Prev = md.PreviousHash.String()
	}
	if md.Updated != nil {
		a.Updated = fmt.Sprint(md.Updated.UnixNano())
	}
	return a
}

func (e *c10Env) resolve(s *store, d int, md *resolver.ResolveMetadata) c10Ans {
	return c10Answer(s.Resolve(e.p.dids[d], md))
}

func c10DocLine(doc did.Document, md resolver.DocumentMetadata) string {
	a := c10Answer(&doc, &md, nil)
	sum := sha256.Sum256([]byte(a.Doc))
	return fmt.Sprintf("%s doc=%s hash=%s prev=%s created=%d updated=%s deact=%v src=%s", doc.ID.String(), hex.EncodeToString(sum[:6]), a.Hash[:10], a.Prev, a.Created, a.Updated, a.Deact, a.Src)
}

func (e *c10Env) conflictedIter(s *store) string {
	var lines []string
	err := s.Conflicted(func(doc did.Document, md resolver.DocumentMetadata) error {
		lines = append(lines, c10DocLine(doc, md))
		return nil
	})
	if err != nil {
		return "ERR " + err.Error()
	}
	sort.Strings(lines)
	return strings.Join(lines, "\n")
}

// versionHashes lists the hashes of all stored versions of a DID (internal read; used to query merged versions by hash).
func (e *c10Env) versionHashes(s *store, d int) []hash.SHA256Hash {
	var out []hash.SHA256Hash
	id := e.p.dids[d].String()
	_ = s.db.Read(context.Background(), func(tx stoabs.ReadTx) error {
		for v := 0; v <= len(e.arr)+1; v++ {
			md, err := readMetadata(tx, []byte(fmt.Sprintf("%s%d", id, v)))
			if err != nil {
				break
			}
			out = append(out, md.Hash)
		}
		return nil
	})
	return out
}

// versions reads the stored history of a DID: per version the document and the metadata as Resolve would return them.
func (e *c10Env) versions(s *store, d int) []c10Ans {
	var out []c10Ans
	id := e.p.dids[d].String()
	_ = s.db.Read(context.Background(), func(tx stoabs.ReadTx) error {
		for v := 0; v <= len(e.arr)+1; v++ {
			md, err := readMetadata(tx, []byte(fmt.Sprintf("%s%d", id, v)))
			if err != nil {
				break
			}
			doc, err := readDocument(tx, md.Hash)
			vm := md.asVDRMetadata()
			out = append(out, c10Answer(&doc, &vm, err))
		}
		return nil
	})
	return out
}

// dump is the cheap comparison: everything Resolve and the counters are computed from, normalised where the
// representation is allowed to vary (order of SourceTransactions, time zone of stored instants).
func (e *c10Env) dump(s *store) []string {
	var out []string
	err := s.db.Read(context.Background(), func(tx stoabs.ReadTx) error {
		for _, d := range e.dids {
			id := e.p.dids[d]
			var sb strings.Builder
			el, err := readEventList(tx, id)
			if err != nil {
				return err
			}
			for _, ev := range el.Events {
				fmt.Fprintf(&sb, "%s/%s ", ev.Ref.String()[:8], strings.TrimPrefix(ev.MetaRef, id.String()))
			}
			latest, _ := tx.GetShelfReader(latestShelf).Get(stoabs.BytesKey(id.String()))
			fmt.Fprintf(&sb, "| latest=%s\n", strings.TrimPrefix(string(latest), id.String()))
			for v := 0; v <= len(e.arr)+1; v++ {
				md, err := readMetadata(tx, []byte(fmt.Sprintf("%s%d", id.String(), v)))
				if err != nil {
					break
				}
				docBytes, _ := tx.GetShelfReader(documentShelf).Get(stoabs.NewHashKey(md.Hash))
				sum := sha256.Sum256(docBytes)
				prev := ""
				if md.PreviousHash != nil {
					prev = md.PreviousHash.String()[:10]
				}
				fmt.Fprintf(&sb, "v%d/%d c=%d u=%d h=%s p=%s deact=%v src=%s doc=%s\n", v, md.Version, md.Created.UnixNano(), md.Updated.UnixNano(), md.Hash.String()[:10], prev, md.Deactivated, c10SortedRefs(md.SourceTransactions), hex.EncodeToString(sum[:8]))
			}
			out = append(out, sb.String())
		}
		var keys []string
		_ = tx.GetShelfReader(conflictedShelf).Iterate(func(k stoabs.Key, _ []byte) error {
			keys = append(keys, string(k.Bytes()))
			return nil
		}, stoabs.BytesKey{})
		sort.Strings(keys)
		cc, _ := tx.GetShelfReader(statsShelf).Get(stoabs.BytesKey(conflictedCountKey))
		dc, _ := tx.GetShelfReader(statsShelf).Get(stoabs.BytesKey(documentCountKey))
		out = append(out, fmt.Sprintf("conflicted=%v cc=%x dc=%x", keys, cc, dc))
		return nil
	})
	e.x.NoErr(err, "dump store")
	out = append(out, "cache:"+e.conflictedIter(s))
	return out
}

// observe is the observation vector in terms of the public API, most basic observations first.
func (e *c10Env) observe(s *store) []c10Obs {
	var o []c10Obs
	dc, err := s.DocumentCount()
	e.x.NoErr(err, "DocumentCount")
	cc, err := s.ConflictedCount()
	e.x.NoErr(err, "ConflictedCount")
	o = append(o, c10Obs{Key: "count.documents", Raw: fmt.Sprint(dc)}, c10Obs{Key: "count.conflicted", Raw: fmt.Sprint(cc)})
	for _, d := range e.dids {
		// the stored history, oldest version first (what Resolve answers when it selects that version), so that the first
		// difference reported is the oldest version that differs: later versions inherit it through PreviousHash
		vs := e.versions(s, d)
		for k := 0; k <= len(e.arr); k++ {
			a := c10Ans{Err: "no-such-version"}
			if k < len(vs) {
				a = vs[k]
			}
			o = append(o, c10Obs{Key: fmt.Sprintf("version[%d] #%d", d, k), Ans: a})
		}
	}
	for _, d := range e.dids {
		// the same through the API only: walk back through PreviousHash (ends where a hash repeats)
		var chain []string
		seen := map[string]bool{}
		a := e.resolve(s, d, &resolver.ResolveMetadata{AllowDeactivated: true})
		for k := 0; k <= len(e.arr); k++ {
			chain = append(chain, a.brief())
			if a.Err != "" || a.Prev == "" || seen[a.Prev] {
				break
			}
			seen[a.Prev] = true
			hh, _ := hash.ParseHex(a.Prev)
			a = e.resolve(s, d, &resolver.ResolveMetadata{AllowDeactivated: true, Hash: &hh})
		}
		o = append(o, c10Obs{Key: fmt.Sprintf("previous-hash-chain[%d]", d), Raw: strings.Join(chain, "\n")})
	}
	for _, d := range e.dids {
		o = append(o,
			c10Obs{Key: fmt.Sprintf("latest+deactivated[%d]", d), Ans: e.resolve(s, d, &resolver.ResolveMetadata{AllowDeactivated: true})},
			c10Obs{Key: fmt.Sprintf("latest[%d]", d), Ans: e.resolve(s, d, nil)},
			c10Obs{Key: fmt.Sprintf("latest-empty-metadata[%d]", d), Ans: e.resolve(s, d, &resolver.ResolveMetadata{})})
	}
	o = append(o, c10Obs{Key: "conflicted-iterator", Raw: e.conflictedIter(s)})
	var lines []string
	err = s.Iterate(func(doc did.Document, md resolver.DocumentMetadata) error {
		lines = append(lines, c10DocLine(doc, md))
		return nil
	})
	if err != nil {
		lines = append(lines, "ERR "+err.Error())
	}
	sort.Strings(lines)
	o = append(o, c10Obs{Key: "iterate", Raw: strings.Join(lines, "\n")})
	for _, d := range e.dids {
		var times []int64
		var hashes, refs []hash.SHA256Hash
		seenT, seenH := map[int64]bool{}, map[hash.SHA256Hash]bool{}
		for _, ev := range e.ev {
			if ev.didIdx != d {
				continue
			}
			if t := ev.tx.SigningTime.Unix(); !seenT[t] {
				seenT[t] = true
				times = append(times, t)
			}
			if !seenH[ev.tx.PayloadHash] {
				seenH[ev.tx.PayloadHash] = true
				hashes = append(hashes, ev.tx.PayloadHash)
			}
			refs = append(refs, ev.tx.Ref)
		}
		for _, hh := range e.extra[d] {
			if !seenH[hh] {
				seenH[hh] = true
				hashes = append(hashes, hh)
			}
		}
		sort.Slice(times, func(i, j int) bool { return times[i] < times[j] })
		times = append([]int64{times[0] - 1}, times...)
		times = append(times, e.far.Unix())
		for _, allow := range []bool{true, false} {
			for _, ts := range times {
				tt := time.Unix(ts, 0)
				o = append(o, c10Obs{Key: fmt.Sprintf("time[%d] t=%+d allowDeactivated=%v", d, ts-c10Epoch, allow), Ans: e.resolve(s, d, &resolver.ResolveMetadata{ResolveTime: &tt, AllowDeactivated: allow})})
			}
			for i := range hashes {
				o = append(o, c10Obs{Key: fmt.Sprintf("hash[%d] #%d allowDeactivated=%v", d, i, allow), Ans: e.resolve(s, d, &resolver.ResolveMetadata{Hash: &hashes[i], AllowDeactivated: allow})})
			}
			for i := range refs {
				o = append(o, c10Obs{Key: fmt.Sprintf("source-tx[%d] #%d allowDeactivated=%v", d, i, allow), Ans: e.resolve(s, d, &resolver.ResolveMetadata{SourceTransaction: &refs[i], AllowDeactivated: allow})})
			}
		}
	}
	return o
}

// c10DocDiff names the first document member that differs and whether only the order of its elements differs.
func c10DocDiff(a, b string) (string, string) {
	var ma, mb map[string]json.RawMessage
	if json.Unmarshal([]byte(a), &ma) != nil || json.Unmarshal([]byte(b), &mb) != nil {
		return "unparsable", ""
	}
	for _, f := range []string{"controller", "verificationMethod", "authentication", "assertionMethod", "keyAgreement", "capabilityInvocation", "capabilityDelegation", "service", "@context", "id", "alsoKnownAs"} {
		if bytes.Equal(ma[f], mb[f]) {
			continue
		}
		show := fmt.Sprintf("%s: %s\n      vs %s: %s", f, ma[f], f, mb[f])
		var la, lb []json.RawMessage
		if json.Unmarshal(ma[f], &la) == nil && json.Unmarshal(mb[f], &lb) == nil && len(la) == len(lb) {
			sa, sb := make([]string, len(la)), make([]string, len(lb))
			for i := range la {
				sa[i], sb[i] = string(la[i]), string(lb[i])
			}
			sort.Strings(sa)
			sort.Strings(sb)
			if strings.Join(sa, "\x00") == strings.Join(sb, "\x00") {
				return f + "-order", show
			}
		}
		return f + "-content", show
	}
	return "other-member", ""
}

func (a c10Ans) brief() string {
	if a.Err != "" {
		return "error " + a.Err
	}
	sum := sha256.Sum256([]byte(a.Doc))
	return fmt.Sprintf("document sha256 %s (%d bytes) hash=%s previousHash=%s created=%d updated=%s deactivated=%v sourceTransactions={%s}", hex.EncodeToString(sum[:6]), len(a.Doc), a.Hash, a.Prev, a.Created, a.Updated, a.Deact, a.Src)
}

// c10FirstDiff returns key, signature detail and a description of the first differing observation.
func c10FirstDiff(ref, got []c10Obs, skip map[string]bool) (string, string, string) {
	if len(ref) != len(got) {
		return "vector-length", "vector-length", fmt.Sprintf("%d vs %d observations", len(ref), len(got))
	}
	for i := range ref {
		a, b := ref[i], got[i]
		if a.Key != b.Key {
			return a.Key, "vector-keys", a.Key + " vs " + b.Key
		}
		if (a.Raw == b.Raw && a.Ans == b.Ans) || skip[a.Key] {
			continue
		}
		if a.Raw != b.Raw {
			return a.Key, strings.SplitN(a.Key, "[", 2)[0], fmt.Sprintf("reference run:\n%s\nthis run:\n%s", a.Raw, b.Raw)
		}
		x, y := a.Ans, b.Ans
		detail, show := "", ""
		switch {
		case (x.Err == "") != (y.Err == ""):
			detail = "error-vs-document"
		case x.Err != y.Err:
			detail = "error-class"
		case x.Doc != y.Doc:
			detail, show = c10DocDiff(x.Doc, y.Doc)
			detail = "document." + detail
		case x.Hash != y.Hash:
			detail = "metadata.hash"
		case x.Deact != y.Deact:
			detail = "metadata.deactivated"
		case x.Src != y.Src:
			detail = "metadata.source-transactions"
		case x.Prev != y.Prev:
			detail = "metadata.previous-hash"
		case x.Created != y.Created:
			detail = "metadata.created"
		default:
			detail = "metadata.updated"
		}
		return a.Key, detail, fmt.Sprintf("reference run: %s\nthis run:      %s\n%s", x.brief(), y.brief(), show)
	}
	return "", "", ""
}

// ---------------------------------------------------------------------------------------------------------------------
// model checks on the set that arrived so far

func (e *c10Env) headsOfArrived(arrived map[int]bool, d int) (heads []int, any bool, deact bool) {
	referenced := map[int]bool{}
	for i := range e.ev {
		if !arrived[i] || e.ev[i].didIdx != d {
			continue
		}
		any = true
		if e.ev[i].deact {
			deact = true
		}
		for _, p := range e.ev[i].samePrev {
			referenced[p] = true
		}
	}
	for i := range e.ev {
		if arrived[i] && e.ev[i].didIdx == d && !referenced[i] {
			heads = append(heads, i)
		}
	}
	return
}

func c10Tag(causal bool) string {
	if causal {
		return "dag-order"
	}
	return "any-order"
}

// stepCounts: ConflictedCount and DocumentCount against the fold (cheap, after every Add of every run).
func (e *c10Env) stepCounts(s *store, arrived map[int]bool, causal bool, seq []int, pos int) {
	wantC, wantD := 0, 0
	for _, d := range e.dids {
		hs, any, _ := e.headsOfArrived(arrived, d)
		if any {
			wantD++
		}
		if len(hs) > 1 {
			wantC++
		}
	}
	cc, err := s.ConflictedCount()
	e.x.NoErr(err, "ConflictedCount")
	dc, err := s.DocumentCount()
	e.x.NoErr(err, "DocumentCount")
	if int(cc) != wantC {
		e.violate("c10:model:conflicted-count:"+e.tagOf(causal), "after arrival %d of order %v: ConflictedCount()=%d, but %d DID(s) have more than one unreferenced transaction", pos, seq, cc, wantC)
	}
	if int(dc) != wantD {
		e.violate("c10:model:document-count:"+e.tagOf(causal), "after arrival %d of order %v: DocumentCount()=%d, but transactions of %d DID(s) arrived", pos, seq, dc, wantD)
	}
}

func c10IDSet(ids []string) string {
	m := map[string]bool{}
	for _, i := range ids {
		m[i] = true
	}
	out := make([]string, 0, len(m))
	for i := range m {
		out = append(out, i)
	}
	sort.Strings(out)
	return strings.Join(out, " ")
}

func c10Members(doc did.Document) map[string]string {
	rel := func(r did.VerificationRelationships) string {
		var ids []string
		for _, v := range r {
			ids = append(ids, v.ID.String())
		}
		return c10IDSet(ids)
	}
	var ctrl, vms, svcs, ctxs []string
	for _, c := range doc.Controller {
		ctrl = append(ctrl, c.String())
	}
	for _, v := range doc.VerificationMethod {
		vms = append(vms, v.ID.String())
	}
	for _, s := range doc.Service {
		svcs = append(svcs, s.ID.String())
	}
	for _, c := range doc.Context {
		ctxs = append(ctxs, fmt.Sprint(c))
	}
	return map[string]string{
		"controller": c10IDSet(ctrl), "verificationMethod": c10IDSet(vms), "service": c10IDSet(svcs), "context": c10IDSet(ctxs),
		"authentication": rel(doc.Authentication), "assertionMethod": rel(doc.AssertionMethod), "keyAgreement": rel(doc.KeyAgreement),
		"capabilityInvocation": rel(doc.CapabilityInvocation), "capabilityDelegation": rel(doc.CapabilityDelegation),
	}
}

var c10MemberOrder = []string{"controller", "verificationMethod", "authentication", "assertionMethod", "keyAgreement", "capabilityInvocation", "capabilityDelegation", "service", "context"}

// stepModel: the statements of the property that do not need a second run.
func (e *c10Env) stepModel(s *store, arrived map[int]bool, causal bool, seq []int, pos int) {
	tag := e.tagOf(causal)
	where := fmt.Sprintf("after arrival %d of order %v", pos, seq)
	for _, d := range e.dids {
		heads, any, deact := e.headsOfArrived(arrived, d)
		if !any {
			continue
		}
		id := e.p.dids[d]
		doc, md, err := s.Resolve(id, &resolver.ResolveMetadata{AllowDeactivated: true})
		if err != nil {
			e.violate("c10:model:latest-unresolvable:"+tag, "%s: Resolve(%s, AllowDeactivated) fails: %v", where, id, err)
			continue
		}
		var want []hash.SHA256Hash
		for _, hd := range heads {
			want = append(want, e.ev[hd].tx.Ref)
		}
		if c10SortedRefs(want) != c10SortedRefs(md.SourceTransactions) {
			e.violate("c10:model:source-transactions:"+tag, "%s: SourceTransactions %s, unreferenced transactions of the DID are %s", where, c10SortedRefs(md.SourceTransactions), c10SortedRefs(want))
		}
		if md.Deactivated != deact {
			e.violate(fmt.Sprintf("c10:model:deactivated-flag-%v-want-%v:%s", md.Deactivated, deact, tag), "%s: metadata.Deactivated=%v but a deactivation arrived=%v", where, md.Deactivated, deact)
		}
		got, _ := json.Marshal(doc)
		if len(heads) == 1 {
			hd := e.ev[heads[0]]
			if !bytes.Equal(got, hd.payload) {
				e.violate("c10:model:single-head-document:"+tag, "%s: one unreferenced transaction (event %d) but the latest document is not its document:\n got %s\nwant %s", where, heads[0], got, hd.payload)
			} else if !md.Hash.Equals(hd.tx.PayloadHash) {
				e.violate("c10:model:single-head-hash:"+tag, "%s: latest hash %s is not the payload hash %s of the only unreferenced transaction", where, md.Hash, hd.tx.PayloadHash)
			}
		} else {
			union := map[string][]string{}
			for _, hd := range heads {
				for k, v := range c10Members(e.ev[hd].doc) {
					union[k] = append(union[k], strings.Fields(v)...)
				}
			}
			have := c10Members(*doc)
			for _, k := range c10MemberOrder {
				if w := c10IDSet(union[k]); w != have[k] {
					e.violate("c10:model:merge-union:"+k+":"+tag, "%s: merged document of heads %v has %s = {%s}, union of the heads is {%s}", where, heads, k, have[k], w)
					break
				}
			}
		}
		// a deactivated DID never resolves as active again; an active one resolves
		a := e.resolve(s, d, nil)
		if deact && a.Err == "" {
			e.violate("c10:deactivated-resolves-active:latest:"+tag, "%s: a deactivation of %s arrived, Resolve(nil) still returns a document", where, id)
		}
		if !deact && a.Err != "" {
			e.violate("c10:active-does-not-resolve:latest:"+tag, "%s: no deactivation of %s arrived, Resolve(nil) returns %s", where, id, a.Err)
		}
		if deact {
			far := e.far
			if a := e.resolve(s, d, &resolver.ResolveMetadata{ResolveTime: &far}); a.Err == "" {
				e.violate("c10:deactivated-resolves-active:at-later-time", "%s: a deactivation of %s arrived; Resolve(ResolveTime = one hour after the last signing time, AllowDeactivated=false) returns an active document (metadata.deactivated=%v, hash %s)", where, id, a.Deact, a.Hash)
			}
		}
	}
}

// ---------------------------------------------------------------------------------------------------------------------
// one run = one fresh store fed in one arrival order

type c10ExecOpts struct {
	ref         bool
	steps       bool // model checks after every Add
	reopenAt    int  // close/re-open before this arrival (-1: never)
	finalReopen bool
	api         bool // take the API observation even if the cheap dump equals the reference
}

type c10Exec struct {
	dump []string
	api  []c10Obs
	ok   bool
}

func (e *c10Env) exec(seq []int, o c10ExecOpts, refDump []string) (res c10Exec) {
	path := filepath.Join(e.dir, fmt.Sprintf("r%d.db", e.nrun))
	e.nrun++
	s, kv := e.open(path)
	defer func() {
		_ = kv.Close(context.Background())
		_ = os.Remove(path)
	}()
	arrived := map[int]bool{}
	causal := true
	for pos, ei := range seq {
		if o.reopenAt == pos {
			e.x.NoErr(kv.Close(context.Background()), "close store")
			s, kv = e.open(path)
		}
		ev := &e.ev[ei]
		if !arrived[ei] {
			for _, p := range ev.allPrev {
				if !arrived[p] {
					causal = false
				}
			}
		}
		e.nadd++
		if err := s.Add(ev.doc, ev.tx); err != nil {
			e.violate("c10:add-fails:"+c10Tag(causal), "arrival %d (event %d) of order %v: Add returned %v", pos, ei, seq, err)
			return
		}
		arrived[ei] = true
		e.stepCounts(s, arrived, causal, seq, pos)
		if o.steps {
			e.stepModel(s, arrived, causal, seq, pos)
		}
	}
	res.dump = e.dump(s)
	if o.finalReopen {
		before := e.conflictedIter(s)
		e.x.NoErr(kv.Close(context.Background()), "close store")
		s, kv = e.open(path)
		if after := e.conflictedIter(s); after != before {
			e.violate("c10:reopen-changes-conflicted-iterator", "order %v: Conflicted() before close:\n%s\nafter re-open:\n%s", seq, before, after)
		}
		if d2 := e.dump(s); strings.Join(d2, "\n") != strings.Join(res.dump, "\n") {
			e.violate("c10:reopen-changes-state", "order %v: stored state differs after close/re-open:\n%s\n---\n%s", seq, strings.Join(res.dump, "\n"), strings.Join(d2, "\n"))
		}
	}
	if o.ref {
		for _, d := range e.dids {
			e.extra[d] = e.versionHashes(s, d)
		}
	}
	if o.ref || o.api || strings.Join(res.dump, "\n") != strings.Join(refDump, "\n") {
		res.api = e.observe(s)
	}
	res.ok = true
	return
}

// ---------------------------------------------------------------------------------------------------------------------
// run

func c10Run(x *h.Ctx, c c10Case) {
	e := c10Prepare(x, c)
	if e == nil {
		return
	}
	orders := e.orders()
	reps := c.K
	if reps < 1 {
		reps = 1
	}
	if len(orders) > 24 && reps > 1 {
		reps = 1
	}
	minRuns := c.MinRuns
	if minRuns > 256 {
		minRuns = 256
	}
	if reps*len(orders) < minRuns {
		reps = (minRuns + len(orders) - 1) / len(orders)
	}
	if x.IsReplay {
		reps *= 3 // a saved case must reproduce reliably although the coin is the runtime's
	}
	e.classify(orders)

	ref := e.exec(orders[0], c10ExecOpts{ref: true, steps: true, reopenAt: -1}, nil)
	if !ref.ok {
		return
	}
	type outcome struct {
		order, rep int
		detail     string
		key, msg   string
	}
	var diffs []outcome
	results := map[int]map[string]int{} // order -> distinct API observation vectors -> runs
	note := func(oi int, v string) {
		if results[oi] == nil {
			results[oi] = map[string]int{}
		}
		results[oi][v]++
	}
	note(0, "ref")
	internalOnly := false
	refDump := strings.Join(ref.dump, "\n")
	one := func(oi, r int, o c10ExecOpts) {
		got := e.exec(orders[oi], o, ref.dump)
		if !got.ok {
			return
		}
		if got.api == nil {
			note(oi, "ref")
			return
		}
		// a counter that is already reported against the model is not reported a second time as a difference
		skip := map[string]bool{}
		for sig := range e.reported {
			if strings.HasPrefix(sig, "c10:model:conflicted-count") {
				skip["count.conflicted"] = true
			}
			if strings.HasPrefix(sig, "c10:model:document-count") {
				skip["count.documents"] = true
			}
		}
		key, detail, msg := c10FirstDiff(ref.api, got.api, skip)
		if detail == "" {
			note(oi, "ref")
			if strings.Join(got.dump, "\n") != refDump {
				internalOnly = true
			}
			return
		}
		sum := sha256.Sum256([]byte(fmt.Sprintf("%+v", got.api)))
		note(oi, hex.EncodeToString(sum[:8]))
		diffs = append(diffs, outcome{oi, r, detail, key, msg})
	}
	stepEvery := 1
	if len(orders) > 24 {
		stepEvery = len(orders) / 24
	}
	run := 0
runs:
	for oi, seq := range orders {
		for r := 0; r < reps; r++ {
			if oi == 0 && r == 0 {
				continue
			}
			if len(diffs) >= 12 || len(e.reported) >= 6 {
				break runs // enough evidence; keeps failing cases (shrinking, replay) cheap
			}
			run++
			o := c10ExecOpts{reopenAt: -1}
			o.steps = r == 0 && oi%stepEvery == 0
			if r%2 == 1 || (reps == 1 && oi%2 == 1) {
				o.finalReopen = true
			}
			if (r%3 == 2 || (reps == 1 && oi%3 == 2)) && len(seq) > 1 {
				o.reopenAt = 1 + (oi+r)%(len(seq)-1)
			}
			o.api = run%16 == 0
			one(oi, r, o)
		}
	}
	// Telling "this order gives another result" from "the same order gives varying results" needs repetitions of the
	// orders involved: the reference order and the first orders that differ are repeated until each ran 6 times.
	if len(diffs) > 0 {
		again := []int{0}
		for _, d := range diffs {
			if len(again) < 4 && d.order != 0 && (len(again) == 1 || again[len(again)-1] != d.order) {
				again = append(again, d.order)
			}
		}
		for _, oi := range again {
			n := 0
			for _, k := range results[oi] {
				n += k
			}
			for r := n; r < 6; r++ {
				one(oi, 1000+r, c10ExecOpts{reopenAt: -1, api: true})
			}
		}
	}
	h.Count("C10", x.Unit, "stores", e.nrun)
	h.Count("C10", x.Unit, "adds", e.nadd)
	if internalOnly {
		x.Class("stored-state-differs-but-api-agrees")
	}
	nondeterministic := false
	for _, m := range results {
		if len(m) > 1 {
			nondeterministic = true
		}
	}
	differs := map[int]bool{}
	for _, d := range diffs {
		differs[d.order] = true
	}
	for _, d := range diffs {
		var kind string
		switch {
		case nondeterministic:
			kind = "same-order-repeated" // some identical arrival sequence gave different outcomes in this case
		case e.isCausal(orders[d.order]):
			kind = "dag-order"
		default:
			kind = "any-order"
		}
		e.violate("c10:observation-differs:"+d.detail+":"+kind,
			"%s differs between the reference order %v and order %v (repetition %d; %d of %d orders differ; %s)\n%s",
			d.key, orders[0], orders[d.order], d.rep, len(differs), len(orders), kind, d.msg)
	}
	if (e.hasFork || e.hasDup) && len(orders) >= 2 {
		x.NonTrivial()
	}
}

// classify records what the case exercises (evidence only).
func (e *c10Env) classify(orders [][]int) {
	x := e.x
	x.Classf("events=%d", len(e.ev))
	x.Classf("dids=%d", len(e.dids))
	if len(e.arr) <= 5 {
		x.Class("orders=all-permutations")
	} else {
		x.Class("orders=sampled")
	}
	nc := 0
	for _, o := range orders {
		if e.isCausal(o) {
			nc++
		}
	}
	switch {
	case nc == len(orders):
		x.Class("orders:only-dag-orders-exist")
	case nc >= 2:
		x.Class("orders:>=2-dag-orders-and-others")
	default:
		x.Class("orders:1-dag-order-and-others")
	}
	if e.hasOwn {
		x.Class("document-as-built-in-memory")
	}
	if len(e.c.Dups) > 0 {
		x.Class("duplicate-arrival")
		e.hasDup = true
	}
	// fold in canonical order
	canon := orders[0]
	arrived := map[int]bool{}
	everConflict, maxHeads := false, 0
	deactSeen := map[int]bool{}
	for _, ei := range canon {
		if arrived[ei] {
			continue
		}
		if deactSeen[e.ev[ei].didIdx] {
			x.Class("update-after-deactivation")
		}
		arrived[ei] = true
		hs, _, _ := e.headsOfArrived(arrived, e.ev[ei].didIdx)
		if len(hs) > maxHeads {
			maxHeads = len(hs)
		}
		if len(hs) > 1 {
			everConflict = true
			if e.ev[ei].deact {
				x.Class("deactivation-in-a-branch")
			}
		}
		if e.ev[ei].deact {
			deactSeen[e.ev[ei].didIdx] = true
			x.Class("deactivation")
			if len(hs) == 1 && len(e.ev[ei].samePrev) > 1 {
				x.Class("deactivation-resolving-a-conflict")
			}
		}
		if len(hs) == 1 && len(e.ev[ei].samePrev) > 1 {
			x.Class("conflict-resolved-by-update")
		}
	}
	if everConflict {
		e.hasFork = true
		x.Class("fork")
		if maxHeads >= 3 {
			x.Class("fork:>=3-way")
		} else {
			x.Class("fork:2-way")
		}
	}
	finalConflict := false
	for _, d := range e.dids {
		hs, _, _ := e.headsOfArrived(arrived, d)
		if len(hs) > 1 {
			finalConflict = true
			ctrl := map[string]bool{}
			svc := map[string]string{}
			sameIDDiff, sameIDSame := false, false
			for _, hd := range hs {
				for _, c := range e.ev[hd].doc.Controller {
					ctrl[c.String()] = true
				}
				for _, sv := range e.ev[hd].doc.Service {
					b, _ := json.Marshal(sv)
					if old, ok := svc[sv.ID.String()]; ok {
						if old != string(b) {
							sameIDDiff = true
						} else {
							sameIDSame = true
						}
					}
					svc[sv.ID.String()] = string(b)
				}
			}
			switch {
			case len(ctrl) >= 3:
				x.Class("final-conflict:controllers>=3")
			case len(ctrl) == 2:
				x.Class("final-conflict:controllers=2")
			default:
				x.Class("final-conflict:controllers<=1")
			}
			if sameIDDiff {
				x.Class("final-conflict:service-same-id-different-content")
			}
			if sameIDSame {
				x.Class("final-conflict:service-same-id-same-content")
			}
			x.Classf("final-conflict:heads=%d", len(hs))
		}
	}
	if finalConflict {
		x.Class("final-conflict")
	} else if everConflict {
		x.Class("conflict-gone-at-the-end")
	}
	// ties in the store's order
	payloads := map[hash.SHA256Hash]int{}
	for i := range e.ev {
		payloads[e.ev[i].tx.PayloadHash]++
		for j := i + 1; j < len(e.ev); j++ {
			if e.ev[i].didIdx == e.ev[j].didIdx && e.ev[i].tx.Clock == e.ev[j].tx.Clock {
				if e.ev[i].tx.SigningTime.Equal(e.ev[j].tx.SigningTime) {
					x.Class("equal-clock-equal-signing-time")
				} else {
					x.Class("equal-clock-different-signing-time")
				}
			}
		}
		if i > 0 && e.ev[i].tx.SigningTime.Before(e.ev[i-1].tx.SigningTime) && e.ev[i].tx.Clock > e.ev[i-1].tx.Clock {
			x.Class("signing-time-against-clock")
		}
	}
	for _, n := range payloads {
		if n > 1 {
			x.Class("same-document-in-two-transactions")
			e.hasDup = true
		}
	}
}

func TestVerif_C10_Order(t *testing.T) {
	h.Check(t, "C10", c10Gen, c10Run, h.PanicIsViolation())
}

func TestVerifReplay_C10_Order(t *testing.T) {
	h.Replay(t, "C10", "TestVerif_C10_Order", c10Run, h.PanicIsViolation())
}
