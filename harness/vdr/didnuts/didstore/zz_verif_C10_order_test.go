//go:build verif

package didstore

// C10: did:nuts resolution is independent of the order in which updates arrive.
//
// A case is a set E of did:nuts document transactions (events) over one or two DIDs, forming a history as the DAG
// would deliver it (every event references earlier events; Lamport clock strictly above the clocks of everything it
// references; whole-second signing times; unique refs; payload hash = hash of the document bytes), plus duplicate
// arrivals, plus the arrival orders to try. Every arrival order is applied, event by event, to an independent fresh
// bbolt-backed store (several times: Go map iteration inside the code under test is a per-run coin), with a
// close/re-open (Configure) halfway and/or before the observation. Oracles:
//
//   - metamorphic: the observation vector (Resolve by nothing / time / hash / source transaction with and without
//     AllowDeactivated, the version chain, ConflictedCount, DocumentCount, Conflicted(), Iterate()) is identical across
//     all runs; the reference is the run that feeds the events in the store's own total order.
//   - model (order-free fold over the set that arrived so far, checked after every Add): ConflictedCount = number of
//     DIDs with more than one head, DocumentCount = number of DIDs, SourceTransactions = heads, a single head resolves
//     to exactly that head's document and payload hash, a merged document holds exactly the union of the heads'
//     controllers / keys per relationship / services / contexts, a DID for which a deactivation arrived never resolves
//     as active (latest, and at a time after everything that was signed).

import (
	"bytes"
	"context"
	"crypto/sha256"
	"encoding/hex"
	"encoding/json"
	"fmt"
	"os"
	"path/filepath"
	"sort"
	"strings"
	"testing"
	"time"

	"github.com/nuts-foundation/go-did/did"
	"github.com/nuts-foundation/go-stoabs"
	"github.com/nuts-foundation/nuts-node/crypto/hash"
	"github.com/nuts-foundation/nuts-node/vdr/resolver"
	"pgregory.net/rapid"
	"verif.local/h"
)

func c10Gen(t *rapid.T) c10Case {
	c := c10Case{K: rapid.IntRange(1, 3).Draw(t, "k"), MinRuns: 64}
	c.Events = c10GenEvents(t)
	n := len(c.Events)
	nd2 := rapid.SampledFrom([]int{0, 0, 0, 1, 1, 2}).Draw(t, "ndups")
	for i := 0; i < nd2; i++ {
		c.Dups = append(c.Dups, rapid.IntRange(0, n-1).Draw(t, "dup"))
	}
	if n+len(c.Dups) > 5 {
		// two draws only (the shrinker would otherwise spend its time bisecting ~50 64-bit seeds); the case lists the seeds
		r := c10Rng(rapid.Uint32().Draw(t, "perm_master_seed"))
		np := rapid.IntRange(40, 56).Draw(t, "n_orders")
		for i := 0; i < np; i++ {
			c.PermSeeds = append(c.PermSeeds, r.next()>>16)
		}
	}
	return c
}

type c10Obs struct {
	Key string
	Ans c10Ans // Resolve answers
	Raw string // everything else
}

func c10DocLine(doc did.Document, md resolver.DocumentMetadata) string {
	a := c10Answer(&doc, &md, nil)
	sum := sha256.Sum256([]byte(a.Doc))
	return fmt.Sprintf("%s doc=%s hash=%s prev=%s created=%d updated=%s deact=%v src=%s", doc.ID.String(), hex.EncodeToString(sum[:6]), a.Hash[:10], a.Prev, a.Created, a.Updated, a.Deact, a.Src)
}

func (e *c10Env) conflictedIter(s *store) string {
	var lines []string
	err := s.Conflicted(func(doc did.Document, md resolver.DocumentMetadata) error {
		lines = append(lines, c10DocLine(doc, md))
		return nil
	})
	if err != nil {
		return "ERR " + err.Error()
	}
	sort.Strings(lines)
	return strings.Join(lines, "\n")
}

// versionHashes lists the hashes of all stored versions of a DID (internal read; used to query merged versions by hash).
func (e *c10Env) versionHashes(s *store, d int) []hash.SHA256Hash {
	var out []hash.SHA256Hash
	id := e.p.dids[d].String()
	_ = s.db.Read(context.Background(), func(tx stoabs.ReadTx) error {
		for v := 0; v <= len(e.arr)+1; v++ {
			md, err := readMetadata(tx, []byte(fmt.Sprintf("%s%d", id, v)))
			if err != nil {
				break
			}
			out = append(out, md.Hash)
		}
		return nil
	})
	return out
}

// versions reads the stored history of a DID: per version the document and the metadata as Resolve would return them.
func (e *c10Env) versions(s *store, d int) []c10Ans {
	var out []c10Ans
	id := e.p.dids[d].String()
	_ = s.db.Read(context.Background(), func(tx stoabs.ReadTx) error {
		for v := 0; v <= len(e.arr)+1; v++ {
			md, err := readMetadata(tx, []byte(fmt.Sprintf("%s%d", id, v)))
			if err != nil {
				break
			}
			doc, err := readDocument(tx, md.Hash)
			vm := md.asVDRMetadata()
			out = append(out, c10Answer(&doc, &vm, err))
		}
		return nil
	})
	return out
}

// dump is the cheap comparison: everything Resolve and the counters are computed from, normalised where the
// representation is allowed to vary (order of SourceTransactions, time zone of stored instants).
func (e *c10Env) dump(s *store) []string {
	var out []string
	err := s.db.Read(context.Background(), func(tx stoabs.ReadTx) error {
		for _, d := range e.dids {
			id := e.p.dids[d]
			var sb strings.Builder
			el, err := readEventList(tx, id)
			if err != nil {
				return err
			}
			for _, ev := range el.Events {
				fmt.Fprintf(&sb, "%s/%s ", ev.Ref.String()[:8], strings.TrimPrefix(ev.MetaRef, id.String()))
			}
			latest, _ := tx.GetShelfReader(latestShelf).Get(stoabs.BytesKey(id.String()))
			fmt.Fprintf(&sb, "| latest=%s\n", strings.TrimPrefix(string(latest), id.String()))
			for v := 0; v <= len(e.arr)+1; v++ {
				md, err := readMetadata(tx, []byte(fmt.Sprintf("%s%d", id.String(), v)))
				if err != nil {
					break
				}
				docBytes, _ := tx.GetShelfReader(documentShelf).Get(stoabs.NewHashKey(md.Hash))
				sum := sha256.Sum256(docBytes)
				prev := ""
				if md.PreviousHash != nil {
					prev = md.PreviousHash.String()[:10]
				}
				fmt.Fprintf(&sb, "v%d/%d c=%d u=%d h=%s p=%s deact=%v src=%s doc=%s\n", v, md.Version, md.Created.UnixNano(), md.Updated.UnixNano(), md.Hash.String()[:10], prev, md.Deactivated, c10SortedRefs(md.SourceTransactions), hex.EncodeToString(sum[:8]))
			}
			out = append(out, sb.String())
		}
		var keys []string
		_ = tx.GetShelfReader(conflictedShelf).Iterate(func(k stoabs.Key, _ []byte) error {
			keys = append(keys, string(k.Bytes()))
			return nil
		}, stoabs.BytesKey{})
		sort.Strings(keys)
		cc, _ := tx.GetShelfReader(statsShelf).Get(stoabs.BytesKey(conflictedCountKey))
		dc, _ := tx.GetShelfReader(statsShelf).Get(stoabs.BytesKey(documentCountKey))
		out = append(out, fmt.Sprintf("conflicted=%v cc=%x dc=%x", keys, cc, dc))
		return nil
	})
	e.x.NoErr(err, "dump store")
	out = append(out, "cache:"+e.conflictedIter(s))
	return out
}

// observe is the observation vector in terms of the public API, most basic observations first.
func (e *c10Env) observe(s *store) []c10Obs {
	var o []c10Obs
	dc, err := s.DocumentCount()
	e.x.NoErr(err, "DocumentCount")
	cc, err := s.ConflictedCount()
	e.x.NoErr(err, "ConflictedCount")
	o = append(o, c10Obs{Key: "count.documents", Raw: fmt.Sprint(dc)}, c10Obs{Key: "count.conflicted", Raw: fmt.Sprint(cc)})
	for _, d := range e.dids {
		// the stored history, oldest version first (what Resolve answers when it selects that version), so that the first
		// difference reported is the oldest version that differs: later versions inherit it through PreviousHash
		vs := e.versions(s, d)
		for k := 0; k <= len(e.arr); k++ {
			a := c10Ans{Err: "no-such-version"}
			if k < len(vs) {
				a = vs[k]
			}
			o = append(o, c10Obs{Key: fmt.Sprintf("version[%d] #%d", d, k), Ans: a})
		}
	}
	for _, d := range e.dids {
		// the same through the API only: walk back through PreviousHash (ends where a hash repeats)
		var chain []string
		seen := map[string]bool{}
		a := e.resolve(s, d, &resolver.ResolveMetadata{AllowDeactivated: true})
		for k := 0; k <= len(e.arr); k++ {
			chain = append(chain, a.brief())
			if a.Err != "" || a.Prev == "" || seen[a.Prev] {
				break
			}
			seen[a.Prev] = true
			hh, _ := hash.ParseHex(a.Prev)
			a = e.resolve(s, d, &resolver.ResolveMetadata{AllowDeactivated: true, Hash: &hh})
		}
		o = append(o, c10Obs{Key: fmt.Sprintf("previous-hash-chain[%d]", d), Raw: strings.Join(chain, "\n")})
	}
	for _, d := range e.dids {
		o = append(o,
			c10Obs{Key: fmt.Sprintf("latest+deactivated[%d]", d), Ans: e.resolve(s, d, &resolver.ResolveMetadata{AllowDeactivated: true})},
			c10Obs{Key: fmt.Sprintf("latest[%d]", d), Ans: e.resolve(s, d, nil)},
			c10Obs{Key: fmt.Sprintf("latest-empty-metadata[%d]", d), Ans: e.resolve(s, d, &resolver.ResolveMetadata{})})
	}
	o = append(o, c10Obs{Key: "conflicted-iterator", Raw: e.conflictedIter(s)})
	var lines []string
	err = s.Iterate(func(doc did.Document, md resolver.DocumentMetadata) error {
		lines = append(lines, c10DocLine(doc, md))
		return nil
	})
	if err != nil {
		lines = append(lines, "ERR "+err.Error())
	}
	sort.Strings(lines)
	o = append(o, c10Obs{Key: "iterate", Raw: strings.Join(lines, "\n")})
	for _, d := range e.dids {
		var times []int64
		var hashes, refs []hash.SHA256Hash
		seenT, seenH := map[int64]bool{}, map[hash.SHA256Hash]bool{}
		for _, ev := range e.ev {
			if ev.didIdx != d {
				continue
			}
			if t := ev.tx.SigningTime.Unix(); !seenT[t] {
				seenT[t] = true
				times = append(times, t)
			}
			if !seenH[ev.tx.PayloadHash] {
				seenH[ev.tx.PayloadHash] = true
				hashes = append(hashes, ev.tx.PayloadHash)
			}
			refs = append(refs, ev.tx.Ref)
		}
		for _, hh := range e.extra[d] {
			if !seenH[hh] {
				seenH[hh] = true
				hashes = append(hashes, hh)
			}
		}
		sort.Slice(times, func(i, j int) bool { return times[i] < times[j] })
		times = append([]int64{times[0] - 1}, times...)
		times = append(times, e.far.Unix())
		for _, allow := range []bool{true, false} {
			for _, ts := range times {
				tt := time.Unix(ts, 0)
				o = append(o, c10Obs{Key: fmt.Sprintf("time[%d] t=%+d allowDeactivated=%v", d, ts-c10Epoch, allow), Ans: e.resolve(s, d, &resolver.ResolveMetadata{ResolveTime: &tt, AllowDeactivated: allow})})
			}
			for i := range hashes {
				o = append(o, c10Obs{Key: fmt.Sprintf("hash[%d] #%d allowDeactivated=%v", d, i, allow), Ans: e.resolve(s, d, &resolver.ResolveMetadata{Hash: &hashes[i], AllowDeactivated: allow})})
			}
			for i := range refs {
				o = append(o, c10Obs{Key: fmt.Sprintf("source-tx[%d] #%d allowDeactivated=%v", d, i, allow), Ans: e.resolve(s, d, &resolver.ResolveMetadata{SourceTransaction: &refs[i], AllowDeactivated: allow})})
			}
		}
	}
	return o
}

// c10DocDiff names the first document member that differs and whether only the order of its elements differs.
func c10DocDiff(a, b string) (string, string) {
	var ma, mb map[string]json.RawMessage
	if json.Unmarshal([]byte(a), &ma) != nil || json.Unmarshal([]byte(b), &mb) != nil {
		return "unparsable", ""
	}
	for _, f := range []string{"controller", "verificationMethod", "authentication", "assertionMethod", "keyAgreement", "capabilityInvocation", "capabilityDelegation", "service", "@context", "id", "alsoKnownAs"} {
		if bytes.Equal(ma[f], mb[f]) {
			continue
		}
		show := fmt.Sprintf("%s: %s\n      vs %s: %s", f, ma[f], f, mb[f])
		var la, lb []json.RawMessage
		if json.Unmarshal(ma[f], &la) == nil && json.Unmarshal(mb[f], &lb) == nil && len(la) == len(lb) {
			sa, sb := make([]string, len(la)), make([]string, len(lb))
			for i := range la {
				sa[i], sb[i] = string(la[i]), string(lb[i])
			}
			sort.Strings(sa)
			sort.Strings(sb)
			if strings.Join(sa, "\x00") == strings.Join(sb, "\x00") {
				return f + "-order", show
			}
		}
		return f + "-content", show
	}
	return "other-member", ""
}

func (a c10Ans) brief() string {
	if a.Err != "" {
		return "error " + a.Err
	}
	sum := sha256.Sum256([]byte(a.Doc))
	return fmt.Sprintf("document sha256 %s (%d bytes) hash=%s previousHash=%s created=%d updated=%s deactivated=%v sourceTransactions={%s}", hex.EncodeToString(sum[:6]), len(a.Doc), a.Hash, a.Prev, a.Created, a.Updated, a.Deact, a.Src)
}

// c10FirstDiff returns key, signature detail and a description of the first differing observation.
func c10FirstDiff(ref, got []c10Obs, skip map[string]bool) (string, string, string) {
	if len(ref) != len(got) {
		return "vector-length", "vector-length", fmt.Sprintf("%d vs %d observations", len(ref), len(got))
	}
	for i := range ref {
		a, b := ref[i], got[i]
		if a.Key != b.Key {
			return a.Key, "vector-keys", a.Key + " vs " + b.Key
		}
		if (a.Raw == b.Raw && a.Ans == b.Ans) || skip[a.Key] {
			continue
		}
		if a.Raw != b.Raw {
			return a.Key, strings.SplitN(a.Key, "[", 2)[0], fmt.Sprintf("reference run:\n%s\nthis run:\n%s", a.Raw, b.Raw)
		}
		x, y := a.Ans, b.Ans
		detail, show := "", ""
		switch {
		case (x.Err == "") != (y.Err == ""):
			detail = "error-vs-document"
		case x.Err != y.Err:
			detail = "error-class"
		case x.Doc != y.Doc:
			detail, show = c10DocDiff(x.Doc, y.Doc)
			detail = "document." + detail
		case x.Hash != y.Hash:
			detail = "metadata.hash"
		case x.Deact != y.Deact:
			detail = "metadata.deactivated"
		case x.Src != y.Src:
			detail = "metadata.source-transactions"
		case x.Prev != y.Prev:
			detail = "metadata.previous-hash"
		case x.Created != y.Created:
			detail = "metadata.created"
		default:
			detail = "metadata.updated"
		}
		return a.Key, detail, fmt.Sprintf("reference run: %s\nthis run:      %s\n%s", x.brief(), y.brief(), show)
	}
	return "", "", ""
}

// stepCounts: ConflictedCount and DocumentCount against the fold (cheap, after every Add of every run).
func (e *c10Env) stepCounts(s *store, arrived map[int]bool, causal bool, seq []int, pos int) {
	wantC, wantD := 0, 0
	for _, d := range e.dids {
		hs, any, _ := e.headsOfArrived(arrived, d)
		if any {
			wantD++
		}
		if len(hs) > 1 {
			wantC++
		}
	}
	cc, err := s.ConflictedCount()
	e.x.NoErr(err, "ConflictedCount")
	dc, err := s.DocumentCount()
	e.x.NoErr(err, "DocumentCount")
	if int(cc) != wantC {
		e.violate("c10:model:conflicted-count:"+e.tagOf(causal), "after arrival %d of order %v: ConflictedCount()=%d, but %d DID(s) have more than one unreferenced transaction", pos, seq, cc, wantC)
	}
	if int(dc) != wantD {
		e.violate("c10:model:document-count:"+e.tagOf(causal), "after arrival %d of order %v: DocumentCount()=%d, but transactions of %d DID(s) arrived", pos, seq, dc, wantD)
	}
}

func c10IDSet(ids []string) string {
	m := map[string]bool{}
	for _, i := range ids {
		m[i] = true
	}
	out := make([]string, 0, len(m))
	for i := range m {
		out = append(out, i)
	}
	sort.Strings(out)
	return strings.Join(out, " ")
}

func c10Members(doc did.Document) map[string]string {
	rel := func(r did.VerificationRelationships) string {
		var ids []string
		for _, v := range r {
			ids = append(ids, v.ID.String())
		}
		return c10IDSet(ids)
	}
	var ctrl, vms, svcs, ctxs []string
	for _, c := range doc.Controller {
		ctrl = append(ctrl, c.String())
	}
	for _, v := range doc.VerificationMethod {
		vms = append(vms, v.ID.String())
	}
	for _, s := range doc.Service {
		svcs = append(svcs, s.ID.String())
	}
	for _, c := range doc.Context {
		ctxs = append(ctxs, fmt.Sprint(c))
	}
	return map[string]string{
		"controller": c10IDSet(ctrl), "verificationMethod": c10IDSet(vms), "service": c10IDSet(svcs), "context": c10IDSet(ctxs),
		"authentication": rel(doc.Authentication), "assertionMethod": rel(doc.AssertionMethod), "keyAgreement": rel(doc.KeyAgreement),
		"capabilityInvocation": rel(doc.CapabilityInvocation), "capabilityDelegation": rel(doc.CapabilityDelegation),
	}
}

var c10MemberOrder = []string{"controller", "verificationMethod", "authentication", "assertionMethod", "keyAgreement", "capabilityInvocation", "capabilityDelegation", "service", "context"}

// stepModel: the statements of the property that do not need a second run.
func (e *c10Env) stepModel(s *store, arrived map[int]bool, causal bool, seq []int, pos int) {
	tag := e.tagOf(causal)
	where := fmt.Sprintf("after arrival %d of order %v", pos, seq)
	for _, d := range e.dids {
		heads, any, deact := e.headsOfArrived(arrived, d)
		if !any {
			continue
		}
		id := e.p.dids[d]
		doc, md, err := s.Resolve(id, &resolver.ResolveMetadata{AllowDeactivated: true})
		if err != nil {
			e.violate("c10:model:latest-unresolvable:"+tag, "%s: Resolve(%s, AllowDeactivated) fails: %v", where, id, err)
			continue
		}
		var want []hash.SHA256Hash
		for _, hd := range heads {
			want = append(want, e.ev[hd].tx.Ref)
		}
		if c10SortedRefs(want) != c10SortedRefs(md.SourceTransactions) {
			e.violate("c10:model:source-transactions:"+tag, "%s: SourceTransactions %s, unreferenced transactions of the DID are %s", where, c10SortedRefs(md.SourceTransactions), c10SortedRefs(want))
		}
		if md.Deactivated != deact {
			e.violate(fmt.Sprintf("c10:model:deactivated-flag-%v-want-%v:%s", md.Deactivated, deact, tag), "%s: metadata.Deactivated=%v but a deactivation arrived=%v", where, md.Deactivated, deact)
		}
		got, _ := json.Marshal(doc)
		if len(heads) == 1 {
			hd := e.ev[heads[0]]
			if !bytes.Equal(got, hd.payload) {
				e.violate("c10:model:single-head-document:"+tag, "%s: one unreferenced transaction (event %d) but the latest document is not its document:\n got %s\nwant %s", where, heads[0], got, hd.payload)
			} else if !md.Hash.Equals(hd.tx.PayloadHash) {
				e.violate("c10:model:single-head-hash:"+tag, "%s: latest hash %s is not the payload hash %s of the only unreferenced transaction", where, md.Hash, hd.tx.PayloadHash)
			}
		} else {
			union := map[string][]string{}
			for _, hd := range heads {
				for k, v := range c10Members(e.ev[hd].doc) {
					union[k] = append(union[k], strings.Fields(v)...)
				}
			}
			have := c10Members(*doc)
			for _, k := range c10MemberOrder {
				if w := c10IDSet(union[k]); w != have[k] {
					e.violate("c10:model:merge-union:"+k+":"+tag, "%s: merged document of heads %v has %s = {%s}, union of the heads is {%s}", where, heads, k, have[k], w)
					break
				}
			}
		}
		// a deactivated DID never resolves as active again; an active one resolves
		a := e.resolve(s, d, nil)
		if deact && a.Err == "" {
			e.violate("c10:deactivated-resolves-active:latest:"+tag, "%s: a deactivation of %s arrived, Resolve(nil) still returns a document", where, id)
		}
		if !deact && a.Err != "" {
			e.violate("c10:active-does-not-resolve:latest:"+tag, "%s: no deactivation of %s arrived, Resolve(nil) returns %s", where, id, a.Err)
		}
		if deact {
			far := e.far
			if a := e.resolve(s, d, &resolver.ResolveMetadata{ResolveTime: &far}); a.Err == "" {
				e.violate("c10:deactivated-resolves-active:at-later-time", "%s: a deactivation of %s arrived; Resolve(ResolveTime = one hour after the last signing time, AllowDeactivated=false) returns an active document (metadata.deactivated=%v, hash %s)", where, id, a.Deact, a.Hash)
			}
		}
	}
}

type c10ExecOpts struct {
	ref         bool
	steps       bool // model checks after every Add
	reopenAt    int  // close/re-open before this arrival (-1: never)
	finalReopen bool
	api         bool // take the API observation even if the cheap dump equals the reference
}

type c10Exec struct {
	dump []string
	api  []c10Obs
	ok   bool
}

func (e *c10Env) exec(seq []int, o c10ExecOpts, refDump []string) (res c10Exec) {
	path := filepath.Join(e.dir, fmt.Sprintf("r%d.db", e.nrun))
	e.nrun++
	s, kv := e.open(path)
	defer func() {
		_ = kv.Close(context.Background())
		_ = os.Remove(path)
	}()
	arrived := map[int]bool{}
	causal := true
	for pos, ei := range seq {
		if o.reopenAt == pos {
			e.x.NoErr(kv.Close(context.Background()), "close store")
			s, kv = e.open(path)
		}
		ev := &e.ev[ei]
		if !arrived[ei] {
			for _, p := range ev.allPrev {
				if !arrived[p] {
					causal = false
				}
			}
		}
		e.nadd++
		if err := s.Add(ev.doc, ev.tx); err != nil {
			e.violate("c10:add-fails:"+c10Tag(causal), "arrival %d (event %d) of order %v: Add returned %v", pos, ei, seq, err)
			return
		}
		arrived[ei] = true
		e.stepCounts(s, arrived, causal, seq, pos)
		if o.steps {
			e.stepModel(s, arrived, causal, seq, pos)
		}
	}
	res.dump = e.dump(s)
	if o.finalReopen {
		before := e.conflictedIter(s)
		e.x.NoErr(kv.Close(context.Background()), "close store")
		s, kv = e.open(path)
		if after := e.conflictedIter(s); after != before {
			e.violate("c10:reopen-changes-conflicted-iterator", "order %v: Conflicted() before close:\n%s\nafter re-open:\n%s", seq, before, after)
		}
		if d2 := e.dump(s); strings.Join(d2, "\n") != strings.Join(res.dump, "\n") {
			e.violate("c10:reopen-changes-state", "order %v: stored state differs after close/re-open:\n%s\n---\n%s", seq, strings.Join(res.dump, "\n"), strings.Join(d2, "\n"))
		}
	}
	if o.ref {
		for _, d := range e.dids {
			e.extra[d] = e.versionHashes(s, d)
		}
	}
	if o.ref || o.api || strings.Join(res.dump, "\n") != strings.Join(refDump, "\n") {
		res.api = e.observe(s)
	}
	res.ok = true
	return
}

func c10Run(x *h.Ctx, c c10Case) {
	e := c10Prepare(x, c)
	if e == nil {
		return
	}
	orders := e.orders()
	reps := c.K
	if reps < 1 {
		reps = 1
	}
	if len(orders) > 24 && reps > 1 {
		reps = 1
	}
	minRuns := c.MinRuns
	if minRuns > 256 {
		minRuns = 256
	}
	if reps*len(orders) < minRuns {
		reps = (minRuns + len(orders) - 1) / len(orders)
	}
	if x.IsReplay {
		reps *= 3 // a saved case must reproduce reliably although the coin is the runtime's
	}
	e.classify(orders)

	ref := e.exec(orders[0], c10ExecOpts{ref: true, steps: true, reopenAt: -1}, nil)
	if !ref.ok {
		return
	}
	type outcome struct {
		order, rep int
		detail     string
		key, msg   string
	}
	var diffs []outcome
	results := map[int]map[string]int{} // order -> distinct API observation vectors -> runs
	note := func(oi int, v string) {
		if results[oi] == nil {
			results[oi] = map[string]int{}
		}
		results[oi][v]++
	}
	note(0, "ref")
	internalOnly := false
	refDump := strings.Join(ref.dump, "\n")
	one := func(oi, r int, o c10ExecOpts) {
		got := e.exec(orders[oi], o, ref.dump)
		if !got.ok {
			return
		}
		if got.api == nil {
			note(oi, "ref")
			return
		}
		// a counter that is already reported against the model is not reported a second time as a difference
		skip := map[string]bool{}
		for sig := range e.reported {
			if strings.HasPrefix(sig, "c10:model:conflicted-count") {
				skip["count.conflicted"] = true
			}
			if strings.HasPrefix(sig, "c10:model:document-count") {
				skip["count.documents"] = true
			}
		}
		key, detail, msg := c10FirstDiff(ref.api, got.api, skip)
		if detail == "" {
			note(oi, "ref")
			if strings.Join(got.dump, "\n") != refDump {
				internalOnly = true
			}
			return
		}
		sum := sha256.Sum256([]byte(fmt.Sprintf("%+v", got.api)))
		note(oi, hex.EncodeToString(sum[:8]))
		diffs = append(diffs, outcome{oi, r, detail, key, msg})
	}
	stepEvery := 1
	if len(orders) > 24 {
		stepEvery = len(orders) / 24
	}
	run := 0
runs:
	for oi, seq := range orders {
		for r := 0; r < reps; r++ {
			if oi == 0 && r == 0 {
				continue
			}
			if len(diffs) >= 12 || len(e.reported) >= 6 {
				break runs // enough evidence; keeps failing cases (shrinking, replay) cheap
			}
			run++
			o := c10ExecOpts{reopenAt: -1}
			o.steps = r == 0 && oi%stepEvery == 0
			if r%2 == 1 || (reps == 1 && oi%2 == 1) {
				o.finalReopen = true
			}
			if (r%3 == 2 || (reps == 1 && oi%3 == 2)) && len(seq) > 1 {
				o.reopenAt = 1 + (oi+r)%(len(seq)-1)
			}
			o.api = run%16 == 0
			one(oi, r, o)
		}
	}
	// Telling "this order gives another result" from "the same order gives varying results" needs repetitions of the
	// orders involved: the reference order and the first orders that differ are repeated until each ran 6 times.
	if len(diffs) > 0 {
		again := []int{0}
		for _, d := range diffs {
			if len(again) < 4 && d.order != 0 && (len(again) == 1 || again[len(again)-1] != d.order) {
				again = append(again, d.order)
			}
		}
		for _, oi := range again {
			n := 0
			for _, k := range results[oi] {
				n += k
			}
			for r := n; r < 6; r++ {
				one(oi, 1000+r, c10ExecOpts{reopenAt: -1, api: true})
			}
		}
	}
	h.Count("C10", x.Unit, "stores", e.nrun)
	h.Count("C10", x.Unit, "adds", e.nadd)
	if internalOnly {
		x.Class("stored-state-differs-but-api-agrees")
	}
	nondeterministic := false
	for _, m := range results {
		if len(m) > 1 {
			nondeterministic = true
		}
	}
	differs := map[int]bool{}
	for _, d := range diffs {
		differs[d.order] = true
	}
	for _, d := range diffs {
		var kind string
		switch {
		case nondeterministic:
			kind = "same-order-repeated" // some identical arrival sequence gave different outcomes in this case
		case e.isCausal(orders[d.order]):
			kind = "dag-order"
		default:
			kind = "any-order"
		}
		e.violate("c10:observation-differs:"+d.detail+":"+kind,
			"%s differs between the reference order %v and order %v (repetition %d; %d of %d orders differ; %s)\n%s",
			d.key, orders[0], orders[d.order], d.rep, len(differs), len(orders), kind, d.msg)
	}
	if (e.hasFork || e.hasDup) && len(orders) >= 2 {
		x.NonTrivial()
	}
}

// classify records what the case exercises (evidence only).
func (e *c10Env) classify(orders [][]int) {
	x := e.x
	x.Classf("events=%d", len(e.ev))
	x.Classf("dids=%d", len(e.dids))
	if len(e.arr) <= 5 {
		x.Class("orders=all-permutations")
	} else {
		x.Class("orders=sampled")
	}
	nc := 0
	for _, o := range orders {
		if e.isCausal(o) {
			nc++
		}
	}
	switch {
	case nc == len(orders):
		x.Class("orders:only-dag-orders-exist")
	case nc >= 2:
		x.Class("orders:>=2-dag-orders-and-others")
	default:
		x.Class("orders:1-dag-order-and-others")
	}
	if e.hasOwn {
		x.Class("document-as-built-in-memory")
	}
	if len(e.c.Dups) > 0 {
		x.Class("duplicate-arrival")
		e.hasDup = true
	}
	// fold in canonical order
	canon := orders[0]
	arrived := map[int]bool{}
	everConflict, maxHeads := false, 0
	deactSeen := map[int]bool{}
	for _, ei := range canon {
		if arrived[ei] {
			continue
		}
		if deactSeen[e.ev[ei].didIdx] {
			x.Class("update-after-deactivation")
		}
		arrived[ei] = true
		hs, _, _ := e.headsOfArrived(arrived, e.ev[ei].didIdx)
		if len(hs) > maxHeads {
			maxHeads = len(hs)
		}
		if len(hs) > 1 {
			everConflict = true
			if e.ev[ei].deact {
				x.Class("deactivation-in-a-branch")
			}
		}
		if e.ev[ei].deact {
			deactSeen[e.ev[ei].didIdx] = true
			x.Class("deactivation")
			if len(hs) == 1 && len(e.ev[ei].samePrev) > 1 {
				x.Class("deactivation-resolving-a-conflict")
			}
		}
		if len(hs) == 1 && len(e.ev[ei].samePrev) > 1 {
			x.Class("conflict-resolved-by-update")
		}
	}
	if everConflict {
		e.hasFork = true
		x.Class("fork")
		if maxHeads >= 3 {
			x.Class("fork:>=3-way")
		} else {
			x.Class("fork:2-way")
		}
	}
	finalConflict := false
	for _, d := range e.dids {
		hs, _, _ := e.headsOfArrived(arrived, d)
		if len(hs) > 1 {
			finalConflict = true
			ctrl := map[string]bool{}
			svc := map[string]string{}
			sameIDDiff, sameIDSame := false, false
			for _, hd := range hs {
				for _, c := range e.ev[hd].doc.Controller {
					ctrl[c.String()] = true
				}
				for _, sv := range e.ev[hd].doc.Service {
					b, _ := json.Marshal(sv)
					if old, ok := svc[sv.ID.String()]; ok {
						if old != string(b) {
							sameIDDiff = true
						} else {
							sameIDSame = true
						}
					}
					svc[sv.ID.String()] = string(b)
				}
			}
			switch {
			case len(ctrl) >= 3:
				x.Class("final-conflict:controllers>=3")
			case len(ctrl) == 2:
				x.Class("final-conflict:controllers=2")
			default:
				x.Class("final-conflict:controllers<=1")
			}
			if sameIDDiff {
				x.Class("final-conflict:service-same-id-different-content")
			}
			if sameIDSame {
				x.Class("final-conflict:service-same-id-same-content")
			}
			x.Classf("final-conflict:heads=%d", len(hs))
		}
	}
	if finalConflict {
		x.Class("final-conflict")
	} else if everConflict {
		x.Class("conflict-gone-at-the-end")
	}
	// ties in the store's order
	payloads := map[hash.SHA256Hash]int{}
	for i := range e.ev {
		payloads[e.ev[i].tx.PayloadHash]++
		for j := i + 1; j < len(e.ev); j++ {
			if e.ev[i].didIdx == e.ev[j].didIdx && e.ev[i].tx.Clock == e.ev[j].tx.Clock {
				if e.ev[i].tx.SigningTime.Equal(e.ev[j].tx.SigningTime) {
					x.Class("equal-clock-equal-signing-time")
				} else {
					x.Class("equal-clock-different-signing-time")
				}
			}
		}
		if i > 0 && e.ev[i].tx.SigningTime.Before(e.ev[i-1].tx.SigningTime) && e.ev[i].tx.Clock > e.ev[i-1].tx.Clock {
			x.Class("signing-time-against-clock")
		}
	}
	for _, n := range payloads {
		if n > 1 {
			x.Class("same-document-in-two-transactions")
			e.hasDup = true
		}
	}
}

func TestVerif_C10_Order(t *testing.T) {
	h.Check(t, "C10", c10Gen, c10Run, h.PanicIsViolation())
}

func TestVerifReplay_C10_Order(t *testing.T) {
	h.Replay(t, "C10", "TestVerif_C10_Order", c10Run, h.PanicIsViolation())
}
