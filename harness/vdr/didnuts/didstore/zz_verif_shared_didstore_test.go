//go:build verif

package didstore

// Shared by the did:nuts store units of C10 (arrival-order / fault invariance) and C18 (deactivation): the abstract
// history (events over one or two DIDs that reference earlier events, as the DAG would deliver them), its generator, the
// rendering into realistic did:nuts documents and didstore.Transaction values, the arrival orders, a fresh bbolt-backed
// store per run and the order-free fold "heads / deactivation arrived". The identifiers keep their c10 prefix.

import (
	"bytes"
	"context"
	"crypto"
	"crypto/ecdsa"
	"crypto/elliptic"
	"crypto/sha256"
	"encoding/json"
	"errors"
	"fmt"
	"io"
	"math/big"
	"sort"
	"strings"
	"sync"
	"time"

	"github.com/lestrrat-go/jwx/v2/jwk"
	"github.com/mr-tron/base58"
	ssi "github.com/nuts-foundation/go-did"
	"github.com/nuts-foundation/go-did/did"
	"github.com/nuts-foundation/go-stoabs"
	"github.com/nuts-foundation/go-stoabs/bbolt"
	"github.com/nuts-foundation/nuts-node/core"
	"github.com/nuts-foundation/nuts-node/crypto/hash"
	"github.com/nuts-foundation/nuts-node/storage"
	"github.com/nuts-foundation/nuts-node/vdr/resolver"
	"github.com/sirupsen/logrus"
	"pgregory.net/rapid"
	"verif.local/h"
)

const (
	c10NDID  = 4 // DID pool (subjects are 0 and 1, all four may appear as controllers)
	c10NKey  = 6 // key pool
	c10NSvc  = 4 // service id pool
	c10NType = 4 // service type pool
	c10NEP   = 3 // endpoint variants per type
)

const (
	c10RelAuth = 1 << iota
	c10RelAssert
	c10RelCapInv
	c10RelCapDel
	c10RelKeyAgr
)

type c10Key struct {
	K   int `json:"k"`   // index into the key pool
	Rel int `json:"rel"` // bitmask of verification relationships
}

type c10Svc struct {
	ID   int `json:"id"`
	Type int `json:"type"`
	EP   int `json:"ep"`
}

// c10Doc is an abstract did:nuts document; c10Render turns it into a did.Document.
type c10Doc struct {
	Ctrl  []int    `json:"ctrl,omitempty"`
	Keys  []c10Key `json:"keys,omitempty"`
	Svcs  []c10Svc `json:"svcs,omitempty"`
	Ctx   int      `json:"ctx,omitempty"`   // 0: did/v1 + jws2020, 1: did/v1 only
	Deact bool     `json:"deact,omitempty"` // deactivation: no controllers, no keys, no services
}

type c10Event struct {
	DID     int    `json:"did"`
	Doc     c10Doc `json:"doc"`
	Prev    []int  `json:"prev,omitempty"`    // indices of earlier events this transaction references (any DID)
	Foreign int    `json:"foreign,omitempty"` // additional prevs that are not DID document transactions
	Gap     int    `json:"gap,omitempty"`     // clock = max(clock of prevs)+1+gap
	Jit     int    `json:"jit,omitempty"`     // signing time = epoch + clock + jit seconds
	Salt    int    `json:"salt,omitempty"`    // varies the transaction ref (tie break of the store's order)
	// Own: the store receives the document as this node built it in memory (didnuts.Manager calls Add with the document
	// it just published) instead of the document unmarshalled from the network payload (ambassador).
	Own bool `json:"own,omitempty"`
}

type c10Case struct {
	Events    []c10Event `json:"events"`
	Dups      []int      `json:"dups,omitempty"`       // events that arrive twice
	PermSeeds []uint64   `json:"perm_seeds,omitempty"` // arrival orders when there are more than 5 arrivals (else: all)
	K         int        `json:"k"`                    // repetitions of every arrival order
	MinRuns   int        `json:"min_runs"`             // lower bound on stores per case (repetitions are raised to reach it)
}

func c10Clone(d c10Doc) c10Doc {
	return c10Doc{Ctrl: append([]int(nil), d.Ctrl...), Keys: append([]c10Key(nil), d.Keys...), Svcs: append([]c10Svc(nil), d.Svcs...), Ctx: d.Ctx, Deact: d.Deact}
}

func c10GenRel(t *rapid.T) int {
	return rapid.SampledFrom([]int{
		c10RelAuth | c10RelAssert | c10RelCapInv, c10RelAssert | c10RelKeyAgr, c10RelAuth, c10RelCapInv, c10RelCapInv | c10RelCapDel,
		c10RelAssert, c10RelKeyAgr, 0, 31,
	}).Draw(t, "rel")
}

func c10GenFresh(t *rapid.T, d int) c10Doc {
	doc := c10Doc{Ctx: rapid.SampledFrom([]int{0, 0, 0, 1}).Draw(t, "ctx")}
	other := (d + 1 + rapid.IntRange(0, c10NDID-2).Draw(t, "other")) % c10NDID
	switch rapid.IntRange(0, 4).Draw(t, "ctrlmode") {
	case 0: // no controller member: self-controlled through capabilityInvocation
	case 1:
		doc.Ctrl = []int{d}
	case 2:
		doc.Ctrl = []int{d, other}
	case 3:
		doc.Ctrl = []int{other}
	case 4:
		doc.Ctrl = []int{other, d, (other + 1) % c10NDID}
	}
	doc.Keys = []c10Key{{K: rapid.IntRange(0, c10NKey-1).Draw(t, "k0"), Rel: c10RelAuth | c10RelAssert | c10RelCapInv}}
	ns := rapid.IntRange(0, 2).Draw(t, "nsvc")
	for i := 0; i < ns; i++ {
		doc = c10SetSvc(doc, c10Svc{ID: rapid.IntRange(0, c10NSvc-1).Draw(t, "sid"), Type: rapid.IntRange(0, c10NType-1).Draw(t, "stype"), EP: rapid.IntRange(0, c10NEP-1).Draw(t, "sep")})
	}
	return doc
}

func c10SetSvc(doc c10Doc, s c10Svc) c10Doc {
	for i := range doc.Svcs {
		if doc.Svcs[i].ID == s.ID {
			doc.Svcs[i] = s
			return doc
		}
	}
	doc.Svcs = append(doc.Svcs, s)
	return doc
}

func c10Mutate(t *rapid.T, d int, doc c10Doc) c10Doc {
	doc = c10Clone(doc)
	op := rapid.SampledFrom([]string{"ctrl+", "ctrl+", "ctrl+", "ctrl-", "key+", "key+", "key-", "rel", "svc+", "svc+", "svc-", "svc~", "svc~", "ctx"}).Draw(t, "mut")
	switch op {
	case "ctrl+":
		c := rapid.IntRange(0, c10NDID-1).Draw(t, "ctrl")
		for _, e := range doc.Ctrl {
			if e == c {
				return doc
			}
		}
		if rapid.Bool().Draw(t, "front") {
			doc.Ctrl = append([]int{c}, doc.Ctrl...)
		} else {
			doc.Ctrl = append(doc.Ctrl, c)
		}
	case "ctrl-":
		if len(doc.Ctrl) > 0 {
			i := rapid.IntRange(0, len(doc.Ctrl)-1).Draw(t, "i")
			doc.Ctrl = append(doc.Ctrl[:i:i], doc.Ctrl[i+1:]...)
		}
	case "key+":
		k := rapid.IntRange(0, c10NKey-1).Draw(t, "k")
		rel := c10GenRel(t)
		for i := range doc.Keys {
			if doc.Keys[i].K == k {
				doc.Keys[i].Rel = rel
				return doc
			}
		}
		doc.Keys = append(doc.Keys, c10Key{K: k, Rel: rel})
	case "key-":
		if len(doc.Keys) > 1 {
			i := rapid.IntRange(0, len(doc.Keys)-1).Draw(t, "i")
			doc.Keys = append(doc.Keys[:i:i], doc.Keys[i+1:]...)
		}
	case "rel":
		if len(doc.Keys) > 0 {
			i := rapid.IntRange(0, len(doc.Keys)-1).Draw(t, "i")
			doc.Keys[i].Rel = c10GenRel(t)
		}
	case "svc+":
		doc = c10SetSvc(doc, c10Svc{ID: rapid.IntRange(0, c10NSvc-1).Draw(t, "sid"), Type: rapid.IntRange(0, c10NType-1).Draw(t, "stype"), EP: rapid.IntRange(0, c10NEP-1).Draw(t, "sep")})
	case "svc-":
		if len(doc.Svcs) > 0 {
			i := rapid.IntRange(0, len(doc.Svcs)-1).Draw(t, "i")
			doc.Svcs = append(doc.Svcs[:i:i], doc.Svcs[i+1:]...)
		}
	case "svc~":
		if len(doc.Svcs) > 0 {
			i := rapid.IntRange(0, len(doc.Svcs)-1).Draw(t, "i")
			if rapid.IntRange(0, 3).Draw(t, "what") == 0 {
				doc.Svcs[i].Type = rapid.IntRange(0, c10NType-1).Draw(t, "stype")
			} else {
				doc.Svcs[i].EP = (doc.Svcs[i].EP + 1 + rapid.IntRange(0, c10NEP-2).Draw(t, "sep")) % c10NEP
			}
		} else {
			doc = c10SetSvc(doc, c10Svc{ID: rapid.IntRange(0, c10NSvc-1).Draw(t, "sid"), Type: rapid.IntRange(0, c10NType-1).Draw(t, "stype"), EP: rapid.IntRange(0, c10NEP-1).Draw(t, "sep")})
		}
	case "ctx":
		doc.Ctx = 1 - doc.Ctx
	}
	return doc
}

// c10SameDIDPrev returns the referenced events that belong to the same DID.
func c10SameDIDPrev(evs []c10Event, i int) []int {
	var out []int
	for _, p := range evs[i].Prev {
		if p >= 0 && p < i && evs[p].DID == evs[i].DID {
			out = append(out, p)
		}
	}
	return out
}

// c10HeadsOf returns, of the given events (indices, one DID), those that no other given event references.
func c10HeadsOf(evs []c10Event, set []int) []int {
	in := map[int]bool{}
	for _, i := range set {
		in[i] = true
	}
	ref := map[int]bool{}
	for _, i := range set {
		for _, p := range c10SameDIDPrev(evs, i) {
			if in[p] {
				ref[p] = true
			}
		}
	}
	var out []int
	for _, i := range set {
		if !ref[i] {
			out = append(out, i)
		}
	}
	return out
}

// c10GenEvents draws a history: the events of one or two DIDs, every event referencing earlier ones.
func c10GenEvents(t *rapid.T) []c10Event {
	var c struct{ Events []c10Event }
	n := rapid.SampledFrom([]int{1, 2, 3, 3, 4, 4, 4, 5, 5, 5, 6, 6, 7, 8}).Draw(t, "n")
	nd := rapid.SampledFrom([]int{1, 1, 1, 2}).Draw(t, "ndids")
	for i := 0; i < n; i++ {
		d := 0
		if nd == 2 {
			d = rapid.IntRange(0, 1).Draw(t, "did")
		}
		ev := c10Event{DID: d}
		var mine, others []int
		for j := 0; j < i; j++ {
			if c.Events[j].DID == d {
				mine = append(mine, j)
			} else {
				others = append(others, j)
			}
		}
		var base *c10Doc
		if len(mine) > 0 {
			heads := c10HeadsOf(c.Events, mine)
			mode := rapid.SampledFrom([]string{"heads", "heads", "heads", "heads", "fork", "fork", "fork", "subset", "one-head", "none"}).Draw(t, "mode")
			switch mode {
			case "heads": // linear update, or the update that resolves a conflict
				ev.Prev = append([]int(nil), heads...)
				b := c.Events[heads[rapid.IntRange(0, len(heads)-1).Draw(t, "base")]].Doc
				base = &b
			case "fork": // sibling of an existing event: same same-DID prevs
				j := mine[rapid.IntRange(0, len(mine)-1).Draw(t, "sibling")]
				ev.Prev = c10SameDIDPrev(c.Events, j)
				b := c.Events[j].Doc
				if len(ev.Prev) > 0 {
					b = c.Events[ev.Prev[0]].Doc
				}
				base = &b
			case "subset":
				for _, j := range mine {
					if rapid.Bool().Draw(t, "in") {
						ev.Prev = append(ev.Prev, j)
					}
				}
				b := c.Events[mine[rapid.IntRange(0, len(mine)-1).Draw(t, "base")]].Doc
				base = &b
			case "one-head":
				j := heads[rapid.IntRange(0, len(heads)-1).Draw(t, "head")]
				ev.Prev = []int{j}
				b := c.Events[j].Doc
				base = &b
			case "none":
				b := c.Events[mine[rapid.IntRange(0, len(mine)-1).Draw(t, "base")]].Doc
				base = &b
			}
		}
		switch {
		case base == nil || base.Deact:
			ev.Doc = c10GenFresh(t, d)
			if base != nil && rapid.IntRange(0, 3).Draw(t, "deact-again") == 0 {
				ev.Doc = c10Doc{Ctx: base.Ctx, Deact: true}
			}
		case rapid.IntRange(0, 6).Draw(t, "deact") == 0:
			ev.Doc = c10Doc{Ctx: base.Ctx, Deact: true}
		default:
			ev.Doc = c10Clone(*base)
			nm := rapid.SampledFrom([]int{0, 1, 1, 1, 2, 2, 3}).Draw(t, "nmut")
			for k := 0; k < nm; k++ {
				ev.Doc = c10Mutate(t, d, ev.Doc)
			}
		}
		if len(others) > 0 && rapid.IntRange(0, 3).Draw(t, "xprev") == 0 {
			ev.Prev = append(ev.Prev, others[len(others)-1]) // e.g. the controller's transaction, or simply a DAG head
		}
		sort.Ints(ev.Prev)
		ev.Foreign = rapid.SampledFrom([]int{0, 0, 1, 2}).Draw(t, "foreign")
		ev.Gap = rapid.SampledFrom([]int{0, 0, 0, 0, 1, 2}).Draw(t, "gap")
		ev.Jit = rapid.SampledFrom([]int{-1, 0, 0, 0, 1}).Draw(t, "jit")
		ev.Salt = rapid.IntRange(0, 3).Draw(t, "salt")
		ev.Own = rapid.IntRange(0, 4).Draw(t, "own") == 0
		c.Events = append(c.Events, ev)
	}
	return c.Events
}

type c10Pools struct {
	dids  []did.DID
	pubs  []*ecdsa.PublicKey
	kids  []string
	svcFr []string
	types []string
}

var (
	c10PoolOnce sync.Once
	c10PoolVal  *c10Pools
	c10PoolErr  error
)

func c10GetPools() (*c10Pools, error) {
	c10PoolOnce.Do(func() {
		p := &c10Pools{
			svcFr: []string{"F1Dsgwngfdg3SH6TpDv0Ta1aOEzJl1dxvsGdc9VyQKsx", "3aVi4FJbytMeJzQg4S1UWXF5VvTYYfBSVN1zG7kCkbY5", "9qeqMHN3fEbFUjMqAXrwUJR9NtHqj4KFXqgGnTG8cZK7", "BXbVGPkrRrpN2ErS6ynQ1uAHfYxjfTSbnRfvTeVqCVWP"},
			types: []string{"NutsComm", "node-contact-info", "eOverdracht-sender", "oauth"},
		}
		curve := elliptic.P256()
		for i := 0; i < c10NKey+c10NDID; i++ {
			sum := sha256.Sum256([]byte(fmt.Sprintf("verif-c10-key-%d", i)))
			k := new(big.Int).SetBytes(sum[:])
			k.Mod(k, new(big.Int).Sub(curve.Params().N, big.NewInt(1)))
			k.Add(k, big.NewInt(1))
			px, py := curve.ScalarBaseMult(k.Bytes())
			pub := &ecdsa.PublicKey{Curve: curve, X: px, Y: py}
			jk, err := jwk.FromRaw(pub)
			if err != nil {
				c10PoolErr = err
				return
			}
			if i < c10NKey {
				if err := jwk.AssignKeyID(jk); err != nil {
					c10PoolErr = err
					return
				}
				p.pubs = append(p.pubs, pub)
				p.kids = append(p.kids, jk.KeyID())
			} else {
				// did:nuts:<base58(sha256 thumbprint of the key the document was created with)>
				tp, err := jk.Thumbprint(crypto.SHA256)
				if err != nil {
					c10PoolErr = err
					return
				}
				id, err := did.ParseDID("did:nuts:" + base58.EncodeAlphabet(tp, base58.BTCAlphabet))
				if err != nil {
					c10PoolErr = err
					return
				}
				p.dids = append(p.dids, *id)
			}
		}
		c10PoolVal = p
	})
	return c10PoolVal, c10PoolErr
}

func c10Mod(i, n int) int {
	i %= n
	if i < 0 {
		i += n
	}
	return i
}

func c10Endpoint(p *c10Pools, d, typ, ep int) interface{} {
	self := p.dids[d].String()
	switch typ {
	case 0:
		return []string{"grpc://nuts.example.com:5555", "grpc://nuts-b.example.org:5555", "grpc://10.1.2.3:5555"}[ep]
	case 1:
		return []interface{}{
			map[string]interface{}{"email": "info@example.com", "name": "Example Care"},
			map[string]interface{}{"email": "support@example.org", "name": "Example Care", "telephone": "+31101234567"},
			map[string]interface{}{"email": "info@example.com"},
		}[ep]
	case 2:
		return []interface{}{
			map[string]interface{}{"auth": self + "/serviceEndpoint?type=oauth", "fhir": "https://fhir.example.com/v1"},
			map[string]interface{}{"auth": self + "/serviceEndpoint?type=oauth", "fhir": "https://fhir.example.org/r4", "notification": "https://example.org/notify"},
			self + "/serviceEndpoint?type=oauth",
		}[ep]
	default:
		return []string{"https://example.com/oauth", "https://example.org/n2n/auth/v1/accesstoken", "https://example.com:8443/oauth"}[ep]
	}
}

const c10JWS2020 = "https://w3c-ccg.github.io/lds-jws2020/contexts/lds-jws2020-v1.json"

// c10Render builds the document the way vdr/didnuts builds did:nuts documents (key ids = DID + JWK thumbprint,
// relationships by reference, unique service ids below the DID, unique service types).
func c10Render(p *c10Pools, d int, a c10Doc) (did.Document, error) {
	doc := did.Document{ID: p.dids[d], Context: []interface{}{did.DIDContextV1URI(), ssi.MustParseURI(c10JWS2020)}}
	if a.Ctx == 1 {
		doc.Context = []interface{}{did.DIDContextV1URI()}
	}
	if a.Deact {
		return doc, nil
	}
	seenC := map[int]bool{}
	for _, c := range a.Ctrl {
		c = c10Mod(c, c10NDID)
		if seenC[c] {
			continue
		}
		seenC[c] = true
		doc.Controller = append(doc.Controller, p.dids[c])
	}
	seenK := map[int]bool{}
	for _, k := range a.Keys {
		ki := c10Mod(k.K, c10NKey)
		if seenK[ki] {
			continue
		}
		seenK[ki] = true
		vm, err := did.NewVerificationMethod(did.MustParseDIDURL(p.dids[d].String()+"#"+p.kids[ki]), ssi.JsonWebKey2020, p.dids[d], p.pubs[ki])
		if err != nil {
			return doc, err
		}
		doc.VerificationMethod.Add(vm)
		if k.Rel&c10RelAuth != 0 {
			doc.AddAuthenticationMethod(vm)
		}
		if k.Rel&c10RelAssert != 0 {
			doc.AddAssertionMethod(vm)
		}
		if k.Rel&c10RelCapInv != 0 {
			doc.AddCapabilityInvocation(vm)
		}
		if k.Rel&c10RelCapDel != 0 {
			doc.AddCapabilityDelegation(vm)
		}
		if k.Rel&c10RelKeyAgr != 0 {
			doc.AddKeyAgreement(vm)
		}
	}
	seenS, seenT := map[int]bool{}, map[int]bool{}
	for _, s := range a.Svcs {
		si, ti, ei := c10Mod(s.ID, c10NSvc), c10Mod(s.Type, c10NType), c10Mod(s.EP, c10NEP)
		if seenS[si] || seenT[ti] { // RFC006: ids unique, at most one service per type
			continue
		}
		seenS[si], seenT[ti] = true, true
		doc.Service = append(doc.Service, did.Service{ID: ssi.MustParseURI(p.dids[d].String() + "#" + p.svcFr[si]), Type: p.types[ti], ServiceEndpoint: c10Endpoint(p, d, ti, ei)})
	}
	return doc, nil
}

// c10Acceptable re-states what didnuts.NetworkDocumentValidator demands (that package imports this one).
func c10Acceptable(doc did.Document) error {
	if err := (did.W3CSpecValidator{}).Validate(doc); err != nil {
		return err
	}
	ids := map[string]bool{}
	for _, vm := range doc.VerificationMethod {
		if ids[vm.ID.String()] || vm.ID.Fragment == "" || vm.ID.DID.String() != doc.ID.String() {
			return fmt.Errorf("verification method id %s", vm.ID.String())
		}
		ids[vm.ID.String()] = true
		k, err := vm.JWK()
		if err != nil {
			return err
		}
		_ = jwk.AssignKeyID(k)
		if k.KeyID() != vm.ID.Fragment {
			return errors.New("key thumbprint does not match ID")
		}
	}
	types := map[string]bool{}
	for _, s := range doc.Service {
		u := s.ID
		if ids[u.String()] || u.Fragment == "" || types[s.Type] {
			return fmt.Errorf("service %s", u.String())
		}
		ids[u.String()] = true
		types[s.Type] = true
		u.Fragment = ""
		if u.String() != doc.ID.String() {
			return fmt.Errorf("service id %s not below the DID", s.ID.String())
		}
	}
	return nil
}

type c10RealEv struct {
	didIdx   int
	id       did.DID
	doc      did.Document
	payload  []byte
	tx       Transaction
	deact    bool
	samePrev []int // referenced events of the same DID
	allPrev  []int // all referenced events
}

type c10Env struct {
	x        *h.Ctx
	c        c10Case
	p        *c10Pools
	ev       []c10RealEv
	arr      []int // arrival position -> event index
	dids     []int // DID pool indices in use
	dir      string
	nrun     int
	nadd     int
	extra    map[int][]hash.SHA256Hash // version hashes seen in the reference run (merged documents), per DID
	far      time.Time
	reported map[string]bool
	hasFork  bool
	hasDup   bool
	hasOwn   bool
	// used by the fault unit (zz_verif_C10_fault_test.go)
	wrap  func(stoabs.KVStore) stoabs.KVStore // wraps the bbolt store before the didstore gets it
	tag   string                              // replaces the dag-order / any-order tag of the model signatures
	quiet bool                                // no storage log lines (every injected rollback is logged otherwise)
}

var c10Epoch = time.Date(2023, 3, 1, 12, 0, 0, 0, time.UTC).Unix()

func (e *c10Env) violate(sig, format string, args ...any) {
	if e.reported[sig] {
		return
	}
	e.reported[sig] = true
	e.x.Violate(sig, format, args...)
}

func c10Prepare(x *h.Ctx, c c10Case) *c10Env {
	if len(c.Events) == 0 || len(c.Events) > 10 || len(c.Dups) > 3 {
		return nil
	}
	p, err := c10GetPools()
	x.NoErr(err, "key/DID pool")
	e := &c10Env{x: x, c: c, p: p, extra: map[int][]hash.SHA256Hash{}, reported: map[string]bool{}}
	clocks := make([]uint32, len(c.Events))
	usedRef := map[hash.SHA256Hash]bool{}
	usedDID := map[int]bool{}
	maxT := int64(0)
	for i, a := range c.Events {
		d := c10Mod(a.DID, 2)
		doc, err := c10Render(p, d, a.Doc)
		x.NoErr(err, "render document")
		if err := c10Acceptable(doc); err != nil {
			x.Fatalf("generated document %d would not be accepted by the network validator: %v", i, err)
		}
		payload, err := json.Marshal(doc)
		x.NoErr(err, "marshal document")
		// what the ambassador hands to the store is the unmarshalled network payload
		var parsed did.Document
		x.NoErr(json.Unmarshal(payload, &parsed), "unmarshal document")
		again, err := json.Marshal(parsed)
		x.NoErr(err, "re-marshal document")
		if !bytes.Equal(again, payload) {
			x.Fatalf("document %d does not survive a JSON round trip:\n%s\n%s", i, payload, again)
		}
		r := c10RealEv{didIdx: d, id: p.dids[d], doc: parsed, payload: payload, deact: resolver.IsDeactivated(parsed)}
		if a.Own {
			r.doc = doc
			e.hasOwn = true
		}
		clock := uint32(0)
		hasPrev := false
		seenP := map[int]bool{}
		var prevRefs []hash.SHA256Hash
		for j := 0; j < c10Mod(a.Foreign, 4); j++ {
			prevRefs = append(prevRefs, hash.SHA256Sum([]byte(fmt.Sprintf("c10-foreign|%d|%d", i, j))))
		}
		for _, pi := range a.Prev {
			if pi < 0 || pi >= i || seenP[pi] {
				continue
			}
			seenP[pi] = true
			hasPrev = true
			r.allPrev = append(r.allPrev, pi)
			if e.ev[pi].didIdx == d {
				r.samePrev = append(r.samePrev, pi)
			}
			prevRefs = append(prevRefs, e.ev[pi].tx.Ref)
			if clocks[pi] >= clock {
				clock = clocks[pi]
			}
		}
		gap := uint32(c10Mod(a.Gap, 4))
		if hasPrev {
			clock = clock + 1 + gap
		} else {
			clock = gap
		}
		clocks[i] = clock
		sec := c10Epoch + int64(clock) + int64(c10Mod(a.Jit+1, 3)-1)
		if sec > maxT {
			maxT = sec
		}
		ph := hash.SHA256Sum(payload)
		ref := hash.SHA256Sum([]byte(fmt.Sprintf("c10-tx|%d|%d|%s", i, c10Mod(a.Salt, 16), ph.String())))
		if usedRef[ref] {
			x.Fatalf("duplicate ref")
		}
		usedRef[ref] = true
		r.tx = Transaction{Clock: clock, PayloadHash: ph, Previous: prevRefs, Ref: ref, SigningTime: time.Unix(sec, 0)}
		e.ev = append(e.ev, r)
		usedDID[d] = true
	}
	for d := 0; d < 2; d++ {
		if usedDID[d] {
			e.dids = append(e.dids, d)
		}
	}
	e.far = time.Unix(maxT+3600, 0)
	for i := range e.ev {
		e.arr = append(e.arr, i)
	}
	for _, d := range c.Dups {
		e.arr = append(e.arr, c10Mod(d, len(e.ev)))
	}
	e.dir = x.TempDir()
	return e
}

type c10Rng uint64

func (r *c10Rng) next() uint64 {
	*r += 0x9e3779b97f4a7c15
	z := uint64(*r)
	z = (z ^ (z >> 30)) * 0xbf58476d1ce4e5b9
	z = (z ^ (z >> 27)) * 0x94d049bb133111eb
	return z ^ (z >> 31)
}

func (r *c10Rng) intn(n int) int { return int(r.next() % uint64(n)) }

// canonical: arrival positions sorted by the store's own total order of their events (clock, signing time, ref).
func (e *c10Env) canonical() []int {
	pos := make([]int, len(e.arr))
	for i := range pos {
		pos[i] = i
	}
	sort.SliceStable(pos, func(a, b int) bool {
		ea, eb := e.ev[e.arr[pos[a]]].tx, e.ev[e.arr[pos[b]]].tx
		if ea.Ref.Equals(eb.Ref) {
			return false
		}
		return event(ea).before(event(eb))
	})
	return pos
}

func (e *c10Env) isCausal(seq []int) bool {
	seen := map[int]bool{}
	for _, ei := range seq {
		if !seen[ei] {
			for _, p := range e.ev[ei].allPrev {
				if !seen[p] {
					return false
				}
			}
		}
		seen[ei] = true
	}
	return true
}

// orders returns the arrival orders as sequences of event indices; the first one is the canonical order.
func (e *c10Env) orders() [][]int {
	m := len(e.arr)
	var perms [][]int
	canon := e.canonical()
	perms = append(perms, canon)
	if m <= 5 {
		idx := make([]int, m)
		for i := range idx {
			idx[i] = i
		}
		var rec func(k int)
		rec = func(k int) {
			if k == m {
				perms = append(perms, append([]int(nil), idx...))
				return
			}
			for i := k; i < m; i++ {
				idx[k], idx[i] = idx[i], idx[k]
				rec(k + 1)
				idx[k], idx[i] = idx[i], idx[k]
			}
		}
		rec(0)
	} else {
		rev := make([]int, m)
		for i := range canon {
			rev[m-1-i] = canon[i]
		}
		perms = append(perms, rev)
		for _, s := range e.c.PermSeeds {
			r := c10Rng(s)
			pos := make([]int, 0, m)
			if s&1 == 0 { // any order
				for i := 0; i < m; i++ {
					pos = append(pos, i)
				}
				for i := m - 1; i > 0; i-- {
					j := r.intn(i + 1)
					pos[i], pos[j] = pos[j], pos[i]
				}
			} else { // an order the DAG could deliver: random linear extension of the reference relation
				done := make([]bool, m)
				seen := map[int]bool{}
				for len(pos) < m {
					var ready []int
					for i := 0; i < m; i++ {
						if done[i] {
							continue
						}
						ok := true
						if !seen[e.arr[i]] {
							for _, p := range e.ev[e.arr[i]].allPrev {
								if !seen[p] {
									ok = false
									break
								}
							}
						}
						if ok {
							ready = append(ready, i)
						}
					}
					i := ready[r.intn(len(ready))]
					done[i] = true
					seen[e.arr[i]] = true
					pos = append(pos, i)
				}
			}
			perms = append(perms, pos)
		}
	}
	// positions -> event indices, deduplicated
	var out [][]int
	seenSeq := map[string]bool{}
	for _, pm := range perms {
		seq := make([]int, len(pm))
		for i, ps := range pm {
			seq[i] = e.arr[ps]
		}
		k := fmt.Sprint(seq)
		if seenSeq[k] {
			continue
		}
		seenSeq[k] = true
		out = append(out, seq)
	}
	return out
}

func (e *c10Env) open(path string) (*store, stoabs.KVStore) {
	// the lock timeout (default 1 s) only matters on an overloaded machine: never let it decide a case
	opts := []stoabs.Option{stoabs.WithNoSync(), stoabs.WithLockAcquireTimeout(5 * time.Minute)}
	if e.quiet {
		l := logrus.New()
		l.SetOutput(io.Discard)
		opts = append(opts, stoabs.WithLogger(l))
	}
	kv, err := bbolt.CreateBBoltStore(path, opts...)
	e.x.NoErr(err, "open bbolt store")
	if e.wrap != nil {
		kv = e.wrap(kv)
	}
	s := New(&storage.StaticKVStoreProvider{Store: kv}).(*store)
	if err := s.Configure(core.ServerConfig{}); err != nil {
		_ = kv.Close(context.Background())
		e.x.Fatalf("Configure: %v", err)
	}
	return s, kv
}

func (e *c10Env) tagOf(causal bool) string {
	if e.tag != "" {
		return e.tag
	}
	return c10Tag(causal)
}

// c10Ans is one answer of Resolve.
type c10Ans struct {
	Err     string
	Doc     string
	Hash    string
	Prev    string
	Created int64
	Updated string
	Deact   bool
	Src     string
}

func c10SortedRefs(l []hash.SHA256Hash) string {
	s := make([]string, len(l))
	for i, r := range l {
		s[i] = r.String()[:10]
	}
	sort.Strings(s)
	return strings.Join(s, ",")
}

func c10Answer(doc *did.Document, md *resolver.DocumentMetadata, err error) c10Ans {
	if err != nil {
		switch {
		case errors.Is(err, resolver.ErrDeactivated):
			return c10Ans{Err: "deactivated"}
		case errors.Is(err, resolver.ErrNotFound):
			return c10Ans{Err: "not-found"}
		default:
			return c10Ans{Err: "other: " + err.Error()}
		}
	}
	if doc == nil || md == nil {
		return c10Ans{Err: "nil-without-error"}
	}
	b, merr := json.Marshal(doc)
	if merr != nil {
		return c10Ans{Err: "unmarshalable document: " + merr.Error()}
	}
	a := c10Ans{Doc: string(b), Hash: md.Hash.String(), Created: md.Created.UnixNano(), Deact: md.Deactivated, Src: c10SortedRefs(md.SourceTransactions)}
	if md.PreviousHash != nil {
		a.Prev = md.PreviousHash.String()
	}
	if md.Updated != nil {
		a.Updated = fmt.Sprint(md.Updated.UnixNano())
	}
	return a
}

func (e *c10Env) resolve(s *store, d int, md *resolver.ResolveMetadata) c10Ans {
	return c10Answer(s.Resolve(e.p.dids[d], md))
}

func (e *c10Env) headsOfArrived(arrived map[int]bool, d int) (heads []int, any bool, deact bool) {
	referenced := map[int]bool{}
	for i := range e.ev {
		if !arrived[i] || e.ev[i].didIdx != d {
			continue
		}
		any = true
		if e.ev[i].deact {
			deact = true
		}
		for _, p := range e.ev[i].samePrev {
			referenced[p] = true
		}
	}
	for i := range e.ev {
		if arrived[i] && e.ev[i].didIdx == d && !referenced[i] {
			heads = append(heads, i)
		}
	}
	return
}

func c10Tag(causal bool) string {
	if causal {
		return "dag-order"
	}
	return "any-order"
}
