//go:build verif

package didstore

// C10, concurrent-arrival component: transactions of the same DID that arrive AT THE SAME TIME.
//
// "Arrival order" in the node is not a sequence of complete Add calls: the DAG notifier delivers a transaction while its
// retry goroutines deliver earlier (failed) ones again, and didnuts.Manager adds the documents this node publishes.
// store.Add is not one atomic step either: it is a sequence of separate KV transactions (document + transaction index
// first, event list / apply / metadata / latest / conflicted / stats second). The arrival orders of such deliveries are
// the interleavings of those KV transactions, so the harness owns the schedule at exactly that granularity: the bbolt
// store is wrapped, every Write / Read / WriteShelf / ReadShelf of an actor parks in verif.local/h/sched until the
// schedule grants it, and one KV transaction runs at a time (which is all bbolt or Redis-with-write-lock guarantee).
//
// A case: a history (generator of the order unit), one drawn arrival order, a position in it, and a shape: 2-3 actors that
// deliver the next 1-2 arrivals each. The arrivals before the position are delivered sequentially, then the actors run
// under EVERY schedule (exhaustive depth-first enumeration up to 100 schedules per case, a drawn sample of schedules
// above), then the remaining arrivals are delivered sequentially. Oracles: no Add fails or panics; right after the
// concurrent group the order-free model of the order unit holds for the set that arrived; at the end the observation
// vector equals that of a sequential store that received the same set in the store's own order.

import (
	"context"
	"fmt"
	"io"
	"os"
	"path/filepath"
	"strings"
	"testing"

	"github.com/nuts-foundation/go-stoabs"
	"pgregory.net/rapid"
	"verif.local/h"
	"verif.local/h/sched"
)

type c10ConcCase struct {
	Events    []c10Event `json:"events"`
	Dups      []int      `json:"dups,omitempty"`
	OrderSeed uint64     `json:"order_seed"`
	Start     int        `json:"start"`      // arrival position (mod) at which the concurrent group begins
	Shape     []int      `json:"shape"`      // arrivals per actor
	SchedSeed uint64     `json:"sched_seed"` // sampled schedules when the space is larger than the cap
}

// c10SchedKV parks every KV transaction of an actor goroutine in the scheduler. Calls from other goroutines pass.
type c10SchedKV struct {
	stoabs.KVStore
	s *sched.S
}

func (k *c10SchedKV) point(op string) {
	if s := k.s; s != nil {
		s.Point(op)
	}
}

func (k *c10SchedKV) Write(ctx context.Context, fn func(stoabs.WriteTx) error, opts ...stoabs.TxOption) error {
	k.point("write")
	return k.KVStore.Write(ctx, fn, opts...)
}

func (k *c10SchedKV) Read(ctx context.Context, fn func(stoabs.ReadTx) error) error {
	k.point("read")
	return k.KVStore.Read(ctx, fn)
}

func (k *c10SchedKV) WriteShelf(ctx context.Context, shelf string, fn func(stoabs.Writer) error) error {
	k.point("write-shelf")
	return k.KVStore.WriteShelf(ctx, shelf, fn)
}

func (k *c10SchedKV) ReadShelf(ctx context.Context, shelf string, fn func(stoabs.Reader) error) error {
	k.point("read-shelf")
	return k.KVStore.ReadShelf(ctx, shelf, fn)
}

var c10ConcShapes = [][]int{{1, 1}, {1, 1}, {1, 1}, {1, 1, 1}, {1, 1, 1}, {2, 1}, {1, 2}, {2, 2}, {2, 1, 1}}

const c10ConcCap = 100 // schedules per case

func c10ConcGen(t *rapid.T) c10ConcCase {
	base := c10Gen(t)
	c := c10ConcCase{Events: base.Events, Dups: base.Dups, OrderSeed: uint64(rapid.Uint32().Draw(t, "order_seed"))}
	c.Shape = append([]int(nil), rapid.SampledFrom(c10ConcShapes).Draw(t, "shape")...)
	c.Start = rapid.IntRange(0, len(c.Events)+len(c.Dups)).Draw(t, "start")
	c.SchedSeed = uint64(rapid.Uint32().Draw(t, "sched_seed"))
	return c
}

func c10CopyFile(dst, src string) error {
	in, err := os.Open(src)
	if err != nil {
		return err
	}
	defer in.Close()
	out, err := os.Create(dst)
	if err != nil {
		return err
	}
	if _, err = io.Copy(out, in); err != nil {
		out.Close()
		return err
	}
	return out.Close()
}

// c10Interleavings is the number of interleavings of sequences with the given lengths (capped).
func c10Interleavings(lens []int, limit int) int {
	n, total := 1, 0
	for _, l := range lens {
		for i := 1; i <= l; i++ {
			total++
			n = n * total / i
			if n > limit*1000 {
				return limit * 1000
			}
		}
	}
	return n
}

func c10ConcRun(x *h.Ctx, c c10ConcCase) {
	if len(c.Shape) < 2 || len(c.Shape) > 3 {
		return
	}
	e := c10Prepare(x, c10Case{Events: c.Events, Dups: c.Dups, K: 1, MinRuns: 1, PermSeeds: []uint64{c.OrderSeed}})
	if e == nil {
		return
	}
	e.quiet = true
	e.tag = "concurrent"
	orders := e.orders()
	seq := orders[int(c.OrderSeed%uint64(len(orders)))]
	if len(e.arr) > 5 {
		seq = orders[len(orders)-1]
	}
	// deal the arrivals: sequential prefix, one chunk per actor, sequential rest
	want := 0
	var shape []int
	for _, n := range c.Shape {
		n = 1 + c10Mod(n-1, 2)
		shape = append(shape, n)
		want += n
	}
	start := 0
	if len(seq) > want {
		start = c10Mod(c.Start, len(seq)-want+1)
	}
	var actors [][]int
	pos := start
	for _, n := range shape {
		if pos >= len(seq) {
			break
		}
		end := pos + n
		if end > len(seq) {
			end = len(seq)
		}
		actors = append(actors, seq[pos:end])
		pos = end
	}
	prefix, rest := seq[:start], seq[pos:]
	e.classify(orders[:1])
	x.Classf("actors=%d", len(actors))
	if len(actors) < 2 {
		x.Class("history-too-short-for-two-actors")
		return
	}

	// the sequential reference: the store's own order, no wrapper
	ref := e.exec(orders[0], c10ExecOpts{ref: true, reopenAt: -1}, nil)
	if !ref.ok || len(x.Violations()) > 0 {
		return // the order unit's business
	}
	refDump := strings.Join(ref.dump, "\n")

	skv := &c10SchedKV{}
	e.wrap = func(kv stoabs.KVStore) stoabs.KVStore { skv.KVStore = kv; return skv }

	// the store after the sequential prefix, copied for every schedule
	prefixPath := filepath.Join(e.dir, "prefix.db")
	{
		s, kv := e.open(prefixPath)
		for i, ei := range prefix {
			if err := s.Add(e.ev[ei].doc, e.ev[ei].tx); err != nil {
				_ = kv.Close(context.Background())
				e.violate("c10:add-fails:concurrent-prefix", "arrival %d (event %d) of order %v: Add returned %v", i, ei, seq, err)
				return
			}
		}
		e.x.NoErr(kv.Close(context.Background()), "close prefix store")
	}
	arrivedAfterGroup := map[int]bool{}
	for _, ei := range seq[:pos] {
		arrivedAfterGroup[ei] = true
	}

	describe := func(tr sched.Trace) string {
		var sb strings.Builder
		for i, st := range tr.Steps {
			if i > 0 {
				sb.WriteByte(' ')
			}
			fmt.Fprintf(&sb, "%d:%s", st.Actor, st.Op)
		}
		return sb.String()
	}
	nrun, maxSwitch, everBlocked, nestedSeen := 0, 0, false, false
	var maxSteps int
	runOne := func(schedule []int) (sched.Trace, bool) {
		path := filepath.Join(e.dir, fmt.Sprintf("c%d.db", nrun))
		nrun++
		e.x.NoErr(c10CopyFile(path, prefixPath), "copy prefix store")
		s, kv := e.open(path)
		defer func() {
			skv.s = nil
			_ = kv.Close(context.Background())
			_ = os.Remove(path)
		}()
		sc := sched.New(len(actors), sched.Options{})
		skv.s = sc
		errs := make([]error, len(actors))
		failedAt := make([]int, len(actors))
		tr, err := sc.Run(schedule, func(a int) {
			for _, ei := range actors[a] {
				if err := s.Add(e.ev[ei].doc, e.ev[ei].tx); err != nil {
					errs[a], failedAt[a] = err, ei
					return
				}
			}
		})
		skv.s = nil
		if err != nil {
			x.Fatalf("scheduler: %v (trace %s)", err, describe(tr))
		}
		e.nadd += pos - start
		where := fmt.Sprintf("arrival order %v: arrivals %v delivered one after the other, then %d concurrent deliverers with the arrivals %v under the schedule [%s] (actor:KV transaction)", seq, prefix, len(actors), actors, describe(tr))
		for a := range actors {
			if tr.Panics[a] != nil {
				e.violate("c10:concurrent:add-panics", "%s: Add of deliverer %d panicked: %v", where, a, tr.Panics[a])
				return tr, false
			}
			if errs[a] != nil {
				e.violate("c10:add-fails:concurrent", "%s: Add of event %d (deliverer %d) returned %v", where, failedAt[a], a, errs[a])
				return tr, false
			}
		}
		if sw := tr.Switches(); sw > maxSwitch {
			maxSwitch = sw
		}
		if len(tr.Steps) > maxSteps {
			maxSteps = len(tr.Steps)
		}
		if tr.EverBlocked() {
			everBlocked = true
		}
		// one deliverer ran from its first to its last KV transaction between two KV transactions of another
		last := map[int]int{}
		first := map[int]int{}
		for i, st := range tr.Steps {
			if _, ok := first[st.Actor]; !ok {
				first[st.Actor] = i
			}
			last[st.Actor] = i
		}
		for a := range actors {
			for b := range actors {
				if a != b && first[a] < first[b] && last[b] < last[a] {
					nestedSeen = true
				}
			}
		}
		before := len(x.Violations())
		e.stepCounts(s, arrivedAfterGroup, false, seq, pos-1)
		e.stepModel(s, arrivedAfterGroup, false, seq, pos-1)
		if len(x.Violations()) > before {
			x.Logf("the model was violated right after the concurrent group: %s", where)
			return tr, false
		}
		for i, ei := range rest {
			e.nadd++
			if err := s.Add(e.ev[ei].doc, e.ev[ei].tx); err != nil {
				e.violate("c10:add-fails:after-concurrent", "%s: later arrival %d (event %d) returned %v", where, pos+i, ei, err)
				return tr, false
			}
		}
		if dump := strings.Join(e.dump(s), "\n"); dump != refDump {
			if key, detail, msg := c10FirstDiff(ref.api, e.observe(s), nil); detail != "" {
				e.violate("c10:concurrent:observation-differs:"+detail, "%s differs between a store that received the transactions one by one (order %v) and this store.\n%s; then the arrivals %v one after the other\n%s", key, orders[0], where, rest, msg)
				return tr, false
			}
			x.Class("stored-state-differs-but-api-agrees")
		} else if nrun%8 == 1 {
			// the cheap comparison is trusted; the API vector is compared on a sample anyway
			if key, detail, msg := c10FirstDiff(ref.api, e.observe(s), nil); detail != "" {
				e.violate("c10:concurrent:observation-differs:"+detail, "%s differs between a store that received the transactions one by one (order %v) and this store.\n%s; then the arrivals %v one after the other\n%s", key, orders[0], where, rest, msg)
				return tr, false
			}
		}
		return tr, true
	}

	// size of the schedule space, assuming two KV transactions per Add (only used to choose enumerate / sample)
	var lens []int
	for _, a := range actors {
		lens = append(lens, 2*len(a))
	}
	space := c10Interleavings(lens, c10ConcCap)
	exhaustive := false
	if space <= c10ConcCap {
		_, complete := sched.Explore(c10ConcCap*2, func(p []int) (sched.Trace, bool) {
			tr, ok := runOne(p)
			if ok && tr.Deviated {
				x.Fatalf("schedule prefix %v was not reproduced (trace %s): the run is not a function of the schedule", p, describe(tr))
			}
			return tr, ok
		})
		exhaustive = complete
	} else {
		r := c10Rng(c.SchedSeed)
		for i := 0; i < c10ConcCap*6/10 && len(x.Violations()) == 0; i++ {
			// a random interleaving of the actors' expected steps; the fallback rule of the scheduler covers the rest
			left := append([]int(nil), lens...)
			total := 0
			for _, l := range left {
				total += l
			}
			var schedule []int
			for total > 0 {
				k := r.intn(total)
				for a := range left {
					if k < left[a] {
						schedule = append(schedule, a)
						left[a]--
						total--
						break
					}
					k -= left[a]
				}
			}
			if _, ok := runOne(schedule); !ok {
				break
			}
		}
	}

	h.Count("C10", x.Unit, "schedules", nrun)
	h.Count("C10", x.Unit, "stores", nrun+e.nrun+1)
	h.Count("C10", x.Unit, "adds", e.nadd)
	x.Classf("shape=%v", shape[:len(actors)])
	if exhaustive {
		x.Class("schedules=all")
	} else if len(x.Violations()) == 0 {
		x.Class("schedules=sampled")
	}
	switch {
	case nrun >= 50:
		x.Class("schedules>=50")
	case nrun >= 10:
		x.Class("schedules=10..49")
	default:
		x.Class("schedules<10")
	}
	if everBlocked {
		x.Class("a-deliverer-blocked-on-a-lock-held-by-a-parked-one")
	}
	if nestedSeen {
		x.Class("one-deliverer-ran-completely-between-two-kv-transactions-of-another")
	}
	x.Classf("kv-transactions-per-schedule<=%d", maxSteps)
	// what is delivered concurrently
	sameDID, sameTx, siblings, parentChild, deactInGroup, rootInGroup := false, false, false, false, false, false
	for a := range actors {
		for _, ea := range actors[a] {
			if e.ev[ea].deact {
				deactInGroup = true
			}
			if len(e.ev[ea].samePrev) == 0 {
				rootInGroup = true
			}
			for b := a + 1; b < len(actors); b++ {
				for _, eb := range actors[b] {
					if e.ev[ea].didIdx != e.ev[eb].didIdx {
						continue
					}
					sameDID = true
					if ea == eb {
						sameTx = true
						continue
					}
					refs := func(p, q int) bool {
						for _, v := range e.ev[p].samePrev {
							if v == q {
								return true
							}
						}
						return false
					}
					if refs(ea, eb) || refs(eb, ea) {
						parentChild = true
					} else {
						siblings = true
					}
				}
			}
		}
	}
	if sameDID {
		x.Class("concurrent:same-did")
	} else {
		x.Class("concurrent:different-dids-only")
	}
	if sameTx {
		x.Class("concurrent:the-same-transaction-twice")
	}
	if siblings {
		x.Class("concurrent:parallel-updates")
	}
	if parentChild {
		x.Class("concurrent:transaction-and-one-it-references")
	}
	if deactInGroup {
		x.Class("concurrent:a-deactivation")
	}
	if rootInGroup {
		x.Class("concurrent:a-root")
	}
	if len(prefix) == 0 {
		x.Class("concurrent:on-an-empty-store")
	}
	if len(rest) > 0 {
		x.Class("arrivals-after-the-concurrent-group")
	}
	if sameDID && nrun >= 6 && maxSwitch > 0 {
		x.NonTrivial()
	}
}

func TestVerif_C10_Concurrent(t *testing.T) {
	h.Check(t, "C10", c10ConcGen, c10ConcRun, h.PanicIsViolation())
}

func TestVerifReplay_C10_Concurrent(t *testing.T) {
	h.Replay(t, "C10", "TestVerif_C10_Concurrent", c10ConcRun, h.PanicIsViolation())
}
