//go:build verif

package didnuts

// C19 target: did:nuts DID documents arriving from the network.
// Entry point = ambassador.callback(tx, payload) (what the "vdr" DAG subscriber runs for every application/did+json
// payload) on a REAL didstore (bbolt); the document is a jsonmut mutation of a valid document whose DID matches the
// thumbprint of the transaction's signing key, so that creation succeeds whenever the mutated document is still valid.
// For accepted documents the consumers that later read it are exercised over the real didnuts.Resolver:
// resolver.DIDKeyResolver (all relation types), resolver.DIDServiceResolver (every service type, following references),
// dag.SourceTXKeyResolver, ResolveControllers. Independently the API-side validator (ManagedDocumentValidator) runs on it.
// Oracle: no panic / hang; a rejected document leaves the store digest unchanged.

import (
	"context"
	"crypto"
	"encoding/json"
	"fmt"
	"io"
	"path/filepath"
	"strings"
	"sync"
	"testing"
	"time"

	"github.com/lestrrat-go/jwx/v2/jwk"
	"github.com/nats-io/nats.go"
	ssi "github.com/nuts-foundation/go-did"
	"github.com/nuts-foundation/go-did/did"
	"github.com/nuts-foundation/go-stoabs"
	"github.com/nuts-foundation/go-stoabs/bbolt"
	"github.com/nuts-foundation/nuts-node/audit"
	"github.com/nuts-foundation/nuts-node/core"
	nutsCrypto "github.com/nuts-foundation/nuts-node/crypto"
	"github.com/nuts-foundation/nuts-node/crypto/hash"
	"github.com/nuts-foundation/nuts-node/events"
	"github.com/nuts-foundation/nuts-node/network"
	"github.com/nuts-foundation/nuts-node/network/dag"
	"github.com/nuts-foundation/nuts-node/storage"
	"github.com/nuts-foundation/nuts-node/vdr/didnuts/didstore"
	"github.com/nuts-foundation/nuts-node/vdr/resolver"
	"github.com/sirupsen/logrus"
	"pgregory.net/rapid"
	"verif.local/h"
	"verif.local/h/c19x"
)

func init() { logrus.SetOutput(io.Discard) }

type c19DocCase struct {
	Seed int       `json:"seed"`
	Mode string    `json:"mode"` // create | update
	Plan c19x.Plan `json:"plan"`
	// Route is the production entry point that delivers the document to the ambassador:
	// "network" (default, also for replay files written before the field existed) = handleNetworkEvent(dag.Event), the DAG
	// subscriber; "reprocess" = handleReprocessEvent(*nats.Msg), the REPROCESS stream subscriber.
	Route string `json:"route,omitempty"`
}

type c19Provider struct {
	dir    string
	stores []stoabs.KVStore
}

func (p *c19Provider) GetKVStore(name string, _ storage.Class) (stoabs.KVStore, error) {
	s, err := bbolt.CreateBBoltStore(filepath.Join(p.dir, name+".db"), stoabs.WithNoSync())
	if err == nil {
		p.stores = append(p.stores, s)
	}
	return s, err
}

func (p *c19Provider) close() {
	for _, s := range p.stores {
		_ = s.Close(context.Background())
	}
}

type c19Net struct{ network.Transactions }

func (c19Net) DiscoverServices(did.DID) {}

// c19DocSeeds returns valid did:nuts documents for the fixed key (the DID is the key's thumbprint).
func c19DocSeeds() (seeds [][]byte, id did.DID, kid string) {
	pub := &c19x.ECKey().PublicKey
	kid, err := DIDKIDNamingFunc(pub)
	if err != nil {
		panic(err)
	}
	keyID := did.MustParseDIDURL(kid)
	id = keyID.DID
	vm, err := did.NewVerificationMethod(keyID, ssi.JsonWebKey2020, id, pub)
	if err != nil {
		panic(err)
	}
	kid2, err := didSubKIDNamingFunc(id)(&c19x.ECKey2().PublicKey)
	if err != nil {
		panic(err)
	}
	vm2, err := did.NewVerificationMethod(did.MustParseDIDURL(kid2), ssi.JsonWebKey2020, id, &c19x.ECKey2().PublicKey)
	if err != nil {
		panic(err)
	}
	svcID := func(f string) ssi.URI {
		u := did.MustParseDIDURL(id.String())
		u.Fragment = f
		return u.URI()
	}

	// 1. minimal document, as created by the node
	d1 := CreateDocument()
	d1.ID = id
	d1.AddCapabilityInvocation(vm)
	d1.AddAssertionMethod(vm)
	d1.AddKeyAgreement(vm)

	// 2. two keys, all relations, services of every shape (string, reference, compound, contact info), self as controller
	d2 := CreateDocument()
	d2.ID = id
	d2.Controller = []did.DID{id}
	d2.AddCapabilityInvocation(vm)
	d2.AddCapabilityDelegation(vm)
	d2.AddAuthenticationMethod(vm)
	d2.AddAssertionMethod(vm2)
	d2.AddKeyAgreement(vm2)
	ref := func(t string) string { return id.String() + "/serviceEndpoint?type=" + t }
	d2.Service = []did.Service{
		{ID: svcID("svc-1"), Type: "NutsComm", ServiceEndpoint: "grpc://nuts.example.com:5555"},
		{ID: svcID("svc-2"), Type: "oauth", ServiceEndpoint: "https://nuts.example.com/oauth"},
		{ID: svcID("svc-3"), Type: "ref", ServiceEndpoint: ref("oauth")},
		{ID: svcID("svc-4"), Type: "refref", ServiceEndpoint: ref("ref")},
		{ID: svcID("svc-5"), Type: "compound", ServiceEndpoint: map[string]interface{}{"auth": ref("oauth"), "fhir": "https://nuts.example.com/fhir"}},
		{ID: svcID("svc-6"), Type: "node-contact-info", ServiceEndpoint: map[string]interface{}{"email": "a@example.com", "name": "x"}},
	}

	// 3. JSON-LD context games on top of 1: an inline context object with @base, relative ids
	d3 := CreateDocument()
	d3.ID = id
	d3.Context = append(d3.Context, map[string]interface{}{"@base": id.String()})
	d3.AddCapabilityInvocation(vm)
	d3.AddAssertionMethod(vm)

	for _, d := range []did.Document{d1, d2, d3} {
		b, err := json.Marshal(d)
		if err != nil {
			panic(err)
		}
		seeds = append(seeds, b)
	}
	return seeds, id, kid
}

var c19DocKeys = []string{"@context", "@base", "id", "controller", "verificationMethod", "publicKeyJwk", "publicKeyBase58", "publicKeyMultibase", "assertionMethod",
	"authentication", "capabilityInvocation", "capabilityDelegation", "keyAgreement", "service", "serviceEndpoint", "type", "kty", "crv", "x", "y", "alsoKnownAs"}

func c19DocGen(t *rapid.T) c19DocCase {
	return c19DocCase{
		Seed: rapid.IntRange(0, 2).Draw(t, "seed"),
		Mode: rapid.SampledFrom([]string{"create", "create", "update"}).Draw(t, "mode"),
		Plan:  c19x.GenPlan(t, c19DocKeys),
		Route: rapid.SampledFrom([]string{"network", "network", "reprocess"}).Draw(t, "route"),
	}
}

// c19NATS is an embedded NATS server (the events engine's own test manager), one per process: handleReprocessEvent acks
// the message first and returns when that fails, so it needs a message that is really bound to a JetStream subscription.
type c19NATS struct {
	js  nats.JetStreamContext
	sub *nats.Subscription
	err error
}

var (
	c19NATSOnce sync.Once
	c19TheNATS  *c19NATS
)

func c19GetNATS(x *h.Ctx) *c19NATS {
	c19NATSOnce.Do(func() {
		n := &c19NATS{}
		c19TheNATS = n
		defer func() {
			if r := recover(); r != nil {
				n.err = fmt.Errorf("embedded NATS: %v", r)
			}
		}()
		em := events.NewTestManager(x.TB.(*testing.T))
		_, js, err := em.Pool().Acquire(context.Background())
		if err != nil {
			panic(err)
		}
		if _, err = js.AddStream(&nats.StreamConfig{Name: "VERIFC19", Subjects: []string{"VERIFC19.*"}, Storage: nats.MemoryStorage, MaxMsgs: 100, Discard: nats.DiscardOld}); err != nil {
			panic(err)
		}
		sub, err := js.SubscribeSync("VERIFC19.doc", nats.BindStream("VERIFC19"), nats.ManualAck(), nats.AckExplicit(), nats.DeliverNew())
		if err != nil {
			panic(err)
		}
		n.js, n.sub = js, sub
	})
	if c19TheNATS.err != nil {
		x.Fatalf("%v", c19TheNATS.err)
	}
	return c19TheNATS
}

// c19ReprocessMsg publishes the transaction+payload the way network.Reprocess does and fetches the bound message.
func c19ReprocessMsg(x *h.Ctx, tx dag.Transaction, payload []byte) *nats.Msg {
	n := c19GetNATS(x)
	data, err := json.Marshal(events.TransactionWithPayload{Transaction: tx, Payload: payload})
	x.NoErr(err, "marshal TransactionWithPayload")
	_, err = n.js.Publish("VERIFC19.doc", data)
	x.NoErr(err, "publish reprocess message")
	msg, err := n.sub.NextMsg(5 * time.Second)
	x.NoErr(err, "fetch reprocess message")
	return msg
}

type c19DocFix struct {
	x      *h.Ctx
	store  didstore.Store
	amb    *ambassador
	signer nutsCrypto.JWTSigner
	kid    string
}

func (f *c19DocFix) tx(payload []byte, attach bool, prevs ...dag.Transaction) dag.Transaction {
	var ph []hash.SHA256Hash
	var lc uint32
	for _, p := range prevs {
		ph = append(ph, p.Ref())
		if p.Clock()+1 > lc {
			lc = p.Clock() + 1
		}
	}
	unsigned, err := dag.NewTransaction(hash.SHA256Sum(payload), DIDDocumentType, ph, nil, lc)
	f.x.NoErr(err, "NewTransaction")
	var pub crypto.PublicKey
	if attach {
		pub = &c19x.ECKey().PublicKey
	}
	tx, err := dag.NewTransactionSigner(f.signer, f.kid, pub).Sign(audit.TestContext(), unsigned, time.Unix(1700000000+int64(lc), 0))
	f.x.NoErr(err, "sign")
	return tx
}

func (f *c19DocFix) digest() string {
	var sb strings.Builder
	n, err := f.store.DocumentCount()
	f.x.NoErr(err, "DocumentCount")
	c, err := f.store.ConflictedCount()
	f.x.NoErr(err, "ConflictedCount")
	fmt.Fprintf(&sb, "docs=%d conflicted=%d;", n, c)
	err = f.store.Iterate(func(doc did.Document, md resolver.DocumentMetadata) error {
		var b []byte
		c19x.Own(f.x, func() { b, _ = json.Marshal(doc) })
		fmt.Fprintf(&sb, "%s v=%s h=%s deact=%v src=%v;", b, md.Hash, md.Hash, md.Deactivated, md.SourceTransactions)
		return nil
	})
	if err != nil {
		fmt.Fprintf(&sb, "iterate-error=%v", err)
	}
	return sb.String()
}

func c19DocRun(x *h.Ctx, c c19DocCase) {
	var f *c19DocFix
	var seeds [][]byte
	var id did.DID
	var createTx dag.Transaction
	c19x.Setup(x, "didnuts fixture", func() {
		var kid string
		seeds, id, kid = c19DocSeeds()
		f = &c19DocFix{x: x, kid: kid}
		key, err := jwk.FromRaw(c19x.ECKey())
		x.NoErr(err, "jwk")
		_ = key.Set(jwk.KeyIDKey, kid)
		f.signer = nutsCrypto.MemoryJWTSigner{Key: key}
		prov := &c19Provider{dir: x.TempDir()}
		x.Cleanup(prov.close)
		st := didstore.New(prov)
		x.NoErr(st.(core.Configurable).Configure(core.ServerConfig{}), "didstore.Configure")
		f.store = st
		f.amb = NewAmbassador(c19Net{}, st, nil).(*ambassador)
		if c.Mode == "update" {
			// the valid minimal document exists already
			createTx = f.tx(seeds[0], true)
			x.NoErr(f.amb.callback(createTx, seeds[0]), "create the base document")
		}
	})
	seed := seeds[((c.Seed%len(seeds))+len(seeds))%len(seeds)]
	payload, applied := c.Plan.Apply(seed)
	if applied.Oversize {
		x.Class("skipped:oversize")
		return
	}
	for _, cl := range applied.Classes() {
		x.Class(cl)
	}
	x.Class("mode=" + c.Mode)
	if c19x.IsJSON(payload) {
		x.NonTrivial()
		x.Class("stage1:is-JSON")
	} else {
		x.Class("stage1:not-JSON")
	}

	var tx dag.Transaction
	c19x.Setup(x, "transaction", func() {
		if c.Mode == "update" {
			tx = f.tx(payload, false, createTx)
		} else {
			tx = f.tx(payload, true)
		}
	})

	route := c.Route
	if route != "reprocess" {
		route = "network"
	}
	x.Class("route=" + route)
	var msg *nats.Msg
	if route == "reprocess" {
		c19x.Setup(x, "reprocess message", func() { msg = c19ReprocessMsg(x, tx, payload) })
	}
	before := f.digest()
	var err error
	if route == "network" {
		// the DAG subscriber ("vdr" notifier of the network engine)
		if !c19x.GuardAs(x, ":route=network", func() {
			_, err = f.amb.handleNetworkEvent(dag.Event{Type: dag.PayloadEventType, Hash: tx.Ref(), Transaction: tx, Payload: payload})
		}) {
			return
		}
	} else {
		// the REPROCESS stream subscriber: no result, errors are only logged
		if !c19x.GuardAs(x, ":route=reprocess", func() { f.amb.handleReprocessEvent(msg) }) {
			return
		}
	}
	after := f.digest()
	if route == "reprocess" {
		// acceptance is only visible in the store on this route (class only; the reject => unchanged oracle runs on the network route)
		if strings.Contains(after, "iterate-error=") {
			x.Violate("didnuts-store-unreadable:"+c.Mode+":route=reprocess", "after handleReprocessEvent the DID store cannot be iterated: %s", after[strings.Index(after, "iterate-error="):])
			return
		}
		if before != after {
			x.Class("reprocess:store-changed(accepted)")
			c19x.GuardAs(x, ":route=reprocess", func() { c19DocConsumers(x, f, id, tx) })
		} else {
			x.Class("reprocess:store-unchanged")
		}
		return
	}
	if strings.Contains(after, "iterate-error=") {
		x.Class("store-unreadable-after-callback")
		x.Violate("didnuts-store-unreadable:"+c.Mode, "after callback (err=%v) the DID store cannot be iterated: %s", err, after[strings.Index(after, "iterate-error="):])
		return
	}
	if err != nil {
		x.Class("callback:rejected")
		switch {
		case strings.Contains(err.Error(), "unable to unmarshal"):
			x.Class("callback:rejected:unmarshal")
		case strings.Contains(err.Error(), "integrity check failed"):
			x.Class("callback:rejected:validator")
		default:
			x.Class("callback:rejected:later")
		}
		if before != after {
			x.Violate("didnuts-state-changed-after-reject:"+c.Mode, "callback returned %v but the store changed\n before %s\n after  %s", err, before, after)
		}
	} else {
		x.Class("callback:accepted")
		if !c19x.Guard(x, func() { c19DocConsumers(x, f, id, tx) }) {
			return
		}
	}

	// API side: the stricter validator run on documents a client submits (services are resolved through the document itself)
	c19x.Guard(x, func() { c19DocAPISide(x, payload) })
}

func c19DocAPISide(x *h.Ctx, payload []byte) {
	var doc did.Document
	parsed := false
	// the harness's own decoding (in production: the request binding of the vdr v1 API)
	c19x.Own(x, func() { parsed = json.Unmarshal(payload, &doc) == nil })
	if parsed {
		x.Class("parsed-as-did-document")
		self := c19SelfResolver{doc: &doc}
		if verr := ManagedDocumentValidator(resolver.DIDServiceResolver{Resolver: self}).Validate(doc); verr != nil {
			x.Class("managed-validator:rejected")
		} else {
			x.Class("managed-validator:accepted")
		}
	}
}

type c19SelfResolver struct{ doc *did.Document }

func (r c19SelfResolver) Resolve(id did.DID, _ *resolver.ResolveMetadata) (*did.Document, *resolver.DocumentMetadata, error) {
	if r.doc.ID.Equals(id) {
		return r.doc, &resolver.DocumentMetadata{}, nil
	}
	return nil, nil, resolver.ErrNotFound
}

func c19DocConsumers(x *h.Ctx, f *c19DocFix, id did.DID, tx dag.Transaction) {
	res := &Resolver{Store: f.store}
	doc, _, err := res.Resolve(id, nil)
	if err != nil {
		x.Class("consumers:resolve-error")
		// deactivated documents resolve with an error; look at them anyway
		doc, _, err = res.Resolve(id, &resolver.ResolveMetadata{AllowDeactivated: true})
		if err != nil {
			return
		}
	}
	kr := resolver.DIDKeyResolver{Resolver: res}
	found := false
	for rel := resolver.Authentication; rel <= resolver.CapabilityDelegation; rel++ {
		if _, _, err := kr.ResolveKey(id, nil, rel); err == nil {
			found = true
		}
		for _, vm := range doc.VerificationMethod {
			if vm != nil {
				_, _ = kr.ResolveKeyByID(vm.ID.String(), nil, rel)
			}
		}
	}
	if found {
		x.Class("consumers:key-resolved")
	}
	sr := resolver.DIDServiceResolver{Resolver: res}
	for _, s := range doc.Service {
		if _, err := sr.Resolve(resolver.MakeServiceReference(id, s.Type), resolver.DefaultMaxServiceReferenceDepth); err == nil {
			x.Class("consumers:service-resolved")
		}
	}
	_, _ = dag.SourceTXKeyResolver{Resolver: res}.ResolvePublicKey(f.kid, []hash.SHA256Hash{tx.Ref()})
	_, _ = ResolveControllers(res, *doc, nil)
	_, _ = resolver.DIDServiceResolver{Resolver: res}.Resolve(resolver.MakeServiceReference(id, "NutsComm"), resolver.DefaultMaxServiceReferenceDepth)
}

var _ = context.Background

func TestVerif_C19_DIDNutsDocument(t *testing.T) {
	h.Check(t, "C19", c19DocGen, c19DocRun, h.PanicIsViolation(), h.Deadline(10*time.Second))
}

func TestVerifReplay_C19_DIDNutsDocument(t *testing.T) {
	h.Replay(t, "C19", "TestVerif_C19_DIDNutsDocument", c19DocRun, h.PanicIsViolation(), h.Deadline(10*time.Second))
}

// Native fuzz target (thorough tier): raw document bytes -> did.Document -> validators and resolver-backed consumers
// (no store, so it runs at fuzzing speed).
func FuzzVerif_C19_DIDDocumentBytes(f *testing.F) {
	seeds, _, _ := c19DocSeeds()
	for _, s := range seeds {
		f.Add(s)
	}
	f.Fuzz(func(t *testing.T, data []byte) {
		h.Fuzz(t, "C19", "FuzzVerif_C19_DIDDocumentBytes", data, func(x *h.Ctx) { c19DocFuzzBody(x, data) }, h.PanicIsViolation(), h.Deadline(10*time.Second))
	})
}

func c19DocFuzzBody(x *h.Ctx, data []byte) {
	if len(data) > c19x.MaxInput {
		return
	}
	if c19x.IsJSON(data) {
		x.NonTrivial()
	}
	c19x.Guard(x, func() {
		var doc did.Document
		if json.Unmarshal(data, &doc) != nil {
			return
		}
		x.Class("parsed-as-did-document")
		if NetworkDocumentValidator().Validate(doc) != nil {
			// only validated documents reach the did:nuts consumers
			return
		}
		x.Class("network-validator:accepted")
		self := c19SelfResolver{doc: &doc}
		_ = ManagedDocumentValidator(resolver.DIDServiceResolver{Resolver: self}).Validate(doc)
		kr := resolver.DIDKeyResolver{Resolver: self}
		for rel := resolver.Authentication; rel <= resolver.CapabilityDelegation; rel++ {
			_, _, _ = kr.ResolveKey(doc.ID, nil, rel)
			for _, vm := range doc.VerificationMethod {
				_, _ = kr.ResolveKeyByID(vm.ID.String(), nil, rel)
			}
		}
		for _, s := range doc.Service {
			_, _ = resolver.DIDServiceResolver{Resolver: self}.Resolve(resolver.MakeServiceReference(doc.ID, s.Type), resolver.DefaultMaxServiceReferenceDepth)
		}
		_, _ = ResolveControllers(self, doc, nil)
		if b, err := json.Marshal(doc); err == nil {
			var back did.Document
			_ = json.Unmarshal(b, &back)
		}
	})
}

func TestVerifReplay_C19_DIDDocumentBytes(t *testing.T) {
	h.Replay(t, "C19", "FuzzVerif_C19_DIDDocumentBytes", func(x *h.Ctx, raw json.RawMessage) {
		c19DocFuzzBody(x, h.FuzzInput(raw))
	}, h.PanicIsViolation(), h.Deadline(10*time.Second))
}
