//go:build verif

package cmd

// C20 (JSON-LD loader): "json-ld context can only be downloaded from trusted domains configured in
// jsonld.contexts.remoteallowlist" / option help: "In strict mode, fetching external JSON-LD contexts is not allowed except
// for context-URLs listed here."
//
// The REAL jsonld engine instance is configured the way the node does it — the server command's flag set, a yaml file,
// NUTS_* variables, core.System.Load + Configure — but registered alone in a core.System, so one configuration costs
// about a millisecond and many allow-lists can be tried (the full-node units run the deterministic near-miss set too,
// see c20ProbeNearMisses). All outbound traffic goes to a transport that records the request and SERVES a JSON-LD context
// defining the term "verifField": a context URL that slips through the filter therefore makes a document using that
// term pass jsonld.AllFieldsDefined.
//
// Normalisation applied by the code under test (HEAD): none. filteredDocumentLoader compares the requested URL with the
// entries (remoteallowlist + the keys of localmapping) by string equality. Oracle in strict mode:
//   - a URL equal to an entry loads (remote entries are fetched, locally mapped ones come from the embedded files);
//   - a URL that denotes ANOTHER resource than every entry (other host: suffix ".evil.example", "@evil", "-evil";
//     other port; other scheme; other path: extra segment, "/../", trailing character, trailing slash added/removed,
//     truncated, other case in the path; a query) is refused with no outbound request, and a document whose vocabulary
//     comes from it fails AllFieldsDefined;
//   - spellings that denote the SAME resource under RFC 3986 §6 normalisation or DNS (scheme/host case, percent-encoded
//     unreserved character, explicit default port, fragment, user-info in front of the same host, trailing dot on the
//     host) are counted per family with their outcome but not judged: refusing them (HEAD) and normalising them are both fine.
// Non-strict mode: unlisted URLs load.
// "Loads" and "refused" are judged by the OUTCOME (LoadDocument returns the document / a document using the context's
// vocabulary passes AllFieldsDefined), because NewContextLoader puts an ld.CachingDocumentLoader (one per configured
// instance, behind the filter) in the chain: a URL requested twice through one instance is fetched once. "Refused" in
// strict mode additionally demands that no outbound request was recorded.

import (
	"fmt"
	"io"
	"net/http"
	"os"
	"path/filepath"
	"sort"
	"strings"
	"testing"

	"github.com/nuts-foundation/nuts-node/core"
	"github.com/nuts-foundation/nuts-node/jsonld"
	"github.com/piprate/json-gold/ld"
	"gopkg.in/yaml.v3"
	"pgregory.net/rapid"
	"verif.local/h"
)

type c20Entry struct {
	Scheme string `json:"scheme"`
	Host   string `json:"host"`
	Path   string `json:"path"` // "" or starting with "/"
}

func (e c20Entry) String() string { return e.Scheme + "://" + e.Host + e.Path }

func c20SplitEntry(s string) (c20Entry, bool) {
	i := strings.Index(s, "://")
	if i < 0 {
		return c20Entry{}, false
	}
	rest := s[i+3:]
	e := c20Entry{Scheme: s[:i], Host: rest}
	if j := strings.Index(rest, "/"); j >= 0 {
		e.Host, e.Path = rest[:j], rest[j:]
	}
	return e, e.Host != ""
}

type c20NearMiss struct {
	Family string
	Group  string // authority-suffix | path-suffix | other-resource | same-resource | exact | unrelated
	URL    string
}

// suffix parameters of the near-miss families (drawn by the rapid unit, fixed for the full-node probe)
type c20NearParams struct {
	Evil    string `json:"evil"`    // attacker host
	Port    string `json:"port"`    // non-default port
	Segment string `json:"segment"` // extra path segment
	Char    string `json:"char"`    // trailing character
	User    string `json:"user"`
}

var c20DefaultNearParams = c20NearParams{Evil: "attacker.example", Port: "8443", Segment: "evil.jsonld", Char: "0", User: "user"}

func c20FlipCase(s string) string {
	b := []byte(s)
	for i := len(b) - 1; i >= 0; i-- {
		switch {
		case b[i] >= 'a' && b[i] <= 'z':
			b[i] -= 32
			return string(b)
		case b[i] >= 'A' && b[i] <= 'Z':
			b[i] += 32
			return string(b)
		}
	}
	return s
}

// c20NearMissesOf derives the near-miss URLs of one allow-list entry.
func c20NearMissesOf(e c20Entry, p c20NearParams) []c20NearMiss {
	full := e.String()
	var out []c20NearMiss
	add := func(family, group, u string) {
		if u != full {
			out = append(out, c20NearMiss{family, group, u})
		}
	}
	sep := "/"
	if strings.HasSuffix(full, "/") {
		sep = ""
	}
	// another host that has the trusted one as a textual prefix
	add("auth-dot-suffix", "authority-suffix", e.Scheme+"://"+e.Host+"."+p.Evil+e.Path)
	add("auth-userinfo-trick", "authority-suffix", e.Scheme+"://"+e.Host+"@"+p.Evil+e.Path)
	add("auth-hyphen-suffix", "authority-suffix", e.Scheme+"://"+e.Host+"-"+p.Evil+e.Path)
	add("auth-port", "authority-suffix", e.Scheme+"://"+e.Host+":"+p.Port+e.Path)
	add("auth-prefix-label", "other-resource", e.Scheme+"://"+p.Evil+"."+e.Host+e.Path) // not a textual extension: other host all the same
	// another path / query on the trusted host
	add("path-extra-segment", "path-suffix", full+sep+p.Segment)
	add("path-dotdot", "path-suffix", full+sep+"../../"+p.Segment)
	ch := p.Char
	if alnum := len(ch) == 1 && (ch[0] >= 'a' && ch[0] <= 'z' || ch[0] >= '0' && ch[0] <= '9'); !alnum && (e.Path == "" || sep == "") {
		ch = "0" // "host." / "host%20" are other families, "dir/." is the same resource as "dir/"
	}
	add("path-trailing-char", "path-suffix", full+ch)
	switch {
	case e.Path == "": // RFC 3986 6.2.3: an empty path and "/" are the same http(s) resource
		add("root-slash-added", "same-resource", full+"/")
	case e.Path == "/":
		add("root-slash-removed", "same-resource", strings.TrimSuffix(full, "/"))
	case sep == "/":
		add("path-trailing-slash-added", "path-suffix", full+"/")
	default:
		add("path-trailing-slash-removed", "other-resource", strings.TrimSuffix(full, "/"))
	}
	add("query", "path-suffix", full+"?q=1")
	if len(e.Path) > 1 {
		add("path-truncated", "other-resource", full[:len(full)-1])
		if fc := c20FlipCase(e.Path); fc != e.Path {
			add("path-case", "other-resource", e.Scheme+"://"+e.Host+fc)
		}
	}
	if e.Scheme == "https" {
		add("scheme-http", "other-resource", "http://"+e.Host+e.Path)
	}
	add("pct-encoded-host", "other-resource", e.Scheme+"://"+strings.Replace(e.Host, ".", "%2E", 1)+"."+p.Evil+e.Path)
	// same resource, other spelling: counted, not judged
	add("fragment", "same-resource", full+"#frag")
	add("case-scheme", "same-resource", strings.ToUpper(e.Scheme)+"://"+e.Host+e.Path)
	add("case-host", "same-resource", e.Scheme+"://"+strings.ToUpper(e.Host)+e.Path)
	add("default-port", "same-resource", e.Scheme+"://"+e.Host+map[string]string{"https": ":443", "http": ":80"}[e.Scheme]+e.Path)
	add("userinfo-prefix", "same-resource", e.Scheme+"://"+p.User+"@"+e.Host+e.Path)
	add("trailing-dot-host", "same-resource", e.Scheme+"://"+e.Host+"."+e.Path)
	if len(e.Path) > 1 {
		last := e.Path[len(e.Path)-1]
		if (last >= 'a' && last <= 'z') || (last >= '0' && last <= '9') {
			add("pct-encoded-unreserved", "same-resource", e.Scheme+"://"+e.Host+e.Path[:len(e.Path)-1]+fmt.Sprintf("%%%02X", last))
		}
	}
	return out
}

// c20CtxServer is the fake internet of the JSON-LD probes: it records every request and serves a context that defines "verifField".
type c20CtxServer struct{ rec c20Recorder }

const c20ServedContext = `{"@context":{"verifField":"https://vocab.verif.example/ns#verifField"}}`

func (s *c20CtxServer) RoundTrip(req *http.Request) (*http.Response, error) {
	s.rec.mu.Lock()
	s.rec.reqs = append(s.rec.reqs, req.URL.String())
	s.rec.mu.Unlock()
	hdr := http.Header{}
	hdr.Set("Content-Type", "application/ld+json")
	return &http.Response{StatusCode: 200, Status: "200 OK", Proto: "HTTP/1.1", ProtoMajor: 1, ProtoMinor: 1, Header: hdr,
		Body: io.NopCloser(strings.NewReader(c20ServedContext)), ContentLength: int64(len(c20ServedContext)), Request: req}, nil
}

func c20VocabDoc(ctxURL string) []byte {
	return []byte(fmt.Sprintf(`{"@context":[%q],"verifField":"x"}`, ctxURL))
}

// c20ProbeNearMisses runs the near-miss oracle against a configured loader in STRICT mode. allowed = the remote allow-list
// as configured; mapped = keys of localmapping. http.DefaultTransport must already be the c20CtxServer srv.
func c20ProbeNearMisses(x *h.Ctx, loader ld.DocumentLoader, srv *c20CtxServer, allowed, mapped []string, p c20NearParams, classPrefix string) {
	isEntry := map[string]bool{}
	for _, a := range append(append([]string{}, allowed...), mapped...) {
		isEntry[a] = true
	}
	var entries []string
	for a := range isEntry {
		entries = append(entries, a)
	}
	sort.Strings(entries)
	loaded := map[string][]string{} // group → "family url"
	for _, es := range entries {
		e, ok := c20SplitEntry(es)
		if !ok {
			continue
		}
		for _, nm := range c20NearMissesOf(e, p) {
			if isEntry[nm.URL] {
				continue // coincides with another entry
			}
			srv.rec.take()
			_, err := loader.LoadDocument(nm.URL)
			hits := srv.rec.take()
			accepted := err == nil || len(hits) > 0
			if nm.Group == "same-resource" {
				x.Classf("%snear-miss:%s:%s", classPrefix, nm.Family, map[bool]string{true: "loaded", false: "refused"}[accepted])
				continue
			}
			x.Classf("%snear-miss:%s", classPrefix, nm.Family)
			if accepted {
				loaded[nm.Group] = append(loaded[nm.Group], fmt.Sprintf("%s %s (requests=%v err=%v)", nm.Family, nm.URL, hits, err))
			}
			// the consequence: vocabulary from a refused context must not make a document acceptable
			if verr := jsonld.AllFieldsDefined(loader, c20VocabDoc(nm.URL)); verr == nil {
				loaded[nm.Group] = append(loaded[nm.Group], fmt.Sprintf("%s %s (document using its vocabulary passes AllFieldsDefined)", nm.Family, nm.URL))
			}
			srv.rec.take()
		}
	}
	var groups []string
	for g := range loaded {
		groups = append(groups, g)
	}
	sort.Strings(groups)
	for _, g := range groups {
		l := loaded[g]
		n := len(l)
		if n > 4 {
			l = append(l[:4], fmt.Sprintf("… and %d more", n-4))
		}
		x.Violate("strict-jsonld-near-miss-loaded:"+g, "strict mode, remoteallowlist=%v: context URLs that are not on the list were loaded: %s", allowed, strings.Join(l, "; "))
	}
}

// ---------------------------------------------------------------------------------------------------------------------
// the rapid unit

type c20LDCase struct {
	Strict  bool          `json:"strict"`
	List    string        `json:"list"`    // default | empty | custom
	Entries []c20Entry    `json:"entries"` // custom list
	Ch      string        `json:"ch"`      // file | env | flag
	Params  c20NearParams `json:"params"`
	Other   []string      `json:"other"` // unrelated URLs
}

func c20GenLD(t *rapid.T) c20LDCase {
	c := c20LDCase{
		Strict: rapid.IntRange(0, 4).Draw(t, "strict") != 0,
		List:   rapid.SampledFrom([]string{"default", "custom", "custom", "custom", "empty"}).Draw(t, "list"),
		Ch:     rapid.SampledFrom([]string{"file", "env", "flag"}).Draw(t, "ch"),
	}
	label := rapid.StringMatching(`[a-z][a-z0-9]{1,6}`)
	if c.List == "custom" {
		n := rapid.IntRange(1, 3).Draw(t, "n")
		for i := 0; i < n; i++ {
			e := c20Entry{Scheme: "https", Host: fmt.Sprintf("ctx%d-", i) + label.Draw(t, "host") + rapid.SampledFrom([]string{".verif-ld.nl", ".verif-ld.org", ".ld.verif-ld.nl"}).Draw(t, "dom")}
			switch rapid.IntRange(0, 4).Draw(t, "shape") {
			case 0: // bare authority, like https://schema.org
			case 1:
				e.Path = "/"
			case 2:
				e.Path = "/" + label.Draw(t, "seg") + "/v" + rapid.SampledFrom([]string{"1", "2", "10"}).Draw(t, "ver")
			case 3:
				e.Path = "/" + label.Draw(t, "seg") + "/" + label.Draw(t, "seg2") + "/" // a "directory", with trailing slash
			default:
				e.Path = "/" + label.Draw(t, "seg") + "/" + label.Draw(t, "file") + ".jsonld"
			}
			c.Entries = append(c.Entries, e)
		}
		if rapid.IntRange(0, 3).Draw(t, "with-default") == 0 {
			c.Entries = append(c.Entries, c20Entry{Scheme: "https", Host: "schema.org"})
		}
	}
	c.Params = c20NearParams{
		Evil:    rapid.SampledFrom([]string{"attacker.example", "evil.nl", "a.io", "org", "nl.evil.test"}).Draw(t, "evil"),
		Port:    rapid.SampledFrom([]string{"8443", "80", "4430", "1"}).Draw(t, "port"),
		Segment: rapid.SampledFrom([]string{"evil.jsonld", "v2", "x", "v1", "ctx.json"}).Draw(t, "segment"),
		Char:    rapid.SampledFrom([]string{"0", "x", "-", "_", ".", "~", "%20", "1"}).Draw(t, "char"),
		User:    rapid.SampledFrom([]string{"user", "schema.org", "a:b"}).Draw(t, "user"),
	}
	no := rapid.IntRange(1, 3).Draw(t, "nother")
	for i := 0; i < no; i++ {
		c.Other = append(c.Other, rapid.SampledFrom([]string{"https", "https", "http"}).Draw(t, "oscheme")+"://"+label.Draw(t, "ohost")+fmt.Sprintf(".o%d", i)+".verif-other.nl/"+label.Draw(t, "opath"))
	}
	return c
}

func c20RunLD(x *h.Ctx, c c20LDCase) {
	if len(c.Entries) > 8 || len(c.Other) > 8 {
		return
	}
	c20EnvMu.Lock()
	defer c20EnvMu.Unlock()
	mode := "nonstrict"
	if c.Strict {
		mode = "strict"
	}
	dir := c20ScratchDir(x)
	var list []string
	for _, e := range c.Entries {
		list = append(list, e.String())
	}
	y := map[string]any{"datadir": filepath.Join(dir, "data"), "verbosity": "error", "strictmode": c.Strict}
	env := map[string]string{}
	var args []string
	switch c.List {
	case "empty":
		c20SetNested(y, "jsonld.contexts.remoteallowlist", []string{})
		list = nil
	case "custom":
		switch c.Ch {
		case "env":
			env["NUTS_JSONLD_CONTEXTS_REMOTEALLOWLIST"] = strings.Join(list, ",")
		case "flag":
			args = append(args, "--jsonld.contexts.remoteallowlist="+strings.Join(list, ","))
		default:
			c20SetNested(y, "jsonld.contexts.remoteallowlist", list)
		}
	default:
		list = jsonld.DefaultAllowList()
	}
	yb, err := yaml.Marshal(y)
	x.NoErr(err, "yaml")
	cfgFile := filepath.Join(dir, "nuts.yaml")
	x.NoErr(os.WriteFile(cfgFile, yb, 0o600), "config file")
	env["NUTS_CONFIGFILE"] = cfgFile

	saved := map[string]string{}
	for _, kv := range os.Environ() {
		if strings.HasPrefix(kv, "NUTS_") {
			k, v, _ := strings.Cut(kv, "=")
			saved[k] = v
			_ = os.Unsetenv(k)
		}
	}
	for k, v := range env {
		_ = os.Setenv(k, v)
	}
	restore := func() {
		for k := range env {
			_ = os.Unsetenv(k)
		}
		for k, v := range saved {
			_ = os.Setenv(k, v)
		}
	}
	defer restore()

	// the real jsonld engine, configured through the real loading path, alone in a system
	system := core.NewSystem()
	inst := jsonld.NewJSONLDInstance()
	system.RegisterEngine(inst)
	flags := serverConfigFlags()
	x.NoErr(flags.Parse(args), "flags")
	x.NoErr(system.Load(flags), "Load")
	if system.Config.Strictmode != c.Strict {
		x.Fatalf("strictmode not loaded")
	}
	x.NoErr(system.Configure(), "Configure")
	loader := inst.DocumentLoader()

	srv := &c20CtxServer{}
	savedDefault := http.DefaultTransport
	http.DefaultTransport = srv
	defer func() { http.DefaultTransport = savedDefault }()

	var mapped []string
	for k := range jsonld.DefaultContextConfig().LocalFileMapping {
		mapped = append(mapped, k)
	}
	sort.Strings(mapped)
	isMapped := map[string]bool{}
	for _, m := range mapped {
		isMapped[m] = true
	}
	x.Classf("%s:list=%s:ch=%s", mode, c.List, c.Ch)
	for _, e := range c.Entries {
		switch {
		case e.Path == "":
			x.Class("entry:bare-authority")
		case strings.HasSuffix(e.Path, "/"):
			x.Class("entry:trailing-slash")
		default:
			x.Class("entry:document")
		}
	}
	if c.Strict && c.List != "default" {
		x.NonTrivial()
	}

	// exact entries load, in both modes
	for _, a := range list {
		srv.rec.take()
		_, err := loader.LoadDocument(a)
		hits := srv.rec.take()
		switch {
		case isMapped[a] && (err != nil || len(hits) > 0):
			x.Violate("embedded-context-not-local:"+mode, "locally mapped context %s: err=%v outbound=%v", a, err, hits)
		case !isMapped[a] && err != nil:
			// judged by the outcome, not by a recorded request: the loader caches per instance, so a URL that occurs twice
			// (duplicate list entries) is fetched once
			x.Violate("allowlisted-context-refused:"+mode, "%s mode: %s is on jsonld.contexts.remoteallowlist (%v via %s) but was not loaded: err=%v requests=%v", mode, a, list, c.Ch, err, hits)
		case !isMapped[a]:
			if verr := jsonld.AllFieldsDefined(loader, c20VocabDoc(a)); verr != nil {
				x.Violate("allowlisted-context-unusable:"+mode, "%s mode: document using the vocabulary of allow-listed context %s fails: %v", mode, a, verr)
			}
		}
	}
	for _, m := range mapped {
		srv.rec.take()
		_, err := loader.LoadDocument(m)
		if hits := srv.rec.take(); err != nil || len(hits) > 0 {
			x.Violate("embedded-context-not-local:"+mode, "locally mapped context %s: err=%v outbound=%v", m, err, hits)
		}
	}
	// unrelated URLs
	for _, u := range c.Other {
		srv.rec.take()
		_, err := loader.LoadDocument(u)
		hits := srv.rec.take()
		if c.Strict && (err == nil || len(hits) > 0) {
			x.Violate("strict-capability-present:jsonld-unlisted-remote-context", "strict mode (remoteallowlist=%v): unrelated context %s was loaded: requests=%v err=%v", list, u, hits, err)
		}
		if c.Strict {
			if verr := jsonld.AllFieldsDefined(loader, c20VocabDoc(u)); verr == nil {
				x.Violate("strict-capability-present:jsonld-unlisted-remote-context", "strict mode: a document whose vocabulary comes from unlisted context %s passes AllFieldsDefined", u)
			}
		} else if err != nil {
			x.Violate("nonstrict-capability-absent:jsonld-remote-context", "non-strict mode: unlisted context %s was not loaded: err=%v requests=%v", u, err, hits)
		} else if verr := jsonld.AllFieldsDefined(loader, c20VocabDoc(u)); verr != nil {
			x.Violate("nonstrict-capability-absent:jsonld-remote-context", "non-strict mode: a document using the vocabulary of unlisted context %s fails: %v", u, verr)
		}
	}
	if c.Strict {
		c20ProbeNearMisses(x, loader, srv, list, mapped, c.Params, "")
	} else {
		// non-strict: near-misses are ordinary unlisted URLs and are fetched
		for _, es := range list {
			e, ok := c20SplitEntry(es)
			if !ok {
				continue
			}
			for _, nm := range c20NearMissesOf(e, c.Params) {
				if nm.Family != "auth-dot-suffix" && nm.Family != "path-extra-segment" {
					continue
				}
				srv.rec.take()
				_, err := loader.LoadDocument(nm.URL)
				if hits := srv.rec.take(); err != nil {
					x.Violate("nonstrict-capability-absent:jsonld-remote-context", "non-strict mode: %s was not loaded: err=%v requests=%v", nm.URL, err, hits)
				}
			}
		}
	}
}

func TestVerif_C20_JSONLDAllowlist(t *testing.T) {
	h.Check(t, "C20", c20GenLD, c20RunLD, h.PanicIsViolation())
}

func TestVerifReplay_C20_JSONLDAllowlist(t *testing.T) {
	h.Replay(t, "C20", "TestVerif_C20_JSONLDAllowlist", c20RunLD, h.PanicIsViolation())
}
