//go:build verif

package cmd

// C20 (system level): strict mode refuses every insecure configuration it documents.
//
// A case is a configuration given as data: one value label per security-relevant dimension, the channel (yaml file,
// NUTS_* environment, command-line flag) that carries each dimension, extra unrelated non-default options and the way the
// strictmode flag itself is delivered. run() materialises the configuration twice — strictmode on and off, everything
// else identical — through the real start-up path of the `nuts server` command:
//
//	CreateSystem → CreateCommand → server sub-command flag set → ParseFlags(args) → system.Load(flags) → system.Configure()
//
// Oracle = table derived from docs/pages/deployment/configuration.rst ("Strict mode", "Secrets", "Ordering") and the
// option help texts (see c20Rules). The statement constrains WHICH configurations are refused, not the wording of the
// refusal, so a refusal is attributed to a rule by causation only: per mode the fully repaired configuration (every
// violated rule's dimension set to its secure value; unrelated options, channels and delivery untouched) must start, and
// for every violated rule the configuration that differs from it in that rule's dimension alone must fail to start
// ("X is refused" = start-up fails while only X is violated and succeeds once X alone is repaired). A configuration
// with two or more violations is additionally started as given. Non-strict mode repairs only what stops start-up in
// either mode and must then start with all strict-mode-only violations still in place. Error texts feed evidence
// classes (does today's wording name the rule?) and messages, never a verdict. Only when the fully repaired
// configuration starts in neither mode is the run inconclusive (fixture problem).
// On every configured node the documented capabilities are probed (dummy means, remote JSON-LD contexts,
// plain-http outbound requests, IAM client endpoint rules) with all outbound traffic diverted to a recorder.

import (
	"context"
	"encoding/json"
	"errors"
	"fmt"
	"io"
	"net"
	"net/http"
	"net/url"
	"os"
	"path/filepath"
	"sort"
	"strconv"
	"strings"
	"sync"
	"testing"
	"time"

	ssi "github.com/nuts-foundation/go-did"
	"github.com/nuts-foundation/go-did/vc"
	"github.com/nuts-foundation/nuts-node/auth"
	"github.com/nuts-foundation/nuts-node/auth/services"
	"github.com/nuts-foundation/nuts-node/auth/services/notary"
	"github.com/nuts-foundation/nuts-node/core"
	"github.com/nuts-foundation/nuts-node/discovery"
	httpclient "github.com/nuts-foundation/nuts-node/http/client"
	"github.com/nuts-foundation/nuts-node/jsonld"
	"github.com/nuts-foundation/nuts-node/vcr"
	"gopkg.in/yaml.v3"
	"pgregory.net/rapid"
	"verif.local/h"
)

// ---------------------------------------------------------------------------------------------------------------------
// case model

type c20Case struct {
	V        map[string]string `json:"v"`                 // dimension → value label (missing = first value of the dimension = default/secure)
	Ch       map[string]string `json:"ch,omitempty"`      // dimension → channel: file | env | flag (missing = file)
	Misc     []string          `json:"misc,omitempty"`    // unrelated non-default options (labels of c20MiscOpts)
	StrictCh string            `json:"strict_ch"`         // file | env | flag | default (strict run leaves the key unset; non-strict run uses env)
	Decoy    bool              `json:"decoy,omitempty"`   // lower-priority channel(s) carry the OPPOSITE strictmode value
	FlagEq   bool              `json:"flag_eq"`           // --key=value (true) or --key value (false) for non-boolean flags
	CfgVia   string            `json:"cfg_via,omitempty"` // how the config file location is given: env (NUTS_CONFIGFILE) | flag (--configfile)
	Spell    int               `json:"spell,omitempty"`   // spelling of the strictmode value (index into c20Spellings); 0 = true/false
}

type c20Dim struct {
	name string
	vals []string // first value is the default/secure one
}

// The security-relevant dimensions. Order is fixed (it is the materialisation order).
var c20Dims = []c20Dim{
	{"url", []string{"pub", "pub-port-path", "pub-upper-host", "http", "http-ip4", "ip4", "ip4-port", "ip6", "localhost", "tld-test", "tld-invalid", "example-com", "sub-example-org", "upper-reserved", "dot-localhost", "unset"}},
	{"tls", []string{"full", "none"}},             // node certificate + key + truststore present / absent
	{"tlsoffload", []string{"unset", "incoming"}}, // tls.offload, combined with BOTH certificate present and absent
	{"tlscertheader", []string{"unset", "set"}},   // tls.certheader
	{"legacy", []string{"unset", "certfile", "certkeyfile", "truststorefile"}},
	{"crypto", []string{"fs", "unset"}},
	{"sql", []string{"sqlite", "unset"}},
	{"validators", []string{"employeeid", "dummy", "dummy+employeeid", "Dummy-upper"}},
	{"irma", []string{"unset", "pbdf", "irma-demo"}},
	{"allowlist", []string{"default", "empty", "custom"}},
	{"didmethods", []string{"default", "web", "nuts", "nuts+web"}},
	{"intauth", []string{"unset", "token_v2"}},
	{"secret", []string{"none", "vault-token:flag", "vault-token:env", "vault-token:file", "redis-password:flag", "redis-password:env", "session-redis-password:flag", "session-redis-password:file", "sentinel-password:flag", "sentinel-password:env"}},
}

var c20MiscOpts = map[string][2]string{
	"ratelimiter-off":   {"internalratelimiter", "false"},
	"logger-json":       {"loggerformat", "json"},
	"openid4vci-off":    {"vcr.openid4vci.enabled", "false"},
	"goldenhammer-off":  {"goldenhammer.enabled", "false"},
	"httpclient-5s":     {"httpclient.timeout", "5s"},
	"netdiscovery-off":  {"network.enablediscovery", "false"},
	"tokenlifespan-120": {"auth.accesstokenlifespan", "120"},
	"httplog-nothing":   {"http.log", "nothing"},
	"httpcache-off":     {"http.cache.maxbytes", "0"}, // gates the branch in http.Engine.configureClient next to the strict-mode wiring
	"httpcache-neg":     {"http.cache.maxbytes", "-1"},
	"httpcache-tiny":    {"http.cache.maxbytes", "1"},
	"nodedid-set":       {"network.nodedid", "did:nuts:8fZvV3pUBp3ZJgAfUP8mQuVmxzXD6qnfiDEeNVHqDfKB"}, // branch in Network.Configure before the TLS refusal
	"protocols-2":       {"network.protocols", "2"},
	"auth-timeout-10":   {"auth.http.timeout", "10"}, // deprecated, gates a branch in Auth.Configure after the strict-mode wiring
	"clockskew-0":       {"auth.clockskew", "0"},
	"pki-hardfail":      {"pki.softfail", "false"},
	"authz-endpoint-on": {"auth.authorizationendpoint.enabled", "true"},
	"grpc-off":          {"network.grpcaddr", ""},
	"clientip-realip":   {"http.clientipheader", "X-Real-IP"},
}

func c20MiscNames() []string {
	var l []string
	for k := range c20MiscOpts {
		l = append(l, k)
	}
	sort.Strings(l)
	return l
}

var c20URLs = map[string]string{
	"pub":             "https://nuts.verif-node.nl",
	"pub-port-path":   "https://nuts.verif-node.nl:8443/base",
	"pub-upper-host":  "https://Nuts.Verif-Node.NL",
	"http":            "http://nuts.verif-node.nl",
	"http-ip4":        "http://192.0.2.10:8080",
	"ip4":             "https://192.0.2.10",
	"ip4-port":        "https://192.0.2.10:8443",
	"ip6":             "https://[2001:db8::10]",
	"localhost":       "https://localhost",
	"tld-test":        "https://node.nuts.test",
	"tld-invalid":     "https://nuts.invalid:8443",
	"example-com":     "https://example.com",
	"sub-example-org": "https://nuts.example.org/x",
	"upper-reserved":  "https://NUTS.EXAMPLE.NET",
	"dot-localhost":   "https://node.localhost.",
	"unset":           "",
}

func (c c20Case) val(dim string) string {
	if v, ok := c.V[dim]; ok && v != "" {
		return v
	}
	for _, d := range c20Dims {
		if d.name == dim {
			return d.vals[0]
		}
	}
	return ""
}

func (c c20Case) with(dim, val string) c20Case {
	n := c
	n.V = map[string]string{}
	for k, v := range c.V {
		n.V[k] = v
	}
	n.V[dim] = val
	return n
}

func (c c20Case) hasNuts() bool { return c.val("didmethods") != "web" }

func (c c20Case) hasDummy() bool {
	v := c.val("validators")
	return v == "dummy" || v == "dummy+employeeid" || v == "Dummy-upper"
}

func (c c20Case) hasEmployeeID() bool {
	v := c.val("validators")
	return v == "employeeid" || v == "dummy+employeeid"
}

// ---------------------------------------------------------------------------------------------------------------------
// the oracle table (docs → rule)

const (
	c20StrictOnly = iota // refused in strict mode, accepted otherwise
	c20Both              // stops start-up in either mode
	c20MayRefuse         // not a documented rule: a limitation unrelated to strict mode that may stop start-up in either mode
)

type c20Rule struct {
	id       string
	mode     int
	doc      string
	violated func(c c20Case) bool
	repair   func(c c20Case) c20Case
	dim      string                    // the dimension whose value violates the rule (repair sets it to the secure value)
	match    func(errText string) bool // HINT only (evidence classes, messages): does the error text of the code as it is today name this rule? Never part of a verdict.
}

func c20Has(subs ...string) func(string) bool {
	return func(s string) bool {
		ls := strings.ToLower(s)
		for _, sub := range subs {
			if !strings.Contains(ls, strings.ToLower(sub)) {
				return false
			}
		}
		return true
	}
}

var c20Rules = []c20Rule{
	{id: "url-insecure", dim: "url", mode: c20StrictOnly,
		doc:      "url: 'Must be HTTPS when strictmode is set'; ParsePublicURL: strict ⇒ https only, no IP, no RFC 2606 reserved name",
		violated: func(c c20Case) bool { u := c.val("url"); return u != "unset" && !strings.HasPrefix(u, "pub") },
		repair:   func(c c20Case) c20Case { return c.with("url", "pub") },
		match:    c20Has("invalid 'url'")},
	{id: "url-unset", dim: "url", mode: c20Both,
		doc:      "url: 'Public facing URL of the server (required)'",
		violated: func(c c20Case) bool { return c.val("url") == "unset" },
		repair:   func(c c20Case) c20Case { return c.with("url", "pub") },
		match:    c20Has("'url' must be configured")},
	{id: "sql-implicit", dim: "sql", mode: c20StrictOnly,
		doc:      "'the crypto.storage backend and the storage.sql.connection connection string must explicitly be set'",
		violated: func(c c20Case) bool { return c.val("sql") == "unset" },
		repair:   func(c c20Case) c20Case { return c.with("sql", "sqlite") },
		match:    c20Has("storage.sql.connection", "strict")},
	{id: "crypto-implicit", dim: "crypto", mode: c20StrictOnly,
		doc:      "'the crypto.storage backend ... must explicitly be set'",
		violated: func(c c20Case) bool { return c.val("crypto") == "unset" },
		repair:   func(c c20Case) c20Case { return c.with("crypto", "fs") },
		match:    c20Has("configure crypto", "explicit", "strict")},
	{id: "tls-off", dim: "tls", mode: c20StrictOnly,
		doc: "'Private transactions can only be exchanged over authenticated nodes. Therefore is requires TLS to be configured through tls.{certfile,certkeyfile,truststore}'; " +
			"tls.certfile / tls.certkeyfile: 'Required in strict mode' (did:nuts/gRPC network only). Independent of tls.offload / tls.certheader: offloading only concerns " +
			"INCOMING gRPC connections ('Whether to enable TLS offloading for incoming gRPC connections'), the certificate is still the client certificate of outgoing ones",
		violated: func(c c20Case) bool { return c.val("tls") == "none" && c.hasNuts() },
		repair:   func(c c20Case) c20Case { return c.with("tls", "full") },
		match:    c20Has("tls", "strict")},
	{id: "irma-scheme", dim: "irma", mode: c20StrictOnly,
		doc:      "'it requires auth.irma.schememanager=pbdf'",
		violated: func(c c20Case) bool { return c.val("irma") == "irma-demo" },
		repair:   func(c c20Case) c20Case { return c.with("irma", "pbdf") },
		match:    c20Has("irma", "pbdf")},
	{id: "url-ip6-not-a-web-did", dim: "url", mode: c20MayRefuse,
		doc:      "(not a rule) an IPv6 literal cannot be written as a did:web identifier, so the VDR refuses it whatever the mode",
		violated: func(c c20Case) bool { return c.val("url") == "ip6" },
		repair:   func(c c20Case) c20Case { return c.with("url", "pub") },
		match:    c20Has("does not represent a web did")},
	{id: "offload-without-certheader", dim: "tlscertheader", mode: c20MayRefuse,
		doc:      "(not a strict-mode rule) tls.offload: 'If enabled tls.certheader must be configured as well' - refused in either mode, but only where offloading is actually set up (certificate present, did:nuts enabled)",
		violated: func(c c20Case) bool { return c.val("tlsoffload") == "incoming" && c.val("tlscertheader") == "unset" },
		repair:   func(c c20Case) c20Case { return c.with("tlscertheader", "set") },
		match:    c20Has("tls.certheader must be configured")},
	{id: "legacy-key", dim: "legacy", mode: c20Both,
		doc:      "network.{certfile,certkeyfile,truststorefile} moved to tls.*: start-up stops in either mode",
		violated: func(c c20Case) bool { return c.val("legacy") != "unset" },
		repair:   func(c c20Case) c20Case { return c.with("legacy", "unset") },
		match:    c20Has("moved to tls")},
	{id: "cli-secret", dim: "secret", mode: c20Both,
		doc:      "'All options ending with token or password are considered secrets and can only be set through environment variables or the config file.'",
		violated: func(c c20Case) bool { return strings.HasSuffix(c.val("secret"), ":flag") },
		repair:   func(c c20Case) c20Case { return c.with("secret", "none") },
		match:    c20Has("is a secret")},
}

// ---------------------------------------------------------------------------------------------------------------------
// materialisation

type c20KV struct {
	key  string
	val  any // string | []string | bool
	ch   string
	bool bool // boolean flag (always --k=v)
}

type c20Paths struct {
	dir, datadir, cert, trust, authKeys, sqlite, discoDir string
}

// discovery service definitions whose server lives elsewhere: requests for them are forwarded by the node's long-lived
// discovery HTTP client, one to a plain-http endpoint, one to an https endpoint
const c20DiscoHTTP, c20DiscoHTTPS = "urn:verif:discovery:plain-http", "urn:verif:discovery:https"

const c20AuthorizedKey = "ssh-ed25519 AAAAC3NzaC1lZDI1NTE5AAAAIAqjXHmwbCS1JFjjqZbV9R/DwH3e9lvtqLuY8xUihXzy ed25519@test.local\n"

const c20AllowedCtx = "https://ctx.verif-allowed.nl/v1"
const c20UnlistedCtx = "https://ctx.verif-unlisted.nl/v1"

// c20ScratchDir returns a fresh directory for one case. Booting a node is dominated by fsync (bbolt, sqlite
// migrations): on a memory file system it is ~7x faster, so /dev/shm is used when it is there (directories are removed
// when the case ends; leftovers of killed runs older than an hour are swept).
var c20SweepOnce sync.Once

func c20ScratchDir(x *h.Ctx) string {
	const shm = "/dev/shm"
	if st, err := os.Stat(shm); err == nil && st.IsDir() && os.Getenv("VERIF_C20_NO_SHM") == "" {
		c20SweepOnce.Do(func() {
			old, _ := filepath.Glob(filepath.Join(shm, "verif-C20-*"))
			for _, d := range old {
				if st, err := os.Stat(d); err == nil && time.Since(st.ModTime()) > time.Hour {
					_ = os.RemoveAll(d)
				}
			}
		})
		if d, err := os.MkdirTemp(shm, "verif-C20-"); err == nil {
			x.Cleanup(func() { _ = os.RemoveAll(d) })
			return d
		}
	}
	return x.TempDir()
}

func c20Prepare(x *h.Ctx) c20Paths {
	dir := c20ScratchDir(x)
	p := c20Paths{dir: dir, datadir: filepath.Join(dir, "data"), cert: filepath.Join(dir, "certificate-and-key.pem"),
		trust: filepath.Join(dir, "truststore.pem"), authKeys: filepath.Join(dir, "authorized_keys"), sqlite: filepath.Join(dir, "sql", "nuts.db")}
	cp := func(src, dst string) {
		b, err := os.ReadFile(src)
		x.NoErr(err, "read fixture")
		x.NoErr(os.WriteFile(dst, b, 0o600), "write fixture")
	}
	cp(h.RepoPath("test/pki/certificate-and-key.pem"), p.cert)
	cp(h.RepoPath("test/pki/truststore.pem"), p.trust)
	x.NoErr(os.WriteFile(p.authKeys, []byte(c20AuthorizedKey), 0o600), "authorized_keys")
	x.NoErr(os.MkdirAll(filepath.Dir(p.sqlite), 0o755), "sql dir")
	// discovery definitions: the repository's valid example with another id and endpoint
	p.discoDir = filepath.Join(dir, "discovery")
	x.NoErr(os.MkdirAll(p.discoDir, 0o755), "discovery dir")
	tmpl, err := os.ReadFile(h.RepoPath("discovery/test/valid/eoverdracht.json"))
	x.NoErr(err, "discovery definition fixture")
	var def map[string]any
	x.NoErr(json.Unmarshal(tmpl, &def), "discovery definition fixture")
	for i, d := range [][2]string{{c20DiscoHTTP, "http://discovery.verif-remote.nl/usecase/x"}, {c20DiscoHTTPS, "https://discovery.verif-remote.nl/usecase/y"}} {
		def["id"], def["endpoint"] = d[0], d[1]
		b, _ := json.Marshal(def)
		x.NoErr(os.WriteFile(filepath.Join(p.discoDir, fmt.Sprintf("def%d.json", i)), b, 0o600), "discovery definition")
	}
	return p
}

func (c c20Case) channel(dim string) string {
	ch := c.Ch[dim]
	if ch != "env" && ch != "flag" {
		ch = "file"
	}
	return ch
}

// concrete returns the key/values the configuration consists of (without strictmode and the config file location).
func (c c20Case) concrete(p c20Paths) []c20KV {
	var out []c20KV
	add := func(dim, key string, val any) { out = append(out, c20KV{key: key, val: val, ch: c.channel(dim)}) }

	// always: fresh datadir, quiet logging
	add("datadir", "datadir", p.datadir)
	add("verbosity", "verbosity", "error")
	add("discovery", "discovery.definitions.directory", p.discoDir)

	if u := c.val("url"); u != "unset" {
		cu, ok := c20URLs[u]
		if !ok {
			cu = c20URLs["pub"]
		}
		add("url", "url", cu)
	}
	if c.val("tls") == "full" {
		add("tls", "tls.certfile", p.cert)
		add("tls", "tls.certkeyfile", p.cert)
		add("tls", "tls.truststorefile", p.trust)
	}
	if c.val("tlsoffload") == "incoming" {
		add("tlsoffload", "tls.offload", "incoming")
	}
	if c.val("tlscertheader") == "set" {
		add("tlscertheader", "tls.certheader", "X-Ssl-Client-Cert")
	}
	if l := c.val("legacy"); l != "unset" {
		ch := c.channel("legacy")
		if ch == "flag" { // there is no such flag any more; the key can only arrive through file or environment
			ch = "env"
		}
		v := p.cert
		if l == "truststorefile" {
			v = p.trust
		}
		out = append(out, c20KV{key: "network." + l, val: v, ch: ch})
	}
	if c.val("crypto") == "fs" {
		add("crypto", "crypto.storage", "fs")
	}
	if c.val("sql") == "sqlite" {
		add("sql", "storage.sql.connection", "sqlite:file:"+p.sqlite+"?_pragma=foreign_keys(1)&journal_mode(WAL)")
	}
	switch c.val("validators") {
	case "dummy":
		add("validators", "auth.contractvalidators", []string{"dummy"})
	case "dummy+employeeid":
		add("validators", "auth.contractvalidators", []string{"dummy", "employeeid"})
	case "Dummy-upper":
		add("validators", "auth.contractvalidators", []string{"Dummy"})
	default:
		add("validators", "auth.contractvalidators", []string{"employeeid"})
	}
	switch c.val("irma") {
	case "pbdf":
		add("irma", "auth.irma.schememanager", "pbdf")
	case "irma-demo":
		add("irma", "auth.irma.schememanager", "irma-demo")
	}
	switch c.val("allowlist") {
	case "empty":
		out = append(out, c20KV{key: "jsonld.contexts.remoteallowlist", val: []string{}, ch: "file"}) // an empty list can only be written in yaml
	case "custom":
		add("allowlist", "jsonld.contexts.remoteallowlist", []string{c20AllowedCtx, "https://schema.org"})
	}
	switch c.val("didmethods") {
	case "web":
		add("didmethods", "didmethods", []string{"web"})
	case "nuts":
		add("didmethods", "didmethods", []string{"nuts"})
	case "nuts+web":
		add("didmethods", "didmethods", []string{"nuts", "web"})
	}
	if c.val("intauth") == "token_v2" {
		add("intauth", "http.internal.auth.type", "token_v2")
		add("intauth", "http.internal.auth.authorizedkeyspath", p.authKeys)
		add("intauth", "http.internal.auth.audience", "verif-node")
	}
	if s := c.val("secret"); s != "none" {
		parts := strings.SplitN(s, ":", 2)
		key := map[string]string{"vault-token": "crypto.vault.token", "redis-password": "storage.redis.password",
			"session-redis-password": "storage.session.redis.password", "sentinel-password": "storage.redis.sentinel.password"}[parts[0]]
		if key != "" && len(parts) == 2 {
			out = append(out, c20KV{key: key, val: "s3cr3t-verif", ch: parts[1]})
		}
	}
	for _, m := range c.Misc {
		if kv, ok := c20MiscOpts[m]; ok {
			isBool := kv[1] == "true" || kv[1] == "false"
			out = append(out, c20KV{key: kv[0], val: kv[1], ch: c.channel("misc:" + m), bool: isBool})
		}
	}
	return out
}

type c20Delivery struct {
	yaml map[string]any
	env  map[string]string
	args []string
}

func c20SetNested(m map[string]any, key string, val any) {
	parts := strings.Split(key, ".")
	cur := m
	for _, p := range parts[:len(parts)-1] {
		nx, ok := cur[p].(map[string]any)
		if !ok {
			nx = map[string]any{}
			cur[p] = nx
		}
		cur = nx
	}
	cur[parts[len(parts)-1]] = val
}

func c20EnvKey(key string) string {
	return "NUTS_" + strings.ToUpper(strings.ReplaceAll(key, ".", "_"))
}

func c20Scalar(v any) string {
	switch t := v.(type) {
	case []string:
		return strings.Join(t, ",")
	case bool:
		if t {
			return "true"
		}
		return "false"
	default:
		return fmt.Sprint(v)
	}
}

// spellings of a boolean that the configuration loader (strconv.ParseBool semantics) documents as equivalent
var c20Spellings = [][2]string{{"true", "false"}, {"True", "False"}, {"TRUE", "FALSE"}, {"1", "0"}, {"t", "f"}}

func (c c20Case) deliver(p c20Paths, strict bool) c20Delivery {
	d := c20Delivery{yaml: map[string]any{}, env: map[string]string{}}
	put := func(kv c20KV) {
		switch kv.ch {
		case "env":
			d.env[c20EnvKey(kv.key)] = c20Scalar(kv.val)
		case "flag":
			if kv.bool || c.FlagEq {
				d.args = append(d.args, "--"+kv.key+"="+c20Scalar(kv.val))
			} else {
				d.args = append(d.args, "--"+kv.key, c20Scalar(kv.val))
			}
		default:
			c20SetNested(d.yaml, kv.key, kv.val)
		}
	}
	for _, kv := range c.concrete(p) {
		put(kv)
	}
	// strictmode itself; documented precedence CLI > ENV > config file > default (true)
	sv := func(b bool) string {
		sp := c20Spellings[0]
		if c.Spell > 0 && c.Spell < len(c20Spellings) {
			sp = c20Spellings[c.Spell]
		}
		if b {
			return sp[0]
		}
		return sp[1]
	}
	switch c.StrictCh {
	case "default":
		if !strict {
			put(c20KV{key: "strictmode", val: sv(false), ch: "env", bool: true})
		}
	case "env":
		put(c20KV{key: "strictmode", val: sv(strict), ch: "env", bool: true})
		if c.Decoy {
			c20SetNested(d.yaml, "strictmode", !strict)
		}
	case "flag":
		put(c20KV{key: "strictmode", val: sv(strict), ch: "flag", bool: true})
		if c.Decoy {
			put(c20KV{key: "strictmode", val: sv(!strict), ch: "env", bool: true})
			c20SetNested(d.yaml, "strictmode", !strict)
		}
	default:
		if c.Spell > 0 {
			c20SetNested(d.yaml, "strictmode", sv(strict)) // a yaml string, decoded weakly
		} else {
			c20SetNested(d.yaml, "strictmode", strict)
		}
	}
	return d
}

// ---------------------------------------------------------------------------------------------------------------------
// booting one configuration

var c20EnvMu sync.Mutex

type c20Boot struct {
	system  *core.System
	dials   *c20Recorder // every dial of every HTTP client the engines built on http/client's transports during Configure
	loadErr error
	confErr error
}

func (b c20Boot) err() error {
	if b.loadErr != nil {
		return b.loadErr
	}
	return b.confErr
}

// c20Start drives the real start-up path up to and including Configure. The returned stop function releases what
// Configure acquired (databases) and restores the process environment.
func c20Start(x *h.Ctx, c c20Case, p c20Paths, strict bool) (c20Boot, func()) {
	d := c.deliver(p, strict)
	// fresh data for every boot
	_ = os.RemoveAll(p.datadir)
	_ = os.RemoveAll(filepath.Dir(p.sqlite))
	x.NoErr(os.MkdirAll(filepath.Dir(p.sqlite), 0o755), "sql dir")

	cfgFile := filepath.Join(p.dir, "nuts.yaml")
	yb, err := yaml.Marshal(d.yaml)
	x.NoErr(err, "yaml")
	x.NoErr(os.WriteFile(cfgFile, yb, 0o600), "write config file")

	// environment: remove every NUTS_* variable of the process, then set ours
	saved := map[string]string{}
	for _, kv := range os.Environ() {
		if strings.HasPrefix(kv, "NUTS_") {
			k, v, _ := strings.Cut(kv, "=")
			saved[k] = v
			_ = os.Unsetenv(k)
		}
	}
	var set []string
	for k, v := range d.env {
		_ = os.Setenv(k, v)
		set = append(set, k)
	}
	args := append([]string(nil), d.args...)
	if c.CfgVia == "flag" {
		args = append(args, "--configfile="+cfgFile)
	} else {
		_ = os.Setenv("NUTS_CONFIGFILE", cfgFile)
		set = append(set, "NUTS_CONFIGFILE")
	}
	restoreEnv := func() {
		for _, k := range set {
			_ = os.Unsetenv(k)
		}
		for k, v := range saved {
			_ = os.Setenv(k, v)
		}
	}

	// globals the node writes while configuring
	savedStrict, savedCaching, savedSafe := httpclient.StrictMode, httpclient.DefaultCachingTransport, httpclient.SafeHttpTransport
	httpclient.StrictMode = false // value of a fresh process
	// The engines keep the clients they construct in Configure for the life of the process, and those hold the transport
	// that client.SafeHttpTransport named at that moment: install the dial recorder BEFORE the system is created.
	dials := &c20Recorder{}
	dialFn := func(kind string) func(ctx context.Context, network, addr string) (net.Conn, error) {
		return func(ctx context.Context, network, addr string) (net.Conn, error) {
			dials.mu.Lock()
			dials.reqs = append(dials.reqs, kind+" "+addr)
			dials.mu.Unlock()
			return nil, errC20NoNetwork
		}
	}
	httpclient.SafeHttpTransport = &http.Transport{DialContext: dialFn("plain"), DialTLSContext: dialFn("tls"), DisableKeepAlives: true}
	httpclient.DefaultCachingTransport = httpclient.SafeHttpTransport

	system := CreateSystem(func() {})
	command := CreateCommand(system)
	srv, _, err := command.Find([]string{"server"})
	if err != nil || srv == nil || srv.Name() != "server" {
		restoreEnv()
		x.Fatalf("server command not found: %v", err)
	}
	b := c20Boot{system: system, dials: dials}
	if err := srv.ParseFlags(args); err != nil {
		restoreEnv()
		x.Fatalf("flag parsing failed (harness generated an unknown flag?): %v args=%v", err, args)
	}
	b.loadErr = system.Load(srv.Flags())
	if b.loadErr == nil {
		if system.Config.Strictmode != strict {
			// documented precedence CLI > ENV > file > default was not honoured
			x.Violate(fmt.Sprintf("strictmode-precedence:ch=%s:decoy=%v:want=%v", c.StrictCh, c.Decoy, strict),
				"strictmode delivered as %v via %s (decoy=%v) but the loaded configuration has strictmode=%v", strict, c.StrictCh, c.Decoy, system.Config.Strictmode)
		}
		b.confErr = system.Configure()
	}
	stopped := false
	stop := func() {
		if stopped {
			return
		}
		stopped = true
		c20Shutdown(system)
		httpclient.StrictMode, httpclient.DefaultCachingTransport, httpclient.SafeHttpTransport = savedStrict, savedCaching, savedSafe
		restoreEnv()
	}
	return b, stop
}

// c20Shutdown releases the engines' resources. Start was never called, and several engines' Shutdown assume it was
// (nil contexts), so every engine is shut down on its own and a panic there is ignored: it is not part of the property.
func c20Shutdown(system *core.System) {
	var engines []core.Runnable
	system.VisitEngines(func(e core.Engine) {
		if r, ok := e.(core.Runnable); ok {
			engines = append(engines, r)
		}
	})
	for i := len(engines) - 1; i >= 0; i-- {
		func() {
			defer func() { _ = recover() }()
			_ = engines[i].Shutdown()
		}()
	}
}

// ---------------------------------------------------------------------------------------------------------------------
// recorder for outbound traffic

type c20Recorder struct {
	mu   sync.Mutex
	reqs []string
}

var errC20NoNetwork = errors.New("verif: no network (request recorded)")

func (r *c20Recorder) RoundTrip(req *http.Request) (*http.Response, error) {
	r.mu.Lock()
	r.reqs = append(r.reqs, req.URL.Scheme+"://"+req.URL.Host)
	r.mu.Unlock()
	if req.Body != nil {
		_, _ = io.Copy(io.Discard, req.Body)
		_ = req.Body.Close()
	}
	return nil, errC20NoNetwork
}

// c20Redirector answers every https request with 302 → http://plain.verif-remote.nl/p and every http request with 200.
type c20Redirector struct{ rec c20Recorder }

func (r *c20Redirector) RoundTrip(req *http.Request) (*http.Response, error) {
	r.rec.mu.Lock()
	r.rec.reqs = append(r.rec.reqs, req.URL.Scheme+"://"+req.URL.Host)
	r.rec.mu.Unlock()
	resp := &http.Response{StatusCode: 200, Status: "200 OK", Proto: "HTTP/1.1", ProtoMajor: 1, ProtoMinor: 1, Header: http.Header{}, Body: io.NopCloser(strings.NewReader("ok")), Request: req}
	if req.URL.Scheme == "https" {
		resp.StatusCode, resp.Status = 302, "302 Found"
		resp.Header.Set("Location", "http://plain.verif-remote.nl/p")
	}
	return resp, nil
}

func (r *c20Recorder) take() []string {
	r.mu.Lock()
	defer r.mu.Unlock()
	l := r.reqs
	r.reqs = nil
	return l
}

// ---------------------------------------------------------------------------------------------------------------------
// capability probes on a configured node

const c20Contract = "EN:PractitionerLogin:v3 I hereby declare to act on behalf of CareBears located in Caretown. This declaration is valid from Friday, 14 April 2023 13:40:00 until Saturday, 15 April 2023 13:40:00."

type c20OutURL struct {
	class  string
	url    string
	secure bool // allowed for a strict-mode node
}

var c20OutURLs = []c20OutURL{
	{"https-public", "https://as.verif-remote.nl/oauth2/x", true},
	{"http-public", "http://as.verif-remote.nl/oauth2/x", false},
	{"https-ip4", "https://192.0.2.77/oauth2/x", false},
	{"https-ip6", "https://[2001:db8::77]/oauth2/x", false},
	{"https-localhost", "https://localhost:8443/oauth2/x", false},
	{"https-reserved-tld", "https://as.remote.test/oauth2/x", false},
	{"https-example", "https://as.example.com/oauth2/x", false},
}

func c20Probe(x *h.Ctx, c c20Case, b c20Boot, strict bool) {
	mode := "nonstrict"
	if strict {
		mode = "strict"
	}
	authEngine, ok := b.system.FindEngineByName("auth").(*auth.Auth)
	if !ok || authEngine == nil || authEngine.ContractNotary() == nil {
		x.Fatalf("auth engine not found or not configured")
	}

	// --- dummy contract validator: 'auth.contractvalidators ignores the dummy option if configured' -----------------
	registered := func(means string) bool {
		_, err := authEngine.ContractNotary().CreateSigningSession(services.CreateSessionRequest{SigningMeans: means, Message: c20Contract})
		return !errors.Is(err, notary.ErrUnknownSigningMeans)
	}
	dummyVP := vc.VerifiablePresentation{Type: []ssi.URI{vc.VerifiablePresentationTypeV1URI(), ssi.MustParseURI("DummyVerifiablePresentation")}}
	// registered = treated differently from a presentation type that certainly has no verifier (no reliance on the wording)
	const noSuchVP = "VerifNoSuchPresentation"
	unknownVP := vc.VerifiablePresentation{Type: []ssi.URI{vc.VerifiablePresentationTypeV1URI(), ssi.MustParseURI(noSuchVP)}}
	_, vpErr := authEngine.ContractNotary().VerifyVP(dummyVP, nil)
	_, unkErr := authEngine.ContractNotary().VerifyVP(unknownVP, nil)
	dummyVerifier := vpErr == nil || unkErr == nil ||
		strings.ReplaceAll(vpErr.Error(), "DummyVerifiablePresentation", "T") != strings.ReplaceAll(unkErr.Error(), noSuchVP, "T")
	dummySigner := registered("dummy")
	switch {
	case strict && (dummySigner || dummyVerifier):
		x.Violate("strict-capability-present:dummy-means", "strict mode, auth.contractvalidators=%s: dummy signer registered=%v, dummy VP verifier registered=%v", c.val("validators"), dummySigner, dummyVerifier)
	case !strict && c.hasDummy() && !(dummySigner && dummyVerifier):
		x.Violate("nonstrict-capability-absent:dummy-means", "non-strict mode, auth.contractvalidators=%s: dummy signer registered=%v, verifier=%v", c.val("validators"), dummySigner, dummyVerifier)
	case !strict && !c.hasDummy() && (dummySigner || dummyVerifier):
		x.Violate("unconfigured-means-present:dummy", "dummy means registered although not configured (validators=%s)", c.val("validators"))
	}
	if c.hasDummy() {
		x.Classf("probe:dummy-configured:%s", mode)
	}
	if c.hasEmployeeID() != registered("employeeid") {
		x.Violate("means-mismatch:employeeid:"+mode, "employeeid configured=%v but registered=%v", c.hasEmployeeID(), registered("employeeid"))
	}

	// --- remote JSON-LD contexts: 'can only be downloaded from trusted domains configured in remoteallowlist' -------
	ldEngine, ok := b.system.FindEngineByName("jsonld").(jsonld.JSONLD)
	if !ok || ldEngine.DocumentLoader() == nil {
		x.Fatalf("jsonld engine not found or not configured")
	}
	rec := &c20Recorder{}
	ldSrv := &c20CtxServer{} // records and serves a context, see zz_verif_C20_jsonld_test.go
	savedDefault := http.DefaultTransport
	http.DefaultTransport = ldSrv
	_, unlistedErr := ldEngine.DocumentLoader().LoadDocument(c20UnlistedCtx)
	unlistedHits := ldSrv.rec.take()
	_, allowedErr := ldEngine.DocumentLoader().LoadDocument(c20AllowedCtx)
	allowedHits := ldSrv.rec.take()
	_, embeddedErr := ldEngine.DocumentLoader().LoadDocument("https://nuts.nl/credentials/v1")
	embeddedHits := ldSrv.rec.take()
	if strict {
		// near-miss URLs derived from every entry of the allow-list this node was configured with (and of the local mapping)
		var effective, mapped []string
		switch c.val("allowlist") {
		case "custom":
			effective = []string{c20AllowedCtx, "https://schema.org"}
		case "default":
			effective = jsonld.DefaultAllowList()
		}
		for k := range jsonld.DefaultContextConfig().LocalFileMapping {
			mapped = append(mapped, k)
		}
		sort.Strings(mapped)
		c20ProbeNearMisses(x, ldEngine.DocumentLoader(), ldSrv, effective, mapped, c20DefaultNearParams, "jsonld:")
	}
	http.DefaultTransport = savedDefault
	if strict {
		if len(unlistedHits) > 0 || unlistedErr == nil {
			x.Violate("strict-capability-present:jsonld-unlisted-remote-context", "strict mode (allowlist=%s): loading an unlisted remote context caused outbound requests %v (err=%v)", c.val("allowlist"), unlistedHits, unlistedErr)
		}
		if c.val("allowlist") == "custom" && allowedErr != nil {
			x.Violate("strict-allowlisted-context-refused", "strict mode: context %s is on jsonld.contexts.remoteallowlist but was not loaded: %v", c20AllowedCtx, allowedErr)
		}
		if c.val("allowlist") != "custom" && (len(allowedHits) > 0 || allowedErr == nil) {
			x.Violate("strict-capability-present:jsonld-unlisted-remote-context", "strict mode (allowlist=%s): %s is not listed but was fetched", c.val("allowlist"), c20AllowedCtx)
		}
	} else if unlistedErr != nil {
		x.Violate("nonstrict-capability-absent:jsonld-remote-context", "non-strict mode: unlisted remote context was not loaded (err=%v requests=%v)", unlistedErr, unlistedHits)
	}
	if embeddedErr != nil || len(embeddedHits) > 0 {
		x.Violate("embedded-context-not-local:"+mode, "locally mapped context https://nuts.nl/credentials/v1: err=%v outbound=%v", embeddedErr, embeddedHits)
	}

	// --- outbound HTTP: 'it will refuse to connect to plain HTTP endpoints when in strict mode' ----------------------
	httpclient.DefaultCachingTransport = rec
	for _, sc := range []string{"http", "https"} {
		req, _ := http.NewRequest(http.MethodGet, sc+"://peer.verif-remote.nl/x", nil)
		_, err := httpclient.NewWithCache(time.Second).Do(req)
		hits := rec.take()
		switch {
		case strict && sc == "http" && (len(hits) > 0 || err == nil):
			x.Violate("strict-capability-present:plain-http-request", "strict-mode node sent a plain-http request: %v (err=%v)", hits, err)
		case (!strict || sc == "https") && len(hits) == 0:
			x.Violate("request-refused:"+mode+":"+sc, "%s node did not send the %s request (err=%v)", mode, sc, err)
		}
	}

	// --- https endpoint answering with a redirect to http: a strict-mode node never ends up on the plain-http endpoint -----
	redir := &c20Redirector{}
	httpclient.DefaultCachingTransport = redir
	for _, ctor := range []string{"NewWithCache"} {
		req, _ := http.NewRequest(http.MethodGet, "https://redir.verif-remote.nl/r", nil)
		_, err := httpclient.NewWithCache(time.Second).Do(req)
		hits := redir.rec.take()
		plain := 0
		for _, hit := range hits {
			if strings.HasPrefix(hit, "http://") {
				plain++
			}
		}
		if strict && plain > 0 {
			x.Violate("strict-capability-present:http-after-redirect", "strict-mode node: client.%s followed a https→http redirect: %v (err=%v)", ctor, hits, err)
		}
		if len(hits) == 0 {
			x.Violate("request-refused:"+mode+":https-redirecting", "%s node did not send the https request (err=%v)", mode, err)
		}
	}
	httpclient.DefaultCachingTransport = rec

	// --- IAM client built by the configured node: endpoints are public URLs (ParsePublicURL with the node's strictmode) -
	iamClient := authEngine.IAMClient()
	ctx, cancel := context.WithTimeout(context.Background(), 5*time.Second)
	defer cancel()
	var iamAccepted, iamDetails []string
	for _, u := range c20OutURLs {
		calls := []struct {
			name string
			fn   func() error
		}{
			{"ClientMetadata", func() error { _, err := iamClient.ClientMetadata(ctx, u.url); return err }},
			{"AuthorizationServerMetadata", func() error { _, err := iamClient.AuthorizationServerMetadata(ctx, u.url); return err }},
			{"PresentationDefinition", func() error { _, err := iamClient.PresentationDefinition(ctx, u.url); return err }},
			{"OpenIDConfiguration", func() error { _, err := iamClient.OpenIDConfiguration(ctx, u.url); return err }},
		}
		for _, call := range calls {
			err := call.fn()
			hits := rec.take()
			insecureHit := false
			for _, hit := range hits {
				if !strings.HasPrefix(hit, "https://as.verif-remote.nl") {
					insecureHit = true
				}
			}
			switch {
			case strict && !u.secure && (insecureHit || err == nil):
				if len(iamAccepted) == 0 || iamAccepted[len(iamAccepted)-1] != u.class {
					iamAccepted = append(iamAccepted, u.class)
				}
				iamDetails = append(iamDetails, fmt.Sprintf("%s(%s) sent %v (err=%v)", call.name, u.url, hits, err))
			case strict && u.secure && len(hits) == 0:
				x.Violate("strict-iam-client-refuses:"+u.class, "strict-mode node: IAM client %s(%s) sent nothing (err=%v)", call.name, u.url, err)
			case !strict && len(hits) == 0:
				x.Violate("nonstrict-iam-client-refuses:"+u.class, "non-strict node: IAM client %s(%s) sent nothing (err=%v)", call.name, u.url, err)
			}
		}
	}
	if len(iamAccepted) > 0 {
		// one signature per pattern of accepted classes: the pattern (all of IP/reserved, or only one form) is what discriminates root causes
		n := len(iamDetails)
		if n > 3 {
			iamDetails = append(iamDetails[:3], fmt.Sprintf("… and %d more calls", n-3))
		}
		x.Violate("strict-iam-client-accepts:"+strings.Join(iamAccepted, "+"), "the IAM client handed out by a node configured in strict mode (auth.IAMClient()) applies non-strict endpoint rules: %s", strings.Join(iamDetails, "; "))
	}

	// --- the long-lived clients the engines built in their own Configure (before the HTTP engine, registered last, wired
	//     strict mode): each attempts a plain-http and a https request; dials are recorded by the transport installed
	//     before the system was created ------------------------------------------------------------------------------
	plainDials := func(l []string) (n int) {
		for _, d := range l {
			if strings.HasPrefix(d, "plain ") {
				n++
			}
		}
		return
	}
	engineClient := func(name string, plainHTTP bool, call func() error) {
		b.dials.take()
		err := call()
		dials := b.dials.take()
		target := "https"
		if plainHTTP {
			target = "plain-http"
		}
		x.Classf("engine-client:%s:%s:%s", name, target, mode)
		switch {
		case plainHTTP && strict && (plainDials(dials) > 0 || err == nil):
			x.Violate("strict-capability-present:plain-http-request:"+name, "strict-mode node: the %s client (constructed in the engine's Configure) connected to a plain-http endpoint: dials=%v err=%v", name, dials, err)
		case plainHTTP && !strict && plainDials(dials) == 0:
			x.Violate("request-refused:nonstrict:plain-http:"+name, "non-strict node: the %s client did not connect to the plain-http endpoint: dials=%v err=%v", name, dials, err)
		case !plainHTTP && (len(dials) == 0 || plainDials(dials) > 0):
			x.Violate("request-refused:"+mode+":https:"+name, "%s node: the %s client did not connect over TLS to the https endpoint: dials=%v err=%v", mode, name, dials, err)
		}
	}
	if disco, ok := b.system.FindEngineByName("discovery").(*discovery.Module); ok && disco != nil {
		engineClient("discovery", true, func() error { _, _, _, err := disco.Get(ctx, c20DiscoHTTP, 0); return err })
		engineClient("discovery", false, func() error { _, _, _, err := disco.Get(ctx, c20DiscoHTTPS, 0); return err })
	} else {
		x.Fatalf("discovery engine not found")
	}
	if vcrEngine, ok := b.system.FindEngineByName("vcr").(vcr.VCR); ok && vcrEngine != nil && vcrEngine.Verifier() != nil {
		for i, sc := range []string{"http", "https"} {
			cred := c20StatusListCredential(x, fmt.Sprintf("%s://status.verif-remote.nl/statuslist/%d", sc, i+1))
			engineClient("vcr-statuslist", sc == "http", func() error {
				if sc == "http" && strict {
					// the credential status check fails softly: Verify does not report it; judged by the dials only
					_ = vcrEngine.Verifier().Verify(cred, true, false, nil)
					return errC20NoNetwork
				}
				return vcrEngine.Verifier().Verify(cred, true, false, nil)
			})
		}
	} else {
		x.Fatalf("vcr engine not found or not configured")
	}

	// --- v1 relying party: 'authorization server endpoint must be HTTPS when in strict mode' (dial-level recorder) ----
	dialRec := &c20Recorder{}
	dial := func(kind string) func(ctx context.Context, network, addr string) (net.Conn, error) {
		return func(ctx context.Context, network, addr string) (net.Conn, error) {
			dialRec.mu.Lock()
			dialRec.reqs = append(dialRec.reqs, kind+" "+addr)
			dialRec.mu.Unlock()
			return nil, errC20NoNetwork
		}
	}
	httpclient.SafeHttpTransport = &http.Transport{DialContext: dial("plain"), DialTLSContext: dial("tls"), DisableKeepAlives: true}
	for _, sc := range []string{"http", "https"} {
		ep, _ := url.Parse(sc + "://as.verif-remote.nl/n2n/auth/v1/accesstoken")
		_, err := authEngine.RelyingParty().RequestRFC003AccessToken(ctx, "e30.e30.c2ln", *ep)
		dials := dialRec.take()
		switch {
		case strict && sc == "http" && (len(dials) > 0 || err == nil):
			x.Violate("strict-capability-present:plain-http-accesstoken-request", "strict-mode node: v1 relying party dialled %v for %s (err=%v)", dials, ep, err)
		case strict && sc == "https" && (len(dials) == 0 || !strings.HasPrefix(dials[0], "tls ")):
			x.Violate("request-refused:strict:https-accesstoken-request", "strict-mode node: v1 relying party did not dial TLS for %s: %v (err=%v)", ep, dials, err)
		case !strict && len(dials) == 0:
			x.Violate("request-refused:nonstrict:"+sc+"-accesstoken-request", "non-strict node: v1 relying party did not dial for %s: %v (err=%v)", ep, dials, err)
		}
	}
	x.Classf("probed:%s", mode)
}

// c20StatusListCredential is a credential whose revocation status lives in a StatusList2021 credential at statusURL.
func c20StatusListCredential(x *h.Ctx, statusURL string) vc.VerifiableCredential {
	raw := fmt.Sprintf(`{
 "@context": ["https://www.w3.org/2018/credentials/v1", "https://w3id.org/vc/status-list/2021/v1", "https://nuts.nl/credentials/v1"],
 "id": "did:web:issuer.verif-remote.nl#c20",
 "type": ["VerifiableCredential", "NutsOrganizationCredential"],
 "issuer": "did:web:issuer.verif-remote.nl",
 "issuanceDate": "2024-01-01T00:00:00Z",
 "credentialSubject": {"id": "did:web:holder.verif-remote.nl", "organization": {"name": "Verif", "city": "Nowhere"}},
 "credentialStatus": {"id": "%s#7", "type": "StatusList2021Entry", "statusPurpose": "revocation", "statusListIndex": "7", "statusListCredential": "%s"},
 "proof": {"type": "JsonWebSignature2020", "created": "2024-01-01T00:00:00Z", "proofPurpose": "assertionMethod", "verificationMethod": "did:web:issuer.verif-remote.nl#key", "jws": "e30..c2ln"}
}`, statusURL, statusURL)
	var cred vc.VerifiableCredential
	x.NoErr(json.Unmarshal([]byte(raw), &cred), "status list credential fixture")
	return cred
}

// ---------------------------------------------------------------------------------------------------------------------
// run: the strict / non-strict pair

func c20Valid(c c20Case) bool {
	for _, d := range c20Dims {
		v, ok := c.V[d.name]
		if !ok {
			continue
		}
		found := false
		for _, dv := range d.vals {
			found = found || dv == v
		}
		if !found {
			return false
		}
	}
	for _, m := range c.Misc {
		if _, ok := c20MiscOpts[m]; !ok {
			return false
		}
	}
	return true
}

func c20Run(x *h.Ctx, c c20Case) {
	if !c20Valid(c) {
		return
	}
	c20EnvMu.Lock() // the process environment and the http client package variables are process-global
	defer c20EnvMu.Unlock()
	p := c20Prepare(x)

	strictViolations := 0
	for _, r := range c20Rules {
		if r.mode != c20MayRefuse && r.violated(c) {
			x.Classf("violates:%s", r.id)
			strictViolations++
		}
	}
	if c.hasDummy() {
		x.Class("violates:dummy-means(capability)")
		strictViolations++
	}
	x.Classf("rules-violated:%d", strictViolations)
	x.Classf("url:%s", c.val("url"))
	x.Classf("strict-delivery:%s:decoy=%v", c.StrictCh, c.Decoy)
	if c.Spell > 0 && c.Spell < len(c20Spellings) {
		x.Classf("strict-spelling:%s", c20Spellings[c.Spell][0])
	}
	x.Classf("didmethods:%s", c.val("didmethods"))
	// unrelated non-default options: dimensions that belong to no violated rule and are not at their default
	unrelated := len(c.Misc)
	for _, dim := range []string{"allowlist", "intauth", "didmethods"} {
		for _, d := range c20Dims {
			if d.name == dim && c.val(dim) != d.vals[0] {
				unrelated++
			}
		}
	}
	if c.val("tlsoffload") == "incoming" || c.val("tlscertheader") == "set" {
		unrelated++
		x.Classf("tls:%s:offload=%s:certheader=%s:nuts=%v", c.val("tls"), c.val("tlsoffload"), c.val("tlscertheader"), c.hasNuts())
	}
	if strings.HasSuffix(c.val("secret"), ":env") || strings.HasSuffix(c.val("secret"), ":file") {
		unrelated++
	}
	for _, ch := range c.Ch {
		if ch == "env" || ch == "flag" {
			x.Class("channel:" + ch)
		}
	}
	if strictViolations >= 1 && unrelated >= 1 {
		x.NonTrivial()
	}
	if strictViolations == 0 {
		x.Class("secure-configuration")
	}

	// Attribution is by CAUSATION, never by the wording of an error: a rule counts as refused when start-up fails with that
	// rule's dimension at its violating value and everything else that could stop start-up repaired, while the fully
	// repaired configuration (same unrelated options, same channels) starts. Error texts only feed evidence classes.
	var active []c20Rule
	for _, r := range c20Rules {
		if r.violated(c) {
			active = append(active, r)
		}
	}
	full := c
	for _, r := range active {
		full = r.repair(full)
	}
	isolate := func(base c20Case, r c20Rule) c20Case { return base.with(r.dim, c.val(r.dim)) }
	boot := func(cfg c20Case, strict bool) (c20Boot, func()) {
		b, stop := c20Start(x, cfg, p, strict)
		x.Cleanup(stop)
		return b, stop
	}
	hint := func(r c20Rule, err error) {
		if r.match(err.Error()) {
			x.Classf("refusal-text:names-the-rule:%s", r.id)
		} else {
			x.Classf("refusal-text:other-wording:%s", r.id)
		}
	}
	acceptSig := func(r c20Rule, mode string) string {
		if r.mode == c20Both {
			return fmt.Sprintf("accepts:%s:%s", r.id, mode)
		}
		sig := "strict-accepts:" + r.id
		if r.id == "url-insecure" {
			sig += ":" + c.val("url")
		}
		return sig
	}

	// ---- strict mode ------------------------------------------------------------------------------------------------
	bs, stopS := boot(full, true)
	strictBaseOK := bs.err() == nil
	if !strictBaseOK {
		stopS()
		bn, stopN := boot(full, false)
		errN := bn.err()
		stopN()
		if errN != nil {
			x.Fatalf("the fully repaired configuration does not start in either mode (fixture problem): strict: %v | non-strict: %v\nvalues=%v ch=%v misc=%v", bs.err(), errN, full.V, full.Ch, full.Misc)
		}
		x.Violate("refuses-compliant:strict", "strict mode refuses a configuration that complies with every documented rule and starts in non-strict mode: %v; values=%v misc=%v", bs.err(), full.V, full.Misc)
	} else {
		c20Probe(x, full, bs, true)
		x.Class("base-starts:strict")
		stopS()
		demanded := 0
		for _, r := range active {
			if r.mode == c20MayRefuse {
				continue
			}
			demanded++
			b, stop := boot(isolate(full, r), true)
			err := b.err()
			stop()
			if err == nil {
				x.Violate(acceptSig(r, "strict"), "strict mode: a configuration whose only violation is '%s' (%s) configured without error; values=%v misc=%v", r.id, r.doc, isolate(full, r).V, c.Misc)
				continue
			}
			hint(r, err)
			x.Classf("refused:strict:%s", r.id)
			if b.loadErr != nil {
				x.Classf("refused-at-load:%s", r.id)
			}
		}
		if demanded >= 2 {
			// the configuration as given, with all its violations at once
			b, stop := boot(c, true)
			err := b.err()
			stop()
			if err == nil {
				var ids []string
				for _, r := range active {
					if r.mode != c20MayRefuse {
						ids = append(ids, r.id)
					}
				}
				x.Violate("strict-accepts-combination:"+strings.Join(ids, "+"), "strict mode: the configuration violating %v at once configured without error although each violation alone is refused; values=%v misc=%v", ids, c.V, c.Misc)
			}
			x.Class("combination-booted:strict")
		}
	}

	// ---- non-strict mode: the same settings; only what stops start-up in either mode is repaired -------------------------
	baseNS := c
	nsDims := map[string]bool{}
	for _, r := range active {
		if r.mode != c20StrictOnly {
			baseNS = r.repair(baseNS)
			nsDims[r.dim] = true
		}
	}
	bn, stopN := boot(baseNS, false)
	if errN := bn.err(); errN != nil {
		stopN()
		var culprits []string
		for _, r := range active {
			if r.mode != c20StrictOnly || nsDims[r.dim] {
				continue
			}
			b, stop := boot(isolate(full, r), false)
			if b.err() != nil {
				culprits = append(culprits, r.id)
			}
			stop()
		}
		switch {
		case len(culprits) > 0:
			for _, id := range culprits {
				x.Violate("nonstrict-refuses:"+id, "non-strict mode refuses a setting that is documented as strict-mode only (%s): %v", id, errN)
			}
		case !strictBaseOK:
			// already reported above
		default:
			bf, stopF := boot(full, false)
			errF := bf.err()
			stopF()
			if errF != nil {
				x.Violate("refuses-compliant:nonstrict", "non-strict mode refuses a fully compliant configuration that starts in strict mode: %v; values=%v misc=%v", errF, full.V, full.Misc)
			} else {
				x.Violate("nonstrict-refuses-combination", "non-strict mode refuses the combination of strict-mode-only settings %v although each alone is accepted: %v", baseNS.V, errN)
			}
		}
	} else {
		c20Probe(x, baseNS, bn, false)
		x.Class("base-starts:nonstrict")
		stopN()
		for _, r := range active {
			if r.mode != c20Both {
				continue
			}
			b, stop := boot(isolate(baseNS, r), false)
			err := b.err()
			stop()
			if err == nil {
				x.Violate(acceptSig(r, "nonstrict"), "non-strict mode: a configuration violating '%s' (%s) configured without error; values=%v misc=%v", r.id, r.doc, isolate(baseNS, r).V, c.Misc)
				continue
			}
			hint(r, err)
			x.Classf("refused:nonstrict:%s", r.id)
		}
	}
}

// ---------------------------------------------------------------------------------------------------------------------
// generators

func c20GenRandom(t *rapid.T) c20Case {
	c := c20Case{V: map[string]string{}, Ch: map[string]string{}}
	// number of deviations from the secure baseline: mostly 1–3 so that single rules are met with everything else secure
	k := rapid.SampledFrom([]int{0, 1, 1, 1, 2, 2, 3, 4, 6}).Draw(t, "deviations")
	dimIdx := rapid.SliceOfNDistinct(rapid.IntRange(0, len(c20Dims)-1), k, k, rapid.ID[int]).Draw(t, "dims")
	sort.Ints(dimIdx)
	for _, i := range dimIdx {
		d := c20Dims[i]
		c.V[d.name] = rapid.SampledFrom(d.vals[1:]).Draw(t, "val:"+d.name)
	}
	// the did:nuts TLS rule needs TLS off: make it frequent enough
	if rapid.IntRange(0, 5).Draw(t, "tls-off") == 0 {
		c.V["tls"] = "none"
		// "TLS off" must be refused whatever the offloading options say
		if rapid.Bool().Draw(t, "tls-off-offload") {
			c.V["tlsoffload"] = "incoming"
		}
		if rapid.Bool().Draw(t, "tls-off-certheader") {
			c.V["tlscertheader"] = "set"
		}
	}
	chans := []string{"file", "file", "env", "flag"}
	for _, d := range c20Dims {
		c.Ch[d.name] = rapid.SampledFrom(chans).Draw(t, "ch:"+d.name)
	}
	c.Ch["datadir"] = rapid.SampledFrom(chans).Draw(t, "ch:datadir")
	c.Ch["verbosity"] = rapid.SampledFrom(chans).Draw(t, "ch:verbosity")
	nm := rapid.SampledFrom([]int{0, 1, 1, 2, 3}).Draw(t, "nmisc")
	names := c20MiscNames()
	mi := rapid.SliceOfNDistinct(rapid.IntRange(0, len(names)-1), nm, nm, rapid.ID[int]).Draw(t, "misc")
	sort.Ints(mi)
	for _, i := range mi {
		c.Misc = append(c.Misc, names[i])
		c.Ch["misc:"+names[i]] = rapid.SampledFrom(chans).Draw(t, "ch:misc")
	}
	c.StrictCh = rapid.SampledFrom([]string{"file", "env", "flag", "default"}).Draw(t, "strict_ch")
	if c.StrictCh == "env" || c.StrictCh == "flag" {
		c.Decoy = rapid.Bool().Draw(t, "decoy")
	}
	c.FlagEq = rapid.Bool().Draw(t, "flag_eq")
	c.CfgVia = rapid.SampledFrom([]string{"env", "flag"}).Draw(t, "cfg_via")
	c.Spell = rapid.SampledFrom([]int{0, 0, 0, 1, 2, 3, 4}).Draw(t, "spell")
	return c
}

// c20Pairwise enumerates a pairwise-complete covering set over the dimensions (plus the delivery dimensions)
// deterministically: greedy row construction, ties broken by value order.
func c20PairwiseRows() []c20Case {
	type dim struct {
		name string
		vals []string
	}
	var dims []dim
	for _, d := range c20Dims {
		dims = append(dims, dim{d.name, d.vals})
	}
	dims = append(dims,
		dim{"#misc", append([]string{"none"}, c20MiscNames()...)},
		dim{"#chan", []string{"file", "env", "flag", "rot-a", "rot-b"}},
		dim{"#strict", []string{"file", "env", "env+decoy", "flag", "flag+decoy", "default"}},
		dim{"#syntax", []string{"eq+cfgenv", "space+cfgflag"}},
	)
	type pair struct{ a, va, b, vb int }
	uncovered := map[pair]bool{}
	for a := 0; a < len(dims); a++ {
		for b := a + 1; b < len(dims); b++ {
			for va := range dims[a].vals {
				for vb := range dims[b].vals {
					uncovered[pair{a, va, b, vb}] = true
				}
			}
		}
	}
	var rows [][]int
	for len(uncovered) > 0 {
		// seed the row with the lexicographically first uncovered pair, then fill the other dimensions greedily
		var seed pair
		first := true
		for p := range uncovered {
			if first || p.a < seed.a || (p.a == seed.a && (p.va < seed.va || (p.va == seed.va && (p.b < seed.b || (p.b == seed.b && p.vb < seed.vb))))) {
				seed, first = p, false
			}
		}
		row := make([]int, len(dims))
		for i := range row {
			row[i] = -1
		}
		row[seed.a], row[seed.b] = seed.va, seed.vb
		for d := 0; d < len(dims); d++ {
			if row[d] >= 0 {
				continue
			}
			best, bestGain := 0, -1
			for v := range dims[d].vals {
				gain := 0
				for o := 0; o < len(dims); o++ {
					if o == d || row[o] < 0 {
						continue
					}
					var p pair
					if o < d {
						p = pair{o, row[o], d, v}
					} else {
						p = pair{d, v, o, row[o]}
					}
					if uncovered[p] {
						gain++
					}
				}
				if gain > bestGain {
					best, bestGain = v, gain
				}
			}
			row[d] = best
		}
		for a := 0; a < len(dims); a++ {
			for b := a + 1; b < len(dims); b++ {
				delete(uncovered, pair{a, row[a], b, row[b]})
			}
		}
		rows = append(rows, row)
	}
	var out []c20Case
	for _, row := range rows {
		c := c20Case{V: map[string]string{}, Ch: map[string]string{}}
		var chanPlan string
		for i, d := range dims {
			v := d.vals[row[i]]
			switch d.name {
			case "#misc":
				if v != "none" {
					c.Misc = []string{v}
				}
			case "#chan":
				chanPlan = v
			case "#strict":
				c.StrictCh = strings.TrimSuffix(v, "+decoy")
				c.Decoy = strings.HasSuffix(v, "+decoy")
			case "#syntax":
				c.FlagEq = v == "eq+cfgenv"
				c.CfgVia = map[bool]string{true: "env", false: "flag"}[c.FlagEq]
			default:
				if row[i] != 0 {
					c.V[d.name] = v
				}
			}
		}
		rot := []string{"file", "env", "flag"}
		names := []string{"datadir", "verbosity"}
		for _, d := range c20Dims {
			names = append(names, d.name)
		}
		for _, m := range c.Misc {
			names = append(names, "misc:"+m)
		}
		for i, n := range names {
			switch chanPlan {
			case "rot-a":
				c.Ch[n] = rot[i%3]
			case "rot-b":
				c.Ch[n] = rot[(i+len(out)+1)%3]
			default:
				c.Ch[n] = chanPlan
			}
		}
		out = append(out, c)
	}
	return out
}

// c20SingleRows: every value of every dimension as the only deviation from the secure baseline, once per channel
// (the exhaustive "one rule at a time" sub-space; one unrelated option rides along), plus the full didmethods x certificate x tls.offload x tls.certheader product.
func c20SingleRows() []c20Case {
	var out []c20Case
	i := 0
	for _, d := range c20Dims {
		for _, v := range d.vals[1:] {
			for _, ch := range []string{"file", "env", "flag"} {
				c := c20Case{V: map[string]string{d.name: v}, Ch: map[string]string{d.name: ch}, FlagEq: i%2 == 0,
					StrictCh: []string{"file", "env", "flag", "default"}[i%4], CfgVia: []string{"env", "flag"}[i%2], Spell: (i / 4) % len(c20Spellings)}
				// one unrelated non-default option rides along (rotating), on its own rotating channel
				m := c20MiscNames()[i%len(c20MiscNames())]
				c.Misc = []string{m}
				c.Ch["misc:"+m] = []string{"file", "env", "flag"}[(i/3)%3]
				i++
				out = append(out, c)
			}
		}
	}
	for _, dm := range []string{"default", "web", "nuts", "nuts+web"} {
		for j, tls := range []string{"none:unset:unset", "none:incoming:unset", "none:incoming:set", "none:unset:set", "full:unset:unset", "full:incoming:unset", "full:incoming:set", "full:unset:set"} {
			pp := strings.Split(tls, ":")
			ch := []string{"file", "env", "flag"}
			out = append(out, c20Case{V: map[string]string{"didmethods": dm, "tls": pp[0], "tlsoffload": pp[1], "tlscertheader": pp[2]},
				Ch:       map[string]string{"tls": ch[j%3], "tlsoffload": ch[(j+1)%3], "tlscertheader": ch[(j+2)%3]},
				StrictCh: []string{"default", "file", "env", "flag"}[j%4], FlagEq: j%2 == 0})
		}
	}
	return out
}

// c20Shard lets the driver split an enumeration over processes (VERIF_SHARD of VERIF_SHARDS): row i goes to shard i mod n.
func c20Shard(rows []c20Case) []c20Case {
	n, _ := strconv.Atoi(os.Getenv("VERIF_SHARDS"))
	k, _ := strconv.Atoi(os.Getenv("VERIF_SHARD"))
	if n <= 1 || k < 0 || k >= n {
		return rows
	}
	var out []c20Case
	for i, r := range rows {
		if i%n == k {
			out = append(out, r)
		}
	}
	return out
}

func TestVerif_C20_Pairwise(t *testing.T) {
	h.Each(t, "C20", func(yield func(c20Case) bool) {
		for _, c := range c20Shard(c20PairwiseRows()) {
			if !yield(c) {
				return
			}
		}
	}, c20Run)
}

func TestVerifReplay_C20_Pairwise(t *testing.T) {
	h.Replay(t, "C20", "TestVerif_C20_Pairwise", c20Run)
}

func TestVerif_C20_Single(t *testing.T) {
	h.Each(t, "C20", func(yield func(c20Case) bool) {
		for _, c := range c20Shard(c20SingleRows()) {
			if !yield(c) {
				return
			}
		}
	}, c20Run)
}

func TestVerifReplay_C20_Single(t *testing.T) {
	h.Replay(t, "C20", "TestVerif_C20_Single", c20Run)
}

func TestVerif_C20_Random(t *testing.T) { h.Check(t, "C20", c20GenRandom, c20Run) }

func TestVerifReplay_C20_Random(t *testing.T) {
	h.Replay(t, "C20", "TestVerif_C20_Random", c20Run)
}
