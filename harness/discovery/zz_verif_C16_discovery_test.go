//go:build verif

package discovery

// C16: discovery lists hold only verified registrations and clients converge to them.
//
// System under test: one server Module and 1–2 client Modules, each on its own sqlite database, wired together by an
// in-process client.HTTPClient (JSON round trip, no sockets). Verification is REAL (vcr/verifier over did:jwk and did:key
// subjects, JWT presentations and JWT credentials signed with in-memory P-256 keys); the verifier of every node is wrapped
// only to LOG which presentations that node verified itself.
//
// Time: the code reads the wall clock and has no injectable clock. Every generated `exp` is an offset (in units of 1000 s)
// from the instant the case starts, far enough from every limit that the few milliseconds a case takes do not matter.
// "Time passes" is simulated by a model clock T: every presentation whose offset is <= T has its `presentation_expiration`
// column rewritten to the past in EVERY database that holds it (re-applied after every step, so that a copy fetched later
// is aged as well). Nothing sleeps. A presentation of a subject never expires before an earlier one of the same subject
// (refreshes and retractions are built as the real client builds them: at least as long-lived as what they replace).
//
// Poll racing a registration: a gorm callback on the server database fires after the FIRST query of sqlStore.get and runs
// the registration there, i.e. deterministically between the two reads (whichever order they are in).
//
// Two overlapping activities of ONE client node (periodic loop / the poll ActivateServiceForSubject triggers / background
// validation): op "overlap", zz_verif_C16_overlap_test.go (suspension points: link.beforeGet, link.afterGet, c16Verifier.onVerify).

import (
	"context"
	"crypto/ecdsa"
	"crypto/elliptic"
	"crypto/rand"
	"encoding/base64"
	"encoding/json"
	"errors"
	"fmt"
	"os"
	"path/filepath"
	"sort"
	"strconv"
	"strings"
	"sync"
	"testing"
	"time"

	"github.com/lestrrat-go/jwx/v2/jwa"
	"github.com/lestrrat-go/jwx/v2/jwk"
	"github.com/lestrrat-go/jwx/v2/jws"
	"github.com/lestrrat-go/jwx/v2/jwt"
	"github.com/mr-tron/base58"
	"github.com/multiformats/go-multicodec"
	ssi "github.com/nuts-foundation/go-did"
	"github.com/nuts-foundation/go-did/did"
	"github.com/nuts-foundation/go-did/vc"
	"github.com/nuts-foundation/nuts-node/core"
	"github.com/nuts-foundation/nuts-node/jsonld"
	"github.com/nuts-foundation/nuts-node/storage"
	"github.com/nuts-foundation/nuts-node/vcr"
	"github.com/nuts-foundation/nuts-node/vcr/credential"
	"github.com/nuts-foundation/nuts-node/vcr/revocation"
	"github.com/nuts-foundation/nuts-node/vcr/verifier"
	"github.com/nuts-foundation/nuts-node/vdr/didjwk"
	"github.com/nuts-foundation/nuts-node/vdr/didkey"
	"github.com/nuts-foundation/nuts-node/vdr/resolver"
	"gorm.io/gorm"
	"pgregory.net/rapid"
	"verif.local/h"
)

const (
	c16ServiceID   = "c16_usecase"
	c16Endpoint    = "http://server.test/discovery/c16_usecase"
	c16MaxValidity = 1000000 // seconds
	c16Unit        = 1000    // seconds per offset unit: no real-time effect can come near it
	c16MaxOff      = 980     // largest valid exp offset (980 000 s: 20 000 s below the maximum)
	c16MaxClock    = 900     // the model clock never passes this, so that there is always room for a fresh valid exp
	c16MaxSubjects = 4       // subjects the ordinary ops of one history draw from
	c16PoolSize    = 8       // identities available (the concurrent burst uses up to all of them)
)

// ---------------------------------------------------------------------------------------------------------------------
// case

type c16Op struct {
	K string `json:"k"`           // reg | retract | bad | badretract | credreg | validate | loop | outage | racereg | burst | selfpoll | overlap | advance | poll | racepoll | reset | restart | srestart | get | settle | inject
	S int    `json:"s,omitempty"` // subject index
	C int    `json:"c,omitempty"` // client index
	D int    `json:"d,omitempty"` // reg/retract/bad: exp delta (units) · advance: clock delta · get: timestamp selector · reset: repopulation count
	M string `json:"m,omitempty"` // retract: own|other|unknown|creds|nojti · bad/badretract/inject: defect · racepoll: reg|retract · overlap: <at>:<what>:<outer> (see zz_verif_C16_overlap_test.go)
	F int    `json:"f,omitempty"` // poll/validate/loop: bit i set = on this client, during this op, verification of presentations signed by subject i FAILS · overlap: the same, during the overtaking activity only
	N int    `json:"n,omitempty"` // burst: number of concurrent registrations · racereg: selector of the second subject · overlap: subject of the change on the server, relative to S
	V bool   `json:"v,omitempty"` // poll: also run the background validate() · reg: submit through client 0 (forwarding) · overlap: the overtaking poll is followed by validate()
}

type c16Case struct {
	Clients  int     `json:"clients"`
	Subjects int     `json:"subjects"`
	Ops      []c16Op `json:"ops"`
}

var c16Defects = []string{"notjwt", "noid", "aud", "noaud", "noexp", "toolong", "expired", "outlive", "method", "surplus",
	"surplusdup", "missing", "missingreg", "forged", "tampered", "otherkey", "foreigncred", "impersonate", "wrongissuer", "credforged", "duplicate"}

// c16Reasons: the error text a defective registration is expected to be refused with. Evidence only (class counters).
var c16Reasons = map[string]string{
	"defect-notjwt":  "only JWT presentations are supported",
	"defect-noid":    "presentation does not have an ID",
	"defect-aud":     "aud claim is missing or invalid",
	"defect-noaud":   "aud claim is missing or invalid",
	"defect-noexp":   "presentation does not have an expiration",
	"defect-toolong": "presentation is valid for too long",
	"defect-expired": "presentation verification failed",
	"defect-outlive": "presentation is valid longer than the credential(s) it contains",
	"defect-outlive-membership-credential:rm":   "presentation is valid longer than the credential(s) it contains",
	"defect-outlive-membership-credential:mr":   "presentation is valid longer than the credential(s) it contains",
	"defect-outlive-registration-credential:rm": "presentation is valid longer than the credential(s) it contains",
	"defect-outlive-registration-credential:mr": "presentation is valid longer than the credential(s) it contains",
	"defect-outlive-both-credential:rm":         "presentation is valid longer than the credential(s) it contains",
	"defect-outlive-both-credential:mr":         "presentation is valid longer than the credential(s) it contains",
	"defect-method":                             "DID methods not supported",
	"defect-surplus":                            "presentation does not fulfill Presentation ServiceDefinition",
	"defect-surplusdup":                         "presentation does not fulfill Presentation ServiceDefinition",
	"defect-missing":                            "doesn't match required presentation definition",
	"defect-missingreg":                         "doesn't match required presentation definition",
	"defect-wrongissuer":                        "doesn't match required presentation definition",
	"defect-forged":                             "presentation verification failed",
	"defect-otherkey":                           "presentation verification failed",
	"defect-tampered":                           "presentation verification failed",
	"defect-foreigncred":                        "presentation verification failed",
	"defect-impersonate":                        "presentation verification failed",
	"defect-credforged":                         "presentation verification failed",
	"defect-duplicate":                          "presentation already exists",
	"retract-defect-notjwt":                     "only JWT presentations are supported",
	"retract-defect-noid":                       "presentation does not have an ID",
	"retract-defect-aud":                        "aud claim is missing or invalid",
	"retract-defect-noaud":                      "aud claim is missing or invalid",
	"retract-defect-noexp":                      "presentation does not have an expiration",
	"retract-defect-toolong":                    "presentation is valid for too long",
	"retract-defect-toolong10y":                 "presentation is valid for too long",
	"retract-defect-expired":                    "presentation verification failed",
	"retract-defect-method":                     "DID methods not supported",
	"retract-defect-forged":                     "presentation verification failed",
	"retract-defect-tampered":                   "presentation verification failed",
	"retract-defect-otherkey":                   "presentation verification failed",
	"retract-nothing":                           "retraction presentation refers to a non-existing presentation",
	"retract-unknown":                           "retraction presentation refers to a non-existing presentation",
	"retract-someone-elses":                     "retraction presentation refers to a non-existing presentation",
	"retract-with-credentials":                  "retraction presentation must not contain credentials",
	"retract-without-jti":                       "invalid/missing 'retract_jti' claim",
}

// c16RetractDefects: the generic presentation defects, applied to an otherwise valid retraction of the signer's own live entry.
// A retraction is listed only if it is a verifiable JWT presentation with an id, addressed to the service, with an expiry
// within the service's maximum validity, signed by a DID of an allowed method that signed an existing entry, without credentials.
var c16RetractDefects = []string{"notjwt", "noid", "aud", "noaud", "noexp", "toolong", "toolong", "toolong10y", "expired", "method",
	"forged", "tampered", "otherkey"}

var c16RetractModes = []string{"own", "own", "own", "own", "other", "unknown", "creds", "nojti"}

var c16InjectDefects = []string{"forged", "aud", "wrongissuer"}

func c16Gen(t *rapid.T) c16Case {
	c := c16Case{
		Clients:  rapid.IntRange(1, 2).Draw(t, "clients"),
		Subjects: rapid.IntRange(2, c16MaxSubjects).Draw(t, "subjects"),
	}
	n := rapid.IntRange(3, 28).Draw(t, "n")
	kinds := []string{
		"reg", "reg", "reg", "reg", "reg", "reg", "reg", "reg",
		"retract", "retract", "retract",
		"bad", "bad", "bad", "bad", "bad", "bad",
		"advance", "advance",
		"poll", "poll", "poll", "poll", "poll", "poll",
		"racepoll", "racepoll",
		"reset", "reset",
		"restart", "srestart",
		"get", "get",
		"settle",
		"inject",
		"badretract", "badretract", "badretract",
		"credreg", "credreg", "credreg",
		"validate", "validate", "loop", "outage", "outage",
		"racereg", "racereg", "burst", "selfpoll", "selfpoll",
		"overlap", "overlap", "overlap", "overlap",
	}
	for i := 0; i < n; i++ {
		k := rapid.SampledFrom(kinds).Draw(t, "k")
		op := c16Op{K: k}
		switch k {
		case "reg":
			op.S = rapid.IntRange(0, c.Subjects-1).Draw(t, "s")
			op.D = rapid.IntRange(1, 60).Draw(t, "d")
			op.V = rapid.IntRange(0, 4).Draw(t, "via") == 0
		case "retract":
			op.S = rapid.IntRange(0, c.Subjects-1).Draw(t, "s")
			op.D = rapid.IntRange(1, 60).Draw(t, "d")
			op.M = rapid.SampledFrom(c16RetractModes).Draw(t, "m")
		case "bad":
			op.S = rapid.IntRange(0, c.Subjects-1).Draw(t, "s")
			op.D = rapid.IntRange(1, 60).Draw(t, "d")
			op.M = rapid.SampledFrom(c16Defects).Draw(t, "m")
		case "credreg":
			op.S = rapid.IntRange(0, c.Subjects-1).Draw(t, "s")
			op.D = rapid.IntRange(2, 60).Draw(t, "d")
			op.M = rapid.SampledFrom([]string{"rm", "mr"}).Draw(t, "order") + ":" +
				rapid.SampledFrom([]string{"b", "b", "e", "a", "n"}).Draw(t, "mexp") + ":" +
				rapid.SampledFrom([]string{"n", "n", "n", "b", "a"}).Draw(t, "rexp")
		case "badretract":
			op.S = rapid.IntRange(0, c.Subjects-1).Draw(t, "s")
			op.D = rapid.IntRange(1, 60).Draw(t, "d")
			op.M = rapid.SampledFrom(c16RetractDefects).Draw(t, "m")
		case "inject":
			op.S = rapid.IntRange(0, c.Subjects-1).Draw(t, "s")
			op.D = rapid.IntRange(1, 60).Draw(t, "d")
			op.M = rapid.SampledFrom(c16InjectDefects).Draw(t, "m")
		case "advance":
			op.D = rapid.IntRange(1, 80).Draw(t, "d")
		case "poll":
			op.C = rapid.IntRange(0, c.Clients-1).Draw(t, "c")
			op.V = rapid.Bool().Draw(t, "v")
			op.F = c16GenMask(t, c.Subjects)
		case "validate", "loop":
			op.C = rapid.IntRange(0, c.Clients-1).Draw(t, "c")
			op.F = c16GenMask(t, c.Subjects)
		case "outage":
			op.C = rapid.IntRange(0, c.Clients-1).Draw(t, "c")
			op.S = rapid.IntRange(0, c.Subjects-1).Draw(t, "s")
			op.D = rapid.IntRange(1, 60).Draw(t, "d")
			op.F = c16GenMask(t, c.Subjects)
		case "racereg":
			op.S = rapid.IntRange(0, c.Subjects-1).Draw(t, "s")
			op.N = rapid.IntRange(0, c16MaxSubjects).Draw(t, "s2")
			op.D = rapid.IntRange(1, 60).Draw(t, "d")
			op.M = rapid.SampledFrom([]string{"0", "1", "1", "2"}).Draw(t, "at")
		case "burst":
			op.N = rapid.IntRange(2, c16PoolSize).Draw(t, "n")
			op.D = rapid.IntRange(1, 60).Draw(t, "d")
		case "selfpoll":
			op.S = rapid.IntRange(0, c.Subjects-1).Draw(t, "s")
			op.D = rapid.IntRange(1, 60).Draw(t, "d")
			op.M = rapid.SampledFrom([]string{"none", "reg", "retract", "reg2", "reg2", "retract2"}).Draw(t, "m")
		case "racepoll":
			op.C = rapid.IntRange(0, c.Clients-1).Draw(t, "c")
			op.S = rapid.IntRange(0, c.Subjects-1).Draw(t, "s")
			op.D = rapid.IntRange(1, 60).Draw(t, "d")
			op.M = rapid.SampledFrom([]string{"reg", "reg", "reg", "retract"}).Draw(t, "m")
		case "overlap":
			c16GenOverlap(t, c, &op)
		case "reset":
			op.D = rapid.IntRange(0, c16MaxSubjects).Draw(t, "repop")
		case "restart", "settle":
			op.C = rapid.IntRange(0, c.Clients-1).Draw(t, "c")
		case "get":
			op.D = rapid.IntRange(0, 6).Draw(t, "ts")
		}
		c.Ops = append(c.Ops, op)
	}
	return c
}

// c16GenMask: which subjects' presentations fail verification on the polling client (0 = none; all bits = verifier outage).
func c16GenMask(t *rapid.T, subjects int) int {
	switch rapid.IntRange(0, 9).Draw(t, "fmode") {
	case 0, 1, 2, 3, 4:
		return 0
	case 5:
		return 1<<uint(subjects) - 1
	default:
		return rapid.IntRange(1, 1<<uint(subjects)-1).Draw(t, "fmask")
	}
}

// ---------------------------------------------------------------------------------------------------------------------
// identities (one pool per process; the case refers to them by index, so replay files stay valid)

type c16ID struct {
	key *ecdsa.PrivateKey
	did did.DID
	kid string
}

var (
	c16Once      sync.Once
	c16Subjects  []*c16ID // did:jwk
	c16Authority *c16ID   // did:jwk, issues the membership credentials the definition asks for
	c16Rogue     *c16ID   // did:jwk, another issuer
	c16KeySubj   *c16ID   // did:key: fully resolvable, but not an allowed method
	c16Stranger  *c16ID   // did:jwk whose key is used to forge signatures
	c16JSONLD    jsonld.JSONLD
	c16Resolver  *resolver.DIDResolverRouter
)

func c16NewJWKID() *c16ID {
	key, err := ecdsa.GenerateKey(elliptic.P256(), rand.Reader)
	if err != nil {
		panic(err)
	}
	pub, err := jwk.FromRaw(key.Public())
	if err != nil {
		panic(err)
	}
	js, err := json.Marshal(pub)
	if err != nil {
		panic(err)
	}
	d := did.MustParseDID("did:jwk:" + base64.RawStdEncoding.EncodeToString(js))
	return &c16ID{key: key, did: d, kid: d.String() + "#0"}
}

func c16NewKeyID() *c16ID {
	key, err := ecdsa.GenerateKey(elliptic.P256(), rand.Reader)
	if err != nil {
		panic(err)
	}
	var buf []byte
	code := uint64(multicodec.P256Pub)
	for code >= 0x80 {
		buf = append(buf, byte(code)|0x80)
		code >>= 7
	}
	buf = append(buf, byte(code))
	buf = append(buf, elliptic.MarshalCompressed(elliptic.P256(), key.X, key.Y)...)
	id := "z" + base58.Encode(buf)
	d := did.MustParseDID("did:key:" + id)
	return &c16ID{key: key, did: d, kid: d.String() + "#" + id}
}

func c16Init(tb testing.TB) {
	c16Once.Do(func() {
		for i := 0; i < c16PoolSize; i++ {
			c16Subjects = append(c16Subjects, c16NewJWKID())
		}
		c16Authority = c16NewJWKID()
		c16Rogue = c16NewJWKID()
		c16Stranger = c16NewJWKID()
		c16KeySubj = c16NewKeyID()
		c16JSONLD = jsonld.NewTestJSONLDManager(tb)
		c16Resolver = &resolver.DIDResolverRouter{}
		c16Resolver.Register("jwk", didjwk.NewResolver())
		c16Resolver.Register("key", didkey.NewResolver())
	})
}

// c16EnsureSubjects grows the identity pool (bulk lists need hundreds of distinct subjects). Not for concurrent use.
func c16EnsureSubjects(n int) {
	for len(c16Subjects) < n {
		c16Subjects = append(c16Subjects, c16NewJWKID())
	}
}

func c16Sign(key *ecdsa.PrivateKey, kid string, claims map[string]interface{}) (string, error) {
	k, err := jwk.FromRaw(key)
	if err != nil {
		return "", err
	}
	if err = k.Set(jwk.AlgorithmKey, jwa.ES256); err != nil {
		return "", err
	}
	if err = k.Set(jwk.KeyIDKey, kid); err != nil {
		return "", err
	}
	token := jwt.New()
	// deterministic claim order is irrelevant to jwx (it sorts), but avoid ranging over the map for nested effects
	names := make([]string, 0, len(claims))
	for n := range claims {
		names = append(names, n)
	}
	sort.Strings(names)
	for _, n := range names {
		if err = token.Set(n, claims[n]); err != nil {
			return "", err
		}
	}
	hdr := jws.NewHeaders()
	if err = hdr.Set(jws.TypeKey, "JWT"); err != nil {
		return "", err
	}
	b, err := jwt.Sign(token, jwt.WithKey(jwa.ES256, k, jws.WithProtectedHeaders(hdr)))
	return string(b), err
}

// ---------------------------------------------------------------------------------------------------------------------
// nodes

// c16Verifier delegates to the real verifier and records which presentations this node verified successfully.
type c16Verifier struct {
	verifier.Verifier
	mu      sync.Mutex
	ok      map[string]bool
	n       int
	failFor map[string]bool // signer DID → verification fails now (injected fault: this node cannot verify them at the moment)
	passed  int             // since the knob was last set
	failed  int
	// onVerify: interleaving point owned by the harness. Called (without the lock) at the start of every verification on this
	// node until it returns true (= consumed): "another activity of the node runs while this verification is in progress".
	onVerify func(vp vc.VerifiablePresentation) bool
}

func (v *c16Verifier) setFailures(mask int) {
	v.mu.Lock()
	defer v.mu.Unlock()
	v.failFor = map[string]bool{}
	for i := 0; i < c16PoolSize; i++ {
		if mask&(1<<uint(i)) != 0 {
			v.failFor[c16Subjects[i].did.String()] = true
		}
	}
	v.passed, v.failed = 0, 0
}

func (v *c16Verifier) VerifyVP(vp vc.VerifiablePresentation, verifyVCs bool, allowUntrustedVCs bool, validAt *time.Time) ([]vc.VerifiableCredential, error) {
	v.mu.Lock()
	hook := v.onVerify
	v.onVerify = nil // never re-entered by the verifications of the activity it runs
	v.mu.Unlock()
	if hook != nil && !hook(vp) {
		v.mu.Lock()
		v.onVerify = hook
		v.mu.Unlock()
	}
	v.mu.Lock()
	inject := len(v.failFor) > 0 && v.failFor[c16Signer(vp)]
	v.mu.Unlock()
	if inject {
		v.mu.Lock()
		v.n++
		v.failed++
		v.mu.Unlock()
		return nil, errors.New("verif: injected verification failure (key of the signer cannot be resolved right now)")
	}
	res, err := v.Verifier.VerifyVP(vp, verifyVCs, allowUntrustedVCs, validAt)
	v.mu.Lock()
	v.n++
	if err == nil {
		v.passed++
	} else {
		v.failed++
	}
	if err == nil && vp.ID != nil && verifyVCs {
		v.ok[vp.ID.String()] = true
	}
	v.mu.Unlock()
	return res, err
}

// c16VCR exposes only Verifier(); anything else the code under test would call on it is a harness gap (nil deref → harness error).
type c16VCR struct {
	vcr.VCR
	v verifier.Verifier
}

func (c c16VCR) Verifier() verifier.Verifier { return c.v }

type c16RevStore struct{}

func (c16RevStore) Diagnostics() []core.DiagnosticResult { return nil }
func (c16RevStore) GetRevocations(ssi.URI) ([]*credential.Revocation, error) {
	return nil, verifier.ErrNotFound
}
func (c16RevStore) StoreRevocation(credential.Revocation) error { return errors.New("not supported") }
func (c16RevStore) Close() error                                { return nil }

type c16Node struct {
	name   string
	server bool
	eng    storage.Engine
	db     *gorm.DB
	ver    *c16Verifier
	mod    *Module
	defDir string
	// client bookkeeping: the server was reset and this client has not been seen converged since (sticky, so that the
	// consequences of one mishandled reset keep one signature)
	resetSinceSettle bool
	// verification failures were injected on this client: what it shows is only complete after a clean validate()
	hadFailures bool
}

type c16Entry struct {
	id   string
	subj int    // index into c16Subjects
	kind string // reg | retract | injected
	off  int    // exp offset (units)
	ts   int    // timestamp handed out by the server (0 = not learned)
	vp   vc.VerifiablePresentation
	// set for the short-lived presentations of the ShortLived unit: their `exp` is a REAL instant a second or two ahead
	realExp time.Time
}

type c16World struct {
	x       *h.Ctx
	c       c16Case
	base    time.Time
	server  *c16Node
	clients []*c16Node
	link    *c16Link
	seq     int

	// reference model
	clock      int                  // model clock (units)
	list       map[int]*c16Entry    // subject → current entry on the server (possibly expired and lingering)
	lastOff    map[int]int          // subject → offset of its latest accepted entry (monotone)
	epochByID  map[string]*c16Entry // everything accepted (or injected) under the current seed
	everByID   map[string]*c16Entry // … under any seed
	epochMaxTS int
	seed       string
	oldSeeds   map[string]bool
	allOffs    map[string]int // every presentation id ever built → offset (for ageing)
	memberVC   map[int]vc.VerifiableCredential

	armed     func() // fired by the server DB callback after the next query
	armedReg  func() // fired by the server DB callback after the armedK-th next query that is NOT inside a transaction
	armedK    int
	beforeGet func() // fired by the link when a Get request arrives (the caller has already chosen its timestamp)
	afterGet  func() // fired by the link right after the server produced a Get response (the response is "in flight")
	lastPage  int    // number of entries in the last Get response that went through the link
	abort     bool   // stop the history (the state is known to be corrupt; one signature per cause)
	racing    bool
	stats     struct{ polls, accepted, rejected, racesFired int }
	history   struct {
		pollSeen, mutationAfterPoll, pollAfterMutation bool
	}
}

func (w *c16World) at(off int) time.Time { return w.base.Add(time.Duration(off*c16Unit) * time.Second) }

func (w *c16World) newNode(name string, server bool) *c16Node {
	x := w.x
	dir := x.TempDir()
	n := &c16Node{name: name, server: server}
	n.eng = storage.NewTestStorageEngineInDir(x.TB, dir)
	x.Cleanup(func() { _ = n.eng.Shutdown() })
	n.db = n.eng.GetSQLDatabase()
	// fixture tuning only: no fsync per commit on the scratch database (the engine keeps ONE sqlite connection, so this sticks)
	x.NoErr(n.db.Exec("PRAGMA synchronous = OFF").Error, "pragma synchronous")
	real := verifier.NewVerifier(c16RevStore{}, c16Resolver, resolver.DIDKeyResolver{Resolver: c16Resolver}, c16JSONLD, nil,
		revocation.NewStatusList2021(n.db, nil, ""))
	n.ver = &c16Verifier{Verifier: real, ok: map[string]bool{}}
	n.defDir = filepath.Join(dir, "defs")
	x.NoErr(os.MkdirAll(n.defDir, 0o755), "mkdir defs")
	x.NoErr(os.WriteFile(filepath.Join(n.defDir, "c16.json"), []byte(c16DefinitionJSON()), 0o644), "write definition")
	w.startModule(n)
	return n
}

func c16DefinitionJSON() string {
	return fmt.Sprintf(`{
 "id": %q,
 "did_methods": ["jwk"],
 "endpoint": %q,
 "presentation_max_validity": %d,
 "presentation_definition": {
  "id": "pd_c16",
  "format": {"jwt_vc": {"alg": ["ES256"]}, "jwt_vp": {"alg": ["ES256"]}, "ldp_vc": {"proof_type": ["JsonWebSignature2020"]}},
  "input_descriptors": [
   {"id": "id_membership", "constraints": {"fields": [
     {"path": ["$.type"], "filter": {"type": "string", "const": "C16MembershipCredential"}},
     {"id": "issuer_field", "path": ["$.issuer"], "filter": {"type": "string", "const": %q}},
     {"id": "member_name", "path": ["$.credentialSubject.name", "$.credentialSubject[0].name"], "filter": {"type": "string"}},
     {"id": "member_city", "path": ["$.credentialSubject.address.city", "$.credentialSubject[0].address.city"], "filter": {"type": "string"}}
   ]}},
   {"id": "id_registration", "constraints": {"fields": [
     {"path": ["$.type"], "filter": {"type": "string", "const": "DiscoveryRegistrationCredential"}},
     {"id": "auth_server_url", "path": ["$.credentialSubject.authServerURL"], "filter": {"type": "string"}}
   ]}}
  ]
 }
}`, c16ServiceID, c16Endpoint, c16MaxValidity, c16Authority.did.String())
}

// startModule creates (or re-creates: restart) the Module of a node on the node's database.
func (w *c16World) startModule(n *c16Node) {
	x := w.x
	if n.mod != nil {
		_ = n.mod.Shutdown()
	}
	m := New(n.eng, c16VCR{v: n.ver}, nil, c16Resolver)
	m.config = DefaultConfig()
	m.config.Client.RefreshInterval = 0 // no background loop: polls are ops
	m.config.Definitions.Directory = n.defDir
	if n.server {
		m.config.Server.IDs = []string{c16ServiceID}
	}
	x.NoErr(m.Configure(core.TestServerConfig()), "configure "+n.name)
	m.httpClient = w.link
	x.NoErr(m.Start(), "start "+n.name)
	n.mod = m
	if _, ok := m.allDefinitions[c16ServiceID]; !ok {
		x.Fatalf("definition not loaded on %s", n.name)
	}
	if _, ok := m.serverDefinitions[c16ServiceID]; ok != n.server {
		x.Fatalf("server role of %s is %v", n.name, ok)
	}
}

// c16Link is the client.HTTPClient of every node: a JSON round trip into the server module.
type c16Link struct{ w *c16World }

func (l *c16Link) Register(ctx context.Context, endpoint string, presentation vc.VerifiablePresentation) error {
	if endpoint != c16Endpoint {
		return fmt.Errorf("unknown endpoint %s", endpoint)
	}
	b, err := json.Marshal(presentation)
	if err != nil {
		return err
	}
	var vp vc.VerifiablePresentation
	if err = json.Unmarshal(b, &vp); err != nil {
		return fmt.Errorf("HTTP 400: %w", err)
	}
	return l.w.server.mod.Register(ctx, c16ServiceID, vp)
}

func (l *c16Link) Get(ctx context.Context, endpoint string, timestamp int) (map[string]vc.VerifiablePresentation, string, int, error) {
	if endpoint != c16Endpoint {
		return nil, "", 0, fmt.Errorf("unknown endpoint %s", endpoint)
	}
	if f := l.w.beforeGet; f != nil {
		l.w.beforeGet = nil
		f()
	}
	entries, seed, ts, err := l.w.serverGet(ctx, timestamp)
	l.w.lastPage = len(entries)
	if f := l.w.afterGet; f != nil {
		l.w.afterGet = nil
		f()
	}
	return entries, seed, ts, err
}

// serverGet is Get on the server + the Get oracle + the JSON round trip of the HTTP API.
func (w *c16World) serverGet(ctx context.Context, timestamp int) (map[string]vc.VerifiablePresentation, string, int, error) {
	racing := w.armed != nil
	entries, seed, ts, err := w.server.mod.Get(ctx, c16ServiceID, timestamp)
	if err != nil {
		w.x.Fatalf("server Get(%d): %v", timestamp, err)
	}
	w.checkGet(timestamp, entries, seed, ts, racing)
	type response struct {
		Entries   map[string]vc.VerifiablePresentation `json:"entries"`
		Seed      string                               `json:"seed"`
		Timestamp int                                  `json:"timestamp"`
	}
	b, err := json.Marshal(response{entries, seed, ts})
	w.x.NoErr(err, "marshal Get response")
	var r response
	w.x.NoErr(json.Unmarshal(b, &r), "unmarshal Get response")
	return r.Entries, r.Seed, r.Timestamp, nil
}

// ---------------------------------------------------------------------------------------------------------------------
// building presentations

type c16VPSpec struct {
	signer  *c16ID
	signKey *ecdsa.PrivateKey // nil: signer.key
	noJTI   bool
	aud     interface{} // nil: none
	exp     *time.Time
	types   []string
	creds   []vc.VerifiableCredential
	extra   map[string]interface{}
}

func (w *c16World) nextID(prefix string) string {
	w.seq++
	return fmt.Sprintf("%s%04d", prefix, w.seq)
}

func (w *c16World) buildVP(s c16VPSpec) (vc.VerifiablePresentation, string) {
	holder := s.signer.did.URI()
	types := []ssi.URI{ssi.MustParseURI("VerifiablePresentation")}
	for _, t := range s.types {
		types = append(types, ssi.MustParseURI(t))
	}
	id := s.signer.did.String() + "#" + w.nextID("vp")
	claims := map[string]interface{}{
		jwt.SubjectKey:   s.signer.did.String(),
		jwt.NotBeforeKey: w.base.Add(-time.Minute).Unix(),
		"nonce":          w.nextID("nonce"),
		"vp": vc.VerifiablePresentation{
			Context:              []ssi.URI{ssi.MustParseURI("https://www.w3.org/2018/credentials/v1")},
			Type:                 types,
			Holder:               &holder,
			VerifiableCredential: s.creds,
		},
	}
	if !s.noJTI {
		claims[jwt.JwtIDKey] = id
	}
	if s.aud != nil {
		claims[jwt.AudienceKey] = s.aud
	}
	if s.exp != nil {
		claims[jwt.ExpirationKey] = s.exp.Unix()
	}
	for k, v := range s.extra {
		claims[k] = v
	}
	key := s.signKey
	if key == nil {
		key = s.signer.key
	}
	raw, err := c16Sign(key, s.signer.kid, claims)
	w.x.NoErr(err, "sign VP")
	vp, err := vc.ParseVerifiablePresentation(raw)
	w.x.NoErr(err, "parse VP")
	return *vp, id
}

// membership credential: issued by `issuer` (signed with signKey) to `subject`, expiring at exp (nil: never).
func (w *c16World) membershipVC(issuer *c16ID, signKey *ecdsa.PrivateKey, subject did.DID, exp *time.Time) vc.VerifiableCredential {
	id := ssi.MustParseURI(issuer.did.String() + "#" + w.nextID("vc"))
	res, err := vc.CreateJWTVerifiableCredential(context.Background(), vc.VerifiableCredential{
		Context:        []ssi.URI{vc.VCContextV1URI()},
		ID:             &id,
		Type:           []ssi.URI{vc.VerifiableCredentialTypeV1URI(), ssi.MustParseURI("C16MembershipCredential")},
		Issuer:         issuer.did.URI(),
		IssuanceDate:   w.base.Add(-time.Hour),
		ExpirationDate: exp,
		CredentialSubject: []interface{}{map[string]interface{}{"id": subject.String(), "member": "yes",
			"name": "Organisation " + w.nextID("n"), "address": map[string]interface{}{"city": "City " + w.nextID("c")}}},
	}, func(_ context.Context, claims map[string]interface{}, _ map[string]interface{}) (string, error) {
		return c16Sign(signKey, issuer.kid, claims)
	})
	w.x.NoErr(err, "create membership credential")
	return *res
}

// registration credential: self-attested, no proof (protected by the presentation's signature), as the real client builds it.
func (w *c16World) registrationVC(subject did.DID) vc.VerifiableCredential {
	return w.registrationVCExp(subject, nil)
}

func (w *c16World) registrationVCExp(subject did.DID, exp *time.Time) vc.VerifiableCredential {
	id := ssi.MustParseURI(w.nextID("urn:c16:regcred:"))
	c := vc.VerifiableCredential{
		Context:           []ssi.URI{vc.VCContextV1URI(), credential.NutsV1ContextURI},
		ID:                &id,
		Type:              []ssi.URI{vc.VerifiableCredentialTypeV1URI(), credential.DiscoveryRegistrationCredentialTypeV1URI()},
		IssuanceDate:      w.base.Add(-time.Minute).Truncate(time.Second),
		ExpirationDate:    exp,
		CredentialSubject: []interface{}{map[string]interface{}{"authServerURL": "https://example.com/oauth2/" + w.nextID("s")}},
	}
	c = credential.AutoCorrectSelfAttestedCredential(c, subject)
	b, err := json.Marshal(c)
	w.x.NoErr(err, "marshal registration credential")
	var out vc.VerifiableCredential
	w.x.NoErr(json.Unmarshal(b, &out), "unmarshal registration credential")
	return out
}

func (w *c16World) memberOf(s int) vc.VerifiableCredential {
	if c, ok := w.memberVC[s]; ok {
		return c
	}
	c := w.membershipVC(c16Authority, c16Authority.key, c16Subjects[s].did, nil)
	w.memberVC[s] = c
	return c
}

// nextOff: a fresh valid offset for subject s, not earlier than anything s registered before and in the (model) future.
func (w *c16World) nextOff(s, d int) int {
	lo := w.clock
	if w.lastOff[s] > lo {
		lo = w.lastOff[s] - 1
	}
	off := lo + d
	if off > c16MaxOff {
		off = c16MaxOff
	}
	return off
}

func (w *c16World) validVP(s, off int) (vc.VerifiablePresentation, string) {
	exp := w.at(off)
	subj := c16Subjects[s]
	creds := []vc.VerifiableCredential{w.memberOf(s), w.registrationVC(subj.did)}
	if w.seq%3 == 0 {
		// the order of the credentials in a presentation is the registrant's business: not always the definition's order
		creds[0], creds[1] = creds[1], creds[0]
	}
	vp, id := w.buildVP(c16VPSpec{signer: subj, aud: []string{c16ServiceID}, exp: &exp, creds: creds})
	w.allOffs[id] = off
	return vp, id
}

func (w *c16World) retractionVP(signer *c16ID, off int, jti interface{}, creds []vc.VerifiableCredential) (vc.VerifiablePresentation, string) {
	exp := w.at(off)
	extra := map[string]interface{}{}
	if jti != nil {
		extra["retract_jti"] = jti
	}
	vp, id := w.buildVP(c16VPSpec{signer: signer, aud: []string{c16ServiceID}, exp: &exp,
		types: []string{"RetractedVerifiablePresentation"}, creds: creds, extra: extra})
	w.allOffs[id] = off
	return vp, id
}

// defectiveVP builds a registration that differs from a valid one in exactly the named respect. ok=false: not applicable now.
func (w *c16World) defectiveVP(s, off int, defect string) (vp vc.VerifiablePresentation, id string, ok bool) {
	subj := c16Subjects[s]
	exp := w.at(off)
	spec := c16VPSpec{signer: subj, aud: []string{c16ServiceID}, exp: &exp,
		creds: []vc.VerifiableCredential{w.memberOf(s), w.registrationVC(subj.did)}}
	switch defect {
	case "notjwt":
		// a JSON-LD presentation (no proof at all: it must already be refused for its format)
		holder := subj.did.URI()
		pid := ssi.MustParseURI(subj.did.String() + "#" + w.nextID("vp"))
		ld := vc.VerifiablePresentation{
			Context:              []ssi.URI{ssi.MustParseURI("https://www.w3.org/2018/credentials/v1")},
			ID:                   &pid,
			Type:                 []ssi.URI{ssi.MustParseURI("VerifiablePresentation")},
			Holder:               &holder,
			VerifiableCredential: spec.creds,
		}
		b, err := json.Marshal(ld)
		w.x.NoErr(err, "marshal LD VP")
		p, err := vc.ParseVerifiablePresentation(string(b))
		w.x.NoErr(err, "parse LD VP")
		return *p, pid.String(), true
	case "noid":
		spec.noJTI = true
	case "aud":
		spec.aud = []string{"some_other_service"}
	case "noaud":
		spec.aud = nil
	case "noexp":
		spec.exp = nil
	case "toolong":
		e := w.base.Add(time.Duration(c16MaxValidity+off*c16Unit) * time.Second)
		spec.exp = &e
	case "expired":
		e := w.base.Add(-time.Duration(off*c16Unit) * time.Second)
		spec.exp = &e
	case "outlive":
		// the membership credential expires one unit before the presentation does
		ce := w.at(off - 1)
		if off-1 <= 0 {
			return vp, "", false
		}
		spec.creds[0] = w.membershipVC(c16Authority, c16Authority.key, subj.did, &ce)
	case "method":
		spec.signer = c16KeySubj
		spec.creds = []vc.VerifiableCredential{w.membershipVC(c16Authority, c16Authority.key, c16KeySubj.did, nil), w.registrationVC(c16KeySubj.did)}
	case "surplus":
		spec.creds = append(spec.creds, w.membershipVC(c16Rogue, c16Rogue.key, subj.did, nil))
	case "surplusdup":
		spec.creds = append(spec.creds, w.membershipVC(c16Authority, c16Authority.key, subj.did, nil))
	case "missing":
		spec.creds = spec.creds[1:]
	case "missingreg":
		spec.creds = spec.creds[:1]
	case "forged", "otherkey":
		// signed with a key that is not the signer's
		spec.signKey = c16Stranger.key
		if defect == "otherkey" {
			spec.signKey = c16Subjects[(s+1)%w.c.Subjects].key
		}
	case "tampered":
		good, gid := w.buildVP(spec)
		parts := strings.Split(good.Raw(), ".")
		payload, err := base64.RawURLEncoding.DecodeString(parts[1])
		w.x.NoErr(err, "decode payload")
		// change the registered endpoint inside the signed payload
		mod := strings.Replace(string(payload), "https://example.com/oauth2/", "https://evil.example/oauth2/", 1)
		if mod == string(payload) {
			w.x.Fatalf("tamper: marker not found")
		}
		parts[1] = base64.RawURLEncoding.EncodeToString([]byte(mod))
		p, err := vc.ParseVerifiablePresentation(strings.Join(parts, "."))
		w.x.NoErr(err, "parse tampered VP")
		w.allOffs[gid] = off
		return *p, gid, true
	case "foreigncred":
		other := c16Subjects[(s+1)%w.c.Subjects]
		spec.creds[0] = w.membershipVC(c16Authority, c16Authority.key, other.did, nil)
	case "impersonate":
		// somebody else's credentials (all of them), presented and signed by s
		o := (s + 1) % w.c.Subjects
		spec.creds = []vc.VerifiableCredential{w.memberOf(o), w.registrationVC(c16Subjects[o].did)}
	case "wrongissuer":
		spec.creds[0] = w.membershipVC(c16Rogue, c16Rogue.key, subj.did, nil)
	case "credforged":
		// claims to be issued by the authority but is signed by somebody else
		spec.creds[0] = w.membershipVC(c16Authority, c16Rogue.key, subj.did, nil)
	case "duplicate":
		cur := w.list[s]
		if cur == nil || cur.kind != "reg" || cur.off <= w.clock {
			return vp, "", false
		}
		return cur.vp, cur.id, true
	default:
		w.x.Fatalf("unknown defect %q", defect)
	}
	vp, id = w.buildVP(spec)
	w.allOffs[id] = off
	return vp, id, true
}

// ---------------------------------------------------------------------------------------------------------------------
// oracle: server

func (w *c16World) expired(e *c16Entry) bool {
	if !e.realExp.IsZero() {
		return !time.Now().Before(e.realExp)
	}
	return e.off <= w.clock
}

func c16Signer(vp vc.VerifiablePresentation) string {
	d, err := credential.PresentationSigner(vp)
	if err != nil || d == nil {
		return "?"
	}
	return d.String()
}

// checkGet applies the Get oracle to one response.
func (w *c16World) checkGet(after int, entries map[string]vc.VerifiablePresentation, seed string, ts int, racing bool) {
	x := w.x
	seen := map[string]bool{}
	subjects := map[string]bool{}
	keys := make([]string, 0, len(entries))
	for key := range entries {
		keys = append(keys, key)
	}
	sort.Strings(keys)
	for _, key := range keys {
		vp := entries[key]
		k, err := strconv.Atoi(key)
		if err != nil {
			x.Violate("get:key-not-a-timestamp", "Get(%d) returned key %q", after, key)
			continue
		}
		if k <= after {
			x.Violate("get:not-after", "Get(%d) returned an entry with timestamp %d", after, k)
		}
		if !racing && k > ts {
			x.Violate("get:timestamp-below-entry", "Get(%d) returned timestamp %d but lists an entry at %d", after, ts, k)
		}
		if vp.ID == nil {
			x.Violate("get:unlisted", "Get(%d) returned a presentation without id at %d", after, k)
			continue
		}
		id := vp.ID.String()
		seen[id] = true
		e := w.epochByID[id]
		if e == nil {
			x.Violate("get:unlisted", "Get(%d) returned presentation %s at %d which the server never accepted under this seed", after, id, k)
			continue
		}
		if e.ts != 0 && e.ts != k {
			x.Violate("get:timestamp-changed", "presentation %s was handed out at %d, now listed at %d", id, e.ts, k)
		}
		// (a Get racing a registration may legitimately still see what that registration replaces)
		if cur := w.list[e.subj]; cur != e && !racing {
			x.Violate("get:superseded", "Get(%d) returned %s (%s of subject %d) although it was replaced", after, id, e.kind, e.subj)
		}
		sg := c16Signer(vp)
		if subjects[sg] {
			x.Violate("get:two-per-subject", "Get(%d) returned two entries of %s", after, sg)
		}
		subjects[sg] = true
	}
	if racing {
		return
	}
	// Completeness is demanded UP TO THE RETURNED TIMESTAMP: a server may hand out the list in pages, as long as the timestamp
	// it returns with a page does not promise more than the page delivers (the client continues after that timestamp) and
	// every request makes progress. (The current code returns everything and the list's last timestamp.)
	subjs := make([]int, 0, len(w.list))
	for s := range w.list {
		subjs = append(subjs, s)
	}
	sort.Ints(subjs)
	missing, beyond, pendingLive := 0, false, false
	for _, s := range subjs {
		e := w.list[s]
		if e.ts > ts {
			beyond = true
		}
		if e.ts > after && !w.expired(e) {
			pendingLive = true
		}
		if e.ts > after && e.ts <= ts && !w.expired(e) && !seen[e.id] {
			missing++
			if missing <= 3 {
				x.Violate("get:missing", "Get(%d) returned timestamp %d (%d entries) but not live %s %s of subject %d at timestamp %d", after, ts, len(entries), e.kind, e.id, s, e.ts)
			}
		}
	}
	if pendingLive && ts <= after {
		x.Violate("get:no-progress", "Get(%d) returned timestamp %d although live entries after %d exist", after, ts, after)
	}
	if ts < w.epochMaxTS && !beyond {
		x.Violate("get:timestamp-regressed", "Get(%d) returned timestamp %d, but %d was handed out before", after, ts, w.epochMaxTS)
	}
	if w.seed != "" && seed != w.seed {
		x.Violate("get:seed-changed", "seed changed from %q to %q without a reset", w.seed, seed)
	}
}

// checkRows looks at the server tables directly: one row per subject, distinct timestamps not above the service timestamp.
func (w *c16World) checkRows() {
	x := w.x
	var rows []presentationRecord
	x.NoErr(w.server.db.Order("lamport_timestamp ASC").Find(&rows, "service_id = ?", c16ServiceID).Error, "read server rows")
	var svc serviceRecord
	x.NoErr(w.server.db.Find(&svc, "id = ?", c16ServiceID).Error, "read service row")
	bySubj := map[string]string{}
	byTS := map[int]string{}
	for _, r := range rows {
		if o, dup := bySubj[r.CredentialSubjectID]; dup {
			x.Violate("rows:two-per-subject", "server holds %s and %s for subject %s", o, r.PresentationID, r.CredentialSubjectID)
		}
		bySubj[r.CredentialSubjectID] = r.PresentationID
		if o, dup := byTS[r.LamportTimestamp]; dup {
			x.Violate("rows:timestamp-reused", "server holds %s and %s at timestamp %d", o, r.PresentationID, r.LamportTimestamp)
		}
		byTS[r.LamportTimestamp] = r.PresentationID
		if r.LamportTimestamp > svc.LastLamportTimestamp {
			x.Violate("rows:timestamp-above-service", "row %s has timestamp %d, service is at %d", r.PresentationID, r.LamportTimestamp, svc.LastLamportTimestamp)
		}
		if w.epochByID[r.PresentationID] == nil {
			x.Violate("rows:unlisted", "server stores %s which it never accepted", r.PresentationID)
		}
	}
}

// submit sends a presentation to the server (directly or forwarded through client 0) and returns whether it was accepted.
func (w *c16World) submit(vp vc.VerifiablePresentation, viaClient bool) error {
	ctx := context.Background()
	if viaClient {
		w.x.Class("reg:forwarded-by-client")
		return w.clients[0].mod.Register(ctx, c16ServiceID, vp)
	}
	return w.link.Register(ctx, c16Endpoint, vp)
}

// accepted updates the model after the server accepted e, learning the timestamp it handed out.
func (w *c16World) accepted(e *c16Entry) {
	x := w.x
	w.stats.accepted++
	prevMax := w.epochMaxTS
	w.epochByID[e.id] = e
	w.everByID[e.id] = e
	w.list[e.subj] = e
	if e.off > w.lastOff[e.subj] {
		w.lastOff[e.subj] = e.off
	}
	// learn the timestamp (bypassing the oracle-carrying path: the model is not complete yet)
	entries, seed, ts, err := w.server.mod.Get(context.Background(), c16ServiceID, 0)
	x.NoErr(err, "Get after registration")
	found := 0
	for key, vp := range entries {
		if vp.ID != nil && vp.ID.String() == e.id {
			k, _ := strconv.Atoi(key)
			e.ts = k
			found++
		}
	}
	if found != 1 {
		x.Violate("accept:not-listed", "accepted %s %s is listed %d times", e.kind, e.id, found)
		e.ts = prevMax + 1
	}
	if e.ts <= prevMax {
		x.Violate("ts:not-increasing", "%s got timestamp %d, the previous one was %d", e.id, e.ts, prevMax)
	}
	if e.ts > w.epochMaxTS {
		w.epochMaxTS = e.ts
	}
	if ts < e.ts {
		x.Violate("get:timestamp-below-entry", "Get(0) returned timestamp %d right after %d was handed out", ts, e.ts)
	}
	if w.seed == "" {
		if seed == "" {
			x.Violate("seed:empty", "server has entries but no seed")
		} else if w.oldSeeds[seed] {
			x.Violate("seed:reused", "seed %q was used before the reset", seed)
		}
		w.seed = seed
	}
	w.checkGet(0, entries, seed, ts, false)
	w.checkRows()
}

// register performs one registration attempt and compares the outcome with the expectation.
// expect: +1 must be accepted, -1 must be rejected, 0 either (the model follows what happened).
func (w *c16World) register(vp vc.VerifiablePresentation, e *c16Entry, expect int, label string, via bool) bool {
	x := w.x
	err := w.submit(vp, via)
	// a second registration armed to run INSIDE this one (opRaceReg) must not fire in the harness's own queries afterwards
	w.armedReg = nil
	switch {
	case err == nil && expect < 0:
		x.Violate("accept:"+label, "server accepted a %s registration (%s)", label, e.id)
	case err != nil && expect > 0:
		x.Violate("reject:"+label, "server refused a valid %s (%s): %v", label, e.id, err)
	}
	if err != nil {
		w.stats.rejected++
		x.Classf("rejected:%s", label)
		// not an oracle: shows in the evidence whether a defective registration was refused for the intended reason
		if want, ok := c16Reasons[label]; ok {
			if strings.Contains(err.Error(), want) {
				x.Class("refused-for-the-intended-reason")
			} else {
				x.Classf("refused-for-another-reason:%s", label)
				x.Logf("%s refused with: %v", label, err)
			}
		}
		w.checkRows()
		return false
	}
	x.Classf("accepted:%s", label)
	w.accepted(e)
	return true
}

// ---------------------------------------------------------------------------------------------------------------------
// ops

func (w *c16World) opReg(s, d int, via bool) {
	off := w.nextOff(s, d)
	vp, id := w.validVP(s, off)
	label := "registration"
	expect := 1
	if cur := w.list[s]; cur != nil {
		label = "refresh"
		if cur.kind == "retract" {
			label = "re-registration"
		}
		if w.expired(cur) {
			label += "-of-expired"
		}
	}
	if w.register(vp, &c16Entry{id: id, subj: s, kind: "reg", off: off, vp: vp}, expect, label, via) {
		if label != "registration" {
			w.mutation()
		}
	}
}

func (w *c16World) opRetract(s, d int, mode string) {
	signer := c16Subjects[s]
	off := w.nextOff(s, d)
	cur := w.list[s]
	live := cur != nil && cur.kind == "reg"
	var vp vc.VerifiablePresentation
	var id, label string
	expect := -1
	switch mode {
	case "own":
		if !live {
			// nothing to retract: refers to an entry that does not exist (any more)
			vp, id = w.retractionVP(signer, off, signer.did.String()+"#gone", nil)
			label = "retract-nothing"
			break
		}
		vp, id = w.retractionVP(signer, off, cur.id, nil)
		label = "retraction"
		expect = 1
		if w.expired(cur) {
			// the entry may or may not have been pruned
			label = "retraction-of-expired"
			expect = 0
		}
	case "other":
		// somebody else's live entry
		var victim *c16Entry
		for i := 1; i < w.c.Subjects; i++ {
			if e := w.list[(s+i)%w.c.Subjects]; e != nil && e.kind == "reg" {
				victim = e
				break
			}
		}
		if victim == nil {
			w.x.Class("skipped:retract-other")
			return
		}
		vp, id = w.retractionVP(signer, off, victim.id, nil)
		label = "retract-someone-elses"
	case "unknown":
		vp, id = w.retractionVP(signer, off, signer.did.String()+"#unknown", nil)
		label = "retract-unknown"
	case "creds":
		if !live || w.expired(cur) {
			w.x.Class("skipped:retract-creds")
			return
		}
		vp, id = w.retractionVP(signer, off, cur.id, []vc.VerifiableCredential{w.memberOf(s)})
		label = "retract-with-credentials"
	case "nojti":
		vp, id = w.retractionVP(signer, off, nil, nil)
		label = "retract-without-jti"
	default:
		w.x.Fatalf("retract mode %q", mode)
	}
	if w.register(vp, &c16Entry{id: id, subj: s, kind: "retract", off: off, vp: vp}, expect, label, false) {
		w.mutation()
	}
}

func (w *c16World) opBad(s, d int, defect string) {
	off := w.nextOff(s, d)
	vp, id, ok := w.defectiveVP(s, off, defect)
	if !ok {
		w.x.Classf("skipped:bad-%s", defect)
		return
	}
	subj := s
	if defect == "method" {
		subj = -1
	}
	expect := -1
	if defect == "duplicate" {
		// re-submitting the listed presentation is documented to be refused (ErrPresentationAlreadyExists), but the property
		// does not speak about it (accepting it again would neither list anything unverified nor break the ordering): either.
		expect = 0
	}
	w.register(vp, &c16Entry{id: id, subj: subj, kind: "reg", off: off, vp: vp}, expect, "defect-"+defect, false)
}

// opCredReg: a registration that is valid in every respect, with its two credentials in either order and each of them
// expiring before (b) / exactly when (e) / after (a) the presentation does, or never (n). pattern = "<order>:<membership>:<registration>",
// order rm = self-attested registration credential first. Valid iff the presentation outlives NONE of its credentials;
// "exactly when" is not outliving (what HEAD implements with After()), but the statement can be read either way: class only.
func (w *c16World) opCredReg(s, d int, pattern string) {
	parts := strings.Split(pattern, ":")
	if len(parts) != 3 || (parts[0] != "rm" && parts[0] != "mr") {
		return
	}
	off := w.nextOff(s, d)
	if off < 2 {
		w.x.Class("skipped:credreg")
		return
	}
	subj := c16Subjects[s]
	when := func(rel string) (*time.Time, bool) {
		var t time.Time
		switch rel {
		case "b":
			t = w.at(off - 1)
		case "e":
			t = w.at(off)
		case "a":
			t = w.at(off + 7)
		case "n":
			return nil, true
		default:
			return nil, false
		}
		return &t, true
	}
	mexp, ok1 := when(parts[1])
	rexp, ok2 := when(parts[2])
	if !ok1 || !ok2 {
		return
	}
	member := w.memberOf(s)
	if mexp != nil {
		member = w.membershipVC(c16Authority, c16Authority.key, subj.did, mexp)
	}
	reg := w.registrationVCExp(subj.did, rexp)
	creds := []vc.VerifiableCredential{member, reg}
	if parts[0] == "rm" {
		creds = []vc.VerifiableCredential{reg, member}
	}
	exp := w.at(off)
	vp, id := w.buildVP(c16VPSpec{signer: subj, aud: []string{c16ServiceID}, exp: &exp, creds: creds})
	w.allOffs[id] = off
	expect, label := 1, "registration-credential-order-and-expiry"
	switch {
	case parts[1] == "b" || parts[2] == "b":
		expect = -1
		which := "membership"
		if parts[1] != "b" {
			which = "registration"
		} else if parts[2] == "b" {
			which = "both"
		}
		label = "defect-outlive-" + which + "-credential:" + parts[0]
	case parts[1] == "e" || parts[2] == "e":
		expect, label = 0, "expires-together-with-a-credential"
	}
	w.x.Classf("credreg:%s", pattern)
	cur := w.list[s]
	if w.register(vp, &c16Entry{id: id, subj: s, kind: "reg", off: off, vp: vp}, expect, label, false) && cur != nil {
		w.mutation()
	}
}

// opBadRetract: subject s retracts its OWN LIVE entry (registering one first if it has none) with a retraction that is
// correct except for one generic presentation defect. It must be refused, and the entry must stay listed.
func (w *c16World) opBadRetract(s, d int, defect string) {
	cur := w.list[s]
	if cur == nil || cur.kind != "reg" || w.expired(cur) {
		w.opReg(s, d, false)
		cur = w.list[s]
		if cur == nil || cur.kind != "reg" || w.expired(cur) {
			w.x.Classf("skipped:badretract-%s", defect)
			return
		}
	}
	signer := c16Subjects[s]
	off := w.nextOff(s, d)
	exp := w.at(off)
	spec := c16VPSpec{signer: signer, aud: []string{c16ServiceID}, exp: &exp,
		types: []string{"RetractedVerifiablePresentation"}, extra: map[string]interface{}{"retract_jti": cur.id}}
	var vp vc.VerifiablePresentation
	var id string
	switch defect {
	case "notjwt":
		holder := signer.did.URI()
		pid := ssi.MustParseURI(signer.did.String() + "#" + w.nextID("vp"))
		ld := vc.VerifiablePresentation{
			Context: []ssi.URI{ssi.MustParseURI("https://www.w3.org/2018/credentials/v1")},
			ID:      &pid,
			Type:    []ssi.URI{ssi.MustParseURI("VerifiablePresentation"), ssi.MustParseURI("RetractedVerifiablePresentation")},
			Holder:  &holder,
		}
		b, err := json.Marshal(ld)
		w.x.NoErr(err, "marshal LD retraction")
		p, err := vc.ParseVerifiablePresentation(string(b))
		w.x.NoErr(err, "parse LD retraction")
		vp, id = *p, pid.String()
	case "tampered":
		good, gid := w.buildVP(spec)
		parts := strings.Split(good.Raw(), ".")
		payload, err := base64.RawURLEncoding.DecodeString(parts[1])
		w.x.NoErr(err, "decode payload")
		mod := strings.Replace(string(payload), `"nonce":"nonce`, `"nonce":"xonce`, 1)
		if mod == string(payload) {
			w.x.Fatalf("tamper: nonce not found in %s", payload)
		}
		parts[1] = base64.RawURLEncoding.EncodeToString([]byte(mod))
		p, err := vc.ParseVerifiablePresentation(strings.Join(parts, "."))
		w.x.NoErr(err, "parse tampered retraction")
		vp, id = *p, gid
	default:
		switch defect {
		case "noid":
			spec.noJTI = true
		case "aud":
			spec.aud = []string{"some_other_service"}
		case "noaud":
			spec.aud = nil
		case "noexp":
			spec.exp = nil
		case "toolong":
			e := w.base.Add(time.Duration(c16MaxValidity+off*c16Unit) * time.Second)
			spec.exp = &e
		case "toolong10y":
			e := w.base.AddDate(10, 0, 0)
			spec.exp = &e
		case "expired":
			e := w.base.Add(-time.Duration(off*c16Unit) * time.Second)
			spec.exp = &e
		case "method":
			spec.signer = c16KeySubj
		case "forged":
			spec.signKey = c16Stranger.key
		case "otherkey":
			spec.signKey = c16Subjects[(s+1)%w.c.Subjects].key
		default:
			w.x.Fatalf("unknown retraction defect %q", defect)
		}
		vp, id = w.buildVP(spec)
	}
	w.allOffs[id] = off
	subj := s
	if defect == "method" {
		subj = -1
	}
	w.register(vp, &c16Entry{id: id, subj: subj, kind: "retract", off: off, vp: vp}, -1, "retract-defect-"+defect, false)
	// the entry it tried to retract must still be handed out
	_, _, _, _ = w.serverGet(context.Background(), 0)
	if w.list[s] != cur && len(w.x.Violations()) == 0 {
		w.x.Fatalf("model: refused retraction changed the list")
	}
}

// opInject: a faulty/hostile server lists a presentation that does not verify (written through the store, bypassing Register).
func (w *c16World) opInject(s, d int, defect string) {
	off := w.nextOff(s, d)
	vp, id, ok := w.defectiveVP(s, off, defect)
	if !ok {
		return
	}
	_, err := w.server.mod.store.add(c16ServiceID, vp, "", 0)
	w.x.NoErr(err, "inject")
	w.x.Classf("injected:%s", defect)
	w.accepted(&c16Entry{id: id, subj: s, kind: "injected", off: off, vp: vp})
	w.mutation()
}

func (w *c16World) opAdvance(d int) {
	w.clock += d
	if w.clock > c16MaxClock {
		w.clock = c16MaxClock
	}
	for _, e := range w.list {
		if w.expired(e) {
			w.x.Class("clock:expired-a-listed-entry")
		}
	}
}

func (w *c16World) poll(c *c16Node, validate bool) {
	w.stats.polls++
	if validate {
		// what the background loop does (minus refreshing own registrations, which needs a wallet): update all, then validate
		if err := c.mod.clientUpdater.update(context.Background()); err != nil {
			w.x.Fatalf("poll of %s failed: %v", c.name, err)
		}
		w.x.NoErr(c.mod.registrationManager.validate(), "validate")
		return
	}
	def := c.mod.allDefinitions[c16ServiceID]
	if err := c.mod.clientUpdater.updateService(context.Background(), def); err != nil {
		w.x.Fatalf("poll of %s failed: %v", c.name, err)
	}
}

// withFailures runs fn while verification of the masked subjects' presentations fails on client c.
func (w *c16World) withFailures(c *c16Node, mask int, what string, fn func()) {
	if mask != 0 {
		c.hadFailures = true
	}
	c.ver.setFailures(mask)
	fn()
	c.ver.mu.Lock()
	passed, failed := c.ver.passed, c.ver.failed
	c.ver.mu.Unlock()
	c.ver.setFailures(0)
	if mask != 0 && failed > 0 {
		w.x.Classf("%s:with-injected-verification-failures", what)
	}
	if passed > 0 && failed > 0 {
		w.x.Classf("%s:mixed-verification-outcomes", what)
	}
}

func (w *c16World) opPoll(ci int, validate bool, mask int) {
	c := w.clients[ci]
	w.withFailures(c, mask, "poll", func() { w.poll(c, validate) })
	w.polled()
}

// opValidate: the background validation of entries that are not validated yet.
func (w *c16World) opValidate(ci int, mask int) {
	c := w.clients[ci]
	w.withFailures(c, mask, "validate", func() {
		w.x.NoErr(c.mod.registrationManager.validate(), "validate")
	})
}

// opOutage: two subjects (s and the next) refresh; client c polls (after each) while it cannot verify anything (verifier
// outage), so both entries are stored unvalidated; then the background validation runs while verification still fails for some subjects
// (mask; a degenerate mask becomes "only subject s fails"): mixed outcomes among several unvalidated entries.
func (w *c16World) opOutage(ci, s, d, mask int) {
	c := w.clients[ci]
	s2 := (s + 1) % w.c.Subjects
	// one poll per entry, so that the order in which the client stored them does not depend on map iteration (replayable)
	all := 1<<uint(c16PoolSize) - 1
	w.opReg(s, d, false)
	w.withFailures(c, all, "poll", func() { w.poll(c, false) })
	w.opReg(s2, d, false)
	w.withFailures(c, all, "poll", func() { w.poll(c, false) })
	w.polled()
	if mask&(1<<uint(s)|1<<uint(s2)) == 0 || mask&(1<<uint(s)) != 0 && mask&(1<<uint(s2)) != 0 {
		mask = 1 << uint(s)
	}
	w.withFailures(c, mask, "validate", func() {
		w.x.NoErr(c.mod.registrationManager.validate(), "validate")
	})
}

// opLoop: one round of the production refresh loop (Module.update's do()): refresh own registrations (there are none),
// update the local copies, validate what is not validated yet, remove what was revoked.
func (w *c16World) opLoop(ci int, mask int) {
	c := w.clients[ci]
	w.stats.polls++
	w.withFailures(c, mask, "loop", func() {
		ctx := context.Background()
		w.x.NoErr(c.mod.registrationManager.refresh(ctx, time.Now()), "loop: refresh")
		w.x.NoErr(c.mod.clientUpdater.update(ctx), "loop: update")
		w.x.NoErr(c.mod.registrationManager.validate(), "loop: validate")
		w.x.NoErr(c.mod.registrationManager.removeRevoked(), "loop: removeRevoked")
	})
	w.polled()
}

// opRaceReg: subject s registers; a registration of ANOTHER subject runs (completely) after the at-th query the first one
// issues on the server database outside a transaction (inside one the single sqlite connection is taken: the database
// serialises, which is the lock doing its work). If the first never gets that far, the second simply follows it.
func (w *c16World) opRaceReg(s, sel, d int, at string) {
	s2 := (s + 1 + sel%(w.c.Subjects-1)) % w.c.Subjects
	if s2 == s {
		s2 = (s + 1) % w.c.Subjects
	}
	k, _ := strconv.Atoi(at)
	fired := false
	w.armedK = k
	w.armedReg = func() {
		fired = true
		w.opReg(s2, d, false)
	}
	w.opReg(s, d, false)
	w.armedReg = nil
	if fired {
		w.x.Classf("racereg:second-registration-inside-the-first-at-%s", at)
	} else {
		w.x.Class("racereg:second-registration-after-the-first")
		w.opReg(s2, d, false)
	}
	_, _, _, _ = w.serverGet(context.Background(), 0)
}

// opBurst: n subjects register at the same time from n goroutines. SAMPLED: the interleaving is the runtime's, a failure
// found here may not reproduce on every replay (signatures carry the prefix "sampled:").
func (w *c16World) opBurst(n, d int) {
	x := w.x
	if n > c16PoolSize {
		n = c16PoolSize
	}
	type item struct {
		e   *c16Entry
		err error
	}
	items := make([]item, n)
	for i := 0; i < n; i++ {
		off := w.nextOff(i, d)
		vp, id := w.validVP(i, off)
		items[i].e = &c16Entry{id: id, subj: i, kind: "reg", off: off, vp: vp}
	}
	refresh := false
	for i := 0; i < n; i++ {
		if w.list[i] != nil {
			refresh = true
		}
	}
	start := make(chan struct{})
	var wg sync.WaitGroup
	for i := range items {
		wg.Add(1)
		go func(i int) {
			defer wg.Done()
			<-start
			items[i].err = w.link.Register(context.Background(), c16Endpoint, items[i].e.vp)
		}(i)
	}
	close(start)
	wg.Wait()
	x.Classf("burst:sampled-%d-concurrent", n)
	prevMax := w.epochMaxTS
	var okItems []*c16Entry
	for i := range items {
		if items[i].err != nil {
			x.Violate("sampled:reject:concurrent-registration", "server refused a valid registration submitted concurrently with %d others: %v", n-1, items[i].err)
			continue
		}
		okItems = append(okItems, items[i].e)
	}
	entries, seed, ts, err := w.server.mod.Get(context.Background(), c16ServiceID, 0)
	x.NoErr(err, "Get after burst")
	byID := map[string][]int{}
	for key, vp := range entries {
		if vp.ID != nil {
			k, _ := strconv.Atoi(key)
			byID[vp.ID.String()] = append(byID[vp.ID.String()], k)
		}
	}
	usedTS := map[int]string{}
	for _, e := range okItems {
		w.stats.accepted++
		w.epochByID[e.id] = e
		w.everByID[e.id] = e
		w.list[e.subj] = e
		if e.off > w.lastOff[e.subj] {
			w.lastOff[e.subj] = e.off
		}
		ks := byID[e.id]
		if len(ks) != 1 {
			x.Violate("sampled:not-handed-out", "registration %s of subject %d, accepted concurrently with %d others, is handed out %d times by Get(0)", e.id, e.subj, n-1, len(ks))
			continue
		}
		e.ts = ks[0]
		if e.ts <= prevMax {
			x.Violate("sampled:timestamp-not-increasing", "%s got timestamp %d, %d was handed out before the burst", e.id, e.ts, prevMax)
		}
		if o, dup := usedTS[e.ts]; dup {
			x.Violate("sampled:timestamp-reused", "%s and %s both got timestamp %d", o, e.id, e.ts)
		}
		usedTS[e.ts] = e.id
		if e.ts > w.epochMaxTS {
			w.epochMaxTS = e.ts
		}
	}
	// rows: the same, below the Get API (which collapses equal timestamps into one map key)
	var rows []presentationRecord
	x.NoErr(w.server.db.Find(&rows, "service_id = ?", c16ServiceID).Error, "rows after burst")
	rowTS := map[int]string{}
	for _, r := range rows {
		if o, dup := rowTS[r.LamportTimestamp]; dup {
			x.Violate("sampled:timestamp-reused", "rows %s and %s both carry timestamp %d", o, r.PresentationID, r.LamportTimestamp)
		}
		rowTS[r.LamportTimestamp] = r.PresentationID
	}
	if len(x.Violations()) > 0 {
		w.abort = true
		return
	}
	if w.seed == "" {
		w.seed = seed
	}
	if refresh {
		w.mutation()
	}
	w.checkGet(0, entries, seed, ts, false)
	w.checkRows()
}

// opSelfPoll: the server node runs its OWN client update for the service it serves (the production loop updates every
// definition the node knows, also the ones it serves itself; the shared HTTP client then calls the node's own endpoint).
// Optionally a registration arrives right after the server produced the response of that Get.
func (w *c16World) opSelfPoll(s, d int, what string) {
	x := w.x
	var replaced, newer *c16Entry
	if what == "reg2" || what == "retract2" {
		// … and another one of the same subject arrived after the node chose the timestamp to ask for
		w.beforeGet = func() { w.opReg(s, d, false) }
	}
	if what != "none" {
		w.afterGet = func() {
			replaced = w.list[s]
			if what == "retract" || what == "retract2" {
				w.opRetract(s, d, "own")
			} else {
				w.opReg(s, d, false)
			}
			if cur := w.list[s]; cur != replaced {
				newer = cur
			}
		}
	}
	// the entry point of the production loop: update every service the node's client updater knows
	polled := false
	prev := w.beforeGet
	w.beforeGet = func() {
		polled = true
		if prev != nil {
			prev()
		}
	}
	err := w.server.mod.clientUpdater.update(context.Background())
	w.afterGet, w.beforeGet = nil, nil
	x.NoErr(err, "self poll")
	x.Classf("selfpoll:%s", what)
	if !polled {
		// the node does not keep a client copy of what it serves: nothing can interleave
		x.Class("selfpoll:node-does-not-poll-itself")
	}
	if newer != nil {
		x.Class("selfpoll:racing-a-registration")
		// did the node's own client update damage the list it serves (same store)? E.g. put a replaced presentation back over
		// the newer one and set the timestamp back, or wipe the list because the seed "changed" (first registration ever).
		var rows []presentationRecord
		x.NoErr(w.server.db.Find(&rows, "service_id = ? AND credential_subject_id = ?", c16ServiceID, c16Subjects[s].did.String()).Error, "self poll: rows")
		var svc serviceRecord
		x.NoErr(w.server.db.Find(&svc, "id = ?", c16ServiceID).Error, "self poll: service row")
		hasNewer := false
		for _, r := range rows {
			if r.PresentationID == newer.id {
				hasNewer = true
			}
		}
		if !hasNewer || svc.LastLamportTimestamp < w.epochMaxTS || svc.Seed != w.seed {
			x.Violate("selfpoll:own-client-update-damaged-the-served-list", "server updating its own 'client copy' while subject %d registered %s: entry still stored=%v, service timestamp %d (handed out: %d), seed %q (was %q)",
				s, newer.id, hasNewer, svc.LastLamportTimestamp, w.epochMaxTS, svc.Seed, w.seed)
			w.abort = true
			return
		}
	}
	_, _, _, _ = w.serverGet(context.Background(), 0)
	w.checkRows()
}

func (w *c16World) opRacePoll(ci, s, d int, what string) {
	fired := false
	w.armed = func() {
		fired = true
		w.stats.racesFired++
		if what == "retract" {
			w.opRetract(s, d, "own")
		} else {
			w.opReg(s, d, false)
		}
	}
	w.poll(w.clients[ci], false)
	w.armed = nil
	if !fired {
		w.x.Fatalf("race hook did not fire")
	}
	w.x.Class("poll:racing-a-registration")
	w.polled()
}

func (w *c16World) opReset(repop int) {
	x := w.x
	// the server loses its list: same effect as a fresh database (service row without seed, timestamp 0)
	x.NoErr(w.server.db.Exec("DELETE FROM discovery_presentation WHERE service_id = ?", c16ServiceID).Error, "reset: delete rows")
	x.NoErr(w.server.db.Exec("UPDATE discovery_service SET seed = '', last_lamport_timestamp = 0 WHERE id = ?", c16ServiceID).Error, "reset: service row")
	w.startModule(w.server)
	if w.seed != "" {
		w.oldSeeds[w.seed] = true
	}
	w.seed = ""
	w.list = map[int]*c16Entry{}
	w.epochByID = map[string]*c16Entry{}
	w.epochMaxTS = 0
	for _, c := range w.clients {
		c.resetSinceSettle = true
	}
	w.mutation()
	if repop > w.c.Subjects {
		repop = w.c.Subjects
	}
	x.Classf("reset:repopulated-%d", repop)
	for s := 0; s < repop; s++ {
		w.opReg(s, 5, false)
	}
}

func (w *c16World) opGet(sel int) {
	after := 0
	switch {
	case sel == 0:
	case sel == 6:
		after = w.epochMaxTS + 1
	default:
		if w.epochMaxTS > 0 {
			after = (sel * 7) % (w.epochMaxTS + 1)
		}
	}
	_, _, _, _ = w.serverGet(context.Background(), after)
	w.x.Class("get:observer")
}

// settle: two quiescent polls, then the client must show exactly the live registrations.
func (w *c16World) opSettle(ci int) {
	x := w.x
	c := w.clients[ci]
	w.poll(c, false)
	w.poll(c, false)
	w.reage()
	w.polled()
	if c.hadFailures {
		// entries this client could not verify when it fetched them only show after the background validation
		w.x.NoErr(c.mod.registrationManager.validate(), "settle: validate")
		w.x.Class("settle:after-validate")
	}
	w.settleCompare(c, "")
	if !c.hadFailures && len(x.Violations()) == 0 {
		// a clean validate() pass must not change anything
		w.x.NoErr(c.mod.registrationManager.validate(), "settle: validate")
		w.settleCompare(c, ":after-validate")
	}
	if len(x.Violations()) == 0 {
		c.resetSinceSettle = false
		c.hadFailures = false
	}
}

func (w *c16World) settleCompare(c *c16Node, stage string) {
	x := w.x
	// the server node answers searches on the list it serves from the same code: judge its fields too
	if sres, err := w.server.mod.Search(c16ServiceID, map[string]string{}); err == nil {
		w.checkFields("server", sres)
	} else {
		x.Fatalf("Search on server: %v", err)
	}
	want := map[string]*c16Entry{}
	for _, e := range w.list {
		if e.kind == "reg" && !w.expired(e) {
			want[e.id] = e
		}
	}
	got := w.search(c, map[string]string{})
	suffix := stage
	if c.hadFailures {
		suffix = ":after-verification-failures"
	}
	if c.resetSinceSettle {
		suffix += ":after-server-reset"
	}
	for _, id := range c16SortedKeys(want) {
		e := want[id]
		if !got[id] {
			x.Violate("converge:missing"+suffix, "%s: after two quiescent polls Search lacks live registration %s of subject %d (server timestamp %d)", c.name, id, e.subj, e.ts)
		}
	}
	for _, id := range c16SortedKeys(got) {
		if want[id] == nil {
			x.Violate("converge:extra"+suffix, "%s: after two quiescent polls Search returns %s which is not a live registration on the server", c.name, id)
		}
	}
	// the same through a query on the subject (only when the unfiltered result was right, to keep one signature per cause)
	if len(x.Violations()) == 0 {
		for s := 0; s < c16PoolSize; s++ {
			res := w.search(c, map[string]string{"credentialSubject.id": c16Subjects[s].did.String()})
			wantID := ""
			if e := w.list[s]; e != nil && e.kind == "reg" && !w.expired(e) {
				wantID = e.id
			}
			if wantID != "" && !res[wantID] {
				x.Violate("search:query-misses", "%s: query on the DID of subject %d does not find %s", c.name, s, wantID)
			}
			for id := range res {
				if id != wantID {
					x.Violate("search:query-extra", "%s: query on the DID of subject %d returns %s", c.name, s, id)
				}
			}
		}
	}
	if len(want) > 0 {
		x.Class("settle:non-empty")
	} else {
		x.Class("settle:empty")
	}
}

// ---------------------------------------------------------------------------------------------------------------------
// oracle: client

// c16CredSubject returns the (single) credentialSubject of a credential as a generic map.
func c16CredSubject(c vc.VerifiableCredential) map[string]interface{} {
	if len(c.CredentialSubject) != 1 {
		return nil
	}
	b, err := json.Marshal(c.CredentialSubject[0])
	if err != nil {
		return nil
	}
	var m map[string]interface{}
	_ = json.Unmarshal(b, &m)
	return m
}

func c16HasType(c vc.VerifiableCredential, t string) bool {
	for _, u := range c.Type {
		if u.String() == t {
			return true
		}
	}
	return false
}

// checkFields: the named constraint fields of every search result equal what the field's path yields on THE credential of
// that presentation that satisfies the field's input descriptor (independent evaluation of the four fixed paths of the
// definition; the order of the credentials inside the presentation is irrelevant, and so is the order of the results).
func (w *c16World) checkFields(node string, res []SearchResult) {
	x := w.x
	for _, r := range res {
		if r.Presentation.ID == nil {
			continue
		}
		var member, reg *vc.VerifiableCredential
		mi, ri := -1, -1
		for i := range r.Presentation.VerifiableCredential {
			c := r.Presentation.VerifiableCredential[i]
			switch {
			case c16HasType(c, "C16MembershipCredential") && c.Issuer.String() == c16Authority.did.String() && member == nil:
				member, mi = &r.Presentation.VerifiableCredential[i], i
			case c16HasType(c, "DiscoveryRegistrationCredential") && reg == nil:
				reg, ri = &r.Presentation.VerifiableCredential[i], i
			}
		}
		if member == nil || reg == nil || len(r.Presentation.VerifiableCredential) != 2 {
			continue // not a registration that fulfils the definition (injected by the faulty-server op): nothing to compare
		}
		if mi < ri {
			x.Class("search:result-credentials-in-definition-order")
		} else {
			x.Class("search:result-credentials-in-other-order")
		}
		want := map[string]interface{}{"issuer_field": member.Issuer.String()}
		ms, rs := c16CredSubject(*member), c16CredSubject(*reg)
		if v, ok := ms["name"]; ok {
			want["member_name"] = v
		}
		if addr, ok := ms["address"].(map[string]interface{}); ok {
			if v, ok := addr["city"]; ok {
				want["member_city"] = v
			}
		}
		if v, ok := rs["authServerURL"]; ok {
			want["auth_server_url"] = v
		}
		id := r.Presentation.ID.String()
		for _, k := range c16SortedKeys(want) {
			got, ok := r.Fields[k]
			if !ok {
				x.Violate("search:field-missing", "%s: result %s lacks field %q (expected %v; credentials in presentation order: membership at %d, registration at %d)", node, id, k, want[k], mi, ri)
			} else if fmt.Sprint(got) != fmt.Sprint(want[k]) {
				x.Violate("search:field-value-differs", "%s: result %s field %q = %v, the mapped credential has %v (membership at %d, registration at %d)", node, id, k, got, want[k], mi, ri)
			}
		}
		for _, k := range c16SortedKeys(r.Fields) {
			if _, ok := want[k]; !ok {
				x.Violate("search:field-unexpected", "%s: result %s carries field %q = %v which no named constraint field of the definition yields", node, id, k, r.Fields[k])
			}
		}
	}
}

func (w *c16World) search(c *c16Node, query map[string]string) map[string]bool {
	res, err := c.mod.Search(c16ServiceID, query)
	w.x.NoErr(err, "Search on "+c.name)
	w.checkFields(c.name, res)
	out := map[string]bool{}
	for _, r := range res {
		if r.Presentation.ID == nil {
			w.x.Violate("search:no-id", "%s: Search returned a presentation without id", c.name)
			continue
		}
		out[r.Presentation.ID.String()] = true
	}
	return out
}

// checkSearchSafety: whatever a client shows at any moment was verified by that client, is a registration, is unexpired.
func (w *c16World) checkSearchSafety() {
	x := w.x
	for _, c := range w.clients {
		res, err := c.mod.Search(c16ServiceID, map[string]string{})
		x.NoErr(err, "Search on "+c.name)
		subjects := map[string]bool{}
		for _, r := range res {
			if r.Presentation.ID == nil {
				x.Violate("search:no-id", "%s: Search returned a presentation without id", c.name)
				continue
			}
			id := r.Presentation.ID.String()
			e := w.everByID[id]
			switch {
			case e == nil:
				x.Violate("search:never-listed", "%s: Search returns %s which no server ever listed", c.name, id)
				continue
			case e.kind == "injected":
				x.Violate("search:unverifiable", "%s: Search returns %s, which does not verify", c.name, id)
			case e.kind == "retract":
				x.Violate("search:retraction", "%s: Search returns the retraction %s", c.name, id)
			}
			if w.expired(e) {
				x.Violate("search:expired", "%s: Search returns %s which expired (offset %d, clock %d)", c.name, id, e.off, w.clock)
			}
			if !c.ver.ok[id] {
				x.Violate("search:not-verified-by-client", "%s: Search returns %s which this client never verified successfully", c.name, id)
			}
			sg := c16Signer(r.Presentation)
			if subjects[sg] {
				x.Violate("search:two-per-subject", "%s: Search returns two presentations of %s", c.name, sg)
			}
			subjects[sg] = true
		}
	}
}

// reage rewrites the expiry column of every presentation the model clock has passed, in every database.
func (w *c16World) reage() {
	var ids []string
	for id, off := range w.allOffs {
		if off <= w.clock {
			ids = append(ids, id)
		}
	}
	if len(ids) == 0 {
		return
	}
	sort.Strings(ids)
	past := w.base.Add(-time.Hour).Unix()
	for _, n := range append([]*c16Node{w.server}, w.clients...) {
		w.x.NoErr(n.db.Exec("UPDATE discovery_presentation SET presentation_expiration = ? WHERE presentation_id IN ? AND presentation_expiration > ?", past, ids, past).Error, "age rows")
	}
}

func c16SortedKeys[V any](m map[string]V) []string {
	out := make([]string, 0, len(m))
	for k := range m {
		out = append(out, k)
	}
	sort.Strings(out)
	return out
}

func (w *c16World) mutation() {
	if w.history.pollSeen {
		w.history.mutationAfterPoll = true
	}
}

func (w *c16World) polled() {
	w.history.pollSeen = true
	if w.history.mutationAfterPoll {
		w.history.pollAfterMutation = true
	}
}

// ---------------------------------------------------------------------------------------------------------------------
// run

// c16NewWorld builds the fixture: one server and c.Clients clients on separate databases, linked in-process.
func c16NewWorld(x *h.Ctx, c c16Case) *c16World {
	c16Init(x.TB)
	w := &c16World{x: x, c: c, base: time.Now().Truncate(time.Second),
		list: map[int]*c16Entry{}, lastOff: map[int]int{}, epochByID: map[string]*c16Entry{}, everByID: map[string]*c16Entry{},
		oldSeeds: map[string]bool{}, allOffs: map[string]int{}, memberVC: map[int]vc.VerifiableCredential{}}
	w.link = &c16Link{w: w}
	w.server = w.newNode("server", true)
	for i := 0; i < c.Clients; i++ {
		w.clients = append(w.clients, w.newNode(fmt.Sprintf("client%d", i), false))
	}
	x.Cleanup(func() {
		for _, n := range append([]*c16Node{w.server}, w.clients...) {
			if n.mod != nil {
				_ = n.mod.Shutdown()
			}
		}
	})
	// the race hook: runs whatever is armed right after the next completed query on the server database
	err := w.server.db.Callback().Query().After("gorm:query").Register("verif:c16", func(d *gorm.DB) {
		if f := w.armed; f != nil {
			w.armed = nil
			f()
			return
		}
		if w.armedReg != nil {
			if _, inTx := d.Statement.ConnPool.(gorm.TxCommitter); inTx {
				return
			}
			if w.armedK > 0 {
				w.armedK--
				return
			}
			f := w.armedReg
			w.armedReg = nil
			f()
		}
	})
	x.NoErr(err, "register gorm callback")
	return w
}

func c16Run(x *h.Ctx, c c16Case) {
	if c.Clients < 1 || c.Clients > 2 || c.Subjects < 2 || c.Subjects > c16MaxSubjects || len(c.Ops) > 200 {
		return
	}
	w := c16NewWorld(x, c)

	for _, op := range c.Ops {
		if op.S < 0 || op.S >= c.Subjects || op.C < 0 || op.C >= c.Clients || op.D < 0 || op.D > 1000 ||
			op.F < 0 || op.F >= 1<<c16PoolSize || op.N < 0 || op.N > 64 {
			return
		}
		if w.abort {
			break
		}
		x.Classf("op:%s", op.K)
		switch op.K {
		case "reg":
			w.opReg(op.S, op.D, op.V)
		case "retract":
			w.opRetract(op.S, op.D, op.M)
		case "bad":
			w.opBad(op.S, op.D, op.M)
		case "credreg":
			w.opCredReg(op.S, op.D, op.M)
		case "badretract":
			w.opBadRetract(op.S, op.D, op.M)
		case "inject":
			w.opInject(op.S, op.D, op.M)
		case "advance":
			w.opAdvance(op.D)
		case "poll":
			w.opPoll(op.C, op.V, op.F)
		case "validate":
			w.opValidate(op.C, op.F)
		case "loop":
			w.opLoop(op.C, op.F)
		case "outage":
			w.opOutage(op.C, op.S, op.D, op.F)
		case "racereg":
			w.opRaceReg(op.S, op.N, op.D, op.M)
		case "burst":
			if op.N < 2 {
				return
			}
			w.opBurst(op.N, op.D)
		case "selfpoll":
			w.opSelfPoll(op.S, op.D, op.M)
		case "racepoll":
			w.opRacePoll(op.C, op.S, op.D, op.M)
		case "overlap":
			w.opOverlap(op)
		case "reset":
			w.opReset(op.D)
		case "restart":
			w.startModule(w.clients[op.C])
			x.Class("client-restart")
		case "srestart":
			w.startModule(w.server)
		case "get":
			w.opGet(op.D)
		case "settle":
			w.opSettle(op.C)
		default:
			return
		}
		if w.abort {
			break
		}
		w.reage()
		w.checkSearchSafety()
	}
	if !w.abort {
		for i := range w.clients {
			w.opSettle(i)
		}
		w.checkSearchSafety()
		w.checkRows()
	}
	if w.history.pollAfterMutation {
		x.NonTrivial()
	}
	h.Count("C16", x.Unit, "polls", w.stats.polls)
	h.Count("C16", x.Unit, "registrations_accepted", w.stats.accepted)
	h.Count("C16", x.Unit, "registrations_rejected", w.stats.rejected)
	h.Count("C16", x.Unit, "races_fired", w.stats.racesFired)
}

func TestVerif_C16_Discovery(t *testing.T) {
	h.Check(t, "C16", c16Gen, c16Run, h.PanicIsViolation())
}

func TestVerifReplay_C16_Discovery(t *testing.T) {
	h.Replay(t, "C16", "TestVerif_C16_Discovery", c16Run, h.PanicIsViolation())
}
