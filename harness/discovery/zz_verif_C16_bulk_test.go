//go:build verif

package discovery

// C16, bulk profile: nothing in the property bounds the size of a list. The server list is populated with N live entries
// (N boundary-heavy around typical page/limit constants) and a client that is fresh, k entries behind, or wiped by a seed
// change has to end up with exactly the live set; observer Gets at boundary timestamps go through the Get oracle.
//
// Population goes through the REAL Module.Register with real, individually signed presentations (one did:jwk subject per
// entry; keys come from a pool that is reused across the cases of a process). Only the per-step model bookkeeping is batched:
// timestamps are learned from one Get(0) after a batch instead of one per registration.
//
// Client bound: the client may poll until two consecutive requests returned no entries, at most ceil(unseen/20)+2 times
// (20 = smallest page size considered plausible). With the current code one poll transfers everything; a server that
// hands the list out in pages and returns the timestamp of the last row of each page converges within the bound too and
// passes the Get oracle (completeness is demanded up to the returned timestamp, see checkGet).

import (
	"context"
	"fmt"
	"sort"
	"strconv"
	"testing"

	"github.com/nuts-foundation/go-did/vc"
	"pgregory.net/rapid"
	"verif.local/h"
)

const c16SmallestPage = 20

type c16BulkCase struct {
	Profile string `json:"profile"`       // fresh | behind | wiped
	A       int    `json:"a,omitempty"`   // behind: entries the client has already seen · wiped: size of the old list the client had synced
	K       int    `json:"k"`             // entries the client has not seen yet when it polls
	Pct     int    `json:"pct,omitempty"` // behind: share (percent) of the K unseen entries that are refreshes of entries the client has
	Gets    []int  `json:"gets"`          // observer Gets: selectors into the boundary timestamps
}

// boundary constants first: rapid prefers (and shrinks towards) small indices, and 101 is the smallest list that exceeds a
// limit of 100. 1000 is drawn separately with a low weight (it costs seconds).
var c16BulkSizes = []int{101, 129, 257, 100, 128, 256, 300, 99, 255, 2, 1, 0}

func c16GenSize(t *rapid.T, label string, small bool) int {
	switch m := rapid.IntRange(0, 19).Draw(t, label+"-mode"); {
	case small || m >= 15 && m < 19:
		return rapid.IntRange(0, 20).Draw(t, label+"-small")
	case m == 19:
		return 1000
	default:
		return rapid.SampledFrom(c16BulkSizes).Draw(t, label)
	}
}

func c16GenBulk(t *rapid.T) c16BulkCase {
	c := c16BulkCase{Profile: rapid.SampledFrom([]string{"fresh", "behind", "behind", "wiped"}).Draw(t, "profile")}
	c.K = c16GenSize(t, "k", false)
	switch c.Profile {
	case "behind":
		c.A = c16GenSize(t, "a", rapid.IntRange(0, 2).Draw(t, "a-small") > 0)
		if c.A == 0 {
			c.A = 1
		}
		c.Pct = rapid.SampledFrom([]int{0, 0, 10, 50, 100}).Draw(t, "pct")
		if c.A+c.K > 1300 {
			c.A = 300
		}
	case "wiped":
		c.A = rapid.SampledFrom([]int{1, 1, 2, 3, 5, 101}).Draw(t, "old")
	}
	n := rapid.IntRange(1, 3).Draw(t, "ngets")
	for i := 0; i < n; i++ {
		c.Gets = append(c.Gets, rapid.IntRange(0, 11).Draw(t, "get"))
	}
	return c
}

func c16Bucket(n int) string {
	switch {
	case n == 0:
		return "0"
	case n <= 2:
		return "1-2"
	case n < 99:
		return "3-98"
	case n <= 101:
		return "99-101"
	case n < 128:
		return "102-127"
	case n <= 129:
		return "128-129"
	case n < 255:
		return "130-254"
	case n <= 257:
		return "255-257"
	case n < 1000:
		return "258-999"
	default:
		return "1000+"
	}
}

// bulkRegister registers fresh valid presentations for the given subjects, one after the other, through the real Register,
// then learns the timestamps from one Get(0) and applies the ordering oracle to the batch.
func (w *c16World) bulkRegister(subjects []int) {
	x := w.x
	if len(subjects) == 0 {
		return
	}
	ctx := context.Background()
	batch := make([]*c16Entry, 0, len(subjects))
	for _, s := range subjects {
		off := w.nextOff(s, 5)
		vp, id := w.validVP(s, off)
		if err := w.link.Register(ctx, c16Endpoint, vp); err != nil {
			x.Violate("reject:bulk-registration", "server refused valid registration number %d of subject %d: %v", len(batch)+1, s, err)
			w.abort = true
			return
		}
		e := &c16Entry{id: id, subj: s, kind: "reg", off: off, vp: vp}
		w.stats.accepted++
		w.epochByID[id] = e
		w.everByID[id] = e
		w.list[s] = e
		if off > w.lastOff[s] {
			w.lastOff[s] = off
		}
		batch = append(batch, e)
	}
	entries, seed, ts, err := w.server.mod.Get(ctx, c16ServiceID, 0)
	x.NoErr(err, "Get after bulk registration")
	byID := make(map[string]int, len(entries))
	for key, vp := range entries {
		if vp.ID != nil {
			k, _ := strconv.Atoi(key)
			byID[vp.ID.String()] = k
		}
	}
	prev := w.epochMaxTS
	for i, e := range batch {
		if w.list[e.subj] != e {
			continue // replaced later in the same batch
		}
		k, ok := byID[e.id]
		if !ok {
			// (a paginating server would not list everything in Get(0): learn from the rows instead)
			var row presentationRecord
			x.NoErr(w.server.db.Find(&row, "service_id = ? AND presentation_id = ?", c16ServiceID, e.id).Error, "row of bulk registration")
			if row.ID == "" {
				x.Violate("accept:not-listed", "accepted bulk registration %d (%s) is not stored", i, e.id)
				w.abort = true
				return
			}
			k = row.LamportTimestamp
		}
		e.ts = k
		if e.ts <= prev {
			x.Violate("ts:not-increasing", "bulk registration %d (%s) got timestamp %d, the previous one was %d", i, e.id, e.ts, prev)
		}
		prev = e.ts
	}
	if prev > w.epochMaxTS {
		w.epochMaxTS = prev
	}
	if w.seed == "" {
		w.seed = seed
	}
	w.checkGet(0, entries, seed, ts, false)
}

// bulkSettle lets the client poll until two consecutive requests brought nothing (at most ceil(unseen/20)+2 polls), then
// compares its Search with the live list.
func (w *c16World) bulkSettle(c *c16Node, unseen int, stage string) {
	x := w.x
	bound := (unseen+c16SmallestPage-1)/c16SmallestPage + 2
	empty, polls := 0, 0
	for polls < bound && empty < 2 {
		w.poll(c, false)
		polls++
		if w.lastPage == 0 {
			empty++
		} else {
			empty = 0
		}
	}
	x.Classf("bulk:client-polls-%d", polls)
	w.reage()
	want := map[string]*c16Entry{}
	for _, e := range w.list {
		if e.kind == "reg" && !w.expired(e) {
			want[e.id] = e
		}
	}
	got := w.search(c, map[string]string{})
	missing, extra := 0, 0
	var firstMissing *c16Entry
	for _, id := range c16SortedKeys(want) {
		if !got[id] {
			missing++
			if firstMissing == nil || want[id].ts < firstMissing.ts {
				firstMissing = want[id]
			}
		}
	}
	for id := range got {
		if want[id] == nil {
			extra++
		}
	}
	if missing > 0 {
		x.Violate("converge:missing:"+stage, "%s: after %d polls (the last two brought nothing; bound %d) Search lacks %d of the %d live registrations, the first at server timestamp %d", c.name, polls, bound, missing, len(want), firstMissing.ts)
	}
	if extra > 0 {
		x.Violate("converge:extra:"+stage, "%s: after %d polls Search returns %d presentations that are not live registrations on the server", c.name, polls, extra)
	}
}

func c16RunBulk(x *h.Ctx, c c16BulkCase) {
	if c.K < 0 || c.K > 1500 || c.A < 0 || c.A > 1500 || c.Pct < 0 || c.Pct > 100 || len(c.Gets) > 16 {
		return
	}
	if c.Profile != "fresh" && c.Profile != "behind" && c.Profile != "wiped" {
		return
	}
	w := c16NewWorld(x, c16Case{Clients: 1, Subjects: 2})
	client := w.clients[0]
	seq := func(from, n int) []int {
		out := make([]int, n)
		for i := range out {
			out[i] = from + i
		}
		return out
	}
	unseen := c.K
	live := 0
	switch c.Profile {
	case "fresh":
		c16EnsureSubjects(c.K)
		w.bulkRegister(seq(0, c.K))
		live = c.K
	case "behind":
		refreshes := c.K * c.Pct / 100
		if refreshes > c.A {
			refreshes = c.A
		}
		fresh := c.K - refreshes
		c16EnsureSubjects(c.A + fresh)
		w.bulkRegister(seq(0, c.A))
		if w.abort {
			return
		}
		w.bulkSettle(client, c.A, "bulk-first-sync")
		if len(x.Violations()) > 0 {
			return
		}
		// the client is now k entries behind: refreshes of what it has (spread over the old list) and new subjects, interleaved
		var later []int
		step := 1
		if refreshes > 0 {
			step = c.A / refreshes
		}
		for i := 0; i < refreshes || i < fresh; i++ {
			if i < refreshes {
				later = append(later, (i*step)%c.A)
			}
			if i < fresh {
				later = append(later, c.A+i)
			}
		}
		w.bulkRegister(later)
		live = c.A + fresh
		x.Classf("bulk:refresh-share-%d%%", c.Pct)
	case "wiped":
		c16EnsureSubjects(c.A + c.K)
		w.bulkRegister(seq(0, c.A))
		if w.abort {
			return
		}
		w.bulkSettle(client, c.A, "bulk-first-sync")
		if len(x.Violations()) > 0 {
			return
		}
		w.opReset(0)
		// other subjects than before populate the new list (the old ones are gone with the old list)
		w.bulkRegister(seq(c.A, c.K))
		unseen = c.K + 1 // + the poll the wipe consumes is in the "+2"
		live = c.K
	}
	if w.abort {
		return
	}
	x.Classf("bulk:profile-%s", c.Profile)
	x.Classf("bulk:list-size-%s", c16Bucket(live))
	x.Classf("bulk:client-lag-%s", c16Bucket(c.K))

	// observer Gets at boundary timestamps
	max := w.epochMaxTS
	bounds := []int{0, 1, max - 257, max - 256, max - 129, max - 128, max - 101, max - 100, max - 99, max - 1, max, max + 1}
	for _, sel := range c.Gets {
		if sel < 0 || sel >= len(bounds) {
			return
		}
		after := bounds[sel]
		if after < 0 {
			after = 0
		}
		_, _, _, _ = w.serverGet(context.Background(), after)
	}
	if len(x.Violations()) > 0 {
		return
	}

	w.bulkSettle(client, unseen, "bulk-"+c.Profile)
	w.checkSearchSafety()
	w.checkRows()
	if live > 0 {
		x.NonTrivial()
	}
	h.Count("C16", x.Unit, "bulk_registrations", w.stats.accepted)
	h.Count("C16", x.Unit, "polls", w.stats.polls)
	_ = fmt.Sprint
	_ = sort.Ints
	_ = vc.VerifiablePresentation{}
}

func TestVerif_C16_Bulk(t *testing.T) {
	h.Check(t, "C16", c16GenBulk, c16RunBulk, h.PanicIsViolation())
}

func TestVerifReplay_C16_Bulk(t *testing.T) {
	h.Replay(t, "C16", "TestVerif_C16_Bulk", c16RunBulk, h.PanicIsViolation())
}
