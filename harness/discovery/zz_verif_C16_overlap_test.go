//go:build verif

package discovery

// C16, op "overlap": TWO OVERLAPPING ACTIVITIES OF ONE CLIENT NODE on one store.
//
// A node has no lock around its client-side work: the periodic loop (Module.update: clientUpdater.update, then
// registrationManager.validate) runs on its own goroutine, and every ActivateServiceForSubject call polls the service once
// more (clientUpdater.updateService) from an API goroutine. Both work on the same tables. The property quantifies over
// schedules, so the harness owns the interleaving (as it does for the server's two reads in sqlStore.get): the OUTER activity
// is suspended at one of three points that are outside any database transaction, and the OVERTAKING activity (a change on
// the server, then a complete poll of the same client, optionally followed by validate()) runs to completion there, on the
// same goroutine (deterministic, replayable):
//
//	ask     the outer poll has read its timestamp and is about to send the request
//	resp    the server has produced the outer poll's response, the client has not processed it yet (response in flight):
//	        the outer poll then stores an OLDER view of the list AFTER the newer one
//	verify  the outer activity (poll, loop round or background validation) is verifying a presentation of subject S that
//	        it stored / found unvalidated: its verification result arrives for a row that may have been replaced meanwhile
//
// Shape of the op (self-contained, so that the response of the outer poll holds exactly one entry and nothing depends on map
// order): the client catches up (two polls, clean validate); S lists a new presentation P1; [outer = validate: the client
// fetches P1 during a verifier outage, so it is stored unvalidated]; the outer activity starts and is overtaken at <at> by:
// subject S' (mostly S) registers / retracts / gets a non-verifying presentation injected, and the client polls, during
// which verification of the subjects in mask F fails (this node cannot verify them right now).
//
// Oracle: nothing new. Search safety (only what THIS client verified itself, unexpired, one per subject) after the overtaking
// poll and after the op; exact convergence after the quiescent polls at the next settle / the end of the history.

import (
	"strings"

	"github.com/nuts-foundation/go-did/vc"
	"pgregory.net/rapid"
)

var (
	c16OverlapAts    = []string{"ask", "resp", "verify"}
	c16OverlapWhats  = []string{"reg", "retract", "inject"}
	c16OverlapOuters = []string{"poll", "loop", "validate"}
)

func c16GenOverlap(t *rapid.T, c c16Case, op *c16Op) {
	op.C = rapid.IntRange(0, c.Clients-1).Draw(t, "c")
	op.S = rapid.IntRange(0, c.Subjects-1).Draw(t, "s")
	op.D = rapid.IntRange(1, 60).Draw(t, "d")
	outer := rapid.SampledFrom([]string{"poll", "poll", "poll", "loop", "validate", "validate"}).Draw(t, "outer")
	at := "verify" // the background validation sends no request
	if outer != "validate" {
		at = rapid.SampledFrom([]string{"ask", "resp", "resp", "resp", "verify", "verify"}).Draw(t, "at")
	}
	what := rapid.SampledFrom([]string{"reg", "reg", "reg", "retract", "inject"}).Draw(t, "what")
	op.M = at + ":" + what + ":" + outer
	op.N = rapid.SampledFrom([]int{0, 0, 0, 1, 2}).Draw(t, "other")
	op.F = c16GenMask(t, c.Subjects)
	op.V = rapid.Bool().Draw(t, "v")
}

func c16In(list []string, s string) bool {
	for _, e := range list {
		if e == s {
			return true
		}
	}
	return false
}

// duringFailures runs fn while verification of the masked subjects' presentations fails on client c, and restores the
// fault state of the (suspended) outer activity afterwards.
func (w *c16World) duringFailures(c *c16Node, mask int, fn func()) {
	if mask != 0 {
		c.hadFailures = true
	}
	c.ver.mu.Lock()
	prev := c.ver.failFor
	c.ver.mu.Unlock()
	c.ver.setFailures(mask)
	fn()
	c.ver.mu.Lock()
	c.ver.failFor = prev
	c.ver.mu.Unlock()
}

func (w *c16World) opOverlap(op c16Op) {
	x := w.x
	parts := strings.Split(op.M, ":")
	if len(parts) != 3 || !c16In(c16OverlapAts, parts[0]) || !c16In(c16OverlapWhats, parts[1]) || !c16In(c16OverlapOuters, parts[2]) {
		return
	}
	at, what, outer := parts[0], parts[1], parts[2]
	if outer == "validate" {
		at = "verify"
	}
	c := w.clients[op.C]
	s := op.S
	s2 := (s + op.N) % w.c.Subjects

	// 1. the client is up to date, and everything it can verify is flagged
	w.poll(c, false)
	w.poll(c, false)
	x.NoErr(c.mod.registrationManager.validate(), "overlap: validate")
	w.reage()
	w.polled()

	// 2. S lists a new presentation, which the client has not fetched yet
	before := w.list[s]
	w.opReg(s, op.D, false)
	first := w.list[s]
	if first == nil || first == before || len(x.Violations()) > 0 {
		x.Class("skipped:overlap")
		return
	}
	if outer == "validate" {
		// … or fetched while it could not verify anything: stored, not validated, left to the background validation
		w.withFailures(c, 1<<uint(c16PoolSize)-1, "poll", func() { w.poll(c, false) })
		w.polled()
	}

	// 3. what overtakes the outer activity
	fired := false
	var replaced, newer *c16Entry
	overtake := func() {
		fired = true
		replaced = w.list[s2]
		switch what {
		case "reg":
			w.opReg(s2, op.D, false)
		case "retract":
			w.opRetract(s2, op.D, "own")
		case "inject":
			w.opInject(s2, op.D, c16InjectDefects[op.N%len(c16InjectDefects)])
		}
		if cur := w.list[s2]; cur != replaced {
			newer = cur
		}
		w.duringFailures(c, op.F, func() { w.poll(c, op.V) })
		w.polled()
		w.reage()
		w.checkSearchSafety()
	}
	switch at {
	case "ask":
		w.beforeGet = overtake
	case "resp":
		w.afterGet = overtake
	case "verify":
		target := c16Subjects[s].did.String()
		c.ver.mu.Lock()
		c.ver.onVerify = func(vp vc.VerifiablePresentation) bool {
			if c16Signer(vp) != target {
				return false
			}
			overtake()
			return true
		}
		c.ver.mu.Unlock()
	}

	// 4. the outer activity
	switch outer {
	case "poll": // what ActivateServiceForSubject triggers
		w.poll(c, false)
	case "loop": // what the periodic loop does
		w.poll(c, true)
	case "validate":
		x.NoErr(c.mod.registrationManager.validate(), "overlap: outer validate")
	}
	w.beforeGet, w.afterGet = nil, nil
	c.ver.mu.Lock()
	c.ver.onVerify = nil
	c.ver.mu.Unlock()
	w.polled()

	x.Classf("overlap:%s:%s", outer, at)
	if !fired {
		x.Class("overlap:outer-activity-never-reached-the-point")
		return
	}
	x.Classf("overlap:overtaken-by-%s", what)
	if newer == nil {
		x.Class("overlap:change-on-the-server-refused")
		return
	}
	unverifiable := what == "inject" || op.F&(1<<uint(s2)) != 0
	switch {
	case s2 != s:
		x.Class("overlap:other-subject-changed")
	case at == "resp":
		x.Class("overlap:older-response-stored-after-the-newer-one")
	case at == "verify" && unverifiable:
		x.Class("overlap:verification-result-arrives-for-a-row-replaced-by-an-entry-the-client-cannot-verify")
	case at == "verify":
		x.Class("overlap:verification-result-arrives-for-a-replaced-row")
	default:
		x.Class("overlap:newer-list-stored-before-the-request")
	}
}
