//go:build verif

package discovery

// C16, short-lived replacements: a client holds P (long-lived) of a subject; the subject retracts P or replaces it with a
// presentation R that is valid for a second or two only; R expires before the client polls again and nothing else is
// registered in between (the server prunes only when something is added, so it still hands out R). After its next polls the
// client must not show P any more: the server has not listed P since R was accepted.
//
// REAL TIME: the code compares a presentation's `exp` with the wall clock (JWT validation, and whatever a client does with
// expired entries), and the fixture has no clock hook, so "R expires" cannot be simulated by rewriting rows here. R gets
// exp = (now truncated to the second) + 2 s and the case SLEEPS ONCE until every R has expired (about 1–2 s per case).
// A registration of R that is refused after a stall of more than 0.5 s (loaded machine: R may have expired on the way) ends the
// case without a verdict.
//
// Not generated: a registration by ANYBODY between R's expiry and the client's poll. It would make the server prune R, and a
// retraction that is gone before a client saw it cannot reach that client in this protocol (the real client builds
// retractions and refreshes with the maximum validity, see the assumption of the main unit).

import (
	"testing"
	"time"

	"github.com/nuts-foundation/go-did/vc"
	"pgregory.net/rapid"
	"verif.local/h"
)

type c16ShortCase struct {
	Actions []string `json:"actions"` // per subject (1–3): retract | refresh | keep | refresh-long
	Early   bool     `json:"early"`   // client1 polls between the replacement and its expiry (it sees R in time)
	Restart bool     `json:"restart"` // client0 restarts before it polls
	Tail    bool     `json:"tail"`    // afterwards another subject registers (the server prunes), everybody polls again
}

func c16GenShort(t *rapid.T) c16ShortCase {
	c := c16ShortCase{}
	n := rapid.IntRange(1, 3).Draw(t, "subjects")
	for i := 0; i < n; i++ {
		c.Actions = append(c.Actions, rapid.SampledFrom([]string{"retract", "refresh", "retract", "refresh", "keep", "refresh-long"}).Draw(t, "action"))
	}
	c.Early = rapid.Bool().Draw(t, "early")
	c.Restart = rapid.Bool().Draw(t, "restart")
	c.Tail = rapid.Bool().Draw(t, "tail")
	return c
}

func c16RunShort(x *h.Ctx, c c16ShortCase) {
	if len(c.Actions) < 1 || len(c.Actions) > 3 {
		return
	}
	w := c16NewWorld(x, c16Case{Clients: 2, Subjects: 4})
	n := len(c.Actions)
	// 1. everybody registers a long-lived P, both clients hold it
	for s := 0; s < n; s++ {
		w.opReg(s, 20, false)
	}
	for _, cl := range w.clients {
		w.poll(cl, false)
	}
	w.polled()
	// 2. short-lived replacements
	var latest time.Time
	short := 0
	for s, a := range c.Actions {
		cur := w.list[s]
		if cur == nil {
			x.Fatalf("no entry for subject %d", s)
		}
		switch a {
		case "keep":
			continue
		case "refresh-long":
			w.opReg(s, 5, false)
			continue
		case "retract", "refresh":
		default:
			return
		}
		exp := time.Now().Truncate(time.Second).Add(2 * time.Second)
		subj := c16Subjects[s]
		var vp vc.VerifiablePresentation
		var id string
		kind := "reg"
		if a == "retract" {
			kind = "retract"
			vp, id = w.buildVP(c16VPSpec{signer: subj, aud: []string{c16ServiceID}, exp: &exp,
				types: []string{"RetractedVerifiablePresentation"}, extra: map[string]interface{}{"retract_jti": cur.id}})
		} else {
			vp, id = w.buildVP(c16VPSpec{signer: subj, aud: []string{c16ServiceID}, exp: &exp,
				creds: []vc.VerifiableCredential{w.memberOf(s), w.registrationVC(subj.did)}})
		}
		t0 := time.Now()
		err := w.submit(vp, false)
		if err != nil {
			if time.Since(t0) > 500*time.Millisecond || !time.Now().Before(exp.Add(-300*time.Millisecond)) {
				x.Class("shortlived:no-verdict-machine-too-slow")
				return
			}
			x.Violate("reject:short-lived-"+a, "server refused a valid %s that is valid for %v more: %v", a, time.Until(exp), err)
			return
		}
		x.Classf("shortlived:%s", a)
		w.accepted(&c16Entry{id: id, subj: s, kind: kind, off: w.lastOff[s], vp: vp, realExp: exp})
		w.mutation()
		short++
		if exp.After(latest) {
			latest = exp
		}
	}
	if c.Early {
		w.poll(w.clients[1], false)
		x.Class("shortlived:other-client-polled-before-expiry")
	}
	// 3. the replacements expire; nothing is registered meanwhile
	if short > 0 {
		if d := time.Until(latest.Add(150 * time.Millisecond)); d > 0 {
			if d > 2500*time.Millisecond {
				x.Fatalf("would sleep %v", d)
			}
			time.Sleep(d)
		}
	}
	if c.Restart {
		w.startModule(w.clients[0])
	}
	// 4. the clients poll; what they show must be the live list
	stage := ":short-lived-replacement-expired-before-the-poll"
	for _, cl := range w.clients {
		w.poll(cl, false)
		w.poll(cl, false)
		w.settleCompare(cl, stage)
	}
	w.polled()
	w.checkSearchSafety()
	if len(x.Violations()) > 0 {
		return
	}
	if c.Tail {
		// somebody else registers: the server prunes what expired; the clients must still be right
		w.opReg(3, 5, false)
		for _, cl := range w.clients {
			w.poll(cl, false)
			w.poll(cl, false)
			w.x.NoErr(cl.mod.registrationManager.validate(), "validate")
			w.settleCompare(cl, stage+":after-prune")
		}
		w.checkSearchSafety()
		x.Class("shortlived:server-pruned-afterwards")
	}
	w.checkRows()
	if short > 0 {
		x.NonTrivial()
	}
}

func TestVerif_C16_ShortLived(t *testing.T) {
	h.Check(t, "C16", c16GenShort, c16RunShort, h.PanicIsViolation())
}

func TestVerifReplay_C16_ShortLived(t *testing.T) {
	h.Replay(t, "C16", "TestVerif_C16_ShortLived", c16RunShort, h.PanicIsViolation())
}
