//go:build verif

package discovery

// C19 target: the client side of Discovery. A node polls the Discovery Services it uses (clientUpdater.update, started in a
// background goroutine by Module.Start) and processes whatever the remote server answers. A case is a history of 1–3 polls;
// the server's answer per poll is generated: a response with 0–3 entries (valid JWT presentations, JWT presentations without
// jti / mutated at claim level / differently signed, JSON-LD presentations with or without id, non-presentation values),
// seed and timestamp members, optionally mutated as a whole (structure-aware and raw), or a non-200 answer / dropped
// connection. The real discovery HTTP client (client.New) talks to a loopback server, so response decoding is the real one.
// After each poll the follow-up jobs over what was stored run too (validate, removeRevoked, Search).
// Oracle: no panic through a nuts-node frame, no hang; when the poll itself failed (no decodable answer), the local copy
// (presentations, seed, timestamp) is unchanged.

import (
	"context"
	"encoding/json"
	"fmt"
	"net/http"
	"net/http/httptest"
	"strings"
	"sync"
	"sync/atomic"
	"testing"
	"time"

	"github.com/nuts-foundation/nuts-node/discovery/api/server/client"
	"pgregory.net/rapid"
	"verif.local/h"
	"verif.local/h/c19x"
	"verif.local/h/jsonmut"
)

type c19CUEntry struct {
	Key  string     `json:"key"`
	Kind string     `json:"kind"` // jwt | jwt-nojti | jwt-noiss | jwt-novp | ld | ld-noid | ld-noproof | garbage-string | number | null | object
	Plan *c19x.Plan `json:"plan,omitempty"`
	Sig  string     `json:"sig"`
}

type c19CUStep struct {
	Answer    string       `json:"answer"` // 200 | 404 | 500 | 204 | drop
	Entries   []c19CUEntry `json:"entries"`
	Seed      string       `json:"seed"`
	Timestamp int          `json:"timestamp"`
	Body      *c19x.Plan   `json:"body,omitempty"` // on the whole response
}

type c19CUCase struct {
	Steps []c19CUStep `json:"steps"`
}

var c19CUKinds = []string{"jwt", "jwt", "jwt", "jwt-nojti", "jwt-noiss", "jwt-novp", "ld", "ld-noid", "ld-noproof", "garbage-string", "number", "null", "object"}

func c19CUGen(t *rapid.T) c19CUCase {
	var c c19CUCase
	n := rapid.IntRange(1, 3).Draw(t, "n")
	for i := 0; i < n; i++ {
		l := fmt.Sprintf("s%d", i)
		s := c19CUStep{
			Answer:    rapid.SampledFrom([]string{"200", "200", "200", "200", "200", "200", "404", "500", "204", "drop"}).Draw(t, l+".answer"),
			Seed:      rapid.SampledFrom([]string{"seed", "seed", "seed", "other", ""}).Draw(t, l+".seed"),
			Timestamp: rapid.SampledFrom([]int{1, 2, 3, 5, 0, -1, 1 << 40}).Draw(t, l+".ts"),
		}
		ne := rapid.IntRange(0, 3).Draw(t, l+".ne")
		for j := 0; j < ne; j++ {
			le := fmt.Sprintf("%s.e%d", l, j)
			en := c19CUEntry{
				Key:  rapid.SampledFrom([]string{"1", "2", "3", "x", "", "-1"}).Draw(t, le+".key"),
				Kind: rapid.SampledFrom(c19CUKinds).Draw(t, le+".kind"),
				Sig:  rapid.SampledFrom([]string{c19x.SigValid, c19x.SigValid, c19x.SigValid, c19x.SigGarbage, c19x.SigEmpty}).Draw(t, le+".sig"),
			}
			if rapid.IntRange(0, 2).Draw(t, le+".mut") == 0 {
				p := c19x.GenPlan(t, []string{"iss", "sub", "aud", "exp", "nbf", "iat", "jti", "vp", "type", "verifiableCredential", "holder", "@context", "id", "proof", "verificationMethod", "created", "jws", "proofPurpose", "domain", "challenge", "expires"})
				en.Plan = &p
			}
			s.Entries = append(s.Entries, en)
		}
		if rapid.IntRange(0, 2).Draw(t, l+".bodymut") == 0 {
			p := c19x.GenPlan(t, []string{"entries", "seed", "timestamp", "1", "2", "3", "x"})
			s.Body = &p
		}
		c.Steps = append(c.Steps, s)
	}
	return c
}

// the loopback Discovery Server: answers what the current step says
type c19CUAnswer struct {
	status int // 0 = drop the connection
	body   []byte
}

var (
	c19CUOnce    sync.Once
	c19CUServer  *httptest.Server
	c19CUCurrent atomic.Pointer[c19CUAnswer]
	c19CUCalls   atomic.Int64
)

func c19CUGetServer() *httptest.Server {
	c19CUOnce.Do(func() {
		c19CUServer = httptest.NewServer(http.HandlerFunc(func(w http.ResponseWriter, r *http.Request) {
			c19CUCalls.Add(1)
			a := c19CUCurrent.Load()
			if a == nil || a.status == 0 {
				if hj, ok := w.(http.Hijacker); ok {
					if conn, _, err := hj.Hijack(); err == nil {
						_ = conn.Close()
						return
					}
				}
				w.WriteHeader(http.StatusBadGateway)
				return
			}
			w.Header().Set("Content-Type", "application/json")
			w.WriteHeader(a.status)
			_, _ = w.Write(a.body)
		}))
	})
	return c19CUServer
}

func c19CULDPresentation(now int64, id string, creds []any, withProof bool) map[string]any {
	m := map[string]any{"@context": []any{"https://www.w3.org/2018/credentials/v1", "https://w3id.org/security/suites/jws-2020/v1"}, "type": []any{"VerifiablePresentation"},
		"holder": c19Holder, "verifiableCredential": creds}
	if id != "" {
		m["id"] = id
	}
	if withProof {
		m["proof"] = map[string]any{"type": "JsonWebSignature2020", "verificationMethod": c19HolderKid, "proofPurpose": "assertionMethod", "created": time.Unix(now-60, 0).UTC().Format(time.RFC3339),
			"expires": time.Unix(now+3600, 0).UTC().Format(time.RFC3339), "domain": c19Service, "challenge": "abc", "jws": "eyJhbGciOiJFUzI1NiIsImI2NCI6ZmFsc2UsImNyaXQiOlsiYjY0Il19..AAAA"}
	}
	return m
}

func c19CUDigest(x *h.Ctx, e *c19RegEnv) string {
	var svcs []serviceRecord
	x.NoErr(e.db.Order("id").Find(&svcs).Error, "read services")
	s := ""
	for _, r := range svcs {
		s += fmt.Sprintf("[%s seed=%q ts=%d]", r.ID, r.Seed, r.LastLamportTimestamp)
	}
	return s + " " + c19RegDigest(x, e.db)
}

func c19CURun(x *h.Ctx, c c19CUCase) {
	if len(c.Steps) > 4 {
		return
	}
	var e *c19RegEnv
	var u *clientUpdater
	var rm *clientRegistrationManager
	now := time.Now().Unix()
	c19x.Setup(x, "discovery client fixture", func() {
		e = c19RegGetEnv(x)
		for _, tbl := range []string{"discovery_service", "discovery_presentation", "discovery_credential", "credential", "credential_prop"} {
			x.NoErr(e.db.Exec("DELETE FROM "+tbl).Error, "reset "+tbl)
		}
		x.NoErr(e.db.Save(&serviceRecord{ID: c19Service}).Error, "service row")
		def := e.module.allDefinitions[c19Service]
		def.Endpoint = c19CUGetServer().URL + "/discovery/" + c19Service
		defs := map[string]ServiceDefinition{c19Service: def}
		httpClient := client.New(5 * time.Second)
		u = newClientUpdater(defs, e.module.store, e.module.verifyRegistration, httpClient)
		rm = newRegistrationManager(defs, e.module.store, httpClient, e.module.vcrInstance, nil, c19DIDs{}, e.module.verifyRegistration)
	})
	for i, s := range c.Steps {
		// the server's answer
		answer := &c19CUAnswer{}
		oversize := false
		c19x.Setup(x, "answer", func() {
			var entryKeys []string
			entries := map[string][]byte{} // key -> raw bytes of the value, verbatim (possibly not JSON after a raw mutation)
			put := func(k string, v any) {
				if _, dup := entries[k]; !dup {
					entryKeys = append(entryKeys, k)
				}
				if raw, isRaw := v.([]byte); isRaw {
					entries[k] = raw
					return
				}
				b, err := json.Marshal(v)
				x.NoErr(err, "marshal entry")
				entries[k] = b
			}
			for j, en := range s.Entries {
				if len(s.Entries) > 4 {
					break
				}
				vcTok := c19x.Compact(c19JWTHeader(c19IssuerKid), jsonmut.Encode(c19VCClaims(now, 10*i+j)), c19x.SigValid)
				id := fmt.Sprintf("%s#vp-%d-%d", c19Holder, i, j)
				var v any
				mut := func(doc map[string]any) []byte {
					raw := jsonmut.Encode(doc)
					if en.Plan != nil {
						var ap c19x.Applied
						raw, ap = en.Plan.Apply(raw)
						oversize = oversize || ap.Oversize
						for _, cl := range ap.Classes() {
							x.Class("entry:" + cl)
						}
					}
					return raw
				}
				switch en.Kind {
				case "jwt", "jwt-nojti", "jwt-noiss", "jwt-novp":
					claims := c19VPClaims(now, id, []any{vcTok}, "")
					switch en.Kind {
					case "jwt-nojti":
						delete(claims, "jti")
					case "jwt-noiss":
						delete(claims, "iss")
					case "jwt-novp":
						delete(claims, "vp")
					}
					v = c19x.Compact(c19JWTHeader(c19HolderKid), mut(claims), en.Sig)
				case "ld", "ld-noid", "ld-noproof":
					if en.Kind == "ld-noid" {
						id = ""
					}
					v = mut(c19CULDPresentation(now, id, []any{vcTok}, en.Kind != "ld-noproof"))
				case "garbage-string":
					v = "not.a.jwt"
				case "number":
					v = 7
				case "null":
					v = nil
				default:
					v = map[string]any{"foo": "bar"}
				}
				put(en.Key, v)
			}
			var body []byte
			switch s.Answer {
			case "404", "500":
				fmt.Sscan(s.Answer, &answer.status)
				body = []byte(`{"title":"failed","status":` + s.Answer + `,"detail":"x"}`)
			case "204":
				answer.status = 204
			case "drop":
				answer.status = 0
			default:
				answer.status = 200
				var sb strings.Builder
				sb.WriteString(`{"entries":{`)
				for n, k := range entryKeys {
					if n > 0 {
						sb.WriteString(",")
					}
					kb, _ := json.Marshal(k)
					sb.Write(kb)
					sb.WriteString(":")
					sb.Write(entries[k])
				}
				seedJSON, _ := json.Marshal(s.Seed)
				fmt.Fprintf(&sb, `},"seed":%s,"timestamp":%d}`, seedJSON, s.Timestamp)
				body = []byte(sb.String())
			}
			// (a second plan on top of an already enlarged body would compose two enlargements: only bodies of ordinary size)
			if s.Body != nil && len(body) > 0 && len(body) <= 16*1024 {
				var ap c19x.Applied
				body, ap = s.Body.Apply(body)
				oversize = oversize || ap.Oversize
				for _, cl := range ap.Classes() {
					x.Class("body:" + cl)
				}
			}
			answer.body = body
		})
		if oversize || len(answer.body) > c19x.MaxInput {
			x.Class("skipped:oversize")
			return
		}
		c19CUCurrent.Store(answer)
		calls := c19CUCalls.Load()
		before := c19CUDigest(x, e)
		var err error
		if !c19x.GuardAs(x, ":update", func() { err = u.update(context.Background()) }) {
			return
		}
		after := c19CUDigest(x, e)
		if c19CUCalls.Load() == calls {
			x.Fatalf("the updater did not call the server")
		}
		x.NonTrivial()
		outcome := "ok"
		if err != nil {
			msg := err.Error()
			switch {
			case strings.Contains(msg, "failed to get presentations"):
				outcome = "poll-failed"
				if strings.Contains(msg, "unmarshal") {
					outcome = "poll-failed:undecodable"
				} else if strings.Contains(msg, "non-OK") {
					outcome = "poll-failed:non-OK"
				}
				if before != after {
					x.Violate("discovery-client-state-changed-after-failed-poll", "step %d: update returned %v but the local copy changed\n before %s\n after  %s", i, err, before, after)
					return
				}
			case strings.Contains(msg, "wipe"):
				outcome = "wipe-failed"
			case strings.Contains(msg, "failed to store presentation"):
				outcome = "store-failed"
			default:
				outcome = "entry-rejected"
			}
		}
		changed := "unchanged"
		if before != after {
			changed = "changed"
		}
		x.Classf("update:%s:%s:answer=%s", outcome, changed, s.Answer)
		x.Classf("step%d:%s", i, outcome)
		// follow-up jobs over what was stored
		if !c19x.GuardAs(x, ":validate", func() { _ = rm.validate() }) {
			return
		}
		if !c19x.GuardAs(x, ":removeRevoked", func() { _ = rm.removeRevoked() }) {
			return
		}
		if !c19x.GuardAs(x, ":search", func() {
			res, _ := e.module.Search(c19Service, map[string]string{"credentialSubject.id": "*"})
			x.Classf("search-results=%d", min(len(res), 3))
			_, _, _, _ = e.module.store.get(c19Service, 0)
		}) {
			return
		}
	}
}

func TestVerif_C19_DiscoveryClientUpdate(t *testing.T) {
	h.Check(t, "C19", c19CUGen, c19CURun, h.PanicIsViolation(), h.Deadline(10*time.Second))
}

func TestVerifReplay_C19_DiscoveryClientUpdate(t *testing.T) {
	h.Replay(t, "C19", "TestVerif_C19_DiscoveryClientUpdate", c19CURun, h.PanicIsViolation(), h.Deadline(10*time.Second))
}
