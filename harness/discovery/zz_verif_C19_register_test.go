//go:build verif

package discovery

// C19 target: the public Discovery Service registration endpoint: Module.Register(serviceID, presentation) on a real SQL
// store with the REAL credential verifier behind it (a mocked verifier would skip the validation that protects the
// store), DID/key resolution stubbed to the fixed test key. Valid JWT presentations (incl. retractions) are mutated in
// their claims / embedded credential claims and re-signed, parsed the way the API layer does, and registered.
// Oracle: no panic / hang; a rejected registration leaves the stored presentations unchanged.

import (
	"context"
	"crypto"
	"encoding/json"
	"fmt"
	"io"
	"os"
	"path/filepath"
	"sync"
	"testing"
	"time"

	ssi "github.com/nuts-foundation/go-did"
	"github.com/nuts-foundation/go-did/did"
	"github.com/nuts-foundation/go-did/vc"
	"github.com/nuts-foundation/nuts-node/core"
	"github.com/nuts-foundation/nuts-node/jsonld"
	"github.com/nuts-foundation/nuts-node/storage"
	"github.com/nuts-foundation/nuts-node/vcr"
	"github.com/nuts-foundation/nuts-node/vcr/credential"
	"github.com/nuts-foundation/nuts-node/vcr/pe"
	"github.com/nuts-foundation/nuts-node/vcr/revocation"
	"github.com/nuts-foundation/nuts-node/vcr/trust"
	"github.com/nuts-foundation/nuts-node/vcr/verifier"
	"github.com/nuts-foundation/nuts-node/vdr/resolver"
	"github.com/sirupsen/logrus"
	"gorm.io/gorm"
	"pgregory.net/rapid"
	"verif.local/h"
	"verif.local/h/c19x"
	"verif.local/h/jsonmut"
)

func init() { logrus.SetOutput(io.Discard) }

const (
	c19Service   = "verif_c19_service"
	c19Holder    = "did:web:example.com:iam:holder"
	c19HolderKid = c19Holder + "#0"
	c19Issuer    = "did:web:example.com:iam:issuer"
	c19IssuerKid = c19Issuer + "#0"
)

type c19RegCase struct {
	Kind     string     `json:"kind"`    // register | retract | twice
	Plan     c19x.Plan  `json:"plan"`    // on the presentation claims
	VCPlan   *c19x.Plan `json:"vc,omitempty"`
	Sig      string     `json:"sig"`
	Service  string     `json:"service"` // known | unknown
	Existing bool       `json:"existing"` // a valid registration of the same holder exists already
}

func c19RegGen(t *rapid.T) c19RegCase {
	c := c19RegCase{
		Kind:     rapid.SampledFrom([]string{"register", "register", "register", "retract"}).Draw(t, "kind"),
		Plan:     c19x.GenPlan(t, []string{"iss", "sub", "aud", "exp", "nbf", "iat", "jti", "vp", "retract_jti", "type", "verifiableCredential", "holder", "@context", "id"}),
		Sig:      rapid.SampledFrom(c19x.SigModes).Draw(t, "sig"),
		Service:  rapid.SampledFrom([]string{"known", "known", "known", "known", "unknown"}).Draw(t, "service"),
		Existing: rapid.Bool().Draw(t, "existing"),
	}
	if rapid.IntRange(0, 2).Draw(t, "hasvc") == 0 {
		p := c19x.GenPlan(t, []string{"iss", "sub", "exp", "nbf", "jti", "vc", "type", "credentialSubject", "id", "@context", "authServerURL", "credentialStatus"})
		c.VCPlan = &p
	}
	return c
}

type c19VCR struct {
	vcr.VCR
	v verifier.Verifier
}

func (c c19VCR) Verifier() verifier.Verifier { return c.v }

type c19Keys struct{}

func (c19Keys) ResolveKeyByID(keyID string, _ *resolver.ResolveMetadata, _ resolver.RelationType) (crypto.PublicKey, error) {
	if keyID == "" {
		return nil, resolver.ErrKeyNotFound
	}
	return &c19x.ECKey().PublicKey, nil
}
func (c19Keys) ResolveKey(id did.DID, _ *time.Time, _ resolver.RelationType) (string, crypto.PublicKey, error) {
	return id.String() + "#0", &c19x.ECKey().PublicKey, nil
}

type c19DIDs struct{}

func (c19DIDs) Resolve(id did.DID, _ *resolver.ResolveMetadata) (*did.Document, *resolver.DocumentMetadata, error) {
	if id.Empty() {
		return nil, nil, resolver.ErrNotFound
	}
	return &did.Document{ID: id}, &resolver.DocumentMetadata{}, nil
}

type c19RevStore struct{}

func (c19RevStore) GetRevocations(ssi.URI) ([]*credential.Revocation, error) { return nil, verifier.ErrNotFound }
func (c19RevStore) StoreRevocation(credential.Revocation) error               { return nil }
func (c19RevStore) Close() error                                               { return nil }
func (c19RevStore) Diagnostics() []core.DiagnosticResult                       { return nil }

type c19RegEnv struct {
	db     *gorm.DB
	module *Module
	err    error
}

var (
	c19RegOnce sync.Once
	c19Reg     *c19RegEnv
)

func c19RegGetEnv(x *h.Ctx) *c19RegEnv {
	c19RegOnce.Do(func() {
		e := &c19RegEnv{}
		c19Reg = e
		defer func() {
			if r := recover(); r != nil {
				e.err = fmt.Errorf("building the process fixture: %v", r)
			}
		}()
		engine := storage.NewTestStorageEngine(x.TB)
		e.db = engine.GetSQLDatabase()
		ld := jsonld.NewJSONLDInstance()
		if err := ld.(core.Configurable).Configure(core.ServerConfig{Strictmode: true}); err != nil {
			panic(err)
		}
		dir, err := os.MkdirTemp(os.Getenv("VERIF_TMP"), "c19trust-")
		if err != nil {
			panic(err)
		}
		v := verifier.NewVerifier(c19RevStore{}, c19DIDs{}, c19Keys{}, ld, trust.NewConfig(filepath.Join(dir, "trust.yaml")), revocation.NewStatusList2021(e.db, nil, ""))
		def := ServiceDefinition{
			ID:         c19Service,
			DIDMethods: []string{"web"},
			Endpoint:   "https://example.com/discovery/" + c19Service,
			PresentationDefinition: pe.PresentationDefinition{
				Id: "pd",
				InputDescriptors: []*pe.InputDescriptor{{Id: "1", Constraints: &pe.Constraints{Fields: []pe.Field{
					{Path: []string{"$.issuer"}, Filter: &pe.Filter{Type: "string", Pattern: strPtr("did:web:example.com:iam:issuer")}},
					{Id: strPtr("auth_server_url"), Path: []string{"$.credentialSubject.authServerURL", "$.credentialSubject[0].authServerURL"}},
				}}}},
			},
			PresentationMaxValidity: int((24 * time.Hour).Seconds()),
		}
		defs := map[string]ServiceDefinition{c19Service: def}
		m := New(engine, c19VCR{v: v}, nil, c19DIDs{})
		m.config = DefaultConfig()
		m.allDefinitions = defs
		m.serverDefinitions = defs
		m.store, err = newSQLStore(e.db, defs)
		if err != nil {
			panic(err)
		}
		e.module = m
	})
	if c19Reg.err != nil {
		x.Fatalf("%v", c19Reg.err)
	}
	return c19Reg
}

func strPtr(s string) *string { return &s }

func c19JWTHeader(kid string) []byte {
	return []byte(fmt.Sprintf(`{"alg":"ES256","kid":%q,"typ":"JWT"}`, kid))
}

func c19VCClaims(now int64, n int) map[string]any {
	return map[string]any{"iss": c19Issuer, "sub": c19Holder, "nbf": json.Number(fmt.Sprint(now - 600)), "exp": json.Number(fmt.Sprint(now + 7*24*3600)), "jti": fmt.Sprintf("%s#vc-%d", c19Issuer, n),
		"vc": map[string]any{"@context": []any{"https://www.w3.org/2018/credentials/v1"}, "type": []any{"VerifiableCredential", "TestCredential"},
			"credentialSubject": map[string]any{"id": c19Holder, "authServerURL": "https://example.com/oauth2/holder", "person": map[string]any{"givenName": "A", "familyName": "B"}}}}
}

func c19VPClaims(now int64, jti string, creds []any, retract string) map[string]any {
	vp := map[string]any{"@context": []any{"https://www.w3.org/2018/credentials/v1"}, "type": []any{"VerifiablePresentation"}, "verifiableCredential": creds}
	m := map[string]any{"iss": c19Holder, "sub": c19Holder, "aud": []any{c19Service}, "jti": jti, "nbf": json.Number(fmt.Sprint(now - 60)), "iat": json.Number(fmt.Sprint(now - 60)),
		"exp": json.Number(fmt.Sprint(now + 3600)), "vp": vp}
	if retract != "" {
		vp["type"] = []any{"VerifiablePresentation", "RetractedVerifiablePresentation"}
		vp["verifiableCredential"] = []any{}
		m["retract_jti"] = retract
	}
	return m
}

func c19RegDigest(x *h.Ctx, db *gorm.DB) string {
	var rows []presentationRecord
	x.NoErr(db.Order("presentation_id").Find(&rows).Error, "read presentations")
	s := ""
	for _, r := range rows {
		s += fmt.Sprintf("%s|%s|%d|%v;", r.ServiceID, r.PresentationID, r.PresentationExpiration, r.Validated)
	}
	var nCred, nProp int64
	x.NoErr(db.Table("credential").Count(&nCred).Error, "count credentials")
	x.NoErr(db.Table("credential_prop").Count(&nProp).Error, "count credential props")
	return fmt.Sprintf("%s creds=%d props=%d", s, nCred, nProp)
}

func c19RegRun(x *h.Ctx, c c19RegCase) {
	var e *c19RegEnv
	now := time.Now().Unix()
	existingJTI := c19Holder + "#existing"
	c19x.Setup(x, "discovery fixture", func() {
		e = c19RegGetEnv(x)
		for _, tbl := range []string{"discovery_service", "discovery_presentation", "discovery_credential", "credential", "credential_prop"} {
			x.NoErr(e.db.Exec("DELETE FROM "+tbl).Error, "reset "+tbl)
		}
		x.NoErr(e.db.Save(&serviceRecord{ID: c19Service, Seed: "seed"}).Error, "service row")
		if c.Existing {
			vcTok := c19x.Compact(c19JWTHeader(c19IssuerKid), jsonmut.Encode(c19VCClaims(now, 0)), c19x.SigValid)
			vpTok := c19x.Compact(c19JWTHeader(c19HolderKid), jsonmut.Encode(c19VPClaims(now, existingJTI, []any{vcTok}, "")), c19x.SigValid)
			vp, err := vc.ParseVerifiablePresentation(vpTok)
			x.NoErr(err, "parse valid presentation")
			x.NoErr(e.module.Register(context.Background(), c19Service, *vp), "register the existing presentation")
		}
	})
	// the presentation under test
	vcClaims := jsonmut.Encode(c19VCClaims(now, 1))
	var ap c19x.Applied
	if c.VCPlan != nil {
		var vap c19x.Applied
		vcClaims, vap = c.VCPlan.Apply(vcClaims)
		ap.Oversize = vap.Oversize
		x.Class("embedded-credential-mutated")
	}
	vcTok := c19x.Compact(c19JWTHeader(c19IssuerKid), vcClaims, c19x.SigValid)
	if len(vcTok) > 16*1024 {
		// the presentation plan is applied on top of the embedded credential: two enlargements would compose (the harness
		// itself then spends seconds building the document)
		x.Class("skipped:oversize")
		return
	}
	retract := ""
	if c.Kind == "retract" {
		retract = existingJTI
	}
	claims, pap := c.Plan.Apply(jsonmut.Encode(c19VPClaims(now, c19Holder+"#new", []any{vcTok}, retract)))
	if ap.Oversize || pap.Oversize {
		x.Class("skipped:oversize")
		return
	}
	for _, cl := range pap.Classes() {
		x.Class(cl)
	}
	x.Class("kind=" + c.Kind)
	tok := c19x.Compact(c19JWTHeader(c19HolderKid), claims, c.Sig)
	service := c19Service
	if c.Service == "unknown" {
		service = "nope"
	}
	c19x.Guard(x, func() {
		// the API layer binds the request body (a JSON string or object) to vc.VerifiablePresentation
		body, _ := json.Marshal(tok)
		var vp vc.VerifiablePresentation
		if err := json.Unmarshal(body, &vp); err != nil {
			x.Class("parse:rejected")
			return
		}
		x.NonTrivial()
		x.Class("parse:ok")
		before := c19RegDigest(x, e.db)
		err := e.module.Register(context.Background(), service, vp)
		after := c19RegDigest(x, e.db)
		if err != nil {
			x.Class("register:rejected")
			if before != after {
				x.Violate("discovery-state-changed-after-reject", "Register returned %v but the store changed\n before %s\n after  %s", err, before, after)
			}
			return
		}
		x.Class("register:accepted")
		// what readers do afterwards
		_, _, _, _ = e.module.Get(context.Background(), service, 0)
		_, _ = e.module.Search(service, map[string]string{"credentialSubject.person.givenName": "A*"})
		_, _ = e.module.Search(service, map[string]string{"credentialSubject.id": c19Holder})
	})
}

func TestVerif_C19_DiscoveryRegister(t *testing.T) {
	h.Check(t, "C19", c19RegGen, c19RegRun, h.PanicIsViolation(), h.Deadline(10*time.Second))
}

func TestVerifReplay_C19_DiscoveryRegister(t *testing.T) {
	h.Replay(t, "C19", "TestVerif_C19_DiscoveryRegister", c19RegRun, h.PanicIsViolation(), h.Deadline(10*time.Second))
}
