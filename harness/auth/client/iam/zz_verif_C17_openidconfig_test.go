//go:build verif

package iam

// C17, consumer 9: the signed OpenID configuration (entity statement) a client publishes at its well-known endpoint —
// HTTPClient.OpenIDConfiguration -> jwt.Parse with HTTPClient.KeyProvider. Key source: the key the protected kid names in the
// resolved DID document (assertionMethod); the algorithm is derived from that key, never taken from the token. The `jwks`
// of an accepted statement is what jar.validate checks request-object signers against.
// The HTTP side is a stub doer (no TLS, no sockets) that returns the G-JOSE variant as response body; DID resolution is the
// honest one-document-per-DID fake under the real resolver.DIDKeyResolver.

import (
	"bytes"
	"context"
	"crypto"
	"fmt"
	"io"
	"net/http"
	"testing"
	"time"

	ssi "github.com/nuts-foundation/go-did"
	"github.com/nuts-foundation/go-did/did"
	"github.com/nuts-foundation/nuts-node/core"
	"github.com/nuts-foundation/nuts-node/vdr/resolver"
	"pgregory.net/rapid"
	"verif.local/h"
	"verif.local/h/jose"
)

type c17OICase struct {
	V jose.Variant `json:"v"`
	// Source is the state of the key source (DID resolution of the statement's kid): "" honest | resolver-fault (resolution
	// fails with Fault: HTTP status classes of the did.json endpoint as typed core.HttpError, time-outs, cancelled context,
	// connection errors, not found; wrapped 0..3 times). Absent in older replay files = honest.
	Source string     `json:"source,omitempty"`
	Fault  jose.Fault `json:"fault,omitempty"`
}

const (
	c17OIIssuer    = "https://example.com/oauth2/victim"
	c17OIVictimDID = "did:web:example.com:iam:victim"
)

func c17OIGen(t *rapid.T) c17OICase {
	c := c17OICase{V: jose.Gen(t, jose.GenOpts{Near: true, JWKMeta: true})}
	if rapid.IntRange(0, 9).Draw(t, "key-source") < 2 {
		c.Source = "resolver-fault"
		c.Fault = jose.GenFault(t, "fault")
	}
	return c
}

// c17OIHTTPError is the typed error the node's HTTP clients (did:web resolution included) return for a non-200 answer.
func c17OIHTTPError(status int) error {
	return core.TestResponseCode(http.StatusOK, &http.Response{StatusCode: status, Body: io.NopCloser(bytes.NewReader([]byte(`{"error":"verif"}`)))})
}

type c17OIDIDResolver struct {
	docs map[string]*did.Document
	fail error
}

func (r *c17OIDIDResolver) Resolve(id did.DID, _ *resolver.ResolveMetadata) (*did.Document, *resolver.DocumentMetadata, error) {
	if r.fail != nil {
		return nil, nil, r.fail
	}
	if d, ok := r.docs[id.String()]; ok {
		return d, &resolver.DocumentMetadata{}, nil
	}
	return nil, nil, resolver.ErrNotFound
}

// add registers key under kid in the document of the DID kid parses to; an existing document is never extended.
func (r *c17OIDIDResolver) add(kid string, key crypto.PublicKey, meta map[string]string) {
	id, err := did.ParseDIDURL(kid)
	if err != nil || id.DID.Empty() {
		return
	}
	if _, exists := r.docs[id.DID.String()]; exists {
		return
	}
	vm, err := did.NewVerificationMethod(*id, ssi.JsonWebKey2020, id.DID, key)
	if err != nil {
		return
	}
	for k, v := range meta {
		if k == "key_ops" {
			vm.PublicKeyJwk[k] = []interface{}{v}
		} else {
			vm.PublicKeyJwk[k] = v
		}
	}
	doc := &did.Document{ID: id.DID}
	doc.AddAssertionMethod(vm)
	r.docs[id.DID.String()] = doc
}

type c17OIKeyResolver struct {
	inner resolver.KeyResolver
	log   *[]string
}

func (r c17OIKeyResolver) ResolveKeyByID(keyID string, md *resolver.ResolveMetadata, rt resolver.RelationType) (crypto.PublicKey, error) {
	*r.log = append(*r.log, keyID)
	return r.inner.ResolveKeyByID(keyID, md, rt)
}

func (r c17OIKeyResolver) ResolveKey(id did.DID, at *time.Time, rt resolver.RelationType) (string, crypto.PublicKey, error) {
	return r.inner.ResolveKey(id, at, rt)
}

type c17OIDoer struct {
	body []byte
	urls []string
}

func (d *c17OIDoer) Do(req *http.Request) (*http.Response, error) {
	d.urls = append(d.urls, req.URL.String())
	return &http.Response{StatusCode: http.StatusOK, Status: "200 OK", Header: http.Header{"Content-Type": []string{"application/entity-statement+jwt"}},
		Body: io.NopCloser(bytes.NewReader(d.body)), Request: req}, nil
}

func c17OIRun(x *h.Ctx, c c17OICase) {
	keys := jose.Keys(c.V)
	now := time.Now().Unix()
	w := jose.World{
		KeyRef:     "kid",
		AlgFromKey: true, // the consumer derives the algorithm from the resolved key
		Allowed:    jose.NodeAllowed,
		Near:       c.V.Near,
		Kids: map[string]string{jose.Victim: c17OIVictimDID + "#0", jose.Attacker: jose.NearKid(c17OIVictimDID, "did:web:example.com:iam:attacker", "0", c.V.Near),
			"unknown": "did:web:example.com:iam:nobody#0"},
		Header: jose.Header{jose.Str("typ", "entity-statement+jwt")},
		Payload: []byte(fmt.Sprintf(`{"iss":%q,"sub":%q,"iat":%d,"exp":%d,"jwks":{"keys":[%s]},"metadata":{"openid_provider":{"issuer":%q}}}`,
			c17OIIssuer, c17OIIssuer, now-60, now+3600, keys[jose.Victim].JWK(false, jose.Str("kid", c17OIVictimDID+"#0")).JSON(), c17OIIssuer)),
	}
	b := jose.Build(w, c.V)
	var meta map[string]string
	if len(b.F.Sigs) == 1 {
		meta = b.F.Sigs[0].JWKExtra
	}
	dids := &c17OIDIDResolver{docs: map[string]*did.Document{}}
	dids.add(w.Kids[jose.Victim], keys[jose.Victim].Public(), meta)
	dids.add(w.Kids[jose.Attacker], keys[jose.Attacker].Public(), meta)
	source := c.Source
	if source != "resolver-fault" {
		source = ""
	} else {
		if !c.Fault.Is() {
			c.Fault = jose.Fault{Kind: "generic"}
		}
		dids.fail = c.Fault.Err("https://example.com/iam/victim/did.json", c17OIHTTPError, resolver.ErrNotFound)
	}
	var obs jose.Observation
	doer := &c17OIDoer{body: b.Token}
	client := HTTPClient{strictMode: false, httpClient: doer,
		keyResolver: c17OIKeyResolver{inner: resolver.DIDKeyResolver{Resolver: dids}, log: &obs.KidsAsked}}
	cfg, err := client.OpenIDConfiguration(context.Background(), c17OIIssuer)
	obs.Accepted = err == nil && cfg != nil
	if err != nil {
		obs.Err = err.Error()
	}
	if len(doer.urls) != 1 {
		x.Fatalf("expected one request for the well-known document, got %q", doer.urls)
	}
	if source != "" {
		// fail closed: while DID resolution cannot deliver the key the kid names, no statement is accepted
		label := source + ":" + c.Fault.Kind
		vd := jose.Truth(w, b.F)
		x.Classf("source:%s:accepted=%v", label, obs.Accepted)
		x.Classf("source-failure:%s:token-%s:key-asked=%v", source, map[bool]string{true: "must-reject-anyway", false: "otherwise-acceptable"}[vd.MustReject], len(obs.KidsAsked) > 0)
		x.Class("t:" + c.V.T)
		if b.F.Parses {
			x.NonTrivial()
		}
		if obs.Accepted {
			x.Violate("C17:openidconfig:accepted:key-source-"+label, "entity statement accepted although the key source was %q (fault %+v, template %s, token verdict %q); key ids asked: %q; token=%s",
				source, c.Fault, c.V.T, vd.Reason, obs.KidsAsked, b.Token)
		}
		return
	}
	x.Class("source:honest")
	fs, classes, nt := jose.Judge("openidconfig", w, c.V, b, obs)
	for _, f := range fs {
		x.Violate(f.Sig, "%s", f.Msg)
	}
	for _, cl := range classes {
		x.Class(cl)
	}
	if nt {
		x.NonTrivial()
	}
}

func TestVerif_C17_OpenIDConfig(t *testing.T) {
	h.Check(t, "C17", c17OIGen, c17OIRun, h.PanicIsViolation())
}
func TestVerifReplay_C17_OpenIDConfig(t *testing.T) {
	h.Replay(t, "C17", "TestVerif_C17_OpenIDConfig", c17OIRun, h.PanicIsViolation())
}
